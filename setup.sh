#!/bin/sh
# MANIFEST.setup_cmd — build the framework from files on disk only (offline).
set -e
cd "$(dirname "$0")"
export CARGO_NET_OFFLINE=true
python3 tools/translate.py --repo /repo || true
(cd lean && lake build FlacModel flacdrv)
# every property module, best effort (each check builds and reports its own module anyway)
(cd lean && lake build FlacModel.All) || true
[ -f harness/Cargo.lock ] || cp /repo/Cargo.lock harness/Cargo.lock
(cd harness && cargo build --offline --profile release && cargo build --offline --profile checked)
