/-
  Driver/Main.lean — line-protocol driver for the executable model (DESIGN Appendix A).

  stdin: one line per case:  `<case line>\t<implementation outcome line>`  (outcome may be empty)
  stdout: one line per case: `<model outcome> @@ <spec verdict>`
-/
import FlacModel.Model.StreamReader
import FlacModel.Spec.Rfc

open Flac

abbrev Fields := List (String × String)

def parseFields (line : String) : String × Fields :=
  match (line.splitOn " ").filter (· ≠ "") with
  | [] => ("", [])
  | op :: rest =>
    (op, rest.map fun kv =>
      match kv.splitOn "=" with
      | [k] => (k, "")
      | k :: v => (k, "=".intercalate v)
      | [] => ("", ""))

def Fields.get (f : Fields) (k : String) : String := ((f.find? (·.1 == k)).map (·.2)).getD ""

def parseInts (s : String) : List Int :=
  if s == "" || s == "-" then [] else (s.splitOn ",").filterMap String.toInt?

def parseNats (s : String) : List Nat :=
  if s == "" || s == "-" then [] else (s.splitOn ",").filterMap String.toNat?

def joinInts (xs : List Int) : String :=
  if xs.isEmpty then "-" else ",".intercalate (xs.map toString)

def profileOf (s : String) : Profile := if s == "debug" then .debug else .release

def failStr : Fail → String
  | .err c => "err " ++ c
  | .eof => "err Io(UnexpectedEof)"
  | .panic s => "panic " ++ s

def frameStr (d : Decoded) : String :=
  s!"F/{d.hdr.rate}/{d.hdr.assign.count}/{d.hdr.bps}/{joinInts (interleave d.channels)}"

def seqStr (rs : List ReadResult) (limit : Nat) : String :=
  let items := rs.map fun r => match r with
    | .frame d => frameStr d
    | .fail (.err c) => "E/" ++ c
    | .fail .eof => "E/Io(UnexpectedEof)"
    | .fail (.panic s) => "P/" ++ s
  let items := if rs.length ≥ limit then items ++ ["L"] else items
  s!"n={items.length} seq={";".intercalate items}"

/-- `streamread` / `streamrw`: same rendering as the harness -/
def streamOutcome (bytes : List Nat) (limit : Nat) (profile : Profile) : String :=
  let rs := streamReadAll profile limit bytes
  match rs.findSome? fun r => match r with | .fail (.panic s) => some s | _ => none with
  | some s => "panic " ++ s
  | none => seqStr rs limit

def opStreamread (f : Fields) (profile : Profile) : String :=
  match hexToBytes (f.get "bytes") with
  | none => "model-error bad-hex"
  | some bytes => "ok " ++ streamOutcome bytes (((f.get "limit").toNat?).getD 100000) profile

/-- the model reads the stream the implementation produced (field `stream=` of its outcome) -/
def opStreamrw (f : Fields) (impl : Fields) (implHead : String) (profile : Profile) : String :=
  if implHead != "ok" then "model-skip" else
  match hexToBytes (impl.get "stream") with
  | none => "model-error bad-hex"
  | some bytes =>
    let out := streamOutcome bytes (((f.get "limit").toNat?).getD 100000) profile
    if out.startsWith "panic" then out
    else s!"ok stream={impl.get "stream"} offs={impl.get "offs"} lens={impl.get "lens"} {out}"

def deinterleave (ch : Nat) (xs : List Int) : List (List Int) :=
  (List.range ch).map fun c => (List.range (xs.length / ch)).map fun i => xs.getD (i * ch + c) 0

/-- L0 verdict on one frame the real encoder produced: strict RFC decode must succeed, consume
    exactly the frame, carry the declared parameters and reproduce the input PCM -/
def specCheckFrame (bytes : List Nat) (rate ch bps : Nat) (number : Option Nat) (pcm : List Int) : String :=
  match Spec.specDecode none bytes with
  | .error e => s!"FAIL spec-rejects-encoder-output {failStr e}"
  | .ok d =>
    if d.used != bytes.length then s!"FAIL spec-frame-extent used={d.used} len={bytes.length}"
    else if d.frame.hdr.rate != rate then s!"FAIL spec-rate {d.frame.hdr.rate}"
    else if d.frame.hdr.bps != bps then s!"FAIL spec-bps {d.frame.hdr.bps}"
    else if d.frame.hdr.assign.count != ch then s!"FAIL spec-channels {d.frame.hdr.assign.count}"
    else if d.frame.hdr.blocking then "FAIL spec-blocking-strategy variable"
    else if (match number with | some n => d.frame.hdr.number != n | none => false) then s!"FAIL spec-frame-number {d.frame.hdr.number}"
    else if d.channels != deinterleave ch pcm then "FAIL spec-pcm-differs"
    else "ok"

def opEncframe (f : Fields) (impl : Fields) (implHead : String) (profile : Profile) : String :=
  if implHead != "ok" then "model-skip @@ -" else
  match hexToBytes (impl.get "bytes") with
  | none => "model-error bad-hex @@ -"
  | some bytes =>
    let pcm := parseInts (f.get "pcm")
    let ch := ((f.get "ch").toNat?).getD 1
    let verdict := specCheckFrame bytes (((f.get "rate").toNat?).getD 44100) ch (((f.get "bps").toNat?).getD 16)
                     (some (((f.get "n").toNat?).getD 0)) pcm
    -- the crate-decoder model on the same bytes (ties Model/Decode to the spec on real output)
    let m := match decodeFrame profile none bytes with
      | .ok d => s!"ok dec={joinInts (interleave d.channels)}"
      | .error e => failStr e
    s!"{m} @@ {verdict}"

def runCase (line : String) : String :=
  let parts := line.splitOn "\t"
  let caseLine := parts.headD ""
  let (implHead, impl) := parseFields ((parts.drop 1).headD "")
  let (op, f) := parseFields caseLine
  let profile := profileOf (f.get "profile")
  match op with
  | "streamread" => opStreamread f profile ++ " @@ -"
  | "streamrw" => opStreamrw f impl implHead profile ++ " @@ -"
  | "encframe" => opEncframe f impl implHead profile
  | _ => "model-skip @@ -"

partial def loop (h : IO.FS.Stream) (out : IO.FS.Stream) : IO Unit := do
  let line ← h.getLine
  if line.isEmpty then return ()
  let l := String.ofList (line.toList.reverse.dropWhile (fun c => c == '\n' || c == '\r')).reverse
  if l.isEmpty || l.startsWith "#" then out.putStrLn l else out.putStrLn (runCase l)
  loop h out

def main : IO Unit := do
  let i ← IO.getStdin
  let o ← IO.getStdout
  loop i o
