/-
  Driver/Main.lean — line-protocol driver for the executable model (DESIGN Appendix A).

  stdin: one line per case:  `<case line>\t<implementation outcome line>`  (outcome may be empty)
  stdout: one line per case: `<model outcome> @@ <spec verdict>`
-/
import FlacModel.Model.StreamReader

open Flac

abbrev Fields := List (String × String)

def parseFields (line : String) : String × Fields :=
  match (line.splitOn " ").filter (· ≠ "") with
  | [] => ("", [])
  | op :: rest =>
    (op, rest.map fun kv =>
      match kv.splitOn "=" with
      | [k] => (k, "")
      | k :: v => (k, "=".intercalate v)
      | [] => ("", ""))

def Fields.get (f : Fields) (k : String) : String := ((f.find? (·.1 == k)).map (·.2)).getD ""

def parseInts (s : String) : List Int :=
  if s == "" || s == "-" then [] else (s.splitOn ",").filterMap String.toInt?

def parseNats (s : String) : List Nat :=
  if s == "" || s == "-" then [] else (s.splitOn ",").filterMap String.toNat?

def joinInts (xs : List Int) : String :=
  if xs.isEmpty then "-" else ",".intercalate (xs.map toString)

def profileOf (s : String) : Profile := if s == "debug" then .debug else .release

def failStr : Fail → String
  | .err c => "err " ++ c
  | .eof => "err Io(UnexpectedEof)"
  | .panic s => "panic " ++ s

def frameStr (d : Decoded) : String :=
  s!"F/{d.hdr.rate}/{d.hdr.assign.count}/{d.hdr.bps}/{joinInts (interleave d.channels)}"

def seqStr (rs : List ReadResult) (limit : Nat) : String :=
  let items := rs.map fun r => match r with
    | .frame d => frameStr d
    | .fail (.err c) => "E/" ++ c
    | .fail .eof => "E/Io(UnexpectedEof)"
    | .fail (.panic s) => "P/" ++ s
  let items := if rs.length ≥ limit then items ++ ["L"] else items
  s!"n={items.length} seq={";".intercalate items}"

/-- `streamread` / `streamrw`: same rendering as the harness -/
def streamOutcome (bytes : List Nat) (limit : Nat) (profile : Profile) : String :=
  let rs := streamReadAll profile limit bytes
  match rs.findSome? fun r => match r with | .fail (.panic s) => some s | _ => none with
  | some s => "panic " ++ s
  | none => seqStr rs limit

def opStreamread (f : Fields) (profile : Profile) : String :=
  match hexToBytes (f.get "bytes") with
  | none => "model-error bad-hex"
  | some bytes => "ok " ++ streamOutcome bytes (((f.get "limit").toNat?).getD 100000) profile

/-- the model reads the stream the implementation produced (field `stream=` of its outcome) -/
def opStreamrw (f : Fields) (impl : Fields) (implHead : String) (profile : Profile) : String :=
  if implHead != "ok" then "model-skip" else
  match hexToBytes (impl.get "stream") with
  | none => "model-error bad-hex"
  | some bytes =>
    let out := streamOutcome bytes (((f.get "limit").toNat?).getD 100000) profile
    if out.startsWith "panic" then out
    else s!"ok stream={impl.get "stream"} offs={impl.get "offs"} lens={impl.get "lens"} {out}"

def runCase (line : String) : String :=
  let parts := line.splitOn "\t"
  let caseLine := parts.headD ""
  let (implHead, impl) := parseFields ((parts.drop 1).headD "")
  let (op, f) := parseFields caseLine
  let profile := profileOf (f.get "profile")
  match op with
  | "streamread" => opStreamread f profile ++ " @@ -"
  | "streamrw" => opStreamrw f impl implHead profile ++ " @@ -"
  | _ => "model-skip @@ -"

partial def loop (h : IO.FS.Stream) (out : IO.FS.Stream) : IO Unit := do
  let line ← h.getLine
  if line.isEmpty then return ()
  let l := String.ofList (line.toList.reverse.dropWhile (fun c => c == '\n' || c == '\r')).reverse
  if l.isEmpty || l.startsWith "#" then out.putStrLn l else out.putStrLn (runCase l)
  loop h out

def main : IO Unit := do
  let i ← IO.getStdin
  let o ← IO.getStdout
  loop i o
