/-
  Driver/Main.lean — line-protocol driver for the executable model (DESIGN Appendix A).

  stdin: one line per case:  `<case line>\t<implementation outcome line>`  (outcome may be empty)
  stdout: one line per case: `<model outcome> @@ <spec verdict>`
-/
import FlacModel.Model.StreamReader
import FlacModel.Spec.Rfc
import FlacModel.Model.Readers
import FlacModel.Model.Writers
import FlacModel.Model.ByteFront
import FlacModel.Model.FixedPick
import FlacModel.Model.RateEnc
import FlacModel.Model.Wasted
import FlacModel.Model.Md5
import FlacModel.Model.Finalize
import Driver.Gen
import FlacModel.Model.FileDecode
import FlacModel.Model.Ctor
import FlacModel.Model.FrameWf
import FlacModel.Gen.Resid
import FlacModel.Gen.KernelsEnc
import Driver.Meta

open Flac

abbrev Fields := List (String × String)

def parseFields (line : String) : String × Fields :=
  match (line.splitOn " ").filter (· ≠ "") with
  | [] => ("", [])
  | op :: rest =>
    (op, rest.map fun kv =>
      match kv.splitOn "=" with
      | [k] => (k, "")
      | k :: v => (k, "=".intercalate v)
      | [] => ("", ""))

def Fields.get (f : Fields) (k : String) : String := ((f.find? (·.1 == k)).map (·.2)).getD ""

def parseInts (s : String) : List Int :=
  if s == "" || s == "-" then [] else (s.splitOn ",").filterMap String.toInt?

def parseNats (s : String) : List Nat :=
  if s == "" || s == "-" then [] else (s.splitOn ",").filterMap String.toNat?

def joinInts (xs : List Int) : String :=
  if xs.isEmpty then "-" else ",".intercalate (xs.map toString)

def profileOf (s : String) : Profile := if s == "debug" then .debug else .release

def failStr : Fail → String
  | .err c => "err " ++ c
  | .eof => "err Io(UnexpectedEof)"
  | .panic s => "panic " ++ s

def frameStr (d : Decoded) : String :=
  s!"F/{d.hdr.rate}/{d.hdr.assign.count}/{d.hdr.bps}/{joinInts (interleave d.channels)}"

def seqStr (rs : List ReadResult) (limit : Nat) : String :=
  let items := rs.map fun r => match r with
    | .frame d => frameStr d
    | .fail (.err c) => "E/" ++ c
    | .fail .eof => "E/Io(UnexpectedEof)"
    | .fail (.panic s) => "P/" ++ s
  let items := if rs.length ≥ limit then items ++ ["L"] else items
  s!"n={items.length} seq={";".intercalate items}"

/-- `streamread` / `streamrw`: same rendering as the harness -/
def streamOutcome (bytes : List Nat) (limit : Nat) (profile : Profile) : String :=
  let rs := streamReadAll profile limit bytes
  match rs.findSome? fun r => match r with | .fail (.panic s) => some s | _ => none with
  | some s => "panic " ++ s
  | none => seqStr rs limit

def opStreamread (f : Fields) (profile : Profile) : String :=
  match hexToBytes (f.get "bytes") with
  | none => "model-error bad-hex"
  | some bytes =>
    let o := streamOutcome bytes (((f.get "limit").toNat?).getD 100000) profile
    if o.startsWith "panic" then o else "ok " ++ o

/-- the model reads the stream the implementation produced (field `stream=` of its outcome) -/
def opStreamrw (f : Fields) (impl : Fields) (implHead : String) (profile : Profile) : String :=
  if implHead != "ok" then "model-skip" else
  match hexToBytes (impl.get "stream") with
  | none => "model-error bad-hex"
  | some bytes =>
    let out := streamOutcome bytes (((f.get "limit").toNat?).getD 100000) profile
    -- the writer's side (`Model/RateEnc.lean`, `C16.accepted_rate_self_describing`): the header's sample-rate code of every frame written,
    -- or a refusal, predicted from the rates the case asked for
    let nf := ((f.get "nf").toNat?).getD 0
    let codes := (List.range nf).map fun k => streamWriterRate ((((f.get s!"f{k}").splitOn ":").headD "").toNat?.getD 0)
    let pcmCount (t : String) : Nat := if t == "-" || t == "" then 0 else
      ((t.splitOn ",").map fun x => match x.splitOn "*" with | [_, n] => (n.toNat?).getD 1 | _ => 1).sum
    let scodes := (List.range nf).map fun k =>
      let parts := (f.get s!"f{k}").splitOn ":"
      let ch := ((parts.getD 1 "").toNat?).getD 1
      encBlockSizeCode (if ch == 0 then 0 else pcmCount (parts.getD 3 "") / ch)
    let bcodes := (List.range nf).map fun k => streamWriterBps (((((f.get s!"f{k}").splitOn ":").getD 2 "").toNat?).getD 0)
    if codes.any (·.isNone) then "err NonSubsetSampleRate" else
    if bcodes.any (·.isNone) then "err NonSubsetBitsPerSample" else
    if scodes.any (·.isNone) then "err InvalidBlockSize" else
    let rc := if impl.get "ratecodes" == "" then "" else
      " ratecodes=" ++ ",".intercalate (codes.map fun c => toString (c.getD 0)) ++ " bpscodes=" ++ ",".intercalate (bcodes.map fun c => toString (c.getD 0))
        ++ " bscodes=" ++ ",".intercalate (scodes.map fun c => toString (c.getD 0))
    if out.startsWith "panic" then out
    else s!"ok stream={impl.get "stream"} offs={impl.get "offs"} lens={impl.get "lens"}{rc} {out}"

/-- every frame FlacStreamWriter emitted (located by `offs`/`lens`) lies in the domain of `C16.written_frame_standalone`
    (`FrameWf none`, by the executable test) and is the serialization of its own parse -/
def streamWriterVerdict (impl : Fields) (implHead : String) : String :=
  if implHead != "ok" then "-" else
  match hexToBytes (impl.get "stream") with
  | none => "-"
  | some bytes =>
    let offs := parseNats (impl.get "offs")
    let lens := parseNats (impl.get "lens")
    if offs.isEmpty then "-" else
    let bad := (List.zip offs lens).find? fun (o, l) =>
      let piece := (bytes.drop o).take l
      match parseFrame decLayout true none piece with
      | .error _ => true
      | .ok pr => !(frameWfB none pr.frame) || pr.frame.serialize != piece || !pr.crc16ok
    match bad with
    | some (o, _) => s!"FAIL stream-writer-frame-outside-roundtrip-domain offset={o}"
    | none => "ok"

def deinterleave (ch : Nat) (xs : List Int) : List (List Int) :=
  (List.range ch).map fun c => (List.range (xs.length / ch)).map fun i => xs.getD (i * ch + c) 0

/-- L0 verdict on one frame the real encoder produced: strict RFC decode must succeed, consume
    exactly the frame, carry the declared parameters and reproduce the input PCM -/
def specCheckFrame (bytes : List Nat) (rate ch bps : Nat) (number : Option Nat) (pcm : List Int) : String :=
  match Spec.specDecode none bytes with
  | .error e => s!"FAIL spec-rejects-encoder-output {failStr e}"
  | .ok d =>
    if d.used != bytes.length then s!"FAIL spec-frame-extent used={d.used} len={bytes.length}"
    else if d.frame.hdr.rate != rate then s!"FAIL spec-rate {d.frame.hdr.rate}"
    else if d.frame.hdr.bps != bps then s!"FAIL spec-bps {d.frame.hdr.bps}"
    else if d.frame.hdr.assign.count != ch then s!"FAIL spec-channels {d.frame.hdr.assign.count}"
    else if d.frame.hdr.blocking then "FAIL spec-blocking-strategy variable"
    else if (match number with | some n => d.frame.hdr.number != n | none => false) then s!"FAIL spec-frame-number {d.frame.hdr.number}"
    else if d.channels != deinterleave ch pcm then "FAIL spec-pcm-differs"
    else "ok"

def opEncframe (f : Fields) (impl : Fields) (implHead : String) (profile : Profile) : String :=
  if implHead != "ok" then "model-skip @@ -" else
  match hexToBytes (impl.get "bytes") with
  | none => "model-error bad-hex @@ -"
  | some bytes =>
    let pcm := parseInts (f.get "pcm")
    let ch := ((f.get "ch").toNat?).getD 1
    let verdict := specCheckFrame bytes (((f.get "rate").toNat?).getD 44100) ch (((f.get "bps").toNat?).getD 16)
                     (some (((f.get "n").toNat?).getD 0)) pcm
    -- the emitted frame lies in the domain of the round-trip theorem `C01.frame_roundtrip` and is the serialization
    -- of its own parse (so the theorem speaks about exactly these bytes)
    let verdict := if verdict != "ok" then verdict else
      match parseFrame decLayout true none bytes with
      | .error e => s!"FAIL model-parser-rejects-encoder-output {failStr e}"
      | .ok pr =>
        if !frameWfB none pr.frame then "FAIL encoder-frame-outside-roundtrip-domain"
        else if pr.frame.serialize != bytes then "FAIL encoder-frame-not-its-own-serialization"
        else "ok"
    -- a block whose channels are constant: every subframe is CONSTANT, or FIXED/LPC over zero-width partitions only
    -- (the hypothesis of `C19.constant_block_small`), or - tiny blocks - VERBATIM within the same bound
    let chans := deinterleave ch pcm
    let constBlock := chans.all (fun c => c.all (· == c.headD 0)) && pcm.length ≥ 2 * ch
    let verdict := if verdict != "ok" || !constBlock then verdict else
      match parseFrame decLayout true none bytes with
      | .error _ => verdict
      | .ok pr =>
        let zeroRes (r : Residual) : Bool := r.parts.all (fun pt => match pt with | .zero _ => true | _ => false)
          && decide (r.parts.length ≤ Gen.encMaxPartitions)
        -- (a subframe that is small anyway - e.g. VERBATIM of a tiny block, or a channel of all-ones after 31 wasted bits -
        --  satisfies the clause without the theorem)
        let small (s : Subframe) (i : Nat) : Bool :=
          decide ((writeSubframe (subBps pr.frame.hdr.assign pr.frame.hdr.bps i) s).length ≤ 8 + 33 + 4 * 33 + 6 + Gen.encMaxPartitions * 10)
        let okSub (q : Subframe × Nat) : Bool := match q.1.body with
          | .constant _ => true
          | .verbatim _ => small q.1 q.2
          | .fixed _ _ r => zeroRes r || small q.1 q.2
          | .lpc _ _ _ _ _ r => zeroRes r || small q.1 q.2
        if (List.zip pr.frame.subs (List.range pr.frame.subs.length)).all okSub then "ok" else "FAIL constant-block-subframe-grows-with-length"
    -- a mono frame of equal non-zero samples written as a FIXED subframe is the output of `encode_fixed_subframe`: its order and residuals are compared with the
    -- ones `Model/FixedPick.lean` (`fixedPick`, the subject of `C19.constant_block_fixed_zero`) computes from the wasted-bit-shifted channel.
    -- This is model-vs-code correspondence, not a property verdict: a different (still lossless) choice is a disagreement, not a violation.
    let fixedpick : String := if ch != 1 then "ok" else
      match parseFrame decLayout true none bytes with
      | .error _ => "ok"
      | .ok pr =>
        match pr.frame.subs with
        | [sub] =>
          (match sub.body with
           | .fixed o _ r =>
             let vals := r.parts.flatMap fun pt => match pt with
               | .rice _ rs => rs | .escaped _ rs => rs | .zero n => List.replicate n 0
             let chan := pcm.map fun x => x / (2 : Int) ^ sub.wasted
             -- only on the domain of the theorem (a constant non-zero channel of at least two samples): elsewhere the choice among
             -- the FIXED orders is a heuristic that no property constrains
             if !(chan.length ≥ 2 && chan.all (· == chan.headD 0) && chan.headD 0 != 0) then "ok" else
             let pick := fixedPick chan
             if pick.1 == o && pick.2 == vals then "ok" else s!"order{o}-modelled{pick.1}"
           | _ => "ok")
        | _ => "ok"
    -- wasted bits (`Model/Wasted.lean`, the subject of `C01.wasted_shift_lossless`): for independently coded channels the number of wasted
    -- bits of every subframe is the one the regenerated fold determines from that channel (correspondence, not a verdict)
    let wastedpick : String :=
      match parseFrame decLayout true none bytes with
      | .error _ => "ok"
      | .ok pr =>
        match pr.frame.hdr.assign with
        | .indep _ =>
          let bad := (List.zip pr.frame.subs (deinterleave ch pcm)).find? fun (sub, chan) =>
            match encWasted chan with
            | .shift w => sub.wasted != w
            | .none => sub.wasted != 0
            | .allZero => sub.wasted != 0
          (match bad with
           | some (sub, chan) => s!"wasted{sub.wasted}-modelled" ++ (match encWasted chan with | .shift w => toString w | _ => "0")
           | none => "ok")
        | _ => "ok"
    -- the crate-decoder model on the same bytes (ties Model/Decode to the spec on real output)
    let m := match decodeFrame profile none bytes with
      | .ok d => s!"ok dec={joinInts (interleave d.channels)} fixedpick={fixedpick} wastedpick={wastedpick}"
      | .error e => failStr e
    s!"{m} @@ {verdict}"

/-! ### reader histories -/

def sinfoOf (si : Streaminfo) : SInfo := { rate := si.rate, channels := si.channels, bps := si.bps, maxBlock := si.maxBlock }

/-- decode every frame of a file (release arithmetic); `none` if some frame does not decode -/
def allFrames (si : SInfo) : Nat → List Nat → Nat → Option (List FrameInfo)
  | 0, _, _ => some []
  | fuel+1, bytes, off =>
    if bytes.isEmpty then some [] else
    match decodeFrame .release (some si) bytes with
    | .error _ => none
    | .ok d =>
      match allFrames si fuel (bytes.drop d.used) (off + d.used) with
      | none => none
      | some fs => some ({ off := off, chans := d.channels } :: fs)

def streamOfFile (bytes : List Nat) : Option Stream :=
  match parseFileHead bytes with
  | .error _ => none
  | .ok h =>
    match allFrames (sinfoOf h.si) (bytes.length + 1) (bytes.drop h.framesStart) 0 with
    | none => none
    | some frames => some { ch := h.si.channels, bps := h.si.bps, total := if h.si.total == 0 then none else some h.si.total,
                            frames := frames, table := h.seektable }

def errTag (e : Fail) : String :=
  match e with | .err c => c | .eof => "Io(UnexpectedEof)" | .panic s => "PANIC " ++ s

def hexOrDash (b : List Nat) : String := if b.isEmpty then "-" else bytesToHex b

def opArg (o : String) (k : Nat) : Int := ((String.ofList (o.toList.drop k)).toInt?).getD 0

partial def histByte (s : Stream) (be : Bool) (ops : List String) (r : Rd Nat) (avail : Nat) (acc : List String) : List String :=
  match ops with
  | [] => acc.reverse
  | o :: rest =>
    let enc := frameBytes s.bps be
    if o.startsWith "r" then
      match r.read s enc (opArg o 1).toNat with
      | .error e => histByte s be rest r 0 (("r:ERR:" ++ errTag e) :: acc)
      | .ok (d, r') => histByte s be rest r' 0 (("r:" ++ hexOrDash d) :: acc)
    else if o == "f" then
      match r.fill s enc with
      | .error e => histByte s be rest r avail (("f:ERR:" ++ errTag e) :: acc)
      | .ok (d, r') => histByte s be rest r' d.length (("f:" ++ hexOrDash d) :: acc)
    else if o.startsWith "c" then
      let k := min (opArg o 1).toNat avail
      histByte s be rest (r.consume k) (avail - k) (s!"c:{k}" :: acc)
    else if o.startsWith "s" then
      let w := match o.toList.getD 1 'S' with | 'S' => Whence.start | 'C' => Whence.current | _ => Whence.fromEnd
      match byteSeek s be r w (opArg o 2) with
      | (.error e, r') => histByte s be rest r' 0 (("s:ERR:" ++ errTag e) :: acc)
      | (.ok p, r') => histByte s be rest r' 0 (s!"s:ok:{p}" :: acc)
    else histByte s be rest r avail acc

partial def histSample (s : Stream) (ops : List String) (r : Rd Int) (avail : Nat) (acc : List String) : List String :=
  match ops with
  | [] => acc.reverse
  | o :: rest =>
    if o.startsWith "r" then
      match r.read s frameSamples (opArg o 1).toNat with
      | .error e => histSample s rest r 0 (("r:ERR:" ++ errTag e) :: acc)
      | .ok (d, r') => histSample s rest r' 0 (("r:" ++ joinInts d) :: acc)
    else if o == "f" then
      match r.fill s frameSamples with
      | .error e => histSample s rest r avail (("f:ERR:" ++ errTag e) :: acc)
      | .ok (d, r') => histSample s rest r' d.length (("f:" ++ joinInts d) :: acc)
    else if o.startsWith "c" then
      let k := min (opArg o 1).toNat avail
      histSample s rest (r.consume k) (avail - k) (s!"c:{k}" :: acc)
    else if o.startsWith "ss" then
      match sampleSeek s (opArg o 2).toNat with
      | (.error e, r') => histSample s rest r' 0 (("s:ERR:" ++ errTag e) :: acc)
      | (.ok (), r') => histSample s rest r' 0 ("s:ok" :: acc)
    else if o == "x" then
      match r.read s frameSamples 1 with
      | .error e => histSample s rest r 0 (("x:ERR:" ++ errTag e) :: acc)
      | .ok ([], r') => histSample s rest r' 0 ("x:-" :: acc)
      | .ok (d, r') => histSample s rest r' 0 (("x:" ++ joinInts d) :: acc)
    else histSample s rest r avail acc

partial def histChan (s : Stream) (ops : List String) (r : ChanRd) (avail : Nat) (acc : List String) : List String :=
  match ops with
  | [] => acc.reverse
  | o :: rest =>
    if o == "f" then
      match r.fill s with
      | .error e => histChan s rest r avail (("f:ERR:" ++ errTag e) :: acc)
      | .ok (d, r') => histChan s rest r' (d.headD []).length (("f:" ++ "|".intercalate (d.map joinInts)) :: acc)
    else if o.startsWith "c" then
      let k := min (opArg o 1).toNat avail
      histChan s rest (r.consume k) (avail - k) (s!"c:{k}" :: acc)
    else if o.startsWith "ss" then
      match ChanRd.seek s (opArg o 2).toNat with
      | (some e, r') => histChan s rest r' 0 (("s:ERR:" ++ errTag e) :: acc)
      | (none, r') => histChan s rest r' 0 ("s:ok" :: acc)
    else histChan s rest r avail acc

def opHist (f : Fields) : String :=
  match hexToBytes (f.get "bytes") with
  | none => "model-error bad-hex"
  | some bytes =>
    match streamOfFile bytes with
    | none => "model-skip"
    | some s =>
      let ops := ((f.get "ops").splitOn ";").filter (· ≠ "")
      let d0 : Dec := { rest := s.frames, cur := 0 }
      let tr := match f.get "reader" with
        | "byte" => histByte s (f.get "endian" == "be") ops { dec := d0, buf := [] } 0 []
        | "sample" => histSample s ops { dec := d0, buf := [] } 0 []
        | "iter" => histSample s ops { dec := d0, buf := [] } 0 []
        | _ => histChan s ops { dec := d0, frame := [], consumed := 0 } 0 []
      s!"ok trace={if tr.isEmpty then "-" else ";".intercalate tr}"

/-! ### writer histories -/

/-- split `xs` into the write calls the harness makes: `chunks` sizes, then the rest (if any) -/
def splitCalls (xs : List α) : List Nat → List (List α)
  | [] => if xs.isEmpty then [] else [xs]
  | c :: cs => xs.take c :: splitCalls (xs.drop c) cs

/-- the PCM of a `wr` case: the `pcm` list, or `pcmgen=const:<n>:<v>` = n interleaved samples of value v -/
def wrPcm (f : Fields) : List Int :=
  match (f.get "pcmgen").splitOn ":" with
  | ["const", n, v] => List.replicate ((n.toNat?).getD 0) ((v.toInt?).getD 0)
  | _ => parseInts (f.get "pcm")

def opWr (f : Fields) (implHead : String) : String :=
  if implHead != "ok" then "model-skip" else
  let pcm := wrPcm f
  let ch := ((f.get "ch").toNat?).getD 1
  let bps := ((f.get "bps").toNat?).getD 16
  let bs := ((f.get "bs").toNat?).getD 4096
  let chunks := parseNats (f.get "chunks")
  let be := f.get "endian" == "be"
  let n := bytesPerSample bps
  -- the byte front-end's blocks of raw bytes (`Model/ByteFront.lean`)
  let rawBlocks : List (List Nat) :=
    let raw := pcm.flatMap (sampleBytes n be)
    ((splitCalls raw chunks).foldl (Wr.write (n * ch * bs)) Wr.init).finalize (n * ch)
  -- blocks as interleaved sample lists
  let blocks : List (List Int) :=
    match f.get "fe" with
    | "byte" => rawBlocks.map (byteFrontSamples n be)
    | "chan" =>
      let frames := chunkN ch pcm.length (pcm.take (pcm.length - pcm.length % ch))
      let w := (splitCalls frames chunks).foldl (Wr.write bs) Wr.init
      (w.finalize 1).map List.flatten
    | _ =>
      let w := (splitCalls pcm chunks).foldl (Wr.write (ch * bs)) Wr.init
      w.finalize ch
  let lens := blocks.map fun b => b.length / ch
  let md5 := Md5.md5 (if f.get "fe" == "byte" then rawBlocks.flatMap (byteFrontMd5Input n be) else blocks.flatten.flatMap (sampleBytes n false))
  s!"ok lens={if lens.isEmpty then "-" else ",".intercalate (lens.map toString)} total={lens.sum} md5={bytesToHex md5}"

def seekPtStr : SeekPt → String
  | .defined s b l => s!"{s}:{b}:{l}"
  | .placeholder => "P"

def intervalOf (s : String) : Option Interval :=
  if s == "off" then none
  else if s.startsWith "frames:" then (((s.drop 7).toString.toNat?).bind fun n => if n == 0 then none else some (.frames n))
  else if s.startsWith "secs:" then (((s.drop 5).toString.toNat?).bind fun n => if n == 0 then none else some (.seconds n))
  else some (.seconds 10)

/-- what STREAMINFO / SEEKTABLE / PADDING must look like after finalize, predicted by the
    bookkeeping model from the frame lengths and byte sizes observed in the finished file -/
def opWrFinalize (f : Fields) (impl : Fields) : String :=
  match hexToBytes (impl.get "file") with
  | none => ""
  | some file =>
    match parseFileHead file with
    | .error _ => ""
    | .ok h =>
      match allFrames (sinfoOf h.si) (file.length + 1) (file.drop h.framesStart) 0 with
      | none => ""
      | some frames =>
        let offs := frames.map (·.off)
        let ends := offs.drop 1 ++ [file.length - h.framesStart]
        let sizes := List.zipWith (fun a b => b - a) offs ends
        let rec_ := (List.zip (frames.map (·.len)) sizes).foldl (fun r p => r.encode p.1 p.2) Recorder.init
        let bs := ((f.get "bs").toNat?).getD 4096
        let rate := ((f.get "rate").toNat?).getD 44100
        let ch := ((f.get "ch").toNat?).getD 1
        let bps := ((f.get "bps").toNat?).getD 16
        let iv := intervalOf (if f.get "seek" == "" then "default" else f.get "seek")
        let unit := match f.get "fe" with | "byte" => ch * bytesPerSample bps | "chan" => 1 | _ => ch
        let declared : Option Nat := ((f.get "total").toNat?).map (· / unit)
        let tablePoints : Option Nat :=
          match declared, iv with
          | some t, some iv => some (min maxPoints (iv.filter rate (placeholders t bs (t + 1) 0)).length)
          | _, _ => none
        let padding : Option Nat :=
          match (f.get "pad").toNat? with
          | none => some 4096
          | some 0 => none
          | some p => some p
        let (table, pad') := finalizeLayout iv rate rec_.points tablePoints padding
        let tstr := match table with
          | none => "none"
          | some [] => "empty"
          | some t => ",".intercalate (t.map seekPtStr)
        let pstr := match pad' with | none => "-" | some p => toString p
        s!" si_minbs={bs} si_maxbs={bs} si_minfs={rec_.minFrame} si_maxfs={rec_.maxFrame} seektable={tstr} pads={pstr} metalen={4 + 38 + layoutBytes table pad'}"

/-- L0 walk of a finished file against its own header (C09 / C02 file level) -/
def specCheckFile (file : List Nat) (pcm : List Int) (ch : Nat) : String :=
  match parseFileHead file with
  | .error e => s!"FAIL file-head {failStr e}"
  | .ok h =>
    let si := sinfoOf h.si
    let rec walk (fuel : Nat) (bytes : List Nat) (off idx : Nat) (acc : List (Nat × Nat × Nat × List (List Int))) : Except String (List (Nat × Nat × Nat × List (List Int))) :=
      match fuel with
      | 0 => .ok acc.reverse
      | fuel+1 =>
        if bytes.isEmpty then .ok acc.reverse else
        match Spec.specDecode (some si) bytes with
        | .error e => .error s!"spec-rejects-frame-{idx} {failStr e}"
        | .ok d =>
          if d.frame.hdr.blocking then .error "variable-blocking-strategy"
          else if d.frame.hdr.number != idx then .error s!"frame-number {d.frame.hdr.number} at index {idx}"
          else walk fuel (bytes.drop d.used) (off + d.used) (idx + 1) ((off, d.used, d.frame.hdr.blockSize, d.channels) :: acc)
    match walk (file.length + 1) (file.drop h.framesStart) 0 0 [] with
    | .error e => "FAIL " ++ e
    | .ok frames =>
      let lens := frames.map (·.2.2.1)
      let sizes := frames.map (·.2.1)
      let total := lens.sum
      let nonfinal := lens.dropLast
      let allPcm := interleave ((List.range ch).map fun c => frames.flatMap fun fr => fr.2.2.2.getD c [])
      let okSizes := sizes.filter (fun s => 0 < s && s < maxFrameSize)
      let firsts := (lens.foldl (fun (acc : List Nat × Nat) l => (acc.1 ++ [acc.2], acc.2 + l)) ([], 0)).1
      let triples := List.zip firsts (List.zip (frames.map (·.1)) lens)
      let defined := (h.seektable.getD []).filterMap fun p => match p with | .defined s b l => some (s, b, l) | .placeholder => none
      let afterFirstPlaceholder := ((h.seektable.getD []).dropWhile fun p => p != .placeholder)
      if h.si.total != total then s!"FAIL streaminfo-total {h.si.total} vs {total}"
      else if h.si.channels != ch then "FAIL streaminfo-channels"
      else if nonfinal.any (· != h.si.maxBlock) then "FAIL nonfinal-block-size"
      else if lens.any (· > h.si.maxBlock) then "FAIL block-exceeds-streaminfo"
      else if h.si.minBlock != h.si.maxBlock then "FAIL streaminfo-min-max-block"
      else if allPcm != pcm.take (pcm.length - pcm.length % ch) then "FAIL pcm-differs"
      else if h.si.md5 != Md5.md5 (allPcm.flatMap (sampleBytes (bytesPerSample h.si.bps) false)) then "FAIL streaminfo-md5"
      else if h.si.minFrame != (okSizes.foldl min (okSizes.headD 0)) then s!"FAIL streaminfo-min-frame-size {h.si.minFrame}"
      else if h.si.maxFrame != (okSizes.foldl max 0) then s!"FAIL streaminfo-max-frame-size {h.si.maxFrame}"
      else if defined.any (fun p => !(triples.any fun t => t.1 == p.1 && t.2.1 == p.2.1 && t.2.2 == p.2.2)) then "FAIL seekpoint-not-a-frame"
      else if !(defined.zip (defined.drop 1)).all (fun pq => pq.1.1 < pq.2.1) then "FAIL seekpoints-not-ascending"
      else if afterFirstPlaceholder.any (· != .placeholder) then "FAIL placeholder-before-defined"
      else "ok"

/-! ### whole files through the readers -/

def md5Field (m : List Nat) : String := if m.all (· == 0) then "none" else bytesToHex m

def opDecfile (f : Fields) (profile : Profile) : String :=
  match hexToBytes (f.get "bytes") with
  | none => "model-error bad-hex"
  | some bytes =>
    match fileDecode profile bytes with
    | .error e => failStr e ++ " stage=open"
    | .ok run =>
      match run.stop with
      | some (.panic s) => "panic " ++ s
      | stop =>
        let si := run.head.si
        let pcm := run.frames.flatMap interleave
        let metaStr := s!"rate={si.rate} ch={si.channels} bps={si.bps} total={if si.total == 0 then "none" else toString si.total} md5={md5Field si.md5}"
        let reader := f.get "reader"
        let be := f.get "endian" == "be"
        let payload := if reader == "byte" then s!"bytes={bytesToHex (pcm.flatMap (sampleBytes (bytesPerSample si.bps) be))}" else s!"pcm={joinInts pcm}"
        if reader == "verify" then
          match stop with
          | some e => failStr e
          | none =>
            if si.md5.all (· == 0) then "ok verified=NoMD5"
            else if Md5.md5 (pcm.flatMap (sampleBytes (bytesPerSample si.bps) false)) == si.md5 then "ok verified=MD5Match"
            else "ok verified=MD5Mismatch"
        else
          match stop with
          | none => s!"ok {metaStr} {payload}"
          | some e => s!"{failStr e} {metaStr} {payload}"

/-- L0 verdict on a whole (possibly damaged) file: accepted iff every frame up to the declared
    total (or to the end of the data when the total is unknown) is accepted by the strict decoder,
    no frame overshoots the total, and only the last frame is shorter than 16 samples -/
def specFileDecode (bytes : List Nat) : Option (List Int) :=
  match parseFileHead bytes with
  | .error _ => none
  | .ok h =>
    let si := sinfoOf h.si
    let rec walk (fuel : Nat) (rest : List Nat) (cur : Nat) (acc : List (List (List Int))) (lastLen : Nat) : Option (List (List (List Int))) :=
      match fuel with
      | 0 => none
      | fuel+1 =>
        if h.si.total != 0 && cur == h.si.total then some acc.reverse
        else if rest.isEmpty then (if h.si.total == 0 then some acc.reverse else none)
        else if lastLen != 0 && lastLen < 16 then none        -- a short block that was not the last
        else
          match Spec.specDecode (some si) rest with
          | .error _ => none
          | .ok d =>
            if h.si.total != 0 && cur + d.frame.hdr.blockSize > h.si.total then none
            else walk fuel (rest.drop d.used) (cur + d.frame.hdr.blockSize) (d.channels :: acc) d.frame.hdr.blockSize
    (walk (bytes.length + 2) (bytes.drop h.framesStart) 0 [] 0).map fun frames => frames.flatMap interleave

def specSlotDecfile (f : Fields) (impl : Fields) (implHead : String) : String :=
  if f.get "kind" != "mut" || implHead != "ok" || (f.get "mut").startsWith "flipfix" then "-" else
  match hexToBytes (f.get "bytes") with
  | none => "-"
  | some bytes =>
    let implPcm := parseInts (impl.get "pcm")
    match specFileDecode bytes with
    | none => "FAIL silently-decoded-damaged-stream the implementation decoded a stream the strict RFC decoder rejects"
    | some pcm => if pcm == implPcm then "ok" else "FAIL damaged-stream-decoded-differently"

/-! ### structural parser vs streaming decoder (C17) -/

def minBytes (v : Nat) : Nat :=
  if v < 2 ^ 7 then 1 else if v < 2 ^ 11 then 2 else if v < 2 ^ 16 then 3 else if v < 2 ^ 21 then 4
  else if v < 2 ^ 26 then 5 else if v < 2 ^ 31 then 6 else 7

def opStructcmp (f : Fields) (profile : Profile) : String :=
  match hexToBytes (f.get "bytes") with
  | none => "model-error bad-hex"
  | some bytes =>
    let si : Option SInfo :=
      match parseNats (f.get "si") with
      | [r, c, b, m] => some { rate := r, channels := c, bps := b, maxBlock := m }
      | _ => none
    let decS := match decodeFrame profile si bytes with
      | .ok d => s!"dec=ok decpcm={joinInts (interleave d.channels)}"
      | .error (.panic s) => "dec=PANIC:" ++ s
      | .error e => "dec=err:" ++ errTag e
    match parseFrame structLayout false si bytes with
    | .error e => s!"ok struct=err:{errTag e} {decS}"
    | .ok p =>
      if !p.crc16ok then s!"ok struct=err:Crc16Mismatch {decS}" else
      let fr := p.frame
      let bs := fr.hdr.blockSize
      let subs : List (Res (List Int)) := (List.zip fr.subs (List.range fr.subs.length)).map fun (sb, i) =>
        decodeSub profile (subWidth fr.hdr.assign fr.hdr.bps i) bs sb
      match subs.findSome? fun r => match r with | .error (.panic s) => some s | _ => none with
      | some s => "panic " ++ s
      | none =>
        let exps : List (List Int) := subs.map fun r => match r with | .ok xs => xs | .error _ => []
        let lensOk := exps.all fun xs => xs.length == bs
        let canon : Frame := { fr with hdr := { fr.hdr with numberBytes := minBytes fr.hdr.number, reserved2 := false },
                                        padding := fr.padding.map fun _ => false }
        let chans := match recorrelate .release fr.hdr.assign fr.hdr.bps exps with | .ok c => c | .error _ => []
        let n := (chans.map List.length).foldl min (chans.headD []).length
        let inter := interleave (chans.map fun c => c.take n)
        s!"ok struct=ok used={p.used} bs={bs} nsub={fr.subs.length} lens={",".intercalate (exps.map fun xs => toString xs.length)} lens_ok={lensOk} rewritten={bytesToHex canon.serialize} spcm={joinInts inter} {decS}"

/-! ### crash prefixes (C14) -/

def opCrash (f : Fields) (impl : Fields) (implHead : String) (profile : Profile) : String :=
  if implHead != "ok" then "model-skip" else
  match hexToBytes (impl.get "s") with
  | none => "model-error bad-hex"
  | some sbytes =>
    let pcm := parseInts (f.get "pcm")
    let ch := ((f.get "ch").toNat?).getD 1
    let cuts := ((impl.get "cutres").splitOn ",").filterMap fun it => ((it.splitOn ":").headD "").toNat?
    let items := cuts.map fun cut =>
      match fileDecode profile (sbytes.take cut) with
      | .error _ => s!"{cut}:0:openerr:1"
      | .ok run =>
        let d := run.frames.flatMap interleave
        let m := d.length ≤ pcm.length && d == pcm.take d.length
        let st := match run.stop with | none => "ok" | some (.panic _) => "PANIC" | some _ => "err"
        s!"{cut}:{d.length / ch}:{st}:{if m then 1 else 0}"
    s!"ok cutres={if items.isEmpty then "-" else ",".intercalate items}"

/-! ### constructors and the declared-length contract (C15) -/

def opCtor (f : Fields) : String :=
  let fe := match f.get "fe" with | "byte" => FrontEnd.byte | "chan" => FrontEnd.chan | _ => FrontEnd.sample
  let nat (k : String) (d : Nat) : Nat := ((f.get k).toNat?).getD d
  let a : CtorArgs := { fe, rate := nat "rate" 44100, bps := nat "bps" 16, channels := nat "ch" 1,
                        total := (f.get "total").toNat?, blockSize := nat "bs" 4096,
                        maxLpc := if f.get "lpc" == "" then some 8 else if f.get "lpc" == "none" then none else (f.get "lpc").toNat?,
                        maxPo := nat "po" 5 }
  if f.get "fe" == "stream" then "model-skip" else
  match optionsOk a with
  | .error e => failStr e ++ " stage=options"
  | .ok () =>
    match ctor a with
    | .error (.panic s) => "panic " ++ s
    | .error e => failStr e ++ " stage=new"
    | .ok declared =>
      let fill := nat "fill" 0
      let calls := max (nat "calls" 1) 1
      -- blocks handed to the encoder: full blocks during the write calls, the rest at finalize
      let bs := a.blockSize
      let blocks := List.replicate (fill / bs) bs ++ (if fill % bs == 0 then [] else [fill % bs])
      let _ := calls
      match lengthRun declared 0 blocks with
      | .error e => failStr e
      | .ok n => s!"ok stage=done rate={a.rate} ch={a.channels} bps={a.bps} total={n} roundtrip=true"

def runCase (line : String) : String :=
  let parts := line.splitOn "\t"
  let caseLine := parts.headD ""
  let (implHead, impl) := parseFields ((parts.drop 1).headD "")
  let (op, f) := parseFields caseLine
  let profile := profileOf (f.get "profile")
  match op with
  | "streamread" => opStreamread f profile ++ " @@ -"
  | "streamrw" => opStreamrw f impl implHead profile ++ " @@ " ++ streamWriterVerdict impl implHead
  | "encframe" => opEncframe f impl implHead profile
  | "hist" => opHist f ++ " @@ -"
  | "structcmp" => opStructcmp f profile ++ " @@ -"
  | "crash" => opCrash f impl implHead profile ++ " @@ -"
  | "ctor" => opCtor f ++ " @@ -"
  | "blocksw" => MetaDrv.opBlocksw f.get profile ++ " @@ -"
  | "blocksr" => MetaDrv.opBlocksr f.get ++ " @@ -"
  | "cuetext" => MetaDrv.opCuetext f.get profile ++ " @@ -"
  | "accessors" => MetaDrv.opAccessors f.get profile ++ " @@ -"
  | "picture" => MetaDrv.opPicture f.get profile ++ " @@ -"
  | "update" => MetaDrv.opUpdate f.get ++ " @@ -"
  | "decfile" => opDecfile f profile ++ " @@ " ++ specSlotDecfile f impl implHead
  | "wr" =>
    if implHead != "ok" || impl.get "file" == "" then "model-skip @@ -" else
    let spec := match hexToBytes (impl.get "file") with
      | some file => specCheckFile file (wrPcm f) (((f.get "ch").toNat?).getD 1)
      | none => "-"
    opWr f implHead ++ opWrFinalize f impl ++ " @@ " ++ spec
  | _ => "model-skip @@ -"

/-- the frame at the front of `bytes`, as the structural parser sees it, is in the canonical form the crate's writer emits:
    minimal-length coded number, reserved bit clear, zero padding bits (the condition of C17's re-serialisation clause) -/
def canonicalAsParsed (bytes : List Nat) : Bool :=
  match parseFrame structLayout false none bytes with
  | .ok p => p.frame.padding.all (fun b => !b) && !p.frame.hdr.reserved2
      && p.frame.hdr.numberBytes == Flac.Gen2.minNumberBytes p.frame.hdr.number
  | .error _ => false

/-! ### generators -/

open Flac.Gen2 in
def genValidCases (seed n : Nat) : List String := Id.run do
  let mut rng : Rng := ⟨UInt64.ofNat (seed * 2654435761 + 12345)⟩
  let mut out : List String := []
  for i in [0:n] do
    let asFile := i % 3 == 2
    if !asFile then
      -- a single subset frame through the stream reader
      let (m, r) := (genFrame true { rate := 44100, channels := 2, bps := 16, maxBlock := 65535 } false).run rng
      rng := r
      let bytes := Spec.serialize m.frame
      out := s!"streamread bytes={bytesToHex bytes} exp={m.frame.hdr.rate}/{m.frame.hdr.assign.count}/{m.frame.hdr.bps}/{joinInts (interleave m.channels)} kind=valid nummin={if canonicalAsParsed bytes then 1 else 0}" :: out
    else
      -- a file with STREAMINFO and 1-3 frames that may refer to it
      let ((si, nf, known), r) := (do
        let bps ← (do let t ← chance 1 2; if t then pick [8, 12, 16, 20, 24, 32] else do let b ← below 29; pure (b + 4))
        let ch ← (do let st ← chance 1 2; if st then pure 2 else do let c ← below 8; pure (c + 1))
        let rate ← pick [44100, 48000, 8000, 96000, 12345, 655350, 1, 1048575, 192000]
        let nf ← below 3
        let known ← chance 2 3
        pure (({ rate, channels := ch, bps, maxBlock := 4096 } : SInfo), nf + 1, known) : G _).run rng
      rng := r
      let mut frames : List Made := []
      for _ in [0:nf] do
        let (m, r) := (genFrame false si true).run rng
        rng := r
        frames := frames ++ [m]
      -- non-final frames must be longer than 14 samples: regenerate lengths by dropping short ones
      let framesK : List Made := match frames.reverse with
        | [] => []
        | last :: revInit => (revInit.filter fun m => m.frame.hdr.blockSize > 14).reverse ++ [last]
      let pcmCh : List (List Int) := (List.range si.channels).map fun c => framesK.flatMap fun m => m.channels.getD c []
      let pcm := interleave pcmCh
      let total := (framesK.map fun m => m.frame.hdr.blockSize).foldl (· + ·) 0
      let md5 := Md5.md5 (pcm.flatMap (sampleBytes (bytesPerSample si.bps) false))
      let wrongMd5 := i % 21 == 20
      let noMd5 := i % 15 == 14
      let md5w := if noMd5 then List.replicate 16 0 else if wrongMd5 then md5.map (fun b => (b + 1) % 256) else md5
      let head := fileHead si (if known then total else 0) md5w 16
      let body := framesK.flatMap fun m => Spec.serialize m.frame
      let reader := ["byte", "sample", "iter", "chan", "verify"].getD (i / 3 % 5) "sample"
      let verdict := if noMd5 then "NoMD5" else if wrongMd5 then "MD5Mismatch" else "MD5Match"
      let lensStr := ",".intercalate (framesK.map fun m => toString m.frame.hdr.blockSize)
      out := s!"decfile reader={reader} endian={if i % 2 == 0 then "le" else "be"} chunk={[1, 7, 4096].getD (i % 3) 64} bytes={bytesToHex (head ++ body)} bps={si.bps} ch={si.channels} headlen=42 lens={lensStr} exp={joinInts pcm} expverify={verdict} kind=valid" :: out
  return out.reverse

open Flac.Gen2 in
def genInvalidCases (seed n : Nat) : List String := Id.run do
  let mut rng : Rng := ⟨UInt64.ofNat (seed * 40503 + 777)⟩
  let mut out : List String := []
  for i in [0:n] do
    let asFile := i % 2 == 1
    let si : SInfo := { rate := 44100, channels := 2, bps := 16, maxBlock := 65535 }
    if !asFile then
      let mut got : Option (Frame × String × Bool) := none
      for _ in [0:8] do
        if got.isNone then
          let ((fr, cls, must), r) := (do let m ← genFrame true si false; mutateFrame m : G _).run rng
          rng := r
          if fr.hdr.blockSize * fr.subs.length ≤ 400 || cls.startsWith "block-size-" then got := some (fr, cls, must)
      match got with
      | none => pure ()
      | some (fr, cls, must) =>
        out := s!"streamread bytes={bytesToHex (serializeMutated fr cls)} class={cls} expect={if must then "reject" else "any"} kind=invalid nummin={if canonicalAsParsed (serializeMutated fr cls) then 1 else 0}" :: out
    else
      let mut got2 : Option (SInfo × Frame × String × Bool) := none
      for _ in [0:8] do
        if got2.isNone then
          let ((si2, fr, cls, must), r) := (do
            let bps ← (do let t ← chance 1 2; if t then pick [8, 16, 24, 32] else do let b ← below 29; pure (b + 4))
            let ch ← (do let st ← chance 1 2; if st then pure 2 else do let c ← below 8; pure (c + 1))
            let si2 : SInfo := { rate := 48000, channels := ch, bps, maxBlock := 4096 }
            let m ← genFrame false si2 true
            if i % 8 == 5 then
              -- a frame that is valid on its own but contradicts the STREAMINFO it is filed under
              let k ← below 5
              let (siHead, cls) : SInfo × String :=
                if k == 0 && ch < 8 then ({ si2 with channels := ch + 1 }, "si-declares-more-channels")
                else if k == 1 && ch > 1 then ({ si2 with channels := ch - 1 }, "si-declares-fewer-channels")
                else if k == 2 then ({ si2 with rate := 44100 }, "si-declares-other-rate")
                else if k == 3 && m.frame.hdr.blockSize > 1 then ({ si2 with maxBlock := m.frame.hdr.blockSize - 1 }, "si-max-block-smaller")
                else ({ si2 with channels := if ch == 8 then 7 else ch + 1 }, "si-declares-other-channels")
              pure (siHead, m.frame, cls, true)
            else
              let (fr, cls, must) ← mutateFrame m
              pure (si2, fr, cls, must) : G _).run rng
          rng := r
          if fr.hdr.blockSize * fr.subs.length ≤ 400 || cls.startsWith "block-size-" then got2 := some (si2, fr, cls, must)
      let some (si2, fr, cls, must) := got2 | continue
      let known := i % 4 == 1
      -- every eighth file declares FEWER samples than its (otherwise untouched) frames hold
      let overshoot := i % 16 == 3 && fr.hdr.blockSize * (if i % 32 == 3 then 2 else 1) > 1 + (i / 16 % 5)
      let twice := i % 32 == 3
      let total := if overshoot then (fr.hdr.blockSize * (if twice then 2 else 1)) - 1 - (i / 16 % 5) else if known then fr.hdr.blockSize else 0
      let head := fileHead si2 total (List.replicate 16 0) 16
      let reader := ["sample", "byte", "chan", "iter"].getD (i / 2 % 4) "sample"
      let body := if twice then serializeMutated fr cls ++ serializeMutated fr cls else serializeMutated fr cls
      -- two frames whose first exactly fills the declared total: the second is trailing data the readers never look at
      let trailing := overshoot && twice && total == fr.hdr.blockSize
      let (cls', must') := if trailing then ("trailing-frame-after-total", false)
        else if overshoot && cls == "unchanged" || overshoot && !must && fr.hdr.blockSize > 14 then ("frame-overshoots-total", cls == "unchanged") else (cls, must)
      out := s!"decfile reader={reader} endian=le chunk=4096 bytes={bytesToHex (head ++ body)} class={cls'} expect={if must' then "reject" else "any"} kind=invalid" :: out
  return out.reverse

partial def loop (h : IO.FS.Stream) (out : IO.FS.Stream) : IO Unit := do
  let line ← h.getLine
  if line.isEmpty then return ()
  let l := String.ofList (line.toList.reverse.dropWhile (fun c => c == '\n' || c == '\r')).reverse
  if l.isEmpty || l.startsWith "#" then out.putStrLn l else out.putStrLn (runCase l)
  loop h out

def main (args : List String) : IO Unit := do
  match args with
  | ["gen", "valid", seed, n] =>
    for l in genValidCases (seed.toNat?.getD 1) (n.toNat?.getD 10) do
      IO.println l
  | ["gen", "invalid", seed, n] =>
    for l in genInvalidCases (seed.toNat?.getD 1) (n.toNat?.getD 10) do
      IO.println l
  | _ =>
    let i ← IO.getStdin
    let o ← IO.getStdout
    loop i o
