/-
  Driver/Meta.lean — driver side of the metadata operations (blocksw, blocksr, cuetext,
  accessors, picture, update): block literals <-> model values, and the outcome lines.
-/
import FlacModel.Model.MetaOps

open Flac Flac.Gen

namespace MetaDrv

def hx (s : String) : List Nat :=
  if s == "-" || s == "" then []
  else if s.startsWith "*" then List.replicate (((s.drop 1).toString.toNat?).getD 0) 0x41
  else (hexToBytes s).getD []

def hex16 (v : Nat) : String := String.ofList ((List.range 16).reverse.map fun i => hexDigit (v / 16 ^ i % 16))

/-- bytes as hex, or `#len:fnv1a64` when long (the harness prints the same) -/
def big (b : List Nat) : String :=
  if b.length ≤ 6000 then (if b.isEmpty then "-" else bytesToHex b)
  else s!"#{b.length}:{hex16 (b.foldl (fun h x => (Nat.xor h x) * 0x100000001b3 % 2 ^ 64) 0xcbf29ce484222325)}"

def hxs (b : List Nat) : String := if b.isEmpty then "-" else bytesToHex b
def nat (s : String) : Nat := (s.toNat?).getD 0

def failStr : Fail → String
  | .err c => "err " ++ c
  | .eof => "err Io(UnexpectedEof)"
  | .panic s => "panic " ++ s

def isrcLit (i : List Nat) : String := hxs i

def cueLiteral (c : Cue) : String :=
  let tr (t : CTrack) : String :=
    s!"{t.offset}.{t.number}.{isrcLit t.isrc}.{if t.nonAudio then 1 else 0}.{if t.preEmph then 1 else 0}." ++
      "+".intercalate (t.points.map fun i => s!"{i.offset}/{i.number}")
  let cat := if c.catalog.isEmpty then "-" else String.ofList (c.catalog.map Char.ofNat)
  let ts := if c.tracks.isEmpty then "-" else ",".intercalate (c.tracks.map tr)
  s!"Q:{if c.cdda then 1 else 0}:{cat}:{c.leadIn}:{ts}:{c.lead.offset}.{isrcLit c.lead.isrc}.{if c.lead.nonAudio then 1 else 0}.{if c.lead.preEmph then 1 else 0}"

def isrcFrom (s : String) : Option (List Nat) :=
  if s == "-" then some [] else
  let b := hx s
  if !utf8Valid b then none else isrcFromStr b

/-- structural cue literal -> value; `none` = not constructible through the public constructors -/
def cueFromLiteral (p : List String) : Option Cue := do
  let cdda := p.getD 1 "" == "1"
  let cat := if p.getD 2 "" == "-" then [] else (p.getD 2 "").toList.map (·.toNat)
  let leadIn := nat (p.getD 3 "")
  let tl := if p.getD 4 "" == "-" then [] else (p.getD 4 "").splitOn ","
  let lo := (p.getD 5 "").splitOn "."
  let tracks ← tl.mapM fun t => do
    let q := t.splitOn "."
    let pts := ((q.getD 5 "").splitOn "+").filter (fun s => s != "" && s != "-") |>.map fun i =>
      let oi := i.splitOn "/"
      ({ offset := nat (oi.getD 0 ""), number := nat (oi.getD 1 "") } : CIndex)
    let isrc ← isrcFrom (q.getD 2 "")
    if nat (q.getD 1 "") > 255 || pts.any (·.number > 255) then none else
    pure ({ offset := nat (q.getD 0 ""), number := nat (q.getD 1 ""), isrc, nonAudio := q.getD 3 "" == "1",
            preEmph := q.getD 4 "" == "1", points := pts } : CTrack)
  let lisrc ← isrcFrom (lo.getD 1 "")
  let c : Cue := { cdda, catalog := cat, leadIn := if cdda then leadIn else 0, tracks,
                   lead := { offset := nat (lo.getD 0 ""), isrc := lisrc, nonAudio := lo.getD 2 "" == "1", preEmph := lo.getD 3 "" == "1" } }
  if c.wf then some c else none

def seekPtStr : SeekPt → String
  | .defined s b l => s!"{s}.{b}.{l}"
  | .placeholder => "X"

def describe : Block → String
  | .streaminfo s => s!"S:{s.minBlock}:{s.maxBlock}:{s.minFrame}:{s.maxFrame}:{s.rate}:{s.channels}:{s.bps}:{s.total}:" ++
      (if !s.md5Some then "none" else bytesToHex s.md5)
  | .padding n => s!"P:{n}"
  | .application id d => "A:" ++ bytesToHex (beBytes 4 id) ++ ":" ++ hxs d
  | .seektable pts => "T:" ++ (if pts.isEmpty then "-" else ",".intercalate (pts.map seekPtStr))
  | .vorbis v fs => "V:" ++ hxs v ++ ":" ++ (if fs.isEmpty then "-" else ",".intercalate (fs.map hxs))
  | .picture p => s!"I:{p.ptype}:{hxs p.mime}:{hxs p.desc}:{p.width}:{p.height}:{p.depth}:{p.colors}:{hxs p.data}"
  | .cuesheet c => cueLiteral c

/-- block literal -> value; `none` = not constructible -/
def parseBlock (profile : Profile) (lit : String) : Option Block :=
  let p := lit.splitOn ":"
  match p.getD 0 "" with
  | "S" =>
    let ch := nat (p.getD 6 ""); let bps := nat (p.getD 7 "")
    let md5 := if p.getD 9 "" == "none" then List.replicate 16 0 else hx (p.getD 9 "")
    if ch % 256 == 0 || bps == 0 || bps > 32 || md5.length != 16 then none else
    some (.streaminfo { minBlock := nat (p.getD 1 "") % 65536, maxBlock := nat (p.getD 2 "") % 65536, minFrame := nat (p.getD 3 "") % 2 ^ 32,
                        maxFrame := nat (p.getD 4 "") % 2 ^ 32, rate := nat (p.getD 5 "") % 2 ^ 32, channels := ch % 256, bps, total := nat (p.getD 8 ""), md5,
                        md5Some := p.getD 9 "" != "none" })
  | "P" => if nat (p.getD 1 "") > maxBlockSize then none else some (.padding (nat (p.getD 1 "")))
  | "A" => some (.application (beNat (hx (p.getD 1 ""))) (hx (p.getD 2 "")))
  | "T" =>
    let pts := if p.getD 1 "" == "-" || p.getD 1 "" == "" then [] else ((p.getD 1 "").splitOn ",").map fun s =>
      if s == "X" then SeekPt.placeholder else
        let q := s.splitOn "."
        SeekPt.defined (nat (q.getD 0 "")) (nat (q.getD 1 "")) (nat (q.getD 2 "") % 65536)
    if pts.length ≤ seekTableMaxPoints && seekContig none pts then some (.seektable pts) else none
  | "V" =>
    let v := hx (p.getD 1 "")
    let fs := if p.getD 2 "" == "-" || p.getD 2 "" == "" then [] else ((p.getD 2 "").splitOn ",").map hx
    if utf8Valid v && fs.all utf8Valid then some (.vorbis v fs) else none
  | "I" =>
    let t := nat (p.getD 1 "")
    let mime := hx (p.getD 2 ""); let desc := hx (p.getD 3 "")
    if t > pictureTypeMax || !utf8Valid mime || !utf8Valid desc then none else
    some (.picture { ptype := t, mime, desc, width := nat (p.getD 4 ""), height := nat (p.getD 5 ""), depth := nat (p.getD 6 ""),
                     colors := nat (p.getD 7 ""), data := hx (p.getD 8 "") })
  | "Q" => (cueFromLiteral p).map .cuesheet
  | "C" =>
    let b := hx (p.getD 2 "")
    match String.fromUTF8? (ByteArray.mk (b.map (·.toUInt8)).toArray) with
    | none => none
    | some t => match cueParse profile (nat (p.getD 1 "")) t.toList with
      | .ok c => some (.cuesheet c)
      | .error _ => none
  | _ => none

def sizeStr (b : Block) : String :=
  match b.bytes with
  | .ok (some n) => s!"{n}/" ++ (if n + 4 ≤ maxBlockSize then toString (n + 4) else "none")
  | .ok none => "none/none"
  | .error _ => "PANIC"

def errTag : Fail → String
  | .err c => c
  | .eof => "Io(UnexpectedEof)"
  | .panic s => "PANIC " ++ s

/-- literals with a `*N` run of more than 200000 bytes are judged by the property oracle only (the
    list-based model would need megabytes of stack) -/
def hugeLiteral (s : String) : Bool :=
  ((s.splitOn "*").drop 1).any fun t => ((String.ofList (t.toList.takeWhile Char.isDigit)).toNat?.getD 0) > 200000

def opBlocksw (get : String → String) (profile : Profile) : String :=
  if get "failat" != "" || hugeLiteral (get "list") then "model-skip" else
  let lits := ((get "list").splitOn ";").filter (· != "")
  match lits.mapM (parseBlock profile) with
  | none => "err Construct stage=construct"
  | some blocks =>
    let sizes := ",".intercalate (blocks.map sizeStr)
    if blocks.any (fun b => match b.bytes with | .error _ => true | _ => false) then "panic size query" else
    match writeBlocks blocks with
    | .error (.panic s) => "panic " ++ s
    | .error e => s!"err {errTag e} stage=write sizes={sizes}"
    | .ok out =>
      let rb := match readBlocks out with
        | .ok (v, _) => if v == blocks then "equal" else "differs"
        | .error e => "ERR:" ++ errTag e
      s!"ok bytes={big out} sizes={sizes} readback={rb}"

def opBlocksr (get : String → String) : String :=
  match hexToBytes (get "bytes") with
  | none => "model-skip"
  | some data =>
    match readBlocks data with
    | .error e => failStr e
    | .ok (blocks, used) =>
      let desc := ";".intercalate (blocks.map describe)
      let sizes := ",".intercalate (blocks.map sizeStr)
      let rew := match writeBlocks blocks with
        | .error e => "ERR:" ++ errTag e
        | .ok out => match readBlocks out with
          | .ok (v, _) => if v == blocks then big out else "REREAD-DIFFERS"
          | .error e => "REREAD-ERR:" ++ errTag e
      s!"ok used={used} desc={desc} sizes={sizes} rewritten={rew}"

def rangesStr (rs : List (Nat × Nat)) : String :=
  if rs.isEmpty then "-" else ",".intercalate (rs.map fun r => s!"{r.1}-{r.2}")

/-- track numbers, index numbers and absolute index positions -/
def layout (c : Cue) : List (Nat × Nat × List (Nat × Nat)) :=
  c.tracks.map fun t => (t.number, t.offset, t.points.map fun i => (i.number, (i.offset + t.offset) % 2 ^ 64))

def opCuetext (get : String → String) (profile : Profile) : String :=
  let total := nat (get "total")
  match String.fromUTF8? (ByteArray.mk ((hx (get "text")).map (·.toUInt8)).toArray) with
  | none => "err Construct stage=construct"
  | some text =>
    match cueParse profile total text.toList with
    | .error (.panic s) => "panic " ++ s
    | .error e => "err Cuesheet(" ++ errTag e ++ ")"
    | .ok c =>
      match trackRanges profile c, cueDisplay profile c (str "x.flac") with
      | .ok rs, .ok disp =>
        let re := match String.fromUTF8? (ByteArray.mk (disp.map (·.toUInt8)).toArray) with
          | none => "ERR:utf8"
          | some t => match cueParse profile total t.toList with
            | .ok c2 => if layout c2 == layout c && c2.lead.offset == c.lead.offset then "same" else "differs"
            | .error e => "ERR:" ++ errTag e
        s!"ok cue={cueLiteral c} ranges={rangesStr rs} display={bytesToHex disp} reimport={re} sizes={sizeStr (.cuesheet c)}"
      | .error (.panic s), _ => "panic " ++ s
      | _, .error (.panic s) => "panic " ++ s
      | _, _ => "model-skip"

def durStr : Option (Nat × Nat) → String
  | none => "none"
  | some (s, n) =>
    let ns := toString n
    s!"{s}." ++ String.ofList (List.replicate (9 - ns.length) '0') ++ ns

def opAccessors (get : String → String) (profile : Profile) : String :=
  match hexToBytes (get "bytes") with
  | none => "model-skip"
  | some data =>
    match readBlocks data with
    | .error e => failStr e
    | .ok (blocks, _) =>
      match blocks with
      | .streaminfo si :: _ =>
        match duration si with
        | .error (.panic s) => "panic " ++ s
        | .error e => failStr e
        | .ok d =>
          let dl := match decodedLen si with | some v => toString v | none => "none"
          let cues := blocks.filterMap fun b => match b with | .cuesheet c => some c | _ => none
          let cueStrs : Res (List String) := cues.mapM fun c =>
            match trackRanges profile c, trackByteRanges profile c si.channels si.bps, cueDisplay profile c (str "f") with
            | .ok rs, .ok bs, .ok disp =>
              .ok s!"{c.tracks.length + 1}|{c.tracks.length + 1}|{rangesStr rs}|{rangesStr bs}|{bytesToHex disp}|{String.ofList (c.catalog.map Char.ofNat)}"
            | .error e, _, _ => .error e
            | _, .error e, _ => .error e
            | _, _, .error e => .error e
          match cueStrs with
          | .error (.panic s) => "panic " ++ s
          | .error e => failStr e
          | .ok cs =>
            let m := channelMask blocks
            s!"ok dur={durStr d} declen={dl} mask={m} maskch={popCount18 m} sidur={durStr d} sideclen={dl} simask={defaultMask si.channels} cues={if cs.isEmpty then "-" else "~".intercalate cs}"
      | _ => "model-skip"

def opPicture (get : String → String) (profile : Profile) : String :=
  match hexToBytes (get "data") with
  | none => "model-skip"
  | some data =>
    match sniff profile data with
    | .ok m => s!"ok mime={m.mime} w={m.width} h={m.height} depth={m.depth} colors={m.colors}"
    | .error (.panic s) => "panic " ++ s
    | .error e => "err " ++ errTag e


/-! ### update_file -/

def isPadding : Block → Bool | .padding _ => true | _ => false
def isApp : Block → Bool | .application .. => true | _ => false
def isVorbis : Block → Bool | .vorbis .. => true | _ => false
def isPicture : Block → Bool | .picture _ => true | _ => false

/-- `BlockList::insert` of a single-instance block: replace in position if present, else append -/
def insertSingle (pred : Block → Bool) (b : Block) (bl : List Block) : List Block :=
  if bl.any pred then bl.map (fun x => if pred x then b else x) else bl ++ [b]

def applyOp (bl : List Block) (op : String) : Option (List Block) :=
  let p := op.splitOn ":"
  match p.getD 0 "" with
  | "vset" =>
    let fs := if p.length < 2 || p.getD 1 "" == "-" then [] else ((p.getD 1 "").splitOn "+").map hx
    some (insertSingle isVorbis (.vorbis [118] fs) bl)
  | "vrm" => some (bl.filter (!isVorbis ·))
  | "app" => some ((bl.filter (!isApp ·)) ++ [.application (beNat (hx (p.getD 1 ""))) (List.replicate (nat (p.getD 2 "")) 0x5A)])
  | "apprm" => some (bl.filter (!isApp ·))
  | "pic" => some (bl ++ [.picture { ptype := nat (p.getD 1 ""), mime := str "image/png", desc := [], width := 1, height := 1, depth := 24, colors := 0,
                                      data := List.replicate (nat (p.getD 2 "")) 0x77 }])
  | "picrm" => some (bl.filter (!isPicture ·))
  | "padset" => some ((adjustFirstPadding (fun _ => some (nat (p.getD 1 ""))) bl).getD bl)
  | "padadd" => some (bl ++ [.padding (nat (p.getD 1 ""))])
  | "padrm" => some (bl.filter (!isPadding ·))
  | "rate" => (match bl with
      | .streaminfo si :: r => some (.streaminfo { si with rate := nat (p.getD 1 "") } :: r)
      | _ => some bl)
  | "fail" => none
  | _ => some bl

def applyScript (script : String) (bl : List Block) : Option (List Block) :=
  ((script.splitOn ",").filter (· != "")).foldl (fun acc op => match acc with | some b => applyOp b op | none => none) (some bl)

/-- fault-free histories only (the fault cases are judged by the property oracle) -/
def opUpdate (get : String → String) : String :=
  if get "failat" != "" then "model-skip" else
  match hexToBytes (get "file") with
  | none => "model-skip"
  | some file =>
    let (final, steps, lens) := ((get "edits").splitOn "|").foldl (fun (acc : List Nat × List String × List Nat) sc =>
      match updateFile acc.1 (applyScript sc) with
      | (f', .ok .inPlace) => (f', acc.2.1 ++ ["inplace"], acc.2.2 ++ [f'.length])
      | (f', .ok .rebuilt) => (f', acc.2.1 ++ ["rebuilt"], acc.2.2 ++ [f'.length])
      | (f', .error e) => (f', acc.2.1 ++ ["ERR:" ++ errTag e], acc.2.2 ++ [f'.length])) (file, [], [file.length])
    s!"ok steps={",".intercalate steps} lens={",".intercalate (lens.map toString)} final={big final}"

end MetaDrv
