/-
  Driver/Gen.lean — structure-aware generator of VALID frames (C03/C05/C16/C17): every syntactic
  alternative of the frame grammar is chosen independently, target PCM is drawn first and the
  residuals are derived from it with the L0 arithmetic, so each frame is valid by construction and
  comes with the samples the format defines for it.  Every choice is drawn from one splitmix64 state.
-/
import FlacModel.Spec.Rfc
import FlacModel.Model.Metadata

namespace Flac.Gen2
open Flac

structure Rng where
  s : UInt64

abbrev G := StateM Rng

def next64 : G UInt64 := do
  let r ← get
  let s := r.s + 0x9E3779B97F4A7C15
  set (Rng.mk s)
  let z := (s ^^^ (s >>> 30)) * 0xBF58476D1CE4E5B9
  let z := (z ^^^ (z >>> 27)) * 0x94D049BB133111EB
  pure (z ^^^ (z >>> 31))

/-- uniform in [0, n) (n > 0) -/
def below (n : Nat) : G Nat := do
  let x ← next64
  pure (x.toNat % (if n == 0 then 1 else n))

def range (lo hi : Int) : G Int := do
  let x ← next64
  let y ← next64
  let span := (hi - lo + 1).toNat
  pure (lo + ((x.toNat * 18446744073709551616 + y.toNat) % (if span == 0 then 1 else span) : Nat))

def pick [Inhabited α] (xs : List α) : G α := do
  let i ← below xs.length
  pure (xs.getD i default)

def chance (num den : Nat) : G Bool := do
  let x ← below den
  pure (x < num)

def listOf (n : Nat) (g : G α) : G (List α) := do
  let mut out := []
  for _ in [0:n] do
    out := (← g) :: out
  pure out.reverse

/-- `n` samples that fit `bits` bits, in one of several shapes -/
def genSamples (n bits : Nat) : G (List Int) := do
  let lo : Int := -(2 ^ (bits - 1) : Nat)
  let hi : Int := (2 ^ (bits - 1) : Nat) - 1
  let shape ← below 8
  match shape with
  | 0 => do let c ← range lo hi; pure (List.replicate n c)
  | 1 => listOf n (range lo hi)
  | 2 => do
    let k ← below (min bits 6)
    listOf n (range (max lo (-(2 ^ k : Nat))) (min hi (2 ^ k : Nat)))
  | 3 => do
    let a ← range (lo / 2) (hi / 2)
    let d ← range (-3) 3
    pure ((List.range n).map fun (i : Nat) => max lo (min hi (a + d * Int.ofNat i)))
  | 4 => listOf n (pick [lo, hi, lo + 1, hi - 1, 0, -1, 1])
  | 5 => pure ((List.range n).map fun i => if i % 2 == 0 then hi else lo)
  | 6 => do
    -- slowly varying around a level
    let a ← range (lo / 2) (hi / 2)
    let ds ← listOf n (range (-2) 2)
    pure ((ds.foldl (fun (acc : List Int × Int) d => let v := max lo (min hi (acc.2 + d)); (v :: acc.1, v)) ([], a)).1.reverse)
  | _ => pure (List.replicate n 0)

def tz (x : Int) : Nat :=
  if x == 0 then 64 else
  let rec go (fuel : Nat) (v : Nat) (acc : Nat) : Nat :=
    match fuel with
    | 0 => acc
    | f+1 => if v % 2 == 0 then go f (v / 2) (acc + 1) else acc
  go 64 x.natAbs 0

def bitsNeeded (x : Int) : Nat :=
  -- signed width needed for x
  let rec go (fuel w : Nat) : Nat :=
    match fuel with
    | 0 => w
    | f+1 => if fitsS w x then w else go f (w + 1)
  go 40 1

def log2c (n : Nat) : Nat := if n ≤ 1 then 0 else Nat.log2 n

/-- one partition's coding for residuals `rs` -/
def genPartition (method : Nat) (rs : List Int) : G Partition := do
  let allZero := rs.all (· == 0)
  let maxw := (rs.map bitsNeeded).foldl max 1
  let kmax := if method == 0 then 14 else 30
  let meanAbs := ((rs.map Int.natAbs).foldl (· + ·) 0) / (max rs.length 1)
  let c ← below 10
  if allZero && c < 4 then pure (.zero rs.length)
  else if c < 7 || maxw > 31 then
    -- Rice: parameter near the mean magnitude, bounded so that no unary run exceeds ~2000 bits
    let maxFold := (rs.map foldRice).foldl max 0
    let minK := if maxFold / 2000 == 0 then 0 else log2c (maxFold / 2000) + 1
    let base := log2c (meanAbs + 1)
    let d ← below 4
    let up ← chance 1 2
    let k0 := if up then base + d else base - d
    let k := min kmax (max minK k0)
    if minK > kmax then pure (.escaped (min 31 (max 1 maxw)) rs) else pure (.rice k rs)
  else
    let extra ← below 4
    pure (.escaped (min 31 (maxw + extra)) rs)

def splitBy : List Nat → List α → List (List α)
  | [], _ => []
  | n :: ns, l => l.take n :: splitBy ns (l.drop n)

def genResidual (bs order : Nat) (rs : List Int) : G Residual := do
  let m0 ← below 2
  -- residuals that need more than 31 bits cannot be escaped and need a 5-bit Rice parameter
  let method := if (rs.map bitsNeeded).foldl max 1 > 31 then 1 else m0
  let valid := (List.range 16).filter fun po => bs % 2 ^ po == 0 && bs / 2 ^ po > order
  let po ← (if valid.isEmpty then pure 0 else do
              let small ← chance 2 3
              if small then pick (valid.take 4) else pick valid)
  let sizes := (bs / 2 ^ po - order) :: List.replicate (2 ^ po - 1) (bs / 2 ^ po)
  let mut parts := []
  for chunk in splitBy sizes rs do
    parts := (← genPartition method chunk) :: parts
  pure { method, order := po, parts := parts.reverse }

/-- residuals of `ys` under predictor (coefs, shift), exact arithmetic; warm-up = first `order` -/
def residualsOf (coefs : List Int) (shift : Nat) (ys : List Int) : List Int :=
  let order := coefs.length
  let rec go (hist : List Int) (rest : List Int) (acc : List Int) : List Int :=
    match rest with
    | [] => acc.reverse
    | y :: more => go (y :: hist) more ((y - Spec.dot hist coefs / 2 ^ shift) :: acc)
  go (ys.take order).reverse (ys.drop order) []

def genSubframe (bs depth : Nat) (xs : List Int) : G Subframe := do
  -- wasted bits: any count up to the common trailing zeros (and below the depth)
  let common := (xs.map tz).foldl min 64
  let wmax := min common (depth - 1)
  let useW ← chance 3 4
  let w ← (if wmax == 0 then pure 0 else if useW then do let r ← below wmax; pure (r + 1) else pure 0)
  let ys := xs.map fun x => x / 2 ^ w
  let eff := depth - w
  let allEq := ys.all (· == ys.headD 0)
  let kind ← below 10
  if allEq && kind < 5 then pure { wasted := w, body := .constant (ys.headD 0) }
  else if kind < 2 then pure { wasted := w, body := .verbatim ys }
  else if kind < 6 then
    let o ← below (min 4 bs + 1)
    let o := if o ≥ bs then 0 else o
    let rs := residualsOf (Spec.fixedCoefs o) 0 ys
    if rs.all Spec.residualOk && o < bs then
      let res ← genResidual bs o rs
      pure { wasted := w, body := .fixed o (ys.take o) res }
    else pure { wasted := w, body := .verbatim ys }
  else
    let big ← chance 1 5
    let omax := min (if big then 32 else 8) (bs - 1)
    if omax == 0 then pure { wasted := w, body := .verbatim ys } else
    let o ← below omax
    let o := o + 1
    let prec ← (do let hi ← chance 1 4; if hi then pure 15 else do let p ← below 14; pure (p + 2))
    let shift ← below 16
    let small ← chance 2 3
    let coefs ← listOf o (if small then range (-(2 ^ (min (prec - 1) 3) : Nat)) ((2 ^ (min (prec - 1) 3) : Nat) - 1)
                          else range (-(2 ^ (prec - 1) : Nat)) ((2 ^ (prec - 1) : Nat) - 1))
    let rs := residualsOf coefs shift ys
    if rs.all Spec.residualOk then
      let res ← genResidual bs o rs
      pure { wasted := w, body := .lpc o (ys.take o) prec shift coefs res }
    else
      let _ := eff
      pure { wasted := w, body := .verbatim ys }

def minNumberBytes (v : Nat) : Nat :=
  if v < 2 ^ 7 then 1 else if v < 2 ^ 11 then 2 else if v < 2 ^ 16 then 3 else if v < 2 ^ 21 then 4
  else if v < 2 ^ 26 then 5 else if v < 2 ^ 31 then 6 else 7

structure Made where
  frame : Frame
  channels : List (List Int)

/-- a valid frame; `subset` = parseable without STREAMINFO; otherwise codes may refer to `si` -/
def genFrame (subset : Bool) (si : SInfo) (fixedParams : Bool) : G Made := do
  -- depth
  let tableBps := [8, 12, 16, 20, 24, 32]
  let bps ← (if fixedParams then pure si.bps else if subset then pick tableBps else do
                let t ← chance 1 2
                if t then pick tableBps else do let b ← below 29; pure (b + 4))
  let bpsCode ← (if tableBps.contains bps then do
                    let viaSi ← chance 1 4
                    if viaSi && !subset && bps == si.bps then pure 0 else pure ((Flac.lookup Flac.Gen.bpsWriteFixed bps).getD 0)
                 else pure 0)
  -- channels
  let assign ← (if fixedParams then do
                  if si.channels == 2 then pick [Assign.indep 2, .leftSide, .sideRight, .midSide] else pure (Assign.indep si.channels)
                else do
                  let st ← chance 1 2
                  if st then pick [Assign.indep 2, .leftSide, .sideRight, .midSide] else do let c ← below 8; pure (Assign.indep (c + 1)))
  -- block size and its coding
  let bs ← (do
    let c ← below 10
    if c < 6 then do let b ← below 40; pure (b + 1)
    else if c < 8 then pick [64, 100, 128, 192, 255, 256, 257, 576, 300]
    else pick [16, 17, 32, 48, 1152, 512])
  let bs := if fixedParams then min bs si.maxBlock else bs
  let bs := max bs 1
  let fixedCode := Flac.lookup Flac.Gen.blockSizeWriteFixed bs
  let bsCode ← (do
    let canon ← chance 2 3
    match fixedCode with
    | some c => if canon then pure c else if bs ≤ 256 then pick [6, 7] else pure 7
    | none => if bs ≤ 256 then (if canon then pure 6 else pure 7) else pure 7)
  -- sample rate and its coding
  let (rateCode, rate) ← (if fixedParams then do
      match Flac.lookup Flac.Gen.sampleRateWriteFixed si.rate with
      | some c => pure (c, si.rate)
      | none => pure (0, si.rate)
    else do
      let c ← below (if subset then 4 else 5)
      match c with
      | 0 => do let p ← pick Flac.Gen.sampleRateCodeFixed; pure (p.1, p.2)
      | 1 => do let k ← below 256; pure (12, k * 1000)
      | 2 => do let k ← below 65536; pure (13, k)
      | 3 => do let k ← below 65536; pure (14, k * 10)
      | _ => pure (0, si.rate))
  -- coded number
  let blocking ← chance 1 4
  let number ← (do
    let c ← below 6
    match c with
    | 0 => below 128
    | 1 => below 2048
    | 2 => below (2 ^ 16)
    | 3 => below (2 ^ 31)
    | 4 => below (2 ^ 36)
    | _ => pick [0, 127, 128, 2047, 2048, 65535, 65536, 2 ^ 21 - 1, 2 ^ 21, 2 ^ 26, 2 ^ 31 - 1, 2 ^ 31, 2 ^ 36 - 1])
  let nonMin ← chance 1 6
  let minB := minNumberBytes number
  let numberBytes ← (if nonMin && minB < 7 then do let e ← below (7 - minB); pure (minB + 1 + e) else pure minB)
  let hdr : Header := { blocking, bsCode, blockSize := bs, rateCode, rate, assign, bpsCode, bps, reserved2 := false,
                        number, numberBytes, hcrc := 0 }
  -- target PCM, then per-subframe vectors
  let nch := assign.count
  let scaleUp ← chance 1 4
  let k ← (if scaleUp && bps > 2 then do let r ← below (bps - 1); pure r else pure 0)
  let mut chans : List (List Int) := []
  let first ← genSamples bs (bps - k)
  chans := [first.map (· * 2 ^ k)]
  for _ in [1:nch] do
    let corr ← chance 1 2
    if corr then
      let d ← listOf bs (range (-2) 2)
      let lo : Int := -(2 ^ (bps - k - 1) : Nat)
      let hi : Int := (2 ^ (bps - k - 1) : Nat) - 1
      chans := chans ++ [(List.zipWith (fun a b => max lo (min hi (a / 2 ^ k + b)) * 2 ^ k) first d)]
    else
      let c ← genSamples bs (bps - k)
      chans := chans ++ [c.map (· * 2 ^ k)]
  let subTargets : List (List Int) :=
    match assign, chans with
    | .leftSide, [l, r] => [l, List.zipWith (· - ·) l r]
    | .sideRight, [l, r] => [List.zipWith (· - ·) l r, r]
    | .midSide, [l, r] => [List.zipWith (fun a b => (a + b) / 2) l r, List.zipWith (· - ·) l r]
    | _, cs => cs
  let mut subs := []
  let mut i := 0
  for t in subTargets do
    subs := (← genSubframe bs (subBps assign bps i) t) :: subs
    i := i + 1
  let subsF := subs.reverse
  let bodyBits := (writeSubframes assign bps subsF 0).length
  let padding := List.replicate ((8 - bodyBits % 8) % 8) false
  pure { frame := { hdr, subs := subsF, padding, footer := 0 }, channels := chans }

/-- STREAMINFO block + tag for a stream of the given parameters -/
def fileHead (si : SInfo) (total : Nat) (md5 : List Nat) (minBlock : Nat) : List Nat :=
  let bits := natToBits 16 minBlock ++ natToBits 16 si.maxBlock ++ natToBits 24 0 ++ natToBits 24 0 ++ natToBits 20 si.rate
    ++ natToBits 3 (si.channels - 1) ++ natToBits 5 (si.bps - 1) ++ natToBits 36 total
  [0x66, 0x4C, 0x61, 0x43, 0x80, 0, 0, 34] ++ bitsToBytes bits ++ md5

/-- the bytes of a mutated frame: the model serializer's output, except for classes that are not expressible as a `Frame` value -
    `coded-number-continuation`: the second byte of the two-byte coded number gets top bits `00`, `01` or `11` instead of `10`, and both
    checksums are recomputed so that only the coded number is wrong -/
def serializeMutated (fr : Frame) (cls : String) : List Nat :=
  let bytes := Spec.serialize fr
  if cls != "coded-number-continuation" then bytes else
  let hlen := (bitsToBytes (writeHeaderFields fr.hdr)).length
  let form := [0x00, 0x40, 0xC0].getD (fr.hdr.number % 3) 0
  let b1 := bytes.set 5 (bytes.getD 5 0 % 64 + form)
  let b2 := b1.set hlen (crc8 (b1.take hlen))
  let body := b2.take (b2.length - 2)
  body ++ [crc16 body / 256, crc16 body % 256]

end Flac.Gen2

namespace Flac.Gen2
open Flac

def mapNth (xs : List α) (i : Nat) (f : α → α) : List α :=
  (List.zip (List.range xs.length) xs).map fun (j, x) => if j == i then f x else x

def subMapResidual (s : Subframe) (f : Residual → Residual) : Subframe :=
  match s.body with
  | .fixed o w r => { s with body := .fixed o w (f r) }
  | .lpc o w p sh c r => { s with body := .lpc o w p sh c (f r) }
  | _ => s

/-- checksum-consistent but malformed / extreme variants of a valid frame.
    Returns (frame, class, mustReject): `mustReject` = the RFC forbids the construct outright. -/
def mutateFrame0 (m : Made) : G (Frame × String × Bool) := do
  let f := m.frame
  let nsub := f.subs.length
  let i ← below (max nsub 1)
  let depth := subBps f.hdr.assign f.hdr.bps i
  let kind ← below 26
  let setHdr (h : Header) : Frame := { f with hdr := h }
  let setSub (g : Subframe → Subframe) : Frame := { f with subs := mapNth f.subs i g }
  match kind with
  | 24 | 25 => do
      -- a two-byte coded number whose continuation byte is later rewritten (in `serializeMutated`) to one that does not start with `10`
      let v ← below 1900
      pure (setHdr { f.hdr with number := 128 + v, numberBytes := 2 }, "coded-number-continuation", true)
  | 22 => pure (setHdr { f.hdr with bsCode := 7, blockSize := 65536 }, "block-size-field-ffff", false)
  | 23 => do
      let big ← chance 1 2
      pure (setHdr { f.hdr with bsCode := 6, blockSize := if big then 256 else 1 }, "block-size-8bit-extreme", false)
  | 0 => pure (setHdr { f.hdr with bsCode := 0 }, "block-size-code-0000", true)
  | 1 => pure (setHdr { f.hdr with rateCode := 15 }, "sample-rate-code-1111", true)
  | 2 => pure (setHdr { f.hdr with bpsCode := 3 }, "sample-size-code-011", true)
  | 3 => pure (setHdr { f.hdr with reserved2 := true }, "reserved-header-bit", false)
  | 4 => pure (setSub fun s => { s with wasted := depth }, "wasted-equals-depth", true)
  | 5 => do let e ← below 5; pure (setSub fun s => { s with wasted := depth + e + 1 }, "wasted-exceeds-depth", true)
  | 6 => pure (setSub fun s => match s.body with
                | .lpc o w _ sh c r => { s with body := .lpc o w 16 sh c r }
                | _ => s, "lpc-precision-1111", (f.subs.getD i default).body matches .lpc ..)
  | 7 => pure (setSub fun s => match s.body with
                | .lpc o w p _ c r => { s with body := .lpc o w p 31 c r }
                | _ => s, "lpc-negative-shift", (f.subs.getD i default).body matches .lpc ..)
  | 8 => do
    let m ← pick [2, 3]
    pure (setSub fun s => subMapResidual s fun r => { r with method := m }, "coding-method-reserved",
          match (f.subs.getD i default).body with | .fixed .. => true | .lpc .. => true | _ => false)
  | 9 | 10 | 11 => do
    -- any written partition order with a partition list of that many entries
    let po ← below 16
    let bs := f.hdr.blockSize
    let valid : Bool := bs % 2 ^ po == 0
    pure (setSub fun s => subMapResidual s fun r =>
            let order := match s.body with | .fixed o .. => o | .lpc o .. => o | _ => 0
            let all := r.residuals.map fun x => Int.emod x 1000 - 500
            let sizes := (bs / 2 ^ po - order) :: List.replicate (2 ^ po - 1) (bs / 2 ^ po)
            { r with order := po, parts := (splitBy sizes (all ++ List.replicate (bs + 1) 0)).map fun chunk => Partition.rice (if r.method == 0 then 3 else 17) chunk },
          "partition-order-any", !(valid && bs / 2 ^ po > (match (f.subs.getD i default).body with | .fixed o .. => o | .lpc o .. => o | _ => 0))
            && (match (f.subs.getD i default).body with | .fixed .. => true | .lpc .. => true | _ => false))
  | 12 => do
    -- a residual whose folded value does not fit 32 bits (RFC: residuals are 32-bit, minus the most negative)
    let big ← pick [(2147483648 : Int), 2147483653, -2147483649, 4294967296, -4294967297, 6442450944]
    pure (setSub fun s => subMapResidual s fun r =>
            { r with method := 1, parts := r.parts.map fun p => match p with
                | .rice _ (_ :: rs) => .rice 30 (big :: rs)
                | .escaped _ (_ :: rs) => .rice 30 (big :: rs)
                | .zero (n+1) => .rice 30 (big :: List.replicate n 0)
                | q => q },
          "residual-beyond-32-bits",
          match (f.subs.getD i default).body with | .fixed _ _ r => r.residuals.length > 0 | .lpc _ _ _ _ _ r => r.residuals.length > 0 | _ => false)
  | 13 => do
    -- a residual that drives the reconstructed sample far outside its depth
    let d ← pick [(1 : Int), -1]
    pure (setSub fun s => subMapResidual s fun r =>
            { r with method := 1, parts := r.parts.map fun p => match p with
                | .rice _ (x :: rs) => .rice 29 ((x + d * 2147483000) % 2147483647 :: rs)
                | q => q },
          "sample-leaves-depth", false)
  | 14 => pure ({ f with padding := f.padding.map fun _ => true }, "nonzero-padding", false)
  | 15 => do
    -- FIXED order larger than the block
    let bs := f.hdr.blockSize
    if bs < 4 then
      pure (setSub fun s => { s with body := .fixed 4 (List.replicate 4 0) { method := 0, order := 0, parts := [.zero 0] } }, "fixed-order-exceeds-block", true)
    else pure (f, "unchanged", false)
  | 16 => do
    let bs := f.hdr.blockSize
    if bs < 32 then
      let o := bs + 1
      pure (setSub fun s => { s with body := .lpc o (List.replicate o 0) 5 0 (List.replicate o 1) { method := 0, order := 0, parts := [.zero 0] } }, "lpc-order-exceeds-block", true)
    else pure (f, "unchanged", false)
  | 17 => do
    -- extreme LPC: maximal coefficients and full-scale warm-up, random residuals
    let bs := f.hdr.blockSize
    let o := min 32 (bs - 1)
    if o == 0 then pure (f, "unchanged", false) else
    let lo : Int := -(2 ^ (depth - 1) : Nat)
    let hi : Int := (2 ^ (depth - 1) : Nat) - 1
    let warm ← listOf o (pick [lo, hi])
    let coefs ← listOf o (pick [(16383 : Int), -16384])
    let rs ← listOf (bs - o) (pick [(2147483647 : Int), -2147483647, 0, 1])
    let sh ← below 4
    pure (setSub fun _ => { wasted := 0, body := .lpc o warm 15 sh coefs { method := 1, order := 0, parts := [.rice 30 rs] } }, "extreme-lpc", false)
  | 18 => do
    -- extreme stereo: full-scale mid/side or left/side samples
    let bs := f.hdr.blockSize
    if nsub != 2 then pure (f, "unchanged", false) else
    let a ← pick [Assign.leftSide, .sideRight, .midSide]
    let mk (j : Nat) : G Subframe := do
      let d := subBps a f.hdr.bps j
      let lo : Int := -(2 ^ (d - 1) : Nat)
      let hi : Int := (2 ^ (d - 1) : Nat) - 1
      let xs ← listOf bs (pick [lo, hi, lo + 1, 0, -1])
      pure { wasted := 0, body := .verbatim xs }
    let s0 ← mk 0
    let s1 ← mk 1
    let bits := (writeSubframes a f.hdr.bps [s0, s1] 0).length
    pure ({ f with hdr := { f.hdr with assign := a }, subs := [s0, s1], padding := List.replicate ((8 - bits % 8) % 8) false }, "extreme-stereo", false)
  | 19 => do
    -- wasted bits that shift a full-scale sample out of its width
    let bs := f.hdr.blockSize
    let w := depth - 1
    pure (setSub fun _ => { wasted := w, body := .verbatim (List.replicate bs (-1)) }, "wasted-max", false)
  | 20 => do
    -- zero-width escape partitions only (samples produced without consuming input)
    let bs := f.hdr.blockSize
    pure (setSub fun _ => { wasted := 0, body := .fixed 0 [] { method := 0, order := 0, parts := [.zero bs] } }, "all-zero-partition", false)
  | _ => do
    -- a one-sample block with partition order 1 (the decoder used to panic slicing it)
    let h := { f.hdr with bsCode := 6, blockSize := 1 }
    let sub : Subframe := { wasted := 0, body := .fixed 0 [] { method := 0, order := 1, parts := [.zero 0, .zero 0] } }
    let subs := List.replicate nsub sub
    let bits := (writeSubframes h.assign h.bps subs 0).length
    pure ({ f with hdr := h, subs, padding := List.replicate ((8 - bits % 8) % 8) false }, "one-sample-block-order-1", true)

/-- as `mutateFrame0`, with the padding recomputed so that the frame stays byte aligned
    (the padding bits are set when the class asks for non-zero padding) -/
def mutateFrame (m : Made) : G (Frame × String × Bool) := do
  let (fr, cls, must) ← mutateFrame0 m
  let bits := (writeSubframes fr.hdr.assign fr.hdr.bps fr.subs 0).length
  let n := (8 - bits % 8) % 8
  pure ({ fr with padding := List.replicate n (cls == "nonzero-padding") }, cls, must)

end Flac.Gen2
