import FlacModel.Model.Basic
import FlacModel.Model.Frame
import FlacModel.Model.Decode
import FlacModel.Model.StreamReader
import FlacModel.Spec.Rfc
