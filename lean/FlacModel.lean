import FlacModel.Model.Basic
import FlacModel.Model.Frame
import FlacModel.Model.Decode
