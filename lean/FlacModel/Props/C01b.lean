/-
  Props/C01b.lean — C01 (and the first sentence of C16) at the level of whole frames:
  the frame format is a bijection on well-formed frames (`Proofs/Codec.lean`), and what the encoder's
  residual / wasted-bit / stereo kernels produce is restored exactly by the decoder, for EVERY choice of
  predictor, shift, partitioning and Rice parameters (the floating-point analysis never enters).
-/
import FlacModel.Props.C01
import FlacModel.Proofs.Codec
import FlacModel.Proofs.CodecB
import FlacModel.Proofs.DecodeFacts

namespace Flac.C01
open Flac Gen

/-- **Frame round trip.**  For every well-formed frame `f` (any header the format can express, any number of
    subframes of any of the four kinds, any partitioning, any padding), in both build profiles and with or
    without a STREAMINFO context: the streaming decoder, run on the serialized bytes, consumes exactly those
    bytes, accepts both checksums, and returns the header and exactly the samples the subframes expand to. -/
theorem frame_roundtrip (p : Profile) (si : Option SInfo) (f : Frame) (xss out : List (List Int))
    (w : FrameWf si f)
    (hx : subsDecode p f.hdr.assign f.hdr.blockSize f.hdr.bps f.subs xss 0)
    (hr : recorrelate p f.hdr.assign f.hdr.bps xss = .ok out) :
    decodeFrame p si f.serialize = .ok { hdr := f.hdr, channels := out, used := f.serialize.length } :=
  decodeFrame_serialize p si f xss out w hx hr

/-! ### what each kind of subframe the encoder can emit expands to -/

theorem constant_restores (p : Profile) (w bs : Nat) (v : Int) :
    decodeSub p w bs { wasted := 0, body := .constant v } = .ok (List.replicate bs v) := by
  simp [decodeSub]

theorem verbatim_restores (p : Profile) (w bs : Nat) (xs : List Int) :
    decodeSub p w bs { wasted := 0, body := .verbatim xs } = .ok xs := by
  simp [decodeSub]

/-- an LPC subframe built from ANY quantised coefficients and shift: if the encoder's residual loop succeeds on
    the channel, the decoder restores the channel from warm-up + residuals, however they were partitioned -/
theorem lpc_restores (p : Profile) (bs prec shift : Nat) (coefs channel : List Int) (res : Residual)
    (hs : shift < 64) (hc : ∀ c ∈ coefs, fitsS 16 c = true) (hl : coefs.length ≤ 32)
    (hx : ∀ x ∈ channel, fitsS 32 x = true)
    (h : encLpcResiduals coefs shift channel = some res.residuals) :
    decodeSub p 32 bs { wasted := 0, body := .lpc coefs.length (channel.take coefs.length) prec shift coefs res } = .ok channel := by
  simp only [decodeSub]
  rw [predict_restore p coefs shift hs hc hl channel res.residuals hx h]
  simp

/-- a FIXED subframe of order `o ≤ 4` -/
theorem fixed_restores (p : Profile) (bs o : Nat) (ho : o ≤ 4) (channel : List Int) (res : Residual)
    (hx : ∀ x ∈ channel, fitsS 32 x = true)
    (h : encLpcResiduals (fixedCoeffs.getD o []) 0 channel = some res.residuals) :
    decodeSub p 32 bs { wasted := 0, body := .fixed o (channel.take o) res } = .ok channel := by
  obtain ⟨h1, h2, h3⟩ := fixedCoeffs_ok o
  simp only [decodeSub]
  have := predict_restore p (fixedCoeffs.getD o []) 0 (by decide) h1 h2 channel res.residuals hx h
  rw [h3 ho] at this
  rw [this]
  simp

/-- wasted bits: a subframe that expands to `ys` expands, with `w` wasted bits, to `ys` shifted back -/
theorem wasted_restores (p : Profile) (bs w : Nat) (hw0 : 0 < w) (hw : w < 32) (body : SubBody) (ys : List Int)
    (h : decodeSub p 32 bs { wasted := 0, body := body } = .ok ys)
    (hy : ∀ y ∈ ys, fitsS 32 (y * 2 ^ w) = true) :
    decodeSub p 32 bs { wasted := w, body := body } = .ok (ys.map (· * 2 ^ w)) := by
  have key : ∀ r : Res (List Int), (match r with
      | .error e => (.error e : Res (List Int))
      | .ok xs => if (0 : Nat) > 0 then mapM' (wastedShl p 32 0) xs else .ok xs) = .ok ys →
      (match r with
      | .error e => (.error e : Res (List Int))
      | .ok xs => if w > 0 then mapM' (wastedShl p 32 w) xs else .ok xs) = .ok (ys.map (· * 2 ^ w)) := by
    intro r hr
    cases r with
    | error e => cases hr
    | ok xs =>
      have : xs = ys := by simpa using hr
      subst this
      simp only [hw0, if_true]
      exact mapM'_wasted p w hw xs hy
  cases body with
  | constant v => exact key (.ok (List.replicate bs v)) h
  | verbatim xs => exact key (.ok xs) h
  | fixed o warm res => exact key (predict p 32 (fixedCoeffs.getD o []) 0 warm res.residuals) h
  | lpc o warm prec shift coefs res => exact key (predict p 32 coefs shift warm res.residuals) h

/-! ### channel reconstruction -/

theorem zip_leftside (p : Profile) (l r : List Int) (hlen : l.length = r.length)
    (hl : ∀ x ∈ l, fitsS 31 x = true) (hr : ∀ x ∈ r, fitsS 31 x = true) :
    zipWithM (decLeftSide p) l (List.zipWith (· - ·) l r) = .ok r := by
  induction l generalizing r with
  | nil => cases r with
    | nil => simp [zipWithM]
    | cons _ _ => simp at hlen
  | cons a l ih =>
    cases r with
    | nil => simp at hlen
    | cons b r =>
      simp only [List.zipWith_cons_cons, zipWithM]
      rw [(stereo_leftside_inverse p a b (hl a (by simp)) (hr b (by simp))).2]; dsimp only
      rw [ih r (by simpa using hlen) (fun x hx => hl x (by simp [hx])) (fun x hx => hr x (by simp [hx]))]

theorem zip_sideright (p : Profile) (l r : List Int) (hlen : l.length = r.length)
    (hl : ∀ x ∈ l, fitsS 31 x = true) (hr : ∀ x ∈ r, fitsS 31 x = true) :
    zipWithM (decSideRight p) (List.zipWith (· - ·) l r) r = .ok l := by
  induction l generalizing r with
  | nil => cases r with
    | nil => simp [zipWithM]
    | cons _ _ => simp at hlen
  | cons a l ih =>
    cases r with
    | nil => simp at hlen
    | cons b r =>
      simp only [List.zipWith_cons_cons, zipWithM]
      rw [stereo_sideright_inverse p a b (hl a (by simp)) (hr b (by simp))]; dsimp only
      rw [ih r (by simpa using hlen) (fun x hx => hl x (by simp [hx])) (fun x hx => hr x (by simp [hx]))]

theorem zip_midside (p : Profile) (l r : List Int) (hlen : l.length = r.length)
    (hl : ∀ x ∈ l, fitsS 31 x = true) (hr : ∀ x ∈ r, fitsS 31 x = true) :
    zipWithM (midSide32 p) (List.zipWith (fun a b => (a + b) / 2) l r) (List.zipWith (· - ·) l r) = .ok (List.zip l r) := by
  induction l generalizing r with
  | nil => cases r with
    | nil => simp [zipWithM]
    | cons _ _ => simp at hlen
  | cons a l ih =>
    cases r with
    | nil => simp at hlen
    | cons b r =>
      simp only [List.zipWith_cons_cons, zipWithM, List.zip_cons_cons]
      rw [(stereo_midside_inverse p a b (hl a (by simp)) (hr b (by simp))).2]; dsimp only
      rw [ih r (by simpa using hlen) (fun x hx => hl x (by simp [hx])) (fun x hx => hr x (by simp [hx]))]

/-- **Stereo decorrelation is undone exactly**, in all three modes, for every pair of equally long channels of
    depth ≤ 31 bits (`bps < 32`), in both profiles. -/
theorem recorrelate_stereo (p : Profile) (bps : Nat) (hb : bps < 32) (l r : List Int) (hlen : l.length = r.length)
    (hl : ∀ x ∈ l, fitsS 31 x = true) (hr : ∀ x ∈ r, fitsS 31 x = true) :
    recorrelate p .leftSide bps [l, List.zipWith (· - ·) l r] = .ok [l, r]
    ∧ recorrelate p .sideRight bps [List.zipWith (· - ·) l r, r] = .ok [l, r]
    ∧ recorrelate p .midSide bps [List.zipWith (fun a b => (a + b) / 2) l r, List.zipWith (· - ·) l r] = .ok [l, r] := by
  refine ⟨?_, ?_, ?_⟩
  · simp only [recorrelate, hb, if_true, zip_leftside p l r hlen hl hr]
  · simp only [recorrelate, hb, if_true, zip_sideright p l r hlen hl hr]
  · simp only [recorrelate, hb, if_true, zip_midside p l r hlen hl hr]
    have e1 : (List.zip l r).map (·.1) = l := by
      rw [List.map_fst_zip]; omega
    have e2 : (List.zip l r).map (·.2) = r := by
      rw [List.map_snd_zip]; omega
    rw [e1, e2]

/-- **Lossless, independent channels.**  A well-formed frame with independent channel assignment decodes to
    exactly the samples its subframes expand to. -/
theorem lossless_independent (p : Profile) (si : Option SInfo) (f : Frame) (n : Nat) (xss : List (List Int))
    (w : FrameWf si f) (ha : f.hdr.assign = .indep n)
    (hx : subsDecode p f.hdr.assign f.hdr.blockSize f.hdr.bps f.subs xss 0) :
    decodeFrame p si f.serialize = .ok { hdr := f.hdr, channels := xss, used := f.serialize.length } :=
  frame_roundtrip p si f xss xss w hx (by rw [ha]; rfl)

/-- **Lossless, stereo.**  A well-formed two-channel frame whose subframes expand to the decorrelated pair the
    encoder computes from `(l, r)` (whichever of the three modes it chose) decodes to exactly `[l, r]`. -/
theorem lossless_stereo (p : Profile) (si : Option SInfo) (f : Frame) (l r : List Int) (xss : List (List Int))
    (w : FrameWf si f) (hb : f.hdr.bps < 32) (hlen : l.length = r.length)
    (hl : ∀ x ∈ l, fitsS 31 x = true) (hr : ∀ x ∈ r, fitsS 31 x = true)
    (hx : subsDecode p f.hdr.assign f.hdr.blockSize f.hdr.bps f.subs xss 0)
    (hmode : (f.hdr.assign = .leftSide ∧ xss = [l, List.zipWith (· - ·) l r])
      ∨ (f.hdr.assign = .sideRight ∧ xss = [List.zipWith (· - ·) l r, r])
      ∨ (f.hdr.assign = .midSide ∧ xss = [List.zipWith (fun a b => (a + b) / 2) l r, List.zipWith (· - ·) l r])) :
    decodeFrame p si f.serialize = .ok { hdr := f.hdr, channels := [l, r], used := f.serialize.length } := by
  obtain ⟨h1, h2, h3⟩ := recorrelate_stereo p f.hdr.bps hb l r hlen hl hr
  rcases hmode with ⟨ha, hxs⟩ | ⟨ha, hxs⟩ | ⟨ha, hxs⟩
  · exact frame_roundtrip p si f xss _ w hx (by rw [ha, hxs]; exact h1)
  · exact frame_roundtrip p si f xss _ w hx (by rw [ha, hxs]; exact h2)
  · exact frame_roundtrip p si f xss _ w hx (by rw [ha, hxs]; exact h3)

/-- the same with the executable well-formedness test the driver runs on every frame the real encoder emits -/
theorem frame_roundtrip_checked (p : Profile) (si : Option SInfo) (f : Frame) (xss out : List (List Int))
    (w : frameWfB si f = true)
    (hx : subsDecode p f.hdr.assign f.hdr.blockSize f.hdr.bps f.subs xss 0)
    (hr : recorrelate p f.hdr.assign f.hdr.bps xss = .ok out) :
    decodeFrame p si f.serialize = .ok { hdr := f.hdr, channels := out, used := f.serialize.length } :=
  frame_roundtrip p si f xss out (frameWfB_sound si f w) hx hr

/-- the frame a byte string parses to, if it parses with both checksums valid -/
def frameOf (bytes : List Nat) : Option Frame :=
  match parseFrame decLayout true none bytes with
  | .ok pr => if pr.crc8ok && pr.crc16ok && pr.used == bytes.length then some pr.frame else none
  | .error _ => none

/-- non-vacuity: a concrete frame (mono, 16 bit, one CONSTANT sample; and a 2-channel LPC/FIXED frame is exercised on every
    run by the driver) is in the domain of the theorem and is the serialization of its parse -/
example : (match frameOf [255, 248, 105, 8, 0, 0, 29, 0, 0, 0, 160, 39] with
    | some f => frameWfB none f && (f.serialize == [255, 248, 105, 8, 0, 0, 29, 0, 0, 0, 160, 39])
    | none => false) = true := by decide +kernel

/-- non-vacuity on a frame the real encoder produced (12 stereo samples at 16 bits, `lpc=2`, mid/side allowed: bytes
    `fff86988000b2717803200dc02940229614d0d0c24000a00cc882e12a4a92ad682`): its parse is in the domain of the theorem, it is the serialization of its parse, and the decoder model
    returns the samples that were encoded -/
example : (match frameOf [255, 248, 105, 136, 0, 11, 39, 23, 128, 50, 0, 220, 2, 148, 2, 41, 97, 77, 13, 12, 36, 0, 10, 0, 204, 136, 46, 18, 164, 169, 42, 214, 130] with
    | some f => frameWfB none f && (f.serialize == [255, 248, 105, 136, 0, 11, 39, 23, 128, 50, 0, 220, 2, 148, 2, 41, 97, 77, 13, 12, 36, 0, 10, 0, 204, 136, 46, 18, 164, 169, 42, 214, 130])
        && (match decodeFrame .release none [255, 248, 105, 136, 0, 11, 39, 23, 128, 50, 0, 220, 2, 148, 2, 41, 97, 77, 13, 12, 36, 0, 10, 0, 204, 136, 46, 18, 164, 169, 42, 214, 130] with
            | .ok d => d.channels == [[100, 220, 330, 420, 480, 510, 500, 460, 390, 300, 190, 70], [90, 200, 310, 400, 470, 500, 495, 450, 385, 290, 185, 60]]
            | .error _ => false)
    | none => false) = true := by decide +kernel

end Flac.C01
