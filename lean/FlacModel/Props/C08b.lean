/-
  Props/C08b.lean — C08, "whichever writer front-end and byte order supplied it": the byte front-end, fed with
  the samples serialised in either byte order and split into write calls anywhere (mid-sample included), hands the
  encoder the same blocks of samples and the MD5 the same bytes as the sample front-end does.
-/
import FlacModel.Model.ByteFront
import FlacModel.Props.C08
import FlacModel.Props.C07

namespace Flac.C08
open Flac Flac.Gen

/-! ### one sample -/

def inRange (n : Nat) (x : Int) : Prop := -(2 ^ (8 * n - 1) : Int) ≤ x ∧ x < (2 ^ (8 * n - 1) : Int)

theorem lor_bit23 (y : Nat) (h : y < 8388608) : Nat.lor 8388608 y = 8388608 + y := by
  have := Nat.two_pow_add_eq_or_of_lt (i := 23) (b := y) (by simpa using h) 1
  simpa using this.symm

theorem and_bit23 (u : Nat) : u &&& 2 ^ 23 = (u / 2 ^ 23 % 2) * 2 ^ 23 := by
  apply Nat.eq_of_testBit_eq
  intro i
  rw [Nat.testBit_and, Nat.testBit_two_pow, Nat.testBit_mul_two_pow]
  by_cases h : 23 = i
  · subst h
    simp [Nat.testBit_eq_decide_div_mod_eq]
  · by_cases hle : 23 ≤ i
    · have : (u / 2 ^ 23 % 2).testBit (i - 23) = false := by
        apply Nat.testBit_lt_two_pow
        have : 2 ^ 1 ≤ 2 ^ (i - 23) := Nat.pow_le_pow_right (by omega) (by omega)
        omega
      simp [h, this]
    · simp [h, hle]

/-- in range, the hand-written 24-bit rule of `sampleBytes` is the regenerated `i24_to_bytes` -/
theorem i24_unsigned (x : Int) (h : inRange 3 x) :
    (i24ToUnsigned x : Int) = if x < 0 then x + 16777216 else x := by
  obtain ⟨h1, h2⟩ := h
  simp only [show (8 * 3 - 1) = 23 from rfl] at h1 h2
  unfold i24ToUnsigned
  split
  · rename_i hx
    have : ¬ x < 0 := by omega
    simp only [this, if_false]
    omega
  · rename_i hx
    have hx' : x < 0 := by omega
    simp only [hx', if_true]
    have e : ((x - (-(2 ^ 23))) % 4294967296).toNat = (x + 8388608).toNat := by omega
    rw [e, lor_bit23 _ (by omega)]
    omega

theorem i24_back (u : Nat) (h : u < 16777216) :
    i24OfUnsigned u = if u < 8388608 then (u : Int) else (u : Int) - 16777216 := by
  unfold i24OfUnsigned
  have hand : Nat.land u 8388608 = (u / 8388608 % 2) * 8388608 := and_bit23 u
  have hmask : Nat.land u 8388607 = u % 8388608 := Nat.and_two_pow_sub_one_eq_mod u 23
  rw [hand, hmask]
  by_cases hlt : u < 8388608
  · have : u / 8388608 % 2 = 0 := by omega
    simp [this, hlt]
  · have : u / 8388608 % 2 = 1 := by omega
    simp only [this, hlt, if_false]
    simp
    omega

/-- `LittleEndian::bytes_to_iN ∘ LittleEndian::iN_to_bytes = id` on the range of `n` bytes, n = 1 … 4 -/
theorem sampleOfLE_sampleBytes (n : Nat) (hn : 1 ≤ n ∧ n ≤ 4) (x : Int) (h : inRange n x) :
    sampleOfLE (sampleBytes n false x) = x := by
  obtain ⟨h1, h2⟩ := h
  have cases4 : n = 1 ∨ n = 2 ∨ n = 3 ∨ n = 4 := by omega
  rcases cases4 with rfl | rfl | rfl | rfl
  · simp only [show (8 * 1 - 1) = 7 from rfl] at h1 h2
    simp [sampleBytes, sampleOfLE, leValue, List.range, List.range.loop]
    omega
  · simp only [show (8 * 2 - 1) = 15 from rfl] at h1 h2
    simp [sampleBytes, sampleOfLE, leValue, List.range, List.range.loop]
    omega
  · have hu := i24_unsigned x ⟨h1, h2⟩
    simp only [show (8 * 3 - 1) = 23 from rfl] at h1 h2
    have hb : sampleBytes 3 false x = [((i24ToUnsigned x : Int) % 256).toNat, ((i24ToUnsigned x : Int) / 256 % 256).toNat, ((i24ToUnsigned x : Int) / 65536 % 256).toNat] := by
      unfold i24ToUnsigned
      by_cases hx : x < 0
      · have : ¬ x ≥ 0 := by omega
        simp [sampleBytes, List.range, List.range.loop, hx, this]
      · have : x ≥ 0 := by omega
        simp [sampleBytes, List.range, List.range.loop, hx, this]
        omega
    rw [hb]
    have hlv : leValue [((i24ToUnsigned x : Int) % 256).toNat, ((i24ToUnsigned x : Int) / 256 % 256).toNat, ((i24ToUnsigned x : Int) / 65536 % 256).toNat]
        = ((i24ToUnsigned x : Int) % 16777216).toNat := by
      simp only [leValue]; omega
    simp only [sampleOfLE, List.length_cons, List.length_nil, hlv]
    simp only [show (0 + 1 + 1 + 1 == 3) = true from rfl, if_true]
    rw [i24_back _ (by omega)]
    split at hu <;> split <;> omega
  · simp only [show (8 * 4 - 1) = 31 from rfl] at h1 h2
    simp [sampleBytes, sampleOfLE, leValue, List.range, List.range.loop]
    omega

theorem sampleBytes_length (n : Nat) (be : Bool) (x : Int) : (sampleBytes n be x).length = n := by
  unfold sampleBytes
  cases be <;> simp

/-- converting the caller's bytes to little-endian gives the little-endian serialisation -/
theorem toLE_sampleBytes (n : Nat) (be : Bool) (x : Int) : toLE be (sampleBytes n be x) = sampleBytes n false x := by
  cases be
  · simp [toLE, bytesToLeKeepsLE]
  · simp [toLE, bytesToLeReversesBE, sampleBytes]

/-- **one sample through the byte front-end, either byte order** -/
theorem byteSample_sampleBytes (n : Nat) (hn : 1 ≤ n ∧ n ≤ 4) (be : Bool) (x : Int) (h : inRange n x) :
    byteSample be (sampleBytes n be x) = x := by
  rw [byteSample, toLE_sampleBytes, sampleOfLE_sampleBytes n hn x h]

/-! ### one block -/

theorem chunkN_flatMap {β : Type} (n : Nat) (hn : 0 < n) (f : β → List Nat) (hf : ∀ x, (f x).length = n) (xs : List β) (fuel : Nat)
    (hfuel : xs.length ≤ fuel) : chunkN n fuel (xs.flatMap f) = xs.map f := by
  induction xs generalizing fuel with
  | nil => cases fuel <;> simp [chunkN]
  | cons x r ih =>
    cases fuel with
    | zero => simp at hfuel
    | succ fuel =>
      have hne : (f x ++ r.flatMap f).isEmpty = false := by
        have := hf x
        cases hfx : f x with
        | nil => rw [hfx] at this; simp at this; omega
        | cons a t => simp
      have hn0 : (n == 0) = false := by simp; omega
      simp only [List.flatMap_cons, chunkN, hne, hn0, Bool.or_self, Bool.false_eq_true, if_false, List.map_cons]
      rw [List.take_left' (hf x), List.drop_left' (hf x), ih fuel (by simpa using hfuel)]

theorem flatMap_length_const {β : Type} (n : Nat) (f : β → List Nat) (hf : ∀ x, (f x).length = n) (xs : List β) :
    (xs.flatMap f).length = n * xs.length := by
  induction xs with
  | nil => simp
  | cons x r ih => simp [List.flatMap_cons, hf x, ih, Nat.mul_add]; omega

/-- a block of serialised samples comes out of `fill_from_buf` as those samples -/
theorem byteFrontSamples_serialized (n : Nat) (hn : 1 ≤ n ∧ n ≤ 4) (be : Bool) (xs : List Int) (h : ∀ x ∈ xs, inRange n x) :
    byteFrontSamples n be (xs.flatMap (sampleBytes n be)) = xs := by
  unfold byteFrontSamples
  rw [chunkN_flatMap n (by omega) _ (sampleBytes_length n be) xs _ (by
    rw [flatMap_length_const n _ (sampleBytes_length n be)]
    have : xs.length * 1 ≤ xs.length * n := Nat.mul_le_mul_left _ hn.1
    rw [Nat.mul_comm n]; omega)]
  rw [List.map_map]
  have : ∀ l : List Int, (∀ x ∈ l, inRange n x) → l.map (byteSample be ∘ sampleBytes n be) = l := by
    intro l hl
    induction l with
    | nil => rfl
    | cons a t ih =>
      simp only [List.map_cons, Function.comp]
      rw [byteSample_sampleBytes n hn be a (hl a (by simp)), ih (fun y hy => hl y (by simp [hy]))]
  exact this xs h

/-- … and the MD5 is fed the little-endian serialisation, which is what the sample front-ends feed it (`update_md5`) -/
theorem byteFrontMd5_serialized (n : Nat) (hn : 1 ≤ n ∧ n ≤ 4) (be : Bool) (xs : List Int) :
    byteFrontMd5Input n be (xs.flatMap (sampleBytes n be)) = xs.flatMap (sampleBytes n false) := by
  unfold byteFrontMd5Input
  rw [chunkN_flatMap n (by omega) _ (sampleBytes_length n be) xs _ (by
    rw [flatMap_length_const n _ (sampleBytes_length n be)]
    have : xs.length * 1 ≤ xs.length * n := Nat.mul_le_mul_left _ hn.1
    rw [Nat.mul_comm n]; omega)]
  induction xs with
  | nil => rfl
  | cons a t ih => simp only [List.map_cons, List.flatMap_cons, toLE_sampleBytes, ih]

/-! ### the whole writer -/

theorem flatMap_flatten' {β : Type} (f : β → List Nat) (B : List (List β)) :
    B.flatten.flatMap f = (B.map (·.flatMap f)).flatten := by
  induction B with
  | nil => rfl
  | cons b r ih => simp only [List.flatten_cons, List.flatMap_append, List.map_cons, ih]

theorem take_flatMap_const {β : Type} (n : Nat) (f : β → List Nat) (hf : ∀ x, (f x).length = n) (r : List β) (k : Nat) :
    (r.flatMap f).take (n * k) = (r.take k).flatMap f := by
  induction r generalizing k with
  | nil => simp
  | cons x t ih =>
    cases k with
    | zero => simp
    | succ k =>
      simp only [List.flatMap_cons, List.take_succ_cons]
      rw [List.take_append, hf x, List.take_of_length_le (by rw [hf x]; rw [Nat.mul_succ]; omega)]
      have : n * (k + 1) - n = n * k := by rw [Nat.mul_succ]; omega
      rw [this, ih]

/-- splitting the serialised bytes into blocks of `n * F` bytes is splitting the samples into blocks of `F` -/
theorem splitFull_serialized {β : Type} (n F : Nat) (hn : 0 < n) (hF : 0 < F) (f : β → List Nat) (hf : ∀ x, (f x).length = n) (xs : List β) :
    (splitFull (n * F) (xs.flatMap f).length (xs.flatMap f)).1 = (splitFull F xs.length xs).1.map (·.flatMap f)
    ∧ (splitFull (n * F) (xs.flatMap f).length (xs.flatMap f)).2 = (splitFull F xs.length xs).2.flatMap f := by
  obtain ⟨e1, e2, e3⟩ := splitFull_spec F hF xs.length xs (Nat.le_refl _)
  obtain ⟨d1, d2, d3⟩ := splitFull_spec (n * F) (Nat.mul_pos hn hF) (xs.flatMap f).length (xs.flatMap f) (Nat.le_refl _)
  apply decomposition_unique (n * F) (Nat.mul_pos hn hF) _ _ _ _ _ d2 _ d3 _
  · rw [← d1, ← flatMap_flatten', ← List.flatMap_append, ← e1]
  · intro b hb
    simp only [List.mem_map] at hb
    obtain ⟨b0, hb0, rfl⟩ := hb
    rw [flatMap_length_const n f hf, e2 b0 hb0]
  · rw [flatMap_length_const n f hf]
    exact Nat.mul_lt_mul_of_pos_left e3 hn

theorem take_tail_serialized (n q : Nat) (be : Bool) (r : List Int) :
    (r.flatMap (sampleBytes n be)).take ((r.flatMap (sampleBytes n be)).length - (r.flatMap (sampleBytes n be)).length % (n * q))
      = (r.take (r.length - r.length % q)).flatMap (sampleBytes n be) := by
  rw [flatMap_length_const n _ (sampleBytes_length n be) r, Nat.mul_mod_mul_left, ← Nat.mul_sub,
    take_flatMap_const n _ (sampleBytes_length n be)]

theorem isEmpty_serialized (n : Nat) (hn0 : 0 < n) (be : Bool) (t : List Int) :
    (t.flatMap (sampleBytes n be)).isEmpty = t.isEmpty := by
  cases t with
  | nil => rfl
  | cons a t =>
    have := sampleBytes_length n be a
    cases hsa : sampleBytes n be a with
    | nil => rw [hsa] at this; simp at this; omega
    | cons c d => simp [List.flatMap_cons, hsa]

theorem finalize_serialized (n q : Nat) (hn : 1 ≤ n ∧ n ≤ 4) (be : Bool) (B : List (List Int)) (r : List Int)
    (hB : ∀ b ∈ B, ∀ x ∈ b, inRange n x) (hr : ∀ x ∈ r, inRange n x) :
    (if ((r.flatMap (sampleBytes n be)).take ((r.flatMap (sampleBytes n be)).length - (r.flatMap (sampleBytes n be)).length % (n * q))).isEmpty
      then B.map (·.flatMap (sampleBytes n be))
      else B.map (·.flatMap (sampleBytes n be)) ++ [(r.flatMap (sampleBytes n be)).take ((r.flatMap (sampleBytes n be)).length - (r.flatMap (sampleBytes n be)).length % (n * q))]).map (byteFrontSamples n be)
    = if (r.take (r.length - r.length % q)).isEmpty then B else B ++ [r.take (r.length - r.length % q)] := by
  have hBmap : (B.map (·.flatMap (sampleBytes n be))).map (byteFrontSamples n be) = B := by
    rw [List.map_map]
    have : ∀ l : List (List Int), (∀ b ∈ l, ∀ x ∈ b, inRange n x) → l.map (byteFrontSamples n be ∘ (·.flatMap (sampleBytes n be))) = l := by
      intro l hl
      induction l with
      | nil => rfl
      | cons a t ih =>
        simp only [List.map_cons, Function.comp]
        rw [byteFrontSamples_serialized n hn be a (hl a (by simp)), ih (fun y hy => hl y (by simp [hy]))]
    exact this B hB
  rw [take_tail_serialized, isEmpty_serialized n (by omega)]
  split
  · exact hBmap
  · rw [List.map_append, hBmap, List.map_cons, List.map_nil,
      byteFrontSamples_serialized n hn be _ (fun x hxm => hr x (List.mem_of_mem_take hxm))]

theorem finalize_md5_serialized (n q : Nat) (hn : 1 ≤ n ∧ n ≤ 4) (be : Bool) (B : List (List Int)) (r : List Int) :
    (if ((r.flatMap (sampleBytes n be)).take ((r.flatMap (sampleBytes n be)).length - (r.flatMap (sampleBytes n be)).length % (n * q))).isEmpty
      then B.map (·.flatMap (sampleBytes n be))
      else B.map (·.flatMap (sampleBytes n be)) ++ [(r.flatMap (sampleBytes n be)).take ((r.flatMap (sampleBytes n be)).length - (r.flatMap (sampleBytes n be)).length % (n * q))]).flatMap (byteFrontMd5Input n be)
    = (if (r.take (r.length - r.length % q)).isEmpty then B else B ++ [r.take (r.length - r.length % q)]).flatten.flatMap (sampleBytes n false) := by
  have hB : (B.map (·.flatMap (sampleBytes n be))).flatMap (byteFrontMd5Input n be) = B.flatten.flatMap (sampleBytes n false) := by
    induction B with
    | nil => rfl
    | cons b t ih =>
      simp only [List.map_cons, List.flatMap_cons, List.flatten_cons, List.flatMap_append, byteFrontMd5_serialized n hn be b, ih]
  rw [take_tail_serialized, isEmpty_serialized n (by omega)]
  split
  · exact hB
  · simp only [List.flatMap_append, List.flatten_append, List.flatMap_cons, List.flatMap_nil, List.append_nil, List.flatten_cons,
      List.flatten_nil, hB, byteFrontMd5_serialized n hn be]

/-- **Front-end and byte-order independence.**  `xs`: interleaved samples that fit `n` bytes (n = `ceil(bps/8)` ∈ 1…4); `F` = samples
    per block, `q` = samples per PCM frame.  Serialise them in either byte order, cut the bytes into write calls anywhere — also inside a
    sample — and give them to the byte front-end (blocks of `n*F` bytes, PCM frames of `n*q`): the blocks of samples that reach the encoder
    are exactly those the sample front-end makes of `xs` in one call. -/
theorem byte_frontend_blocks (n F q : Nat) (hn : 1 ≤ n ∧ n ≤ 4) (hF : 0 < F) (be : Bool) (xs : List Int)
    (hx : ∀ x ∈ xs, inRange n x) (ws : List (List Nat)) (hws : ws.flatten = xs.flatMap (sampleBytes n be)) :
    ((ws.foldl (Wr.write (n * F)) Wr.init).finalize (n * q)).map (byteFrontSamples n be) = ((Wr.init : Wr Int).write F xs).finalize q := by
  have hn0 : 0 < n := by omega
  rw [finalize_chunking_indep (n * F) (n * q) (Nat.mul_pos hn0 hF) ws, hws]
  obtain ⟨s1, s2⟩ := splitFull_serialized n F hn0 hF (sampleBytes n be) (sampleBytes_length n be) xs
  obtain ⟨e1, _, _⟩ := splitFull_spec F hF xs.length xs (Nat.le_refl _)
  simp only [Wr.write, Wr.init, List.nil_append, Wr.finalize, s1, s2]
  apply finalize_serialized n q hn be
  · intro b hb x hxb
    apply hx; rw [e1]; simp only [List.mem_append, List.mem_flatten]; exact Or.inl ⟨b, hb, hxb⟩
  · intro x hxr; apply hx; rw [e1]; simp [hxr]

/-- the same for the bytes that reach the MD5: the little-endian serialisation of exactly the encoded samples, whatever the caller's byte order -/
theorem byte_frontend_md5 (n F q : Nat) (hn : 1 ≤ n ∧ n ≤ 4) (hF : 0 < F) (be : Bool) (xs : List Int)
    (ws : List (List Nat)) (hws : ws.flatten = xs.flatMap (sampleBytes n be)) :
    ((ws.foldl (Wr.write (n * F)) Wr.init).finalize (n * q)).flatMap (byteFrontMd5Input n be)
      = (((Wr.init : Wr Int).write F xs).finalize q).flatten.flatMap (sampleBytes n false) := by
  have hn0 : 0 < n := by omega
  rw [finalize_chunking_indep (n * F) (n * q) (Nat.mul_pos hn0 hF) ws, hws]
  obtain ⟨s1, s2⟩ := splitFull_serialized n F hn0 hF (sampleBytes n be) (sampleBytes_length n be) xs
  simp only [Wr.write, Wr.init, List.nil_append, Wr.finalize, s1, s2]
  exact finalize_md5_serialized n q hn be _ _

/-- hence the two byte orders give the encoder the same blocks -/
theorem byte_order_indep (n F q : Nat) (hn : 1 ≤ n ∧ n ≤ 4) (hF : 0 < F) (xs : List Int) (hx : ∀ x ∈ xs, inRange n x)
    (ws1 ws2 : List (List Nat)) (h1 : ws1.flatten = xs.flatMap (sampleBytes n true)) (h2 : ws2.flatten = xs.flatMap (sampleBytes n false)) :
    ((ws1.foldl (Wr.write (n * F)) Wr.init).finalize (n * q)).map (byteFrontSamples n true)
      = ((ws2.foldl (Wr.write (n * F)) Wr.init).finalize (n * q)).map (byteFrontSamples n false) := by
  rw [byte_frontend_blocks n F q hn hF true xs hx ws1 h1, byte_frontend_blocks n F q hn hF false xs hx ws2 h2]

/-- **Reader into writer.**  What the byte reader delivers for decoded frames (C07: `byte_eq_serialised_samples`), handed to the byte
    writer in the same byte order in any pieces, reaches the encoder as the blocks of exactly the decoded samples: transcoding through
    the byte interfaces loses nothing, for depths up to 32 bits whose samples fit their `ceil(bps/8)` bytes. -/
theorem reader_bytes_feed_writer (bps F q : Nat) (hb : 1 ≤ bps ∧ bps ≤ 32) (hF : 0 < F) (be : Bool) (fs : List FrameInfo)
    (hx : ∀ x ∈ fs.flatMap frameSamples, inRange (bytesPerSample bps) x)
    (ws : List (List Nat)) (hws : ws.flatten = fs.flatMap (frameBytes bps be)) :
    ((ws.foldl (Wr.write (bytesPerSample bps * F)) Wr.init).finalize (bytesPerSample bps * q)).map (byteFrontSamples (bytesPerSample bps) be)
      = ((Wr.init : Wr Int).write F (fs.flatMap frameSamples)).finalize q := by
  have hn : 1 ≤ bytesPerSample bps ∧ bytesPerSample bps ≤ 4 := by unfold bytesPerSample; omega
  exact byte_frontend_blocks _ F q hn hF be _ hx ws (by rw [hws, Flac.C07.byte_eq_serialised_samples])

/-- non-vacuity: 16-bit stereo, big-endian bytes cut inside a sample; blocks of 2 PCM frames -/
example : (([[255], [254, 0, 3, 128, 0, 127], [255, 0, 1, 9]].foldl (Wr.write (2 * 4)) Wr.init).finalize (2 * 2)).map (byteFrontSamples 2 true)
    = [[-2, 3, -32768, 32767]] := by decide
example : byteFrontSamples 2 true [255, 254, 0, 3, 128, 0, 127, 255] = [-2, 3, -32768, 32767] := by decide
example : byteFrontSamples 3 false (sampleBytes 3 false (-8388608) ++ sampleBytes 3 false 8388607 ++ sampleBytes 3 false (-1)) = [-8388608, 8388607, -1] := by decide

end Flac.C08
