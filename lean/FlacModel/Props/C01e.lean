/-
  Props/C01e.lean — C01, wasted bits: the shift `encode_subframe` chooses divides every sample of the channel, so shifting right by it
  loses nothing (the decoder's left shift restores each sample: `C01.wasted_inverse`, `C01.wasted_restores`); and the CONSTANT shortcut
  it takes when the fold ends at its start value is taken only for an all-zero channel.
-/
import FlacModel.Model.Wasted
import FlacModel.Props.C01d

namespace Flac.C01
open Flac Flac.Gen

theorem tzAux_dvd (f n : Nat) : 2 ^ tzAux f n ∣ n := by
  induction f generalizing n with
  | zero => simp [tzAux]
  | succ f ih =>
    simp only [tzAux]
    split
    · rename_i h
      obtain ⟨k, hk⟩ := ih (n / 2)
      refine ⟨k, ?_⟩
      have hn : n = (n / 2) * 2 := by omega
      rw [Nat.pow_succ, Nat.mul_assoc, Nat.mul_comm 2 k, ← Nat.mul_assoc, ← hk]
      exact hn
    · simp

theorem tzAux_le (f n : Nat) : tzAux f n ≤ f := by
  induction f generalizing n with
  | zero => simp [tzAux]
  | succ f ih =>
    simp only [tzAux]
    split
    · exact Nat.succ_le_succ (ih _)
    · omega

/-- `2 ^ trailing_zeros(x)` divides `x` (anything divides 0) -/
theorem tz32_dvd (x : Int) (w : Nat) (hw : w ≤ tz32 x) : ((2 : Int) ^ w) ∣ x := by
  unfold tz32 at hw
  by_cases h0 : x = 0
  · subst h0; exact Int.dvd_zero _
  · simp only [h0, if_false] at hw
    have h1 : 2 ^ w ∣ 2 ^ tzAux 32 x.natAbs := Nat.pow_dvd_pow 2 hw
    have h2 : 2 ^ w ∣ x.natAbs := Nat.dvd_trans h1 (tzAux_dvd 32 x.natAbs)
    have : ((2 ^ w : Nat) : Int) ∣ x := Int.ofNat_dvd_left.mpr h2
    simpa using this

/-- the fold's invariant: the accumulator never exceeds a trailing-zero count seen so far, nor its start value -/
theorem fold_le (a : Nat) (xs : List Int) (w : Nat) (h : encWastedFold (some a) xs = some w) :
    w ≤ a ∧ ∀ x ∈ xs, w ≤ tz32 x := by
  induction xs generalizing a with
  | nil => simp only [encWastedFold, Option.some.injEq] at h; subst h; exact ⟨Nat.le_refl _, by simp⟩
  | cons x xs ih =>
    simp only [encWastedFold, encWastedStep] at h
    by_cases hz : tz32 x = 0
    · simp only [hz, if_true] at h
      cases xs <;> simp [encWastedFold] at h
    · simp only [hz, if_false] at h
      obtain ⟨h1, h2⟩ := ih _ h
      have hmin : Nat.min (tz32 x) a ≤ a := Nat.min_le_right _ _
      have hmin' : Nat.min (tz32 x) a ≤ tz32 x := Nat.min_le_left _ _
      refine ⟨Nat.le_trans h1 hmin, ?_⟩
      intro y hy
      simp only [List.mem_cons] at hy
      rcases hy with rfl | hy
      · exact Nat.le_trans h1 hmin'
      · exact h2 y hy

/-- **The chosen shift divides every sample**: whatever `encode_subframe` removes as wasted bits, every sample of the channel is a multiple
    of `2 ^ w`, so `(x >> w) << w = x` for each of them and the decoder's left shift restores the channel exactly. -/
theorem wasted_shift_lossless (channel : List Int) (w : Nat) (h : encWasted channel = .shift w) :
    w < encWastedMax ∧ ∀ x ∈ channel, x / (2 : Int) ^ w * (2 : Int) ^ w = x := by
  unfold encWasted at h
  cases hf : encWastedFold (some encWastedMax) channel with
  | none => rw [hf] at h; cases h
  | some v =>
    rw [hf] at h
    dsimp only at h
    by_cases hv : v = encWastedMax
    · simp [hv] at h
    · simp only [hv, if_false, WastedOutcome.shift.injEq] at h
      subst h
      obtain ⟨h1, h2⟩ := fold_le encWastedMax channel v hf
      refine ⟨by omega, ?_⟩
      intro x hx
      exact Int.ediv_mul_cancel (tz32_dvd x v (h2 x hx))

/-- the CONSTANT shortcut (`Some(WASTED_MAX)`) is taken only when every sample is 0 (for a non-empty channel of 32-bit samples) -/
theorem wasted_allzero_sound (channel : List Int) (hr : ∀ x ∈ channel, x.natAbs ≤ 2 ^ 31) (h : encWasted channel = .allZero) :
    ∀ x ∈ channel, x = 0 := by
  unfold encWasted at h
  cases hf : encWastedFold (some encWastedMax) channel with
  | none => rw [hf] at h; cases h
  | some v =>
    rw [hf] at h
    dsimp only at h
    by_cases hv : v = encWastedMax
    · subst hv
      obtain ⟨_, h2⟩ := fold_le encWastedMax channel encWastedMax hf
      intro x hx
      have hx32 := h2 x hx
      by_cases h0 : x = 0
      · exact h0
      · exfalso
        -- a non-zero 32-bit sample has fewer than 32 trailing zeros
        have hd : 2 ^ 32 ∣ x.natAbs := by
          have : tz32 x = tzAux 32 x.natAbs := by simp [tz32, h0]
          have hle : 32 ≤ tzAux 32 x.natAbs := by rw [← this]; exact hx32
          exact Nat.dvd_trans (Nat.pow_dvd_pow 2 hle) (tzAux_dvd 32 x.natAbs)
        have hpos : 0 < x.natAbs := Int.natAbs_pos.mpr h0
        have := Nat.le_of_dvd hpos hd
        have := hr x hx
        have e1 : (2 : Nat) ^ 32 = 4294967296 := by decide
        have e2 : (2 : Nat) ^ 31 = 2147483648 := by decide
        omega
    · simp [hv] at h

/-! ### the `all_0` shortcut -/

/-- the accumulator `X_abs_sum` of `correlate_channels`: the sum of `unsigned_abs` over a channel -/
def absSum (xs : List Int) : Nat := (xs.map Int.natAbs).sum

/-- `X_abs_sum == 0` holds exactly for an all-zero channel — so a flag computed from a channel's OWN absolute sum marks exactly the
    channels for which the CONSTANT subframe `encode_subframe` then writes (value `channel[0]` = 0) is lossless -/
theorem absSum_zero_iff (xs : List Int) : absSum xs = 0 ↔ ∀ x ∈ xs, x = 0 := by
  induction xs with
  | nil => simp [absSum]
  | cons a t ih =>
    simp only [absSum, List.map_cons, List.sum_cons, List.mem_cons, forall_eq_or_imp] at ih ⊢
    constructor
    · intro h
      have h1 : a.natAbs = 0 := by omega
      have h2 : (t.map Int.natAbs).sum = 0 := by omega
      exact ⟨Int.natAbs_eq_zero.mp h1, ih.mp h2⟩
    · intro ⟨h1, h2⟩
      have := ih.mpr h2
      rw [h1] at *
      simpa using this

/-- regenerated from `correlate_channels`: in each of its `CorrelatedChannel` literals the `all_0` flag is `false` or the absolute sum of
    the sample vector of that same literal compared with 0 (never another channel's) -/
theorem all0_flags_own_channel : encAll0FlagsOwnChannel = true ∧ 0 < encCorrelatedChannelLiterals := ⟨rfl, by decide⟩

/-- a CONSTANT subframe of value 0 reproduces a channel whose own absolute sum is 0 -/
theorem all0_constant_lossless (xs : List Int) (h : absSum xs = 0) : List.replicate xs.length (0 : Int) = xs := by
  have hz := (absSum_zero_iff xs).mp h
  apply List.ext_getElem (by simp)
  intro i h1 h2
  simp only [List.getElem_replicate]
  exact (hz _ (List.getElem_mem h2)).symm

/-- non-vacuity -/
example : encWasted [8, -24, 0, 40] = .shift 3 ∧ encWasted [0, 0] = .allZero ∧ encWasted [4, 6, 1] = .none ∧ encWasted [-2147483648] = .shift 31 := by decide

end Flac.C01
