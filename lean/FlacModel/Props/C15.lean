/-
  Props/C15.lean — C15: writer APIs validate their parameters and honour the declared length.
-/
import FlacModel.Model.Ctor

namespace Flac.C15
open Flac Gen

/-- **ctor_total**: for every combination of arguments the constructor returns a writer or an error;
    no panic site is reachable (zero channel counts and a 1-bit depth included) -/
theorem ctor_total (a : CtorArgs) : ∀ s, ctor a ≠ .error (.panic s) ∧ optionsOk a ≠ .error (.panic s) := by
  intro s
  have h1 : encExactDivGuardsZero = true := rfl
  have h2 : metaDepthOneWritable = true := rfl
  constructor
  · unfold ctor
    split
    · simp
    · have hd : ∀ s', declaredFrames a ≠ .error (.panic s') := by
        intro s'
        unfold declaredFrames
        cases a.total with
        | none => simp
        | some t =>
          cases a.fe <;> simp only [h1, if_true] <;> (repeat' split) <;> simp
      cases hdf : declaredFrames a with
      | error e =>
        simp only []
        intro hc
        simp only [Except.error.injEq] at hc
        exact hd s (by rw [hdf, hc])
      | ok tot =>
        simp only [h2, Bool.not_true, Bool.and_false, Bool.false_eq_true, if_false]
        (repeat' split) <;> simp
  · unfold optionsOk
    (repeat' split) <;> simp

/-- **documented_values_accepted**: depths 1–32, 1–8 channels, rates below 2²⁰, LPC orders up to 32
    (or none), partition orders up to 15, block sizes from 16, with no declared total, are accepted -/
theorem documented_values_accepted (a : CtorArgs) (hb : 1 ≤ a.bps ∧ a.bps ≤ 32) (hc : 1 ≤ a.channels ∧ a.channels ≤ 8)
    (hr : a.rate < 2 ^ 20) (hl : ∀ o, a.maxLpc = some o → 1 ≤ o ∧ o ≤ 32) (hp : a.maxPo ≤ 15) (hs : 16 ≤ a.blockSize)
    (ht : a.total = none) : ctor a = .ok none ∧ optionsOk a = .ok () ∧
      (∀ o, a.maxLpc = some o → encAutocorrelateAssert o = true) := by
  have h2 : metaDepthOneWritable = true := rfl
  refine ⟨?_, ?_, ?_⟩
  · have e1 : (a.bps == 0 || decide (a.bps > 32)) = false := by simp; omega
    have e2 : ¬ a.rate ≥ encRateLimit := by simp [encRateLimit]; omega
    have e3 : (decide (a.channels < encMinChannels) || decide (a.channels > encMaxChannels)) = false := by
      simp [encMinChannels, encMaxChannels]; omega
    simp [ctor, e1, declaredFrames, ht, e2, e3, h2]
  · have e1 : ¬ a.blockSize < optMinBlockSize := by simp [optMinBlockSize]; omega
    have e3 : ¬ a.maxPo > optMaxPartitionOrder := by simp [optMaxPartitionOrder]; omega
    unfold optionsOk
    rw [if_neg e1]
    cases hm : a.maxLpc with
    | none => simp [e3]
    | some o =>
      have := hl o hm
      have h0 : (o == 0) = false := by simp; omega
      have h1 : ¬ o > optMaxLpcOrder := by simp [optMaxLpcOrder]; omega
      simp [h0, h1, e3]
  · intro o ho
    have := hl o ho
    show decide (o ≤ 32) = true
    simp; omega

/-- **declared_length_contract**: with a declared total `t`, any block sequence whose running sum
    crosses `t` is refused at the block that crosses; one that ends short of `t` is refused at
    finalize; one that ends exactly at `t` succeeds -/
theorem declared_length_contract (t : Nat) (lens : List Nat) (w : Nat) (hw : w ≤ t) :
    (w + lens.sum = t → lengthRun (some t) w lens = .ok t)
    ∧ (w + lens.sum < t → lengthRun (some t) w lens = .error (.err "SampleCountMismatch"))
    ∧ (w + lens.sum > t → lengthRun (some t) w lens = .error (.err "ExcessiveTotalSamples")) := by
  induction lens generalizing w with
  | nil =>
    simp only [List.sum_nil, Nat.add_zero, lengthRun]
    refine ⟨fun h => by simp [h], fun h => ?_, fun h => by omega⟩
    have : (t != w) = true := by simp; omega
    simp [this]
  | cons l ls ih =>
    simp only [List.sum_cons, lengthRun]
    by_cases hx : w + l > t
    · simp only [hx, if_true]
      exact ⟨fun h => by omega, fun h => by omega, fun _ => trivial⟩
    · simp only [hx, if_false]
      obtain ⟨i1, i2, i3⟩ := ih (w + l) (by omega)
      exact ⟨fun h => i1 (by omega), fun h => i2 (by omega), fun h => i3 (by omega)⟩

/-- with no declared total the final count is recorded (and an empty stream is refused) -/
theorem undeclared_records_count (lens : List Nat) (w : Nat) (h0 : 0 < w + lens.sum) (hmax : w + lens.sum < encMaxSamples) :
    lengthRun none w lens = .ok (w + lens.sum) := by
  induction lens generalizing w with
  | nil =>
    simp only [List.sum_nil, Nat.add_zero] at h0 hmax ⊢
    have : (w == 0) = false := by simp; omega
    simp [lengthRun, this, hmax]
  | cons l ls ih =>
    simp only [List.sum_cons, lengthRun]
    rw [ih (w + l) (by simp at h0; omega) (by simp at hmax; omega)]
    congr 1; omega

/-- non-vacuity: the extremes the property names -/
example : (match ctor { fe := .sample, rate := 1048575, bps := 1, channels := 8, total := none, blockSize := 16, maxLpc := some 32, maxPo := 15 } with
      | .ok none => true | _ => false) = true
    ∧ (match ctor { fe := .byte, rate := 44100, bps := 16, channels := 0, total := some 40, blockSize := 16, maxLpc := none, maxPo := 0 } with
      | .error (.err _) => true | _ => false) = true := by decide

end Flac.C15
