/-
  Props/C14.lean — C14: an interrupted encode leaves a file whose complete frames are all decodable.
  Loop-level theorem over `Model/FileDecode.decodeLoop` (the readers' frame loop): for a stream that
  is a sequence of frames followed by a strict prefix of the next one, the loop delivers exactly
  the complete frames, in order, and then stops — cleanly if nothing follows, with an error
  otherwise — never anything else.
-/
import FlacModel.Model.FileDecode
import FlacModel.Proofs.Local

namespace Flac.C14
open Flac

/-- frame locality: `f` decodes to `d` whatever follows it, consuming exactly `f` -/
structure Loc (p : Profile) (si : SInfo) (f : List Nat) (d : Decoded) : Prop where
  dec : ∀ rest, decodeFrame p (some si) (f ++ rest) = .ok d
  used : d.used = f.length
  hdr : ∀ rest, ∃ hu, parseHeaderBytes (some si) (f ++ rest) = .ok (d.hdr, hu, true)

/-- a strict, non-empty prefix of a frame is detected as truncated: either already its header
    runs out of data (reported as an error because `decHeaderEofStrict` holds), or the frame body does -/
def Truncated (p : Profile) (si : SInfo) (part : List Nat) : Prop :=
  part ≠ [] ∧ (parseHeaderBytes (some si) part = .error .eof ∨
    ((∃ h, parseHeaderBytes (some si) part = .ok h) ∧ decodeFrame p (some si) part = .error .eof))

/-- **prefix_decodes_complete_frames** (undeclared total): the loop over
    `f₁ ++ … ++ f_k ++ part` delivers the channels of `f₁ … f_k`, in order, and then stops cleanly if
    `part` is empty, or with an end-of-data error if `part` is a truncated frame -/
theorem prefix_decodes_complete_frames (p : Profile) (si : SInfo)
    (fs : List (List Nat × Decoded)) (hloc : ∀ fd ∈ fs, Loc p si fd.1 fd.2)
    (part : List Nat) (hpart : part = [] ∨ Truncated p si part)
    (fuel cur : Nat) (acc : List (List (List Int))) (hfuel : fs.length < fuel) :
    decodeLoop p si 0 fuel ((fs.map (·.1)).flatten ++ part) cur acc
      = (acc.reverse ++ fs.map (·.2.channels), if part = [] then none else some .eof) := by
  have hstrict : Gen.decHeaderEofStrict = true := rfl
  induction fs generalizing fuel cur acc with
  | nil =>
    cases fuel with
    | zero => omega
    | succ fuel =>
      simp only [List.map_nil, List.flatten_nil, List.nil_append, List.append_nil, decodeLoop]
      have h0 : ((0 : Nat) != 0) = false := rfl
      simp only [h0, Bool.false_eq_true, if_false]
      rcases hpart with rfl | ⟨hne, ht⟩
      · -- nothing left: the header read hits end of input before its first byte
        have : parseHeaderBytes (some si) [] = .error .eof := by
          simp [parseHeaderBytes, readHeaderFields, bytesToBits, bind, P.bind, readU, takeBits, splitExact]
        simp [this]
      · rcases ht with he | ⟨⟨h, hh⟩, hd⟩
        · have hb : part.isEmpty = false := by cases part <;> simp_all
          simp [he, hstrict, hb, hne]
        · simp [hh, hd, hne]
  | cons fd fs ih =>
    cases fuel with
    | zero => simp at hfuel
    | succ fuel =>
      obtain ⟨f, d⟩ := fd
      have hl := hloc (f, d) (by simp)
      simp only [List.map_cons, List.flatten_cons, List.append_assoc, decodeLoop]
      have h0 : ((0 : Nat) != 0) = false := rfl
      simp only [h0, Bool.false_eq_true, if_false]
      obtain ⟨hu, hh⟩ := hl.hdr ((fs.map (·.1)).flatten ++ part)
      simp only [hh, hl.dec]
      have hdrop : (f ++ ((fs.map (·.1)).flatten ++ part)).drop d.used = (fs.map (·.1)).flatten ++ part := by
        rw [hl.used]; simp
      rw [hdrop]
      have := ih (fun x hx => hloc x (by simp [hx])) fuel (cur + d.hdr.blockSize) (d.channels :: acc) (by simp at hfuel; omega)
      rw [this]
      simp


/-! ### discharging the locality hypotheses

`Loc` and `Truncated` were hypotheses of the loop theorem.  Both follow, for every frame that decodes
using all of its bytes, from the left-to-right structure of the parsers (`Proofs/Local.lean`). -/

theorem decodeFrame_header (p : Profile) (si : Option SInfo) (f : List Nat) (d : Decoded) (h : decodeFrame p si f = .ok d) :
    ∃ n, parseHeaderBytes si f = .ok (d.hdr, n, true) := by
  unfold decodeFrame at h
  cases h1 : readHeaderFields si (bytesToBits f) with
  | error e => rw [h1] at h; cases h
  | ok v1 =>
    obtain ⟨hd, r1⟩ := v1
    rw [h1] at h; dsimp only at h
    cases h2 : checkStreaminfo si hd with
    | error e => rw [h2] at h; cases h
    | ok u =>
      rw [h2] at h; dsimp only at h
      split at h
      · cases h
      rename_i hc8
      split at h
      · cases h
      cases h3 : decSubframes p hd.assign hd.blockSize hd.bps hd.assign.count 0 r1 with
      | error e => rw [h3] at h; cases h
      | ok v3 =>
        obtain ⟨chs, r2⟩ := v3
        rw [h3] at h; dsimp only at h
        cases h4 : recorrelate p hd.assign hd.bps chs with
        | error e => rw [h4] at h; cases h
        | ok out =>
          rw [h4] at h; dsimp only at h
          cases h5 : readU 16 (r2.drop (r2.length % 8)) with
          | error e => rw [h5] at h; cases h
          | ok v5 =>
            obtain ⟨c16, r3⟩ := v5
            rw [h5] at h; dsimp only at h
            split at h
            · cases h
            · cases h
              refine ⟨f.length - r1.length / 8, ?_⟩
              simp only [parseHeaderBytes, h1]
              have : Gen.crc8Valid (crc8 (f.take (f.length - r1.length / 8))) = true := by simpa using hc8
              rw [this]

/-- every frame that decodes, using all of its bytes, is local -/
theorem loc_of_decodes (p : Profile) (si : SInfo) (f : List Nat) (d : Decoded)
    (h : decodeFrame p (some si) f = .ok d) (hu : d.used = f.length) : Loc p si f d := by
  refine ⟨fun rest => decodeFrame_ext p (some si) f d h rest, hu, fun rest => ?_⟩
  obtain ⟨n, hn⟩ := decodeFrame_header p (some si) f d h
  exact ⟨n, parseHeaderBytes_ext (some si) f _ hn rest⟩

/-- every non-empty strict prefix of such a frame is detected as truncated -/
theorem truncated_of_cut (p : Profile) (si : SInfo) (part x : List Nat) (d : Decoded)
    (h : decodeFrame p (some si) (part ++ x) = .ok d) (hu : d.used = (part ++ x).length) (hp : part ≠ []) (hx : x ≠ []) :
    Truncated p si part :=
  ⟨hp, decodeFrame_cut p (some si) part x d h hu hx⟩

/-- **C14, without locality hypotheses.**  Take any frames that each decode using all of their bytes
    (what the encoder has written so far) followed by any strict prefix of one more such frame (the
    write that was interrupted).  The decode loop delivers exactly the complete frames, in order, and
    then stops: cleanly if the cut fell on a frame boundary, with an end-of-data error otherwise. -/
theorem interrupted_decodes_complete_frames (p : Profile) (si : SInfo)
    (fs : List (List Nat × Decoded)) (hdec : ∀ fd ∈ fs, decodeFrame p (some si) fd.1 = .ok fd.2 ∧ fd.2.used = fd.1.length)
    (part x : List Nat) (d : Decoded)
    (hcut : part = [] ∨ (x ≠ [] ∧ decodeFrame p (some si) (part ++ x) = .ok d ∧ d.used = (part ++ x).length))
    (fuel cur : Nat) (acc : List (List (List Int))) (hfuel : fs.length < fuel) :
    decodeLoop p si 0 fuel ((fs.map (·.1)).flatten ++ part) cur acc
      = (acc.reverse ++ fs.map (·.2.channels), if part = [] then none else some .eof) := by
  apply prefix_decodes_complete_frames p si fs (fun fd hfd => loc_of_decodes p si fd.1 fd.2 (hdec fd hfd).1 (hdec fd hfd).2) part _ fuel cur acc hfuel
  rcases hcut with h | ⟨hx, hd, hu⟩
  · exact Or.inl h
  · by_cases hp : part = []
    · exact Or.inl hp
    · exact Or.inr (truncated_of_cut p si part x d hd hu hp hx)

end Flac.C14
