/-
  Props/C14.lean — C14: an interrupted encode leaves a file whose complete frames are all decodable.
  Loop-level theorem over `Model/FileDecode.decodeLoop` (the readers' frame loop): for a stream that
  is a sequence of frames followed by a strict prefix of the next one, the loop delivers exactly
  the complete frames, in order, and then stops — cleanly if nothing follows, with an error
  otherwise — never anything else.
-/
import FlacModel.Model.FileDecode

namespace Flac.C14
open Flac

/-- frame locality: `f` decodes to `d` whatever follows it, consuming exactly `f` -/
structure Loc (p : Profile) (si : SInfo) (f : List Nat) (d : Decoded) : Prop where
  dec : ∀ rest, decodeFrame p (some si) (f ++ rest) = .ok d
  used : d.used = f.length
  hdr : ∀ rest, ∃ hu, parseHeaderBytes (some si) (f ++ rest) = .ok (d.hdr, hu, true)

/-- a strict, non-empty prefix of a frame is detected as truncated: either already its header
    runs out of data (reported as an error because `decHeaderEofStrict` holds), or the frame body does -/
def Truncated (p : Profile) (si : SInfo) (part : List Nat) : Prop :=
  part ≠ [] ∧ (parseHeaderBytes (some si) part = .error .eof ∨
    ((∃ h, parseHeaderBytes (some si) part = .ok h) ∧ decodeFrame p (some si) part = .error .eof))

/-- **prefix_decodes_complete_frames** (undeclared total): the loop over
    `f₁ ++ … ++ f_k ++ part` delivers the channels of `f₁ … f_k`, in order, and then stops cleanly if
    `part` is empty, or with an end-of-data error if `part` is a truncated frame -/
theorem prefix_decodes_complete_frames (p : Profile) (si : SInfo)
    (fs : List (List Nat × Decoded)) (hloc : ∀ fd ∈ fs, Loc p si fd.1 fd.2)
    (part : List Nat) (hpart : part = [] ∨ Truncated p si part)
    (fuel cur : Nat) (acc : List (List (List Int))) (hfuel : fs.length < fuel) :
    decodeLoop p si 0 fuel ((fs.map (·.1)).flatten ++ part) cur acc
      = (acc.reverse ++ fs.map (·.2.channels), if part = [] then none else some .eof) := by
  have hstrict : Gen.decHeaderEofStrict = true := rfl
  induction fs generalizing fuel cur acc with
  | nil =>
    cases fuel with
    | zero => omega
    | succ fuel =>
      simp only [List.map_nil, List.flatten_nil, List.nil_append, List.append_nil, decodeLoop]
      have h0 : ((0 : Nat) != 0) = false := rfl
      simp only [h0, Bool.false_eq_true, if_false]
      rcases hpart with rfl | ⟨hne, ht⟩
      · -- nothing left: the header read hits end of input before its first byte
        have : parseHeaderBytes (some si) [] = .error .eof := by
          simp [parseHeaderBytes, readHeaderFields, bytesToBits, bind, P.bind, readU, takeBits, splitExact]
        simp [this]
      · rcases ht with he | ⟨⟨h, hh⟩, hd⟩
        · have hb : part.isEmpty = false := by cases part <;> simp_all
          simp [he, hstrict, hb, hne]
        · simp [hh, hd, hne]
  | cons fd fs ih =>
    cases fuel with
    | zero => simp at hfuel
    | succ fuel =>
      obtain ⟨f, d⟩ := fd
      have hl := hloc (f, d) (by simp)
      simp only [List.map_cons, List.flatten_cons, List.append_assoc, decodeLoop]
      have h0 : ((0 : Nat) != 0) = false := rfl
      simp only [h0, Bool.false_eq_true, if_false]
      obtain ⟨hu, hh⟩ := hl.hdr ((fs.map (·.1)).flatten ++ part)
      simp only [hh, hl.dec]
      have hdrop : (f ++ ((fs.map (·.1)).flatten ++ part)).drop d.used = (fs.map (·.1)).flatten ++ part := by
        rw [hl.used]; simp
      rw [hdrop]
      have := ih (fun x hx => hloc x (by simp [hx])) fuel (cur + d.hdr.blockSize) (d.channels :: acc) (by simp at hfuel; omega)
      rw [this]
      simp

end Flac.C14
