/-
  Props/C05b.lean — C05 for the crate's own checksum code and whole frames:
  (1) whatever the streaming decoder accepts is, byte for byte, the serialization of a well-formed frame (no reserved or
      illegal code, every field in range, both stored checksums equal to the computed ones);
  (2) flipping any single bit of an accepted frame makes the decoder reject it, unless the frame's extent changes.
-/
import FlacModel.Props.C05
import FlacModel.Props.C17b
import FlacModel.Proofs.CrcEq

namespace Flac.C05
open Flac Gen

/-- **Only well-formed frames are accepted.**  If the streaming decoder accepts a frame at the front of `bytes`, the bytes
    it consumed are exactly the serialization of a frame that is well-formed against the STREAMINFO context: legal header
    codes consistent with their fields and with STREAMINFO, legal subframe types, orders, precisions, shifts and partition
    layouts, every value within its field, and both checksums as computed from the content. -/
theorem accepted_frame_is_wellformed (p : Profile) (si : Option SInfo) (bytes : List Nat) (hb : ∀ x ∈ bytes, x < 256) (d : Decoded)
    (h : decodeFrame p si bytes = .ok d) :
    ∃ f : Frame, FrameWf si f ∧ f.hdr = d.hdr ∧ f.serialize = bytes.take d.used := by
  obtain ⟨pr, h1, _, h3, h4, h5⟩ := Flac.C17.decoder_accepts_implies_parser p si bytes d h
  have hbps : pr.frame.hdr.bps ≤ 32 := by
    rw [h4]
    unfold decodeFrame at h
    cases g1 : readHeaderFields si (bytesToBits bytes) with
    | error e => rw [g1] at h; cases h
    | ok v1 =>
      obtain ⟨hd, rest⟩ := v1
      rw [g1] at h; dsimp only at h
      cases g2 : checkStreaminfo si hd with
      | error e => rw [g2] at h; cases h
      | ok u =>
        rw [g2] at h; dsimp only at h
        split at h
        · cases h
        · split at h
          · cases h
          · rename_i hb32
            split at h
            · cases h
            · split at h
              · cases h
              · split at h
                · cases h
                · split at h
                  · cases h
                  · simp only [Except.ok.injEq] at h
                    rw [← h]; dsimp only; omega
  obtain ⟨e, w⟩ := Flac.C17.struct_parse_reserializes true si bytes hb pr h1 h3 hbps
  exact ⟨pr.frame, w, h4, by rw [e, h5]⟩

/-- an accepted frame has CRC-16 remainder 0 over the bytes it consumed -/
theorem accepted_crc16 (p : Profile) (si : Option SInfo) (bytes : List Nat) (d : Decoded)
    (h : decodeFrame p si bytes = .ok d) : crc16 (bytes.take d.used) = 0 := by
  obtain ⟨pr, h1, _, h3, _, h5⟩ := Flac.C17.decoder_accepts_implies_parser p si bytes d h
  rw [Flac.C17.structLayout_eq] at h1
  unfold parseFrame at h1
  cases g1 : readHeaderFields si (bytesToBits bytes) with
  | error e => rw [g1] at h1; cases h1
  | ok v1 =>
    obtain ⟨hd, rest⟩ := v1
    rw [g1] at h1; dsimp only at h1
    cases g2 : checkStreaminfo si hd with
    | error e => rw [g2] at h1; cases h1
    | ok u =>
      rw [g2] at h1; dsimp only at h1
      split at h1
      · cases h1
      · cases g3 : readSubframes decLayout true hd.assign hd.blockSize hd.bps hd.assign.count 0 rest with
        | error e => rw [g3] at h1; cases h1
        | ok v3 =>
          obtain ⟨ss, rest2⟩ := v3
          rw [g3] at h1; dsimp only at h1
          cases g4 : readU 16 (rest2.drop (rest2.length % 8)) with
          | error e => rw [g4] at h1; cases h1
          | ok v4 =>
            obtain ⟨c16, rest3⟩ := v4
            rw [g4] at h1
            simp only [Except.ok.injEq] at h1
            subst h1
            dsimp only at h3 h5
            rw [← h5]
            exact Flac.C17.crcValid16 _ h3

/-- **A single flipped bit is always detected** (for the checksum code of crc.rs, frames of any length): if the decoder
    accepts `f` using all of its bytes, and `f'` differs from `f` in exactly one bit, then the decoder does not accept `f'`
    as a frame of the same extent - in either profile, with any STREAMINFO context. -/
theorem single_bit_flip_rejected (p : Profile) (si : Option SInfo) (f f' : List Nat)
    (hf : ∀ x ∈ f, x < 256) (hf' : ∀ x ∈ f', x < 256) (pre post : Bits) (b : Bool)
    (e : bytesToBits f = pre ++ b :: post) (e' : bytesToBits f' = pre ++ (!b) :: post)
    (d : Decoded) (h : decodeFrame p si f = .ok d) (hu : d.used = f.length) :
    ∀ d', decodeFrame p si f' = .ok d' → d'.used ≠ f'.length := by
  intro d' h' hu'
  have c := accepted_crc16 p si f d h
  have c' := accepted_crc16 p si f' d' h'
  rw [hu, List.take_length] at c
  rw [hu', List.take_length] at c'
  rw [Flac.CrcEq.crc16_eq_spec f hf] at c
  rw [Flac.CrcEq.crc16_eq_spec f' hf'] at c'
  simp only [Spec.crc16, e] at c
  simp only [Spec.crc16, e'] at c'
  exact flip_same_extent_rejected pre post b c c'

end Flac.C05
