/-
  Props/C09c.lean — C09, the MD5 clause at the level of what is hashed: whichever front-end and byte order supplied the PCM and
  however it was cut into write calls, the bytes fed to the MD5 are the little-endian serialisation (`ceil(bps/8)` bytes per sample,
  two's complement = sign-extended to the byte width) of exactly the samples in the blocks handed to the encoder.
  (That STREAMINFO then stores the digest of those bytes is `md5 0.8`, trusted, and is compared on every generated file.)
-/
import FlacModel.Props.C09b
import FlacModel.Props.C08b

namespace Flac.C09
open Flac

/-- what the sample front-ends hash for a list of blocks (`update_md5`): `LittleEndian::iN_to_bytes` of every sample -/
def sampleFrontMd5Input (n : Nat) (blocks : List (List Int)) : List Nat := blocks.flatten.flatMap (sampleBytes n false)

/-- **Byte front-end**: for samples that fit their `n` bytes, serialised in either byte order and written in any pieces, the bytes hashed
    are those the sample front-end would hash for the same PCM — and the blocks encoded are the same (C08.byte_frontend_blocks), so the
    digest describes exactly the audio in the file. -/
theorem md5_input_front_end_independent (n F q : Nat) (hn : 1 ≤ n ∧ n ≤ 4) (hF : 0 < F) (be : Bool) (xs : List Int)
    (hx : ∀ x ∈ xs, C08.inRange n x) (ws : List (List Nat)) (hws : ws.flatten = xs.flatMap (sampleBytes n be)) :
    ((ws.foldl (Wr.write (n * F)) Wr.init).finalize (n * q)).flatMap (byteFrontMd5Input n be)
        = sampleFrontMd5Input n (((Wr.init : Wr Int).write F xs).finalize q)
      ∧ ((ws.foldl (Wr.write (n * F)) Wr.init).finalize (n * q)).map (byteFrontSamples n be) = ((Wr.init : Wr Int).write F xs).finalize q :=
  ⟨C08.byte_frontend_md5 n F q hn hF be xs ws hws, C08.byte_frontend_blocks n F q hn hF be xs hx ws hws⟩

/-- what is hashed is the serialisation of what is encoded: a trailing partial PCM frame is in neither -/
theorem md5_input_is_encoded_pcm (n F q : Nat) (hF : 0 < F) (hq : 0 < q) (hdiv : q ∣ F) (xs : List Int) :
    sampleFrontMd5Input n (((Wr.init : Wr Int).write F xs).finalize q) = (xs.take (xs.length - xs.length % q)).flatMap (sampleBytes n false) := by
  have hinv : C08.Inv F xs ((Wr.init : Wr Int).write F xs) := by
    have h0 : C08.Inv F ([] : List Int) Wr.init := ⟨by simp [Wr.init], by simp [Wr.init], by simpa [Wr.init] using hF⟩
    simpa using C08.write_inv F hF [] xs Wr.init h0
  rw [sampleFrontMd5Input, (C08.partial_pcm_frame_dropped F q hF hq hdiv xs _ hinv).1]

end Flac.C09
