/-
  Props/C03b.lean — C03 at the level of whole frames: whatever the independent RFC-level decoder
  `Spec.specDecode` accepts, the model of the crate's streaming decoder accepts too, consuming the same bytes
  and returning exactly the samples the specification defines (all subframe depths up to 32 bits; the 33-bit
  side channel of 32-bit stereo is covered at kernel level by `wide_*_refines_spec`).
-/
import FlacModel.Props.C03
import FlacModel.Proofs.DecodeFacts
import FlacModel.Proofs.CodecConv
import FlacModel.Proofs.CrcEq

namespace Flac.C03
open Flac Gen

/-! ### the specification's partition rule and the decoder's -/

theorem rfcLayout_fits : LayoutFits Spec.rfcLayout := by
  intro bs o po sizes h
  simp only [Spec.rfcLayout] at h
  by_cases hdiv : bs % 2 ^ po ≠ 0
  · rw [if_pos hdiv] at h; cases h
  · rw [if_neg hdiv] at h
    by_cases hle : bs / 2 ^ po ≤ o
    · rw [if_pos hle] at h; cases h
    · have := Nat.div_le_self bs (2 ^ po); omega

theorem resWf_transfer (bs o : Nat) (r : Residual) (h : resWf Spec.rfcLayout bs o r) : resWf decLayout bs o r := by
  obtain ⟨h1, h2, sizes, h3, h4⟩ := h
  exact ⟨h1, h2, sizes, decLayout_eq_rfc bs o r.order sizes h3, h4⟩

theorem subWf_transfer (bs bps : Nat) (s : Subframe) (h : subWf Spec.rfcLayout bs bps s) : subWf decLayout bs bps s := by
  obtain ⟨wasted, body⟩ := s
  obtain ⟨hw, hb⟩ := h
  refine ⟨hw, ?_⟩
  cases body with
  | constant v => exact hb
  | verbatim xs => exact hb
  | fixed o warm res =>
    obtain ⟨a, b, c, d, e⟩ := hb
    exact ⟨a, b, c, d, resWf_transfer _ _ _ e⟩
  | lpc o warm prec shift coefs res =>
    obtain ⟨a, b, c, d, e, f, g, i, j, k, l⟩ := hb
    exact ⟨a, b, c, d, e, f, g, i, j, k, resWf_transfer _ _ _ l⟩

/-- a subframe the specification's parser reads is read identically by the streaming decoder's parser -/
theorem readSubframe_agree (bs d : Nat) (b : Bits) (s : Subframe) (r : Bits)
    (h : readSubframe Spec.rfcLayout false bs d b = .ok (s, r)) :
    readSubframe decLayout true bs d b = .ok (s, r) ∧ subWf decLayout bs d s := by
  obtain ⟨e, w⟩ := readSubframe_sound Spec.rfcLayout rfcLayout_fits false bs d b s r h
  have w' := subWf_transfer bs d s w
  rw [e]
  exact ⟨readSubframe_write decLayout true bs d s r w', w'⟩

/-! ### samples of one subframe -/

theorem int_pow_mono (a b : Nat) (h : a ≤ b) : (2 : Int) ^ a ≤ 2 ^ b := by
  have : ((2 ^ a : Nat) : Int) ≤ ((2 ^ b : Nat) : Int) := Int.ofNat_le.mpr (Nat.pow_le_pow_right (by decide) h)
  simpa using this

theorem fits_mono (n m : Nat) (h : n ≤ m) (x : Int) (hx : fitsS n x = true) : fitsS m x = true := by
  simp only [fitsS, Bool.and_eq_true, decide_eq_true_eq] at hx ⊢
  have hp := int_pow_mono (n - 1) (m - 1) (by omega)
  omega

theorem fits_of_scaled (w : Nat) (y : Int) (h : fitsS 32 (y * 2 ^ w) = true) : fitsS 32 y = true := by
  rw [fitsS32_iff] at h ⊢
  have hK : (1 : Int) ≤ 2 ^ w := by
    have : (0 : Int) < 2 ^ w := Int.pow_pos (by decide)
    omega
  by_cases hy : 0 ≤ y
  · have := Int.mul_le_mul_of_nonneg_left hK hy
    rw [Int.mul_one] at this
    omega
  · have h1 : 0 ≤ -y := by omega
    have := Int.mul_le_mul_of_nonneg_left hK h1
    rw [Int.mul_one, Int.neg_mul] at this
    omega


theorem fixedCoefs_eq (o : Nat) (ho : o ≤ 4) : Spec.fixedCoefs o = fixedCoeffs.getD o [] := by
  match o, ho with
  | 0, _ | 1, _ | 2, _ | 3, _ | 4, _ => rfl

/-- the tail of `decodeSub` after the body has been expanded -/
theorem finish_wasted (p : Profile) (w : Nat) (hw : w < 32) (ys : List Int)
    (hfit : ∀ x ∈ ys.map (· * 2 ^ w), fitsS 32 x = true) :
    (if w > 0 then mapM' (wastedShl p 32 w) ys else .ok ys) = .ok (ys.map (· * 2 ^ w)) := by
  by_cases h0 : w > 0
  · rw [if_pos h0]
    exact Flac.mapM'_wasted p w hw ys (fun y hy => hfit _ (List.mem_map.mpr ⟨y, hy, rfl⟩))
  · rw [if_neg h0]
    have : w = 0 := by omega
    subst this
    simp

theorem unscaled_fit (w : Nat) (ys : List Int) (hfit : ∀ x ∈ ys.map (· * 2 ^ w), fitsS 32 x = true) :
    ∀ y ∈ ys, fitsS 32 y = true :=
  fun y hy => fits_of_scaled w y (hfit _ (List.mem_map.mpr ⟨y, hy, rfl⟩))

/-- **one subframe**: the decoder's expansion is the specification's, whenever the specified samples fit 32 bits -/
theorem decodeSub_spec (p : Profile) (bs d : Nat) (hd : d ≤ 32) (s : Subframe) (w : subWf decLayout bs d s)
    (hfit : ∀ x ∈ Spec.subframeSamples bs s, fitsS 32 x = true) :
    decodeSub p 32 bs s = .ok (Spec.subframeSamples bs s) := by
  obtain ⟨wasted, body⟩ := s
  obtain ⟨hw, hb⟩ := w
  have hw32 : wasted < 32 := by dsimp only at hw; omega
  cases body with
  | constant v =>
    simp only [decodeSub, Spec.subframeSamples] at hfit ⊢
    exact finish_wasted p wasted hw32 _ hfit
  | verbatim xs =>
    simp only [decodeSub, Spec.subframeSamples] at hfit ⊢
    exact finish_wasted p wasted hw32 _ hfit
  | fixed o warm res =>
    obtain ⟨ho, _, _, _, _⟩ := hb
    simp only [decodeSub, Spec.subframeSamples, fixedCoefs_eq o ho] at hfit ⊢
    obtain ⟨c1, c2, _⟩ := Flac.fixedCoeffs_ok o
    have := predict_refines_spec p (fixedCoeffs.getD o []) 0 (by decide) c1 c2 res.residuals warm.reverse
      (unscaled_fit wasted _ hfit)
    simp only [predict, this]
    exact finish_wasted p wasted hw32 _ hfit
  | lpc o warm prec shift coefs res =>
    obtain ⟨_, ho, _, _, _, hp1, hp, hs, hcl, hcf, _⟩ := hb
    simp only [decodeSub, Spec.subframeSamples] at hfit ⊢
    have c1 : ∀ c ∈ coefs, fitsS 16 c = true := fun c hc => fits_mono prec 16 (by omega) c (hcf c hc)
    have := predict_refines_spec p coefs shift (by omega) c1 (by omega) res.residuals warm.reverse
      (unscaled_fit wasted _ hfit)
    simp only [predict, this]
    exact finish_wasted p wasted hw32 _ hfit


/-- **all subframes**: what the specification's parser reads, the streaming decoder reads and expands to the
    specified samples, leaving the same rest -/
theorem decSubframes_spec (p : Profile) (a : Assign) (bs bps : Nat) (hn : ∀ j, subBps a bps j ≤ 32) (n i : Nat) (b : Bits)
    (ss : List Subframe) (r : Bits)
    (h : readSubframes Spec.rfcLayout false a bs bps n i b = .ok (ss, r))
    (hfit : ∀ s ∈ ss, ∀ x ∈ Spec.subframeSamples bs s, fitsS 32 x = true) :
    decSubframes p a bs bps n i b = .ok (ss.map (Spec.subframeSamples bs), r) := by
  induction n generalizing i b ss with
  | zero =>
    simp only [readSubframes, Except.ok.injEq, Prod.mk.injEq] at h
    obtain ⟨rfl, rfl⟩ := h
    rfl
  | succ n ih =>
    simp only [readSubframes] at h
    cases h1 : readSubframe Spec.rfcLayout false bs (subBps a bps i) b with
    | error e => rw [h1] at h; cases h
    | ok v1 =>
      obtain ⟨s, b1⟩ := v1
      rw [h1] at h; dsimp only at h
      cases h2 : readSubframes Spec.rfcLayout false a bs bps n (i + 1) b1 with
      | error e => rw [h2] at h; cases h
      | ok v2 =>
        obtain ⟨ss', b2⟩ := v2
        rw [h2] at h
        simp only [Except.ok.injEq, Prod.mk.injEq] at h
        obtain ⟨rfl, rfl⟩ := h
        obtain ⟨g1, w1⟩ := readSubframe_agree bs _ b s b1 h1
        have hw : subWidth a bps i = 32 := by
          have := hn i
          simp only [subWidth]
          rw [if_neg (by omega)]
        simp only [decSubframes, g1, hw]
        rw [decodeSub_spec p bs _ (hn i) s w1 (hfit s (by simp))]; dsimp only
        rw [ih (i + 1) b1 ss' h2 (fun t ht => hfit t (by simp [ht]))]
        rfl

/-! ### from the specification's fit test to per-subframe facts -/

theorem zip_range_all {α : Type} (P : α → Nat → Bool) (xs : List α) (k : Nat) :
    (List.zip xs ((List.range xs.length).map (· + k))).all (fun q => P q.1 q.2) = true →
    ∀ j (hj : j < xs.length), P xs[j] (j + k) = true := by
  induction xs generalizing k with
  | nil => intro _ j hj; simp at hj
  | cons x xs ih =>
    intro h j hj
    rw [List.length_cons, List.range_succ_eq_map, List.map_cons, List.map_map, List.zip_cons_cons, List.all_cons,
      Bool.and_eq_true] at h
    cases j with
    | zero => simpa using h.1
    | succ j =>
      have h2 := h.2
      have e : (List.map ((fun x => x + k) ∘ Nat.succ) (List.range xs.length)) = (List.range xs.length).map (· + (k + 1)) := by
        apply List.map_congr_left; intro a _; simp only [Function.comp]; omega
      rw [e] at h2
      have := ih (k + 1) h2 j (by simpa using hj)
      simp only [List.getElem_cons_succ]
      have e2 : j + 1 + k = j + (k + 1) := by omega
      rw [e2]; exact this


/-! ### channel reconstruction -/

theorem zip_left_spec (p : Profile) (l s : List Int)
    (h : ∀ x ∈ List.zipWith (fun l s => l - s) l s, fitsS 32 x = true) :
    zipWithM (decLeftSide p) l s = .ok (List.zipWith (fun l s => l - s) l s) := by
  induction l generalizing s with
  | nil => simp [zipWithM]
  | cons a l ih =>
    cases s with
    | nil => simp [zipWithM]
    | cons b s =>
      simp only [List.zipWith_cons_cons, zipWithM]
      rw [leftside_refines_spec p a b (h _ (by simp))]; dsimp only
      rw [ih s (fun x hx => h x (by simp [hx]))]

theorem zip_right_spec (p : Profile) (s r : List Int)
    (h : ∀ x ∈ List.zipWith (fun s r => s + r) s r, fitsS 32 x = true) :
    zipWithM (decSideRight p) s r = .ok (List.zipWith (fun s r => s + r) s r) := by
  induction s generalizing r with
  | nil => simp [zipWithM]
  | cons a s ih =>
    cases r with
    | nil => simp [zipWithM]
    | cons b r =>
      simp only [List.zipWith_cons_cons, zipWithM]
      rw [sideright_refines_spec p a b (h _ (by simp))]; dsimp only
      rw [ih r (fun x hx => h x (by simp [hx]))]

theorem zip_mid_spec (p : Profile) (mid side : List Int)
    (hm : ∀ m ∈ mid, fitsS 31 m = true) (hs : ∀ s ∈ side, fitsS 32 s = true)
    (hL : ∀ x ∈ List.zipWith (fun m s => (2 * m + s % 2 + s) / 2) mid side, fitsS 31 x = true)
    (hR : ∀ x ∈ List.zipWith (fun m s => (2 * m + s % 2 - s) / 2) mid side, fitsS 31 x = true) :
    zipWithM (midSide32 p) mid side
      = .ok (List.zipWith (fun m s => ((2 * m + s % 2 + s) / 2, (2 * m + s % 2 - s) / 2)) mid side) := by
  induction mid generalizing side with
  | nil => simp [zipWithM]
  | cons a mid ih =>
    cases side with
    | nil => simp [zipWithM]
    | cons b side =>
      simp only [List.zipWith_cons_cons, zipWithM]
      have h1 := hm a (by simp)
      have h2 := hs b (by simp)
      have h3 := hL ((2 * a + b % 2 + b) / 2) (by simp)
      have h4 := hR ((2 * a + b % 2 - b) / 2) (by simp)
      have hmin : -2147483648 < b := by
        rw [fitsS31_iff] at h1 h3 h4
        rw [fitsS32_iff] at h2
        omega
      rw [midside_refines_spec p a b h1 h2 h3 h4 hmin]; dsimp only
      rw [ih side (fun x hx => hm x (by simp [hx])) (fun x hx => hs x (by simp [hx]))
        (fun x hx => hL x (by simp [hx])) (fun x hx => hR x (by simp [hx]))]

/-- **channel reconstruction follows the specification** for depths up to 31 bits in the decorrelated modes (any depth
    for independent channels), whenever the specified inputs and outputs fit their depths -/
theorem recorrelate_spec (p : Profile) (a : Assign) (bps : Nat) (chs : List (List Int))
    (hdepth : a = .indep a.count ∨ bps ≤ 31)
    (hin : ∀ j (hj : j < chs.length), ∀ x ∈ chs[j], fitsS (subBps a bps j) x = true)
    (hout : ∀ xs ∈ Spec.undoStereo a chs, ∀ x ∈ xs, fitsS bps x = true) :
    recorrelate p a bps chs = .ok (Spec.undoStereo a chs) := by
  cases a with
  | indep n => simp [recorrelate, Spec.undoStereo]
  | leftSide =>
    have hb : bps ≤ 31 := by rcases hdepth with h | h; · cases h
                             · exact h
    match chs, hin, hout with
    | [left, side], hin, hout =>
      simp only [recorrelate, Spec.undoStereo, show bps < 32 by omega, if_true] at hout ⊢
      rw [zip_left_spec p left side (fun x hx => fits_mono bps 32 (by omega) x (hout _ (by simp) x hx))]
    | [], _, _ => simp [recorrelate, Spec.undoStereo]
    | [_], _, _ => simp [recorrelate, Spec.undoStereo]
    | _ :: _ :: _ :: _, _, _ => simp [recorrelate, Spec.undoStereo]
  | sideRight =>
    have hb : bps ≤ 31 := by rcases hdepth with h | h; · cases h
                             · exact h
    match chs, hin, hout with
    | [side, right], hin, hout =>
      simp only [recorrelate, Spec.undoStereo, show bps < 32 by omega, if_true] at hout ⊢
      rw [zip_right_spec p side right (fun x hx => fits_mono bps 32 (by omega) x (hout _ (by simp) x hx))]
    | [], _, _ => simp [recorrelate, Spec.undoStereo]
    | [_], _, _ => simp [recorrelate, Spec.undoStereo]
    | _ :: _ :: _ :: _, _, _ => simp [recorrelate, Spec.undoStereo]
  | midSide =>
    have hb : bps ≤ 31 := by rcases hdepth with h | h; · cases h
                             · exact h
    match chs, hin, hout with
    | [mid, side], hin, hout =>
      simp only [recorrelate, Spec.undoStereo, show bps < 32 by omega, if_true] at hout ⊢
      have hm : ∀ m ∈ mid, fitsS 31 m = true := fun m hmm =>
        fits_mono bps 31 hb m (by have := hin 0 (by simp) m (by simpa using hmm); simpa [subBps] using this)
      have hs : ∀ s ∈ side, fitsS 32 s = true := fun s hss =>
        fits_mono (bps + 1) 32 (by omega) s (by have := hin 1 (by simp) s (by simpa using hss); simpa [subBps] using this)
      rw [zip_mid_spec p mid side hm hs
        (fun x hx => fits_mono bps 31 hb x (hout _ (by simp) x hx))
        (fun x hx => fits_mono bps 31 hb x (hout _ (by simp) x hx))]
      simp only [List.map_zipWith]
    | [], _, _ => simp [recorrelate, Spec.undoStereo]
    | [_], _, _ => simp [recorrelate, Spec.undoStereo]
    | _ :: _ :: _ :: _, _, _ => simp [recorrelate, Spec.undoStereo]


/-! ### whole frames -/

theorem take_lt' (bytes : List Nat) (hb : ∀ x ∈ bytes, x < 256) (k : Nat) : ∀ x ∈ bytes.take k, x < 256 :=
  fun x hx => hb x (List.mem_of_mem_take hx)

theorem frameWf_bps (f : Frame) (h : Spec.frameWf f = true) : f.hdr.bps ≤ 32 := by
  simp only [Spec.frameWf, Spec.headerWf, Bool.and_eq_true, decide_eq_true_eq, Bool.not_eq_true'] at h
  obtain ⟨⟨⟨h1, _⟩, _⟩, _⟩ := h
  obtain ⟨⟨⟨⟨⟨⟨⟨_, _⟩, _⟩, _⟩, hb⟩, _⟩, _⟩, _⟩ := h1
  exact hb


theorem subBps_le (a : Assign) (bps : Nat) (hb : bps ≤ 32) (hdepth : a = .indep a.count ∨ bps ≤ 31) (j : Nat) :
    subBps a bps j ≤ 32 := by
  cases a with
  | indep n => simp [subBps]; exact hb
  | leftSide =>
    have : bps ≤ 31 := by rcases hdepth with h | h; · cases h
                          · exact h
    unfold subBps; split <;> omega
  | sideRight =>
    have : bps ≤ 31 := by rcases hdepth with h | h; · cases h
                          · exact h
    unfold subBps; split <;> omega
  | midSide =>
    have : bps ≤ 31 := by rcases hdepth with h | h; · cases h
                          · exact h
    unfold subBps; split <;> omega

/-- **The decoder follows the specification on every frame the specification accepts.**  For every byte string,
    every STREAMINFO context and both build profiles: if the independent RFC-level decoder accepts a frame at the
    front of `bytes` (depths up to 31 bits in the decorrelated stereo modes, up to 32 bits for independent channels),
    the crate's streaming decoder accepts it too, consumes exactly the same bytes and returns exactly the samples the
    specification defines - including every construct this encoder never emits. -/
theorem spec_accepts_implies_decoder (p : Profile) (si : Option SInfo) (bytes : List Nat) (hb : ∀ x ∈ bytes, x < 256)
    (d : Spec.Decoded) (h : Spec.specDecode si bytes = .ok d)
    (hdepth : d.frame.hdr.assign = .indep d.frame.hdr.assign.count ∨ d.frame.hdr.bps ≤ 31) :
    decodeFrame p si bytes = .ok { hdr := d.frame.hdr, channels := d.channels, used := d.used } := by
  unfold Spec.specDecode at h
  cases g0 : parseFrame Spec.rfcLayout false si bytes false with
  | error e => rw [g0] at h; cases h
  | ok pr =>
    rw [g0] at h; dsimp only at h
    by_cases c1 : (Spec.crc8 (bytes.take pr.hdrUsed) != 0) = true
    · rw [if_pos c1] at h; cases h
    rw [if_neg c1] at h
    by_cases c2 : (!Spec.frameWf pr.frame) = true
    · rw [if_pos c2] at h; cases h
    rw [if_neg c2] at h
    by_cases c3 : (Spec.crc16 (bytes.take pr.used) != 0) = true
    · rw [if_pos c3] at h; cases h
    rw [if_neg c3] at h
    by_cases c4 : (!Spec.frameSamplesFit pr.frame) = true
    · rw [if_pos c4] at h; cases h
    rw [if_neg c4] at h
    simp only [Except.ok.injEq] at h
    subst h
    dsimp only at hdepth ⊢
    have k1 : Spec.crc8 (bytes.take pr.hdrUsed) = 0 := by simpa using c1
    have k2 : Spec.frameWf pr.frame = true := by simpa using c2
    have k3 : Spec.crc16 (bytes.take pr.used) = 0 := by simpa using c3
    have k4 : Spec.frameSamplesFit pr.frame = true := by simpa using c4
    -- the parse
    unfold parseFrame at g0
    unfold decodeFrame
    cases g1 : readHeaderFields si (bytesToBits bytes) with
    | error e => rw [g1] at g0; cases g0
    | ok v1 =>
      obtain ⟨hd, rest⟩ := v1
      rw [g1] at g0; dsimp only at g0 ⊢
      cases g2 : checkStreaminfo si hd with
      | error e => rw [g2] at g0; cases g0
      | ok u =>
        cases u
        rw [g2] at g0; dsimp only at g0 ⊢
        simp only [Bool.false_and, Bool.false_eq_true, if_false] at g0
        cases g3 : readSubframes Spec.rfcLayout false hd.assign hd.blockSize hd.bps hd.assign.count 0 rest with
        | error e => rw [g3] at g0; cases g0
        | ok v3 =>
          obtain ⟨subs, rest2⟩ := v3
          rw [g3] at g0; dsimp only at g0
          cases g4 : readU 16 (rest2.drop (rest2.length % 8)) with
          | error e => rw [g4] at g0; cases g0
          | ok v4 =>
            obtain ⟨c16, rest3⟩ := v4
            rw [g4] at g0
            simp only [Except.ok.injEq] at g0
            subst g0
            dsimp only at k1 k2 k3 k4 hdepth ⊢
            -- checksums through the all-messages CRC theorem
            have e8 := Flac.CrcEq.crc8_eq_spec _ (take_lt' bytes hb (bytes.length - rest.length / 8))
            have e16 := Flac.CrcEq.crc16_eq_spec _ (take_lt' bytes hb (bytes.length - rest3.length / 8))
            have v8 : (!crc8Valid (crc8 (bytes.take (bytes.length - rest.length / 8)))) = false := by
              rw [e8, k1]; decide
            have v16 : (!crc16Valid (crc16 (bytes.take (bytes.length - rest3.length / 8)))) = false := by
              rw [e16, k3]; decide
            -- well-formedness facts
            have hb32 := frameWf_bps _ k2
            dsimp only at hb32
            have hn := subBps_le hd.assign hd.bps hb32 hdepth
            have hb32' : ¬ hd.bps > 32 := by omega
            simp only [v8, Bool.false_eq_true, if_false, hb32']
            -- samples
            simp only [Spec.frameSamplesFit, Bool.and_eq_true] at k4
            obtain ⟨f1, f2⟩ := k4
            have f1' := zip_range_all (fun (xs : List Int) i => xs.all (fitsS (subBps hd.assign hd.bps i)))
              (Spec.frameSubSamples { hdr := hd, subs := subs, padding := rest2.take (rest2.length % 8), footer := c16 }) 0
              (by simpa [Spec.frameSubSamples] using f1)
            simp only [Spec.frameSubSamples, List.length_map, List.getElem_map, Nat.add_zero, List.all_eq_true] at f1'
            have hfit32 : ∀ s ∈ subs, ∀ x ∈ Spec.subframeSamples hd.blockSize s, fitsS 32 x = true := by
              intro s hs x hx
              obtain ⟨j, hj, rfl⟩ := List.getElem_of_mem hs
              exact fits_mono _ 32 (hn j) x (f1' j hj x hx)
            rw [decSubframes_spec p hd.assign hd.blockSize hd.bps hn _ 0 rest subs rest2 g3 hfit32]; dsimp only
            have hrec := recorrelate_spec p hd.assign hd.bps (subs.map (Spec.subframeSamples hd.blockSize)) hdepth
              (by
                intro j hj x hx
                simp only [List.length_map] at hj
                simp only [List.getElem_map] at hx
                exact f1' j hj x hx)
              (by
                intro xs hxs x hx
                simp only [Spec.frameSamples, Spec.frameSubSamples, List.all_eq_true] at f2
                exact f2 xs hxs x hx)
            rw [hrec]; dsimp only
            rw [g4]; dsimp only
            simp only [v16, Bool.false_eq_true, if_false]
            rfl

end Flac.C03
