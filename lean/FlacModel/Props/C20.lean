/-
  Props/C20.lean — cue sheet text import reproduces the layout the text describes.

  The importer is `cueParse = interp ∘ map classify ∘ lines`.  The theorems below are about
  `interp` on the classified lines of ANY well-formed layout (unbounded number of tracks and index
  points), plus the lexical facts for MM:SS:FF positions.
-/
import FlacModel.Props.C12

namespace Flac.C20
open Flac Flac.Gen Flac.C12

structure LIndex where
  number : Nat
  pos : Nat                   -- absolute position in samples, as written (MM:SS:FF × 588)
deriving Repr

structure LTrack where
  number : Nat
  isrc : List Nat             -- [] = no ISRC line
  pre : Bool                  -- FLAGS PRE line
  first : LIndex
  more : List LIndex
deriving Repr

def idxTok (i : LIndex) : Tok := .index (some i.number) (some i.pos)

def trackToks (t : LTrack) : List Tok :=
  [.track (some t.number)] ++ (if t.isrc.isEmpty then [] else [.isrc (some t.isrc)]) ++ (if t.pre then [.flagsPre] else [])
    ++ (idxTok t.first :: t.more.map idxTok)

def rel (base : Nat) (i : LIndex) : CIndex := { offset := i.pos - base, number := i.number }

def wipOf (t : LTrack) : Wip :=
  { number := t.number, offset := some t.first.pos, isrc := t.isrc, preEmph := t.pre, points := rel t.first.pos t.first :: t.more.map (rel t.first.pos) }

def trackOf (t : LTrack) : CTrack :=
  { offset := t.first.pos, number := t.number, isrc := t.isrc, nonAudio := false, preEmph := t.pre,
    points := rel t.first.pos t.first :: t.more.map (rel t.first.pos) }

/-- the later index points of a track: consecutive numbers, strictly increasing positions, room left -/
def idxChainOk (lastPos lastNum count : Nat) : List LIndex → Prop
  | [] => True
  | i :: r => i.number = lastNum + 1 ∧ i.number < 256 ∧ lastPos < i.pos ∧ i.pos < 2 ^ 64 ∧ count < cueCddaIndexMax ∧ idxChainOk i.pos i.number (count + 1) r

theorem getLast_append_one {α} (l : List α) (x : α) : (l ++ [x]).getLast? = some x := by simp

/-- running the remaining INDEX lines of a track -/
theorem idx_run (p : Profile) (base : Nat) (more : List LIndex) (s : PState) (w : Wip) (pts : List CIndex) (lastPos lastNum : Nat)
    (hw : s.wip = some w) (hoff : w.offset = some base) (hpts : w.points = pts)
    (hlast : pts.getLast? = some ⟨lastPos - base, lastNum⟩) (hbase : base ≤ lastPos)
    (hc : idxChainOk lastPos lastNum pts.length more) :
    runToks p true s (more.map idxTok) = .ok { s with wip := some { w with points := pts ++ more.map (rel base) } } := by
  induction more generalizing s w pts lastPos lastNum with
  | nil =>
    simp only [List.map_nil, runToks, List.append_nil]
    cases s; cases w; simp_all
  | cons i r ih =>
    obtain ⟨wn, wo, wi, wpre, wpts⟩ := w
    simp only at hoff hpts
    subst hoff hpts
    obtain ⟨h1, h2, h3, h4, h5, h6⟩ := hc
    have hguard : cueIndexBeforeTrackIsError = true := rfl
    simp only [List.map_cons, runToks, idxTok, stepTok, hw]
    have hlt : ¬ (i.pos < base) := by omega
    simp only [hguard, Bool.true_and, decide_eq_true_eq, hlt, ↓reduceIte]
    have hfit : fitsU 64 ((i.pos : Int) - (base : Int)) = true := by simp [fitsU]; omega
    simp only [subU, resU_fits p 64 _ _ hfit]
    have hpush : pushIndex p cueCddaIndexMax wpts { offset := ((i.pos : Int) - (base : Int)).toNat, number := i.number }
        = .ok (wpts ++ [rel base i]) := by
      have hfit8 : fitsU 8 ((lastNum : Int) + 1) = true := by simp [fitsU]; omega
      have hrel : ((i.pos : Int) - (base : Int)).toNat = i.pos - base := by omega
      simp only [pushIndex, h5, ↓reduceIte, hlast, addU, resU_fits p 8 _ _ hfit8, hrel]
      have : i.pos - base > lastPos - base := by omega
      simp only [this, ↓reduceIte]
      have : ((i.number : Int) == (lastNum : Int) + 1) = true := by simp; omega
      simp [this, rel]
    simp only [↓reduceIte, hpush]
    have := ih (s := { s with wip := some { number := wn, offset := some base, isrc := wi, preEmph := wpre, points := wpts ++ [rel base i] } })
      (w := { number := wn, offset := some base, isrc := wi, preEmph := wpre, points := wpts ++ [rel base i] })
      (pts := wpts ++ [rel base i]) (lastPos := i.pos) (lastNum := i.number) rfl rfl rfl
      (by simp [rel]) (by omega) (by simpa using h6)
    rw [this]
    simp [List.append_assoc]


theorem runToks_append (p : Profile) (cdda : Bool) (a b : List Tok) (s : PState) :
    runToks p cdda s (a ++ b) = (match runToks p cdda s a with | .error e => .error e | .ok s' => runToks p cdda s' b) := by
  induction a generalizing s with
  | nil => simp [runToks]
  | cons t r ih =>
    simp only [List.cons_append, runToks]
    cases stepTok p cdda s t with
    | error e => rfl
    | ok s' => exact ih s'

/-- what one track's lines must satisfy on their own -/
def localOk (t : LTrack) : Prop :=
  (t.first.number = 0 ∨ t.first.number = 1) ∧ t.first.pos < 2 ^ 64 ∧ idxChainOk t.first.pos t.first.number 1 t.more
    ∧ (t.first.number = 0 → t.more ≠ [])

/-- ISRC / FLAGS / INDEX lines of a track, after its TRACK line -/
theorem track_body_run (p : Profile) (t : LTrack) (s : PState) (hw : s.wip = some { number := t.number })
    (hfirst : s.tracks = [] → t.first.pos = 0) (hl : localOk t) :
    runToks p true s ((if t.isrc.isEmpty then [] else [Tok.isrc (some t.isrc)]) ++ (if t.pre then [Tok.flagsPre] else [])
        ++ (idxTok t.first :: t.more.map idxTok))
      = .ok { s with wip := some (wipOf t) } := by
  obtain ⟨h1, h2, h3, h4⟩ := hl
  -- ISRC line
  have e1 : runToks p true s (if t.isrc.isEmpty then [] else [Tok.isrc (some t.isrc)])
      = .ok { s with wip := some { number := t.number, isrc := t.isrc } } := by
    by_cases hi : t.isrc.isEmpty = true
    · have : t.isrc = [] := by simpa using hi
      simp only [hi, ↓reduceIte, runToks]
      cases s; simp_all
    · simp only [hi, Bool.false_eq_true, ↓reduceIte, runToks, stepTok, hw]
      simp
  -- FLAGS line
  have e2 : runToks p true { s with wip := some { number := t.number, isrc := t.isrc } } (if t.pre then [Tok.flagsPre] else [])
      = .ok { s with wip := some { number := t.number, isrc := t.isrc, preEmph := t.pre } } := by
    cases hp : t.pre with
    | false => simp [runToks]
    | true => simp [runToks, stepTok]
  -- first INDEX line
  have e3 : stepTok p true { s with wip := some { number := t.number, isrc := t.isrc, preEmph := t.pre } } (idxTok t.first)
      = .ok { s with wip := some { number := t.number, offset := some t.first.pos, isrc := t.isrc, preEmph := t.pre, points := [rel t.first.pos t.first] } } := by
    have hz : (s.tracks.isEmpty && t.first.pos != 0) = false := by
      cases hs : s.tracks with
      | nil => simp [hfirst hs]
      | cons _ _ => simp
    have hpush : pushIndex p cueCddaIndexMax [] { offset := 0, number := t.first.number } = .ok [{ offset := 0, number := t.first.number }] := by
      have : (t.first.number == 0 || t.first.number == 1) = true := by
        rcases h1 with h | h <;> simp [h]
      have e : (0 : Nat) < cueCddaIndexMax := by decide
      simp [pushIndex, this, e]
    simp only [idxTok, stepTok, hz, Bool.false_eq_true, ↓reduceIte, hpush, rel, Nat.sub_self]
  rw [runToks_append, runToks_append, e1]
  dsimp only
  rw [e2]
  dsimp only
  simp only [runToks, e3]
  have := idx_run p t.first.pos t.more
    { s with wip := some { number := t.number, offset := some t.first.pos, isrc := t.isrc, preEmph := t.pre, points := [rel t.first.pos t.first] } }
    { number := t.number, offset := some t.first.pos, isrc := t.isrc, preEmph := t.pre, points := [rel t.first.pos t.first] }
    [rel t.first.pos t.first] t.first.pos t.first.number rfl rfl rfl (by simp [rel]) (Nat.le_refl _) (by simpa using h3)
  rw [this]
  simp [wipOf]


def lastPosOf (t : LTrack) : Nat := ((t.first :: t.more).getLast (by simp)).pos

theorem lastIndexOffset_trackOf (t : LTrack) : lastIndexOffset (trackOf t) = lastPosOf t - t.first.pos := by
  simp only [lastIndexOffset, trackOf, lastPosOf]
  have : (rel t.first.pos t.first :: t.more.map (rel t.first.pos)) = (t.first :: t.more).map (rel t.first.pos) := by simp
  rw [this, List.getLast?_map, List.getLast?_eq_getLast (by simp)]
  simp [rel]

theorem finishWip_wipOf (t : LTrack) (hl : localOk t) : finishWip (wipOf t) = .ok (trackOf t) := by
  obtain ⟨h1, _, h3, h4⟩ := hl
  simp only [finishWip, wipOf, rel]
  rcases h1 with h | h
  · have hm := h4 h
    cases hmore : t.more with
    | nil => exact absurd hmore hm
    | cons m r =>
      rw [hmore] at h3
      simp only [idxChainOk] at h3
      have : m.number = 1 := by omega
      simp [h, this, trackOf, rel, hmore]
  · simp [h, trackOf, rel]

/-- the later tracks: consecutive numbers, each starting after everything before it, room left -/
def restOk (doneLen : Nat) (prev : LTrack) : List LTrack → Prop
  | [] => True
  | t :: r => t.number = prev.number + 1 ∧ prev.number + 1 ≤ 255 ∧ doneLen + 1 < cueCddaTrackMax ∧ lastPosOf prev < t.first.pos
      ∧ localOk t ∧ restOk (doneLen + 1) t r

/-- running the lines of all remaining tracks -/
theorem tracks_run (p : Profile) (ts : List LTrack) (prev : LTrack) (done : List CTrack) (cat : Option (List Nat))
    (hprev : localOk prev)
    (hpush : pushTrack cueCddaTrackMax done (trackOf prev) = .ok (done ++ [trackOf prev]))
    (hr : restOk done.length prev ts) :
    runToks p true { catalog := cat, tracks := done, wip := some (wipOf prev) } (ts.flatMap trackToks)
      = .ok { catalog := cat, tracks := done ++ ((prev :: ts).dropLast).map trackOf, wip := some (wipOf ((prev :: ts).getLast (by simp))) }
    ∧ localOk ((prev :: ts).getLast (by simp))
    ∧ pushTrack cueCddaTrackMax (done ++ ((prev :: ts).dropLast).map trackOf) (trackOf ((prev :: ts).getLast (by simp)))
        = .ok (done ++ ((prev :: ts).dropLast).map trackOf ++ [trackOf ((prev :: ts).getLast (by simp))]) := by
  induction ts generalizing prev done with
  | nil => refine ⟨by simp [runToks], by simpa using hprev, by simpa using hpush⟩
  | cons t r ih =>
    obtain ⟨r1, r2, r3, r4, r5, r6⟩ := hr
    have hmax : (if true = true then cueCddaTrackMax else cueNonCddaTrackMax) = cueCddaTrackMax := rfl
    -- the TRACK line closes the previous track
    have e0 : stepTok p true { catalog := cat, tracks := done, wip := some (wipOf prev) } (.track (some t.number))
        = .ok { catalog := cat, tracks := done ++ [trackOf prev], wip := some { number := t.number } } := by
      simp only [stepTok, finishWip_wipOf prev hprev, ↓reduceIte, hpush]
    have hpush' : pushTrack cueCddaTrackMax (done ++ [trackOf prev]) (trackOf t) = .ok (done ++ [trackOf prev] ++ [trackOf t]) := by
      have hl : (done ++ [trackOf prev]).length < cueCddaTrackMax := by simp; omega
      have hn : (trackOf prev).number = prev.number := rfl
      have hnt : (trackOf t).number = t.number := rfl
      have hot : (trackOf t).offset = t.first.pos := rfl
      have hgt : (trackOf t).offset > lastIndexOffset (trackOf prev) := by
        rw [lastIndexOffset_trackOf, hot]; omega
      simp only [pushTrack, hl, List.getLast?_append, List.getLast?_singleton, Option.some_or, hn, hnt]
      have : (decide (prev.number + 1 ≤ 255) && t.number == prev.number + 1) = true := by
        simp only [Bool.and_eq_true, decide_eq_true_eq, beq_iff_eq]; omega
      simp only [this, Bool.true_and, hgt, decide_true, ↓reduceIte]
    have hbody := track_body_run p t { catalog := cat, tracks := done ++ [trackOf prev], wip := some { number := t.number } } rfl
      (by intro h; simp at h) r5
    obtain ⟨hih, hloc, hpl⟩ := ih t (done ++ [trackOf prev]) r5 hpush' (by simpa using r6)
    refine ⟨?_, by simpa using hloc, by simpa [List.dropLast_cons₂] using hpl⟩
    have et : (t :: r).flatMap trackToks = Tok.track (some t.number) :: (((if t.isrc.isEmpty then [] else [Tok.isrc (some t.isrc)])
        ++ (if t.pre then [Tok.flagsPre] else []) ++ (idxTok t.first :: t.more.map idxTok)) ++ r.flatMap trackToks) := by
      simp [List.flatMap_cons, trackToks]
    rw [et]
    simp only [runToks, e0]
    have := runToks_append p true ((if t.isrc.isEmpty then [] else [Tok.isrc (some t.isrc)]) ++ (if t.pre then [Tok.flagsPre] else [])
        ++ (idxTok t.first :: t.more.map idxTok)) (r.flatMap trackToks)
        { catalog := cat, tracks := done ++ [trackOf prev], wip := some { number := t.number } }
    rw [this, hbody]
    dsimp only
    rw [hih]
    simp [List.dropLast_cons₂]


/-! ### the property -/

/-- the classified lines of a layout: optional CATALOG, then each track; `.other` lines (FILE, REM,
    TITLE, ...) change nothing (`other_skipped`) -/
def catToks : Option (List Nat) → List Tok
  | some d => [Tok.catalog (some d)]
  | none => []

def layoutToks (cat : Option (List Nat)) (ts : List LTrack) : List Tok := catToks cat ++ ts.flatMap trackToks

/-- a well-formed layout for a stream of `total` samples: first track is number 1 at position 0,
    numbers consecutive, every position after the previous one, at most 99 tracks / 100 index points,
    and everything before the end of the stream -/
def LayoutOk (t0 : LTrack) (ts : List LTrack) (total : Nat) : Prop :=
  t0.number = 1 ∧ t0.first.pos = 0 ∧ localOk t0 ∧ restOk 0 t0 ts ∧ lastPosOf ((t0 :: ts).getLast (by simp)) < total

/-- the cue sheet the text describes -/
def cueOf (cat : Option (List Nat)) (t0 : LTrack) (ts : List LTrack) (total : Nat) : Cue :=
  { cdda := true, catalog := cat.getD [], leadIn := cueLeadIn, tracks := (t0 :: ts).map trackOf,
    lead := { offset := total, isrc := [], nonAudio := false, preEmph := false } }

theorem dropLast_map_getLast {α β} (f : α → β) (l : List α) (h : l ≠ []) : l.dropLast.map f ++ [f (l.getLast h)] = l.map f := by
  have e := List.dropLast_concat_getLast h
  have : l.map f = (l.dropLast ++ [l.getLast h]).map f := by rw [e]
  rw [this]; simp

/-- **Import is exact.**  For every well-formed layout (any number of tracks up to 99, any number of
    index points up to 100 per track, with or without pre-gap, ISRC, FLAGS, CATALOG), importing its
    lines yields exactly the described cue sheet: track numbers, index numbers, track offsets at the
    first index, index offsets relative to them, pre-emphasis flags, ISRCs, catalog, the standard
    lead-in and the lead-out at the stream length. -/
theorem import_exact (p : Profile) (cat : Option (List Nat)) (t0 : LTrack) (ts : List LTrack) (total : Nat)
    (h : LayoutOk t0 ts total) : interp p true total (layoutToks cat (t0 :: ts)) = .ok (cueOf cat t0 ts total) := by
  obtain ⟨h1, h2, h3, h4, h5⟩ := h
  -- CATALOG line
  have ecat : runToks p true {} (catToks cat) = .ok { catalog := cat } := by
    cases cat with
    | none => simp [runToks, catToks]
    | some d => simp [runToks, stepTok, catToks]
  -- first TRACK line and its body
  have e0 : stepTok p true { catalog := cat } (.track (some t0.number)) = .ok { catalog := cat, wip := some { number := t0.number } } := by
    simp [stepTok]
  have hbody := track_body_run p t0 { catalog := cat, wip := some { number := t0.number } } rfl (fun _ => h2) h3
  have hpush : pushTrack cueCddaTrackMax [] (trackOf t0) = .ok ([] ++ [trackOf t0]) := by
    have : (0 : Nat) < cueCddaTrackMax := by decide
    simp [pushTrack, this, trackOf, h1, h2]
  obtain ⟨hrun, hlast_ok, hpl⟩ := tracks_run p ts t0 [] cat h3 hpush (by simpa using h4)
  have et : layoutToks cat (t0 :: ts) = catToks cat ++
      (Tok.track (some t0.number) :: (((if t0.isrc.isEmpty then [] else [Tok.isrc (some t0.isrc)])
        ++ (if t0.pre then [Tok.flagsPre] else []) ++ (idxTok t0.first :: t0.more.map idxTok)) ++ ts.flatMap trackToks)) := by
    simp [layoutToks, List.flatMap_cons, trackToks]
  unfold interp
  rw [et, runToks_append, ecat]
  dsimp only
  simp only [runToks, e0]
  rw [runToks_append, hbody]
  dsimp only
  rw [hrun]
  dsimp only
  -- end of text: close the last track, add the lead-out
  simp only [List.nil_append] at hpl ⊢
  simp only [finishParse, finishWip_wipOf _ hlast_ok, ↓reduceIte, hpl]
  have hlt : ¬ lastIndexOffset (trackOf ((t0 :: ts).getLast (by simp))) ≥ total := by
    rw [lastIndexOffset_trackOf]; omega
  simp only [hlt, ↓reduceIte, cueOf]
  rw [dropLast_map_getLast trackOf (t0 :: ts) (by simp)]


/-- lines the importer does not know (FILE, REM, TITLE, PERFORMER, blank lines, ...) change nothing -/
theorem other_skipped (p : Profile) (cdda : Bool) (toks : List Tok) (s : PState) :
    runToks p cdda s toks = runToks p cdda s (toks.filter (fun t => match t with | .other => false | _ => true)) := by
  induction toks generalizing s with
  | nil => rfl
  | cons t r ih =>
    cases t with
    | other => simp only [runToks, stepTok, List.filter_cons]; exact ih s
    | _ =>
      simp only [runToks, List.filter_cons, ↓reduceIte]
      split
      · rfl
      · exact ih _

/-! ### track ranges -/

/-- absolute position of `INDEX 01` as written in the text -/
def index01Pos (t : LTrack) : Nat :=
  if t.first.number = 0 then (match t.more with | m :: _ => m.pos | [] => t.first.pos) else t.first.pos

theorem chain_pos_ge {lastPos lastNum count : Nat} {l : List LIndex} (h : idxChainOk lastPos lastNum count l) :
    ∀ i ∈ l, lastPos < i.pos ∧ i.pos < 2 ^ 64 := by
  induction l generalizing lastPos lastNum count with
  | nil => intro i hi; simp at hi
  | cons x r ih =>
    obtain ⟨_, _, h3, h4, _, h6⟩ := h
    intro i hi
    simp only [List.mem_cons] at hi
    rcases hi with rfl | hi
    · exact ⟨h3, h4⟩
    · have := ih h6 i hi
      exact ⟨by omega, this.2⟩

theorem start_trackOf (t : LTrack) (hl : localOk t) :
    accAdd .release (trackOf t).offset (startOffset (trackOf t)) = .ok (index01Pos t) := by
  obtain ⟨h1, h2, h3, h4⟩ := hl
  rw [accAdd_ok]
  simp only [trackOf, startOffset, rel, index01Pos]
  rcases h1 with h | h
  · have hm := h4 h
    cases hmore : t.more with
    | nil => exact absurd hmore hm
    | cons m r =>
      rw [hmore] at h3
      have := chain_pos_ge h3 m (by simp)
      simp only [h, beq_self_eq_true, ↓reduceIte, List.map_cons, satAdd, u64Max, rel]
      congr 1
      omega
  · simp only [h, Nat.succ_ne_self, ↓reduceIte, Nat.sub_self, satAdd, u64Max]
    have : (1 == 0) = false := rfl
    simp only [this, Bool.false_eq_true, ↓reduceIte]
    congr 1
    omega

/-- **Track ranges** of an imported sheet run from each track's `INDEX 01` to the next track's, the
    last one to the stream length (release and checked builds agree: see `accAdd_ok`). -/
theorem ranges_of_import (cat : Option (List Nat)) (t0 : LTrack) (ts : List LTrack) (total : Nat)
    (hall : ∀ t ∈ t0 :: ts, localOk t) :
    trackRanges .release (cueOf cat t0 ts total) = .ok (pairUp ((t0 :: ts).map index01Pos ++ [total])) := by
  have key : ∀ l : List LTrack, (∀ t ∈ l, localOk t) →
      mapRes (fun (t : CTrack) => accAdd .release t.offset (startOffset t)) (l.map trackOf) = .ok (l.map index01Pos) := by
    intro l
    induction l with
    | nil => intro _; rfl
    | cons x r ih =>
      intro h
      simp only [List.map_cons, mapRes, start_trackOf x (h x (by simp)), ih (fun q hq => h q (by simp [hq]))]
  simp only [trackRanges, trackOffsets, cueOf, key (t0 :: ts) hall]

/-! ### MM:SS:FF -/

/-- the conversion written in the documentation: ((MM × 60 + SS) × 75 + FF) × 588, and the export's
    split of an offset into MM:SS:FF inverts it on sector-aligned offsets -/
theorem timestamp_value (offset : Nat) (h : offset % 588 = 0) :
    (offset / 588 % 75 + (offset / 588 / 75 % 60) * 75 + (offset / 588 / 75 / 60) * (75 * 60)) * 588 = offset := by
  omega


/-! ### export, then import -/

/-- the classified lines of `Cuesheet::display`: a FILE line (ignored), then per track a TRACK line
    and one INDEX line per point at its absolute position -/
def exportToks (c : Cue) : List Tok :=
  Tok.other :: c.tracks.flatMap fun t =>
    Tok.track (some t.number) :: t.points.map fun i => Tok.index (some i.number) (some (i.offset + t.offset))

/-- what export keeps of a track: numbers and positions (ISRC, FLAGS and CATALOG are not exported) -/
def strip (t : LTrack) : LTrack := { t with isrc := [], pre := false }

theorem localOk_strip {t : LTrack} (h : localOk t) : localOk (strip t) := h

theorem restOk_strip (k : Nat) (prev : LTrack) (ts : List LTrack) (h : restOk k prev ts) : restOk k (strip prev) (ts.map strip) := by
  induction ts generalizing k prev with
  | nil => trivial
  | cons t r ih =>
    obtain ⟨a, b, c, d, e, f⟩ := h
    exact ⟨a, b, c, d, e, ih _ t f⟩

theorem chain_pos_gt_first {t : LTrack} (hl : localOk t) : ∀ i ∈ t.more, t.first.pos ≤ i.pos := by
  intro i hi
  have := chain_pos_ge hl.2.2.1 i hi
  omega

theorem exportToks_cueOf (cat : Option (List Nat)) (t0 : LTrack) (ts : List LTrack) (total : Nat)
    (hall : ∀ t ∈ t0 :: ts, localOk t) :
    exportToks (cueOf cat t0 ts total) = Tok.other :: layoutToks none ((t0 :: ts).map strip) := by
  have key : ∀ l : List LTrack, (∀ t ∈ l, localOk t) →
      ((l.map trackOf).flatMap fun t => Tok.track (some t.number) :: t.points.map fun i => Tok.index (some i.number) (some (i.offset + t.offset)))
        = (l.map strip).flatMap trackToks := by
    intro l
    induction l with
    | nil => intro _; rfl
    | cons x r ih =>
      intro h
      have hx := h x (by simp)
      have hge := chain_pos_gt_first hx
      simp only [List.map_cons, List.flatMap_cons, ih (fun q hq => h q (by simp [hq]))]
      congr 1
      simp only [trackOf, trackToks, strip, List.isEmpty_nil, ↓reduceIte, Bool.false_eq_true, List.append_nil, List.singleton_append,
        List.map_cons, List.map_map, idxTok, rel, Nat.sub_self, Nat.zero_add, List.cons.injEq, true_and]
      apply List.map_congr_left
      intro i hi
      have := hge i hi
      simp only [Function.comp, idxTok, rel]
      congr 2
      omega
  simp only [exportToks, cueOf, key (t0 :: ts) hall, layoutToks, catToks, List.nil_append]

/-- **Export, then import** reproduces the same track and index layout: track numbers, track
    offsets, index numbers and index offsets (and therefore every absolute position). -/
theorem export_import_layout (p : Profile) (cat : Option (List Nat)) (t0 : LTrack) (ts : List LTrack) (total : Nat)
    (h : LayoutOk t0 ts total) (hall : ∀ t ∈ t0 :: ts, localOk t) :
    ∃ c', interp p true total (exportToks (cueOf cat t0 ts total)) = .ok c'
      ∧ c'.tracks.map (fun t => (t.number, t.offset, t.points)) = (cueOf cat t0 ts total).tracks.map (fun t => (t.number, t.offset, t.points))
      ∧ c'.lead.offset = total := by
  obtain ⟨h1, h2, h3, h4, h5⟩ := h
  have hok : LayoutOk (strip t0) (ts.map strip) total := by
    refine ⟨h1, h2, localOk_strip h3, restOk_strip 0 t0 ts h4, ?_⟩
    have : lastPosOf (((strip t0) :: ts.map strip).getLast (by simp)) = lastPosOf ((t0 :: ts).getLast (by simp)) := by
      have e : (strip t0) :: ts.map strip = (t0 :: ts).map strip := by simp
      simp only [e, List.getLast_map]
      rfl
    omega
  refine ⟨cueOf none (strip t0) (ts.map strip) total, ?_, ?_, rfl⟩
  · rw [exportToks_cueOf cat t0 ts total hall]
    unfold interp
    simp only [runToks, stepTok]
    have := import_exact p none (strip t0) (ts.map strip) total hok
    unfold interp at this
    simpa using this
  · simp only [cueOf, List.map_cons, List.map_map]
    congr 1

/-! ### the hypotheses are satisfiable -/

def demoT1 : LTrack := { number := 1, isrc := [], pre := false, first := ⟨1, 0⟩, more := [] }
def demoT2 : LTrack := { number := 2, isrc := [65, 65, 54, 81, 55, 50, 48, 48, 48, 48, 52, 55], pre := true,
                         first := ⟨0, 7836276⟩, more := [⟨1, 7939176⟩, ⟨2, 8000000 * 588 / 588⟩] }

example : LayoutOk demoT1 [demoT2] 39731748 := by
  refine ⟨rfl, rfl, ?_, ?_, ?_⟩
  · exact ⟨Or.inr rfl, by decide, trivial, by intro h; cases h⟩
  · refine ⟨rfl, by decide, by decide, by decide, ?_, trivial⟩
    refine ⟨Or.inl rfl, by decide, ?_, by intro _ h; cases h⟩
    exact ⟨rfl, by decide, by decide, by decide, by decide, rfl, by decide, by decide, by decide, by decide, trivial⟩
  · decide

end Flac.C20
