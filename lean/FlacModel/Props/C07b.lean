/-
  Props/C07b.lean — the reader state machines of C06/C07 (`Model/Readers.lean`: `Dec.readFrame` over an abstract list of
  frames) are an abstraction of the byte-level frame loop (`Model/FileDecode.lean`: `decodeLoop` over the file's bytes):
  driven to the end, both deliver the same frames and stop for the same reason - end of stream at the declared total,
  `TooManySamples`, `ShortBlock`, or end of data.
-/
import FlacModel.Props.C07
import FlacModel.Props.C14
import FlacModel.Proofs.DecodeFacts

namespace Flac.C07
open Flac Gen

/-- the abstract frame list describes the bytes: every abstract frame is the decoding of the next standalone frame -/
def Describes (p : Profile) (si : SInfo) : List FrameInfo → List Nat → Prop
  | [], bytes => bytes = []
  | fi :: rest, bytes => ∃ f d tail, bytes = f ++ tail ∧ decodeFrame p (some si) f = .ok d ∧ d.used = f.length
      ∧ d.channels = fi.chans ∧ d.hdr.blockSize = fi.len ∧ Describes p si rest tail

/-- `Dec.readFrame` driven until it stops -/
def readAll (s : Stream) : Nat → Dec → List (List (List Int)) × Option Fail
  | 0, _ => ([], none)
  | fuel + 1, d =>
    match d.readFrame s with
    | .ok (some fi, d') => (fi.chans :: (readAll s fuel d').1, (readAll s fuel d').2)
    | .ok (none, _) => ([], none)
    | .error e => ([], some e)

/-- **the byte-level loop refines to the abstract reader** (declared total, position not past it) -/
theorem loop_refines (p : Profile) (si : SInfo) (s : Stream) (t : Nat) (ht : s.total = some t) (ht0 : t ≠ 0)
    (fuel : Nat) (d : Dec) (bytes : List Nat) (hdesc : Describes p si d.rest bytes) (hcur : d.cur ≤ t)
    (acc : List (List (List Int))) :
    decodeLoop p si t fuel bytes d.cur acc = (acc.reverse ++ (readAll s fuel d).1, (readAll s fuel d).2) := by
  have hne : (t != 0) = true := by simpa using ht0
  have hov : Gen.decOvershootIsError = true := rfl
  induction fuel generalizing d bytes acc with
  | zero => simp [decodeLoop, readAll]
  | succ fuel ih =>
    simp only [decodeLoop, hne, if_true, readAll, Dec.readFrame, ht]
    have c1 : (decide (t < d.cur) && (p == Profile.debug)) = false := by
      have : decide (t < d.cur) = false := by simp; omega
      simp [this]
    simp only [c1, Bool.false_eq_true, if_false]
    by_cases heq : t = d.cur
    · have : (t == d.cur) = true := by simp [heq]
      have hle : t ≤ d.cur := by omega
      simp [this, hle]
    · have c2 : (t == d.cur) = false := by simp [heq]
      have hlt : ¬ t ≤ d.cur := by omega
      simp only [c2, Bool.false_eq_true, if_false, hlt]
      cases hr : d.rest with
      | nil =>
        rw [hr] at hdesc
        simp only [Describes] at hdesc
        subst hdesc
        have : parseHeaderBytes (some si) [] = .error .eof := by
          simp [parseHeaderBytes, readHeaderFields, bytesToBits, bind, P.bind, readU, takeBits, splitExact]
        simp [this]
      | cons fi rest =>
        rw [hr] at hdesc
        obtain ⟨f, dd, tail, hb, hdec, hu, hch, hbs, hrest⟩ := hdesc
        subst hb
        have hl := Flac.C14.loc_of_decodes p si f dd hdec hu
        obtain ⟨hn, hh⟩ := hl.hdr tail
        have hck := Flac.decodeFrame_check p (some si) f dd hdec
        simp only [hh, hck, Bool.not_true, Bool.false_eq_true, if_false, hov, Bool.true_and]
        have hge : t ≥ d.cur := hcur
        simp only [hge, decide_true, Bool.true_and, if_true, hbs]
        by_cases hover : fi.len > t - d.cur
        · simp [hover]
        · simp only [hover, decide_false, Bool.false_eq_true, if_false]
          by_cases hshort : (fi.len == t - d.cur || decide (fi.len > 14)) = true
          · simp only [hshort, Bool.not_true, Bool.false_eq_true, if_false, if_true, hl.dec]
            have hdrop : (f ++ tail).drop dd.used = tail := by rw [hl.used]; simp
            rw [hdrop]
            have := ih { rest := rest, cur := d.cur + fi.len } tail hrest (by dsimp only; omega) (dd.channels :: acc)
            dsimp only at this
            rw [this, hch]
            simp
          · have : (fi.len == t - d.cur || decide (fi.len > 14)) = false := by
              cases hh2 : (fi.len == t - d.cur || decide (fi.len > 14)) with
              | true => exact absurd hh2 hshort
              | false => rfl
            simp [this]

end Flac.C07
