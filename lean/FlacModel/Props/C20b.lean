/-
  Props/C20b.lean — C20, "arbitrary spacing accepted by the format": the classification of a cue sheet line (command, arguments, and
  through it everything the importer does with the line) does not depend on white space before or after the line.
-/
import FlacModel.Props.C20

namespace Flac.C20
open Flac

theorem dropWhile_ws_append (ws l : List Char) (h : ws.all isWs = true) : (ws ++ l).dropWhile isWs = l.dropWhile isWs := by
  induction ws with
  | nil => rfl
  | cons c r ih =>
    simp only [List.all_cons, Bool.and_eq_true] at h
    simp only [List.cons_append, List.dropWhile_cons, h.1, if_true]
    exact ih h.2

theorem dropWhile_append_of_ne (p : Char → Bool) (a b : List Char) (h : a.dropWhile p ≠ []) :
    (a ++ b).dropWhile p = a.dropWhile p ++ b := by
  induction a with
  | nil => simp at h
  | cons c r ih =>
    simp only [List.cons_append, List.dropWhile_cons] at h ⊢
    split
    · rename_i hc; simp only [hc, if_true] at h; exact ih h
    · rfl

theorem dropWhile_all (p : Char → Bool) (l : List Char) (h : l.all p = true) : l.dropWhile p = [] := by
  induction l with
  | nil => rfl
  | cons c r ih =>
    simp only [List.all_cons, Bool.and_eq_true] at h
    simp only [List.dropWhile_cons, h.1, if_true]
    exact ih h.2

theorem dropWhile_nil_all (p : Char → Bool) (l : List Char) (h : l.dropWhile p = []) : l.all p = true := by
  induction l with
  | nil => rfl
  | cons c r ih =>
    simp only [List.dropWhile_cons] at h
    split at h
    · rename_i hc; simp only [List.all_cons, hc, Bool.true_and]; exact ih h
    · cases h

/-- `str::trim` ignores white space around its argument -/
theorem trimChars_spacing (ws1 ws2 line : List Char) (h1 : ws1.all isWs = true) (h2 : ws2.all isWs = true) :
    trimChars (ws1 ++ line ++ ws2) = trimChars line := by
  unfold trimChars
  rw [List.append_assoc, dropWhile_ws_append ws1 _ h1]
  by_cases hl : line.dropWhile isWs = []
  · have hall := dropWhile_nil_all isWs line hl
    have : (line ++ ws2).dropWhile isWs = [] := by
      apply dropWhile_all
      simp only [List.all_append, hall, h2, Bool.and_self]
    rw [this, hl]
  · rw [dropWhile_append_of_ne isWs line ws2 hl, List.reverse_append,
      dropWhile_ws_append ws2.reverse _ (by simpa using h2)]

/-- **A line means the same with any white space before and after it**: same command, same arguments, same token handed to the importer. -/
theorem classify_spacing (p : Profile) (cdda : Bool) (ws1 ws2 line : List Char) (h1 : ws1.all isWs = true) (h2 : ws2.all isWs = true) :
    classify p cdda (ws1 ++ line ++ ws2) = classify p cdda line := by
  unfold classify
  rw [trimChars_spacing ws1 ws2 line h1 h2]

/-- non-vacuity: tabs, blanks and an ideographic space around `FLAGS PRE` -/
example : (match classify .release true ['\t', ' ', ' ', 'F', 'L', 'A', 'G', 'S', ' ', 'P', 'R', 'E', ' ', '\u3000', '\t'] with
    | .flagsPre => true | _ => false) = true := by decide

end Flac.C20
