/-
  Props/C05.lean — C05: damaged or invalid streams are reported as errors.
  The detection mechanism is the CRC: a single flipped bit always changes the checksum of
  everything that follows it, for messages of ANY length.
-/
import FlacModel.Spec.Rfc
import FlacModel.Props.C04

namespace Flac.C05
open Flac

/-- inverse of one LFSR step (possible because both generator polynomials have constant term 1) -/
def unstep (width poly : Nat) (c' : Nat) (bit : Bool) : Nat :=
  -- feedback happened iff the low bit of the new state is 1
  ((if c' % 2 == 1 then Nat.xor c' poly else c') / 2)
    + (if (c' % 2 == 1) != bit then 2 ^ (width - 1) else 0)

theorem xor_odd_mod (t poly : Nat) (ht : t % 2 = 0) (hodd : poly % 2 = 1) : (t ^^^ poly) % 2 = 1 := by
  have := @Nat.xor_mod_two_eq_one t poly
  rw [this]; omega

/-- every register state `m·half + lo` is recovered from its successor, because the generator
    polynomial is odd (algebraic proof for any register width) -/
theorem unstep_step (half poly lo m : Nat) (b : Bool) (hm : m < 2) (hodd : poly % 2 = 1) :
    (if (if ((m == 1) != b) then Nat.xor (lo * 2) poly else lo * 2) % 2 == 1
      then Nat.xor (if ((m == 1) != b) then Nat.xor (lo * 2) poly else lo * 2) poly
      else (if ((m == 1) != b) then Nat.xor (lo * 2) poly else lo * 2)) / 2
    + (if ((if ((m == 1) != b) then Nat.xor (lo * 2) poly else lo * 2) % 2 == 1) != b then half else 0)
    = m * half + lo := by
  have h1 := xor_odd_mod (lo * 2) poly (by omega) hodd
  have h3 : lo * 2 % 2 = 0 := by omega
  have h4 : lo * 2 / 2 = lo := by omega
  have hm' : m = 0 ∨ m = 1 := by omega
  rcases hm' with rfl | rfl <;> cases b <;> simp [h1, h3, h4, Nat.xor_assoc] <;> omega

theorem step16_invertible (c : Nat) (hc : c < 65536) (b : Bool) :
    unstep 16 0x8005 (Spec.crcStep 16 0x8005 c b) b = c := by
  have h := unstep_step 32768 0x8005 (c % 32768) (c / 32768) b (by omega) (by decide)
  have hm : c / 32768 % 2 = c / 32768 := by omega
  have ht : c * 2 % 65536 = c % 32768 * 2 := by omega
  have hc' : c / 32768 * 32768 + c % 32768 = c := by omega
  simp only [unstep, Spec.crcStep, Nat.reducePow, Nat.reduceSub, hm, ht]
  rw [hc'] at h
  exact h

theorem step8_invertible (c : Nat) (hc : c < 256) (b : Bool) :
    unstep 8 0x07 (Spec.crcStep 8 0x07 c b) b = c := by
  have h := unstep_step 128 0x07 (c % 128) (c / 128) b (by omega) (by decide)
  have hm : c / 128 % 2 = c / 128 := by omega
  have ht : c * 2 % 256 = c % 128 * 2 := by omega
  have hc' : c / 128 * 128 + c % 128 = c := by omega
  simp only [unstep, Spec.crcStep, Nat.reducePow, Nat.reduceSub, hm, ht]
  rw [hc'] at h
  exact h

theorem step16_inj (c d : Nat) (hc : c < 65536) (hd : d < 65536) (b : Bool)
    (h : Spec.crcStep 16 0x8005 c b = Spec.crcStep 16 0x8005 d b) : c = d := by
  rw [← step16_invertible c hc b, ← step16_invertible d hd b, h]

theorem step8_inj (c d : Nat) (hc : c < 256) (hd : d < 256) (b : Bool)
    (h : Spec.crcStep 8 0x07 c b = Spec.crcStep 8 0x07 d b) : c = d := by
  rw [← step8_invertible c hc b, ← step8_invertible d hd b, h]

theorem step_lt (w poly c : Nat) (b : Bool) (hp : poly < 2 ^ w) : Spec.crcStep w poly c b < 2 ^ w := by
  unfold Spec.crcStep
  have hm : c * 2 % 2 ^ w < 2 ^ w := Nat.mod_lt _ (Nat.two_pow_pos w)
  split
  · exact Nat.xor_lt_two_pow hm hp
  · exact hm

/-- the two input bits lead to different successor states -/
theorem step16_bit (c : Nat) (hc : c < 65536) : Spec.crcStep 16 0x8005 c true ≠ Spec.crcStep 16 0x8005 c false := by
  intro h
  have e1 := step16_invertible c hc true
  have e2 := step16_invertible c hc false
  rw [h] at e1
  unfold unstep at e1 e2
  split at e1 <;> split at e2 <;> simp_all <;> omega

theorem step8_bit (c : Nat) (hc : c < 256) : Spec.crcStep 8 0x07 c true ≠ Spec.crcStep 8 0x07 c false := by
  intro h
  have e1 := step8_invertible c hc true
  have e2 := step8_invertible c hc false
  rw [h] at e1
  unfold unstep at e1 e2
  split at e1 <;> split at e2 <;> simp_all <;> omega

/-- different register states stay different, whatever bits follow -/
theorem fold16_inj (bits : Bits) (c d : Nat) (hc : c < 65536) (hd : d < 65536) (hne : c ≠ d) :
    bits.foldl (Spec.crcStep 16 0x8005) c ≠ bits.foldl (Spec.crcStep 16 0x8005) d := by
  induction bits generalizing c d with
  | nil => simpa using hne
  | cons b bs ih =>
    simp only [List.foldl_cons]
    exact ih _ _ (step_lt 16 0x8005 c b (by decide)) (step_lt 16 0x8005 d b (by decide))
      (fun h => hne (step16_inj c d hc hd b h))

theorem fold8_inj (bits : Bits) (c d : Nat) (hc : c < 256) (hd : d < 256) (hne : c ≠ d) :
    bits.foldl (Spec.crcStep 8 0x07) c ≠ bits.foldl (Spec.crcStep 8 0x07) d := by
  induction bits generalizing c d with
  | nil => simpa using hne
  | cons b bs ih =>
    simp only [List.foldl_cons]
    exact ih _ _ (step_lt 8 0x07 c b (by decide)) (step_lt 8 0x07 d b (by decide))
      (fun h => hne (step8_inj c d hc hd b h))

theorem fold_lt (w poly : Nat) (hp : poly < 2 ^ w) (bits : Bits) (c : Nat) (hc : c < 2 ^ w) :
    bits.foldl (Spec.crcStep w poly) c < 2 ^ w := by
  induction bits generalizing c with
  | nil => simpa using hc
  | cons b bs ih => simp only [List.foldl_cons]; exact ih _ (step_lt w poly c b hp)

/-- **crc16_single_bit**: flipping any one bit of a message of any length changes its CRC-16;
    in particular a frame whose stored CRC-16 made the residue 0 no longer has residue 0 -/
theorem crc16_single_bit (pre post : Bits) (b : Bool) :
    Spec.crcBits 16 0x8005 (pre ++ b :: post) ≠ Spec.crcBits 16 0x8005 (pre ++ (!b) :: post) := by
  unfold Spec.crcBits
  simp only [List.foldl_append, List.foldl_cons]
  have hs : pre.foldl (Spec.crcStep 16 0x8005) 0 < 65536 := fold_lt 16 0x8005 (by decide) pre 0 (by decide)
  apply fold16_inj post _ _ (step_lt 16 0x8005 _ b (by decide)) (step_lt 16 0x8005 _ (!b) (by decide))
  cases b
  · exact (step16_bit _ hs).symm
  · exact step16_bit _ hs

/-- **crc8_single_bit** — the same for the header checksum -/
theorem crc8_single_bit (pre post : Bits) (b : Bool) :
    Spec.crcBits 8 0x07 (pre ++ b :: post) ≠ Spec.crcBits 8 0x07 (pre ++ (!b) :: post) := by
  unfold Spec.crcBits
  simp only [List.foldl_append, List.foldl_cons]
  have hs : pre.foldl (Spec.crcStep 8 0x07) 0 < 256 := fold_lt 8 0x07 (by decide) pre 0 (by decide)
  apply fold8_inj post _ _ (step_lt 8 0x07 _ b (by decide)) (step_lt 8 0x07 _ (!b) (by decide))
  cases b
  · exact (step8_bit _ hs).symm
  · exact step8_bit _ hs

/-- **flip_same_extent_rejected** (for the bit-serial checksum): two bit strings that differ in
    exactly one position cannot both have CRC-16 residue 0 — so a single-bit flip that leaves the
    frame's extent unchanged is always rejected -/
theorem flip_same_extent_rejected (pre post : Bits) (b : Bool)
    (h : Spec.crcBits 16 0x8005 (pre ++ b :: post) = 0) : Spec.crcBits 16 0x8005 (pre ++ (!b) :: post) ≠ 0 := by
  intro h2; exact crc16_single_bit pre post b (by rw [h, h2])


end Flac.C05
