/-
  Props/C03.lean — C03: the decoder follows RFC 9639 on every valid stream.
  Each theorem equates a piece of the crate's machine arithmetic (kernels regenerated from
  decode.rs, `Model/Decode.lean`) with the exact arithmetic of the specification
  (`Spec/Rfc.lean`) under the only hypothesis a valid stream provides: the values the format
  defines fit their declared width.  They hold in BOTH build profiles.
-/
import FlacModel.Model.Decode
import FlacModel.Spec.Rfc
import FlacModel.Proofs.Machine
import FlacModel.Proofs.Dot
import FlacModel.Proofs.Layout
import FlacModel.Model.Md5

namespace Flac.C03
open Flac Gen

theorem dot_eq_spec (xs cs : List Int) : Flac.dot xs cs = Spec.dot xs cs := by
  induction xs generalizing cs with
  | nil => cases cs <;> rfl
  | cons x xs ih => cases cs with
    | nil => rfl
    | cons c cs => simp [Flac.dot, Spec.dot, ih]

/-- two's-complement wrap is additive: wrapping a summand first changes nothing -/
theorem wrapS32_add_wrap (r t : Int) : wrapS 32 (r + wrapS 32 t) = wrapS 32 (r + t) := by
  obtain ⟨⟨k1, h1⟩, _, _⟩ := wrapS32_spec t
  obtain ⟨⟨k2, h2⟩, l2, u2⟩ := wrapS32_spec (r + wrapS 32 t)
  obtain ⟨⟨k3, h3⟩, l3, u3⟩ := wrapS32_spec (r + t)
  omega

/-- **wrap_add_correct**: the decoder's `residual + (prediction as i32)` gives the sample the RFC
    defines whenever THAT SAMPLE fits 32 bits — even if the prediction alone does not (32-bit audio
    with large coefficients): the truncation of the prediction and the wrap of the sum cancel. -/
theorem wrap_add_correct (p : Profile) (r sum : Int) (shift : Nat) (hs : shift < 64)
    (hsum : fitsS 64 sum = true) (hfit : fitsS 32 (r + sum / 2 ^ shift) = true) :
    predictStep p 32 r sum shift = .ok (r + sum / 2 ^ shift) := by
  simp only [predictStep, decDot, wrapS64_of_fits _ hsum, decPredictStep32, if_true, bind, Except.bind, pure, Except.pure,
    shrX_ok p 64 _ _ shift hs, castS, wrapS32_add_wrap, wrapS32_of_fits _ hfit]

/-- **predict_refines_spec**: the whole prediction loop reproduces the specification's exact
    reconstruction whenever every reconstructed sample fits 32 bits (coefficients ≤ 16 bits and at
    most 32 taps, as the format allows) -/
theorem predict_refines_spec (p : Profile) (coefs : List Int) (shift : Nat) (hs : shift < 64)
    (hc : ∀ c ∈ coefs, fitsS 16 c = true) (hl : coefs.length ≤ 32)
    (rs hist : List Int) (hfit : ∀ x ∈ Spec.restore coefs shift hist rs, fitsS 32 x = true) :
    predictGo p 32 coefs shift hist rs = .ok (Spec.restore coefs shift hist rs) := by
  have hmem : ∀ l : List Int, ∀ h0 : List Int, ∀ y ∈ h0, y ∈ Spec.restore coefs shift h0 l := by
    intro l
    induction l with
    | nil => intro h0 y hy; simp [Spec.restore, hy]
    | cons a l ihl => intro h0 y hy; exact ihl _ y (by simp [hy])
  induction rs generalizing hist with
  | nil => simp [predictGo, Spec.restore]
  | cons r rs ih =>
    have hx : fitsS 32 (r + Spec.dot hist coefs / 2 ^ shift) = true :=
      hfit _ (hmem rs ((r + Spec.dot hist coefs / 2 ^ shift) :: hist) _ (by simp))
    have hh : ∀ y ∈ hist, fitsS 32 y = true := fun y hy => hfit y (hmem (r :: rs) hist y hy)
    have hsum : fitsS 64 (Spec.dot hist coefs) = true := by
      rw [← dot_eq_spec]; exact dot_fits64 hist coefs hh hc hl
    simp only [predictGo, Spec.restore, dot_eq_spec]
    rw [wrap_add_correct p r (Spec.dot hist coefs) shift hs hsum hx]
    exact ih _ (fun x hx' => hfit x (by simpa [Spec.restore] using hx'))

/-- **unfold_is_zigzag**: the crate's `(msb << k) | lsb` in `u32` followed by its sign un-folding
    is the RFC's zig-zag inverse of `msb·2^k + lsb` whenever that folded value fits 32 bits, which
    the RFC's residual range guarantees -/
theorem unfold_is_zigzag (k msb lsb : Nat) (hl : lsb < 2 ^ k) (hfit : msb * 2 ^ k + lsb < 4294967296) :
    unfoldRice k msb lsb = (if (msb * 2 ^ k + lsb) % 2 = 1 then -(((msb * 2 ^ k + lsb) / 2 : Nat) : Int) - 1
                            else (((msb * 2 ^ k + lsb) / 2 : Nat) : Int)) := by
  have hpos : 0 < 2 ^ k := Nat.two_pow_pos k
  have hm : msb < 4294967296 := by
    have : msb ≤ msb * 2 ^ k := Nat.le_mul_of_pos_right _ hpos
    omega
  have h1 : msb % 4294967296 = msb := Nat.mod_eq_of_lt hm
  have h2 : msb * 2 ^ k % 4294967296 = msb * 2 ^ k := Nat.mod_eq_of_lt (by omega)
  unfold unfoldRice
  rw [h1, h2]
  by_cases hodd : (msb * 2 ^ k + lsb) % 2 = 1
  · simp [hodd]
  · simp [hodd]

/-- the decoder's partition layout is the RFC's whenever the RFC accepts the partition order -/
theorem decLayout_eq_rfc (bs order po : Nat) (sizes : List Nat)
    (h : Spec.rfcLayout bs order po = .ok sizes) : decLayout bs order po = .ok sizes := by
  simp only [Spec.rfcLayout] at h
  by_cases hdiv : bs % 2 ^ po = 0
  · by_cases hgt : bs / 2 ^ po ≤ order
    · simp [hdiv, hgt] at h
    · simp only [hdiv, ne_eq, not_true_eq_false, if_false, hgt, Except.ok.injEq] at h
      have hbs := div_mul_of_mod_zero bs (2 ^ po) hdiv
      have hr := rchunk_rfc (bs / 2 ^ po) (2 ^ po) order (by omega) (Nat.two_pow_pos po)
      rw [← hbs] at hr
      have hc0 : ¬ bs / 2 ^ po = 0 := by omega
      have hlen : ((bs / 2 ^ po - order) :: List.replicate (2 ^ po - 1) (bs / 2 ^ po)).length = 2 ^ po := by
        have := Nat.two_pow_pos po
        simp; omega
      rw [h] at hr hlen
      have hguard : (decLayoutRfc && !(bs % 2 ^ po == 0 && decide (bs / 2 ^ po > order))) = false := by
        have : bs / 2 ^ po > order := by omega
        simp [hdiv, this]
      simp only [decLayout, hguard, Bool.false_eq_true, if_false, hc0, hr, hlen, ne_eq, not_true_eq_false]
  · simp [hdiv] at h

/-- …and conversely (with the rule now enforced by `read_block`): whatever the decoder's layout
    accepts, the RFC accepts, with the same partition sizes -/
theorem decLayout_sound (bs order po : Nat) (sizes : List Nat)
    (h : decLayout bs order po = .ok sizes) : Spec.rfcLayout bs order po = .ok sizes := by
  have hflag : decLayoutRfc = true := rfl
  simp only [decLayout, hflag, Bool.true_and] at h
  by_cases hok : (bs % 2 ^ po == 0 && decide (bs / 2 ^ po > order)) = true
  · simp only [Bool.and_eq_true, beq_iff_eq, decide_eq_true_eq] at hok
    obtain ⟨hdiv, hgt⟩ := hok
    have hguard : (!(bs % 2 ^ po == 0 && decide (bs / 2 ^ po > order))) = false := by simp [hdiv, hgt]
    simp only [hguard, Bool.false_eq_true, if_false] at h
    have hc0 : ¬ bs / 2 ^ po = 0 := by omega
    simp only [hc0, if_false] at h
    split at h
    · simp at h
    · simp only [Except.ok.injEq] at h
      have hbs := div_mul_of_mod_zero bs (2 ^ po) hdiv
      have hr := rchunk_rfc (bs / 2 ^ po) (2 ^ po) order (by omega) (Nat.two_pow_pos po)
      rw [← hbs] at hr
      have : ¬ bs / 2 ^ po ≤ order := by omega
      simp only [Spec.rfcLayout, hdiv, ne_eq, not_true_eq_false, if_false, this]
      rw [← h, hr]
  · have : (!(bs % 2 ^ po == 0 && decide (bs / 2 ^ po > order))) = true := by
      cases hb : (bs % 2 ^ po == 0 && decide (bs / 2 ^ po > order)) with
      | true => exact absurd hb hok
      | false => rfl
    simp [this] at h

/-! ### stereo reconstruction = RFC formulas when the outputs fit (depth ≤ 31) -/

theorem leftside_refines_spec (p : Profile) (l s : Int) (hout : fitsS 32 (l - s) = true) :
    decLeftSide p l s = .ok (l - s) := by
  simp only [decLeftSide, bind, Except.bind, pure, Except.pure, wrapS32_of_fits _ hout]

theorem sideright_refines_spec (p : Profile) (s r : Int) (hout : fitsS 32 (s + r) = true) :
    decSideRight p s r = .ok (s + r) := by
  simp only [decSideRight, bind, Except.bind, pure, Except.pure, wrapS32_of_fits _ hout]

/-- mid/side: for a mid sample of depth ≤ 31 and a side sample of depth ≤ 32 whose reconstructed
    left and right fit 31 bits, the decoder's `sum = mid*2 + |side| % 2; (sum ± side) >> 1` equals
    the RFC's `((mid << 1) | (side & 1)) ± side) >> 1`, without trapping -/
theorem midside_refines_spec (p : Profile) (m s : Int) (hm : fitsS 31 m = true) (hs : fitsS 32 s = true)
    (hL : fitsS 31 ((2 * m + s % 2 + s) / 2) = true) (hR : fitsS 31 ((2 * m + s % 2 - s) / 2) = true)
    (hsmin : -2147483648 < s) :
    midSide32 p m s = .ok ((2 * m + s % 2 + s) / 2, (2 * m + s % 2 - s) / 2) := by
  rw [fitsS31_iff] at hm hL hR
  rw [fitsS32_iff] at hs
  have habs : 0 ≤ (if s < 0 then -s else s) := by split <;> omega
  have w1 : wrapS 32 (m * 2) = 2 * m := by rw [wrapS32_of_fits _ (by rw [fitsS32_iff]; omega)]; omega
  have w2 : wrapS 32 (if s < 0 then -s else s) = (if s < 0 then -s else s) :=
    wrapS32_of_fits _ (by rw [fitsS32_iff]; split <;> omega)
  have hpar : remS (if s < 0 then -s else s) 2 = s % 2 := by
    rw [remS_two_nonneg _ habs]; split <;> omega
  have w3 : wrapS 32 (2 * m + s % 2) = 2 * m + s % 2 := wrapS32_of_fits _ (by rw [fitsS32_iff]; omega)
  have w4 : wrapS 32 (2 * m + s % 2 + s) = 2 * m + s % 2 + s := wrapS32_of_fits _ (by rw [fitsS32_iff]; omega)
  have w5 : wrapS 32 (2 * m + s % 2 - s) = 2 * m + s % 2 - s := wrapS32_of_fits _ (by rw [fitsS32_iff]; omega)
  simp only [midSide32, decMidSum, decMidLeft, decMidRight, bind, Except.bind, pure, Except.pure, w1, w2, hpar, w3, w4, w5]
  simp

/-- the 33-bit side path: `(left as i64 − side) as i32` is the exact difference when it fits -/
theorem wide_leftside_refines_spec (p : Profile) (l s : Int) (hl : fitsS 32 l = true)
    (hs : -4294967296 ≤ s ∧ s < 4294967296) (hout : fitsS 32 (l - s) = true) :
    decLeftSideWide p l s = .ok (l - s) := by
  have hl' := (fitsS32_iff l).mp hl
  have h32 : castS 32 l = l := wrapS32_of_fits l hl
  have hc : castS 64 l = l := wrapS64_of_fits l (by rw [fitsS64_iff]; omega)
  have hw : wrapS 64 (l - s) = l - s := wrapS64_of_fits _ (by rw [fitsS64_iff]; omega)
  have ho : castS 32 (l - s) = l - s := wrapS32_of_fits _ hout
  simp only [decLeftSideWide, bind, Except.bind, pure, Except.pure, h32, hc, hw, ho]

/-- MD5 verdict of `verify_reader` as a function of the stored digest and the decoded PCM -/
def verifyVerdict (stored : List Nat) (pcmLeBytes : List Nat) : String :=
  if stored.all (· == 0) then "NoMD5" else if Md5.md5 pcmLeBytes == stored then "MD5Match" else "MD5Mismatch"

/-- **md5_verify_iff**: a match is reported exactly when the decoded PCM hashes to the stored
    (non-zero) digest -/
theorem md5_verify_iff (stored pcm : List Nat) :
    verifyVerdict stored pcm = "MD5Match" ↔ (stored.all (· == 0) = false ∧ Md5.md5 pcm = stored) := by
  unfold verifyVerdict
  by_cases h0 : stored.all (· == 0) = true
  · simp [h0]
  · have h0' : stored.all (· == 0) = false := by simpa using h0
    by_cases h1 : Md5.md5 pcm = stored
    · simp [h0', h1]
    · simp [h0', h1]

/-- non-vacuity of `wrap_add_correct` at the witness that used to panic with overflow checks:
    32-bit warm-up 2³¹−1, coefficient 2, residual −(2³¹−1): the prediction 2³²−2 does not fit,
    the reconstructed sample 2³¹−1 does -/
example : predictStep .debug 32 (-2147483647) (2 * 2147483647) 0 = .ok 2147483647
    ∧ fitsS 32 (2 * 2147483647 : Int) = false := by
  refine ⟨wrap_add_correct .debug _ _ 0 (by decide) (by decide) (by decide), by decide⟩

end Flac.C03
