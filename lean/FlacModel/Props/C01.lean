/-
  Props/C01.lean — C01: encoding is lossless.  Mechanism theorems, each stated about the kernels
  REGENERATED from the Rust source (`Gen/Kernels.lean`) and the decoder model assembled from them:
  a change to either side's arithmetic breaks the corresponding proof.
-/
import FlacModel.Model.Encode
import FlacModel.Proofs.Machine
import FlacModel.Proofs.Dot
import FlacModel.Proofs.Layout

namespace Flac.C01
open Flac Gen

/-! ### channel decorrelation and its inverse (encode.rs:2465 vs decode.rs:1492), depth ≤ 31 -/

/-- left/side: the decoder recovers `right` from (`left`, `left − right`) in both profiles, no trap -/
theorem stereo_leftside_inverse (p : Profile) (l r : Int) (hl : fitsS 31 l = true) (hr : fitsS 31 r = true) :
    encSide p l r = .ok (l - r) ∧ decLeftSide p l (l - r) = .ok r := by
  rw [fitsS31_iff] at hl hr
  constructor
  · simp only [encSide, subS, bind, Except.bind, pure, Except.pure]
    rw [resS_eq p 32 _ (l - r) (l - r) rfl (by rw [fitsS32_iff]; omega)]
  · have e : l - (l - r) = r := by omega
    simp only [decLeftSide, bind, Except.bind, pure, Except.pure, e]
    rw [wrapS32_of_fits r (by rw [fitsS32_iff]; omega)]

/-- side/right: the decoder recovers `left` from (`left − right`, `right`) -/
theorem stereo_sideright_inverse (p : Profile) (l r : Int) (hl : fitsS 31 l = true) (hr : fitsS 31 r = true) :
    decSideRight p (l - r) r = .ok l := by
  rw [fitsS31_iff] at hl hr
  have e : l - r + r = l := by omega
  simp only [decSideRight, bind, Except.bind, pure, Except.pure, e]
  rw [wrapS32_of_fits l (by rw [fitsS32_iff]; omega)]

/-- mid/side: `((l+r)>>1, l−r)` is undone exactly by `sum = mid*2 + |side| % 2`,
    `(sum ± side) >> 1`, with no trap in the overflow-checked profile and no wrap in release -/
theorem stereo_midside_inverse (p : Profile) (l r : Int) (hl : fitsS 31 l = true) (hr : fitsS 31 r = true) :
    encMidSide p l r = .ok ((l + r) / 2, l - r) ∧ midSide32 p ((l + r) / 2) (l - r) = .ok (l, r) := by
  rw [fitsS31_iff] at hl hr
  constructor
  · simp only [encMidSide, encMid, encSide, addS, subS, bind, Except.bind, pure, Except.pure]
    rw [resS_eq p 32 _ (l + r) (l + r) rfl (by rw [fitsS32_iff]; omega)]
    simp only []
    rw [resS_eq p 32 _ (l - r) (l - r) rfl (by rw [fitsS32_iff]; omega)]
    simp
  · have habs : 0 ≤ (if l - r < 0 then -(l - r) else l - r) := by split <;> omega
    have w1 : wrapS 32 ((l + r) / 2 * 2) = (l + r) / 2 * 2 := wrapS32_of_fits _ (by rw [fitsS32_iff]; omega)
    have w2 : wrapS 32 (if l - r < 0 then -(l - r) else l - r) = (if l - r < 0 then -(l - r) else l - r) :=
      wrapS32_of_fits _ (by rw [fitsS32_iff]; split <;> omega)
    have hpar : remS (if l - r < 0 then -(l - r) else l - r) 2 = (l + r) % 2 := by
      rw [remS_two_nonneg _ habs]; split <;> omega
    have e3 : (l + r) / 2 * 2 + (l + r) % 2 = l + r := by omega
    have w3 : wrapS 32 (l + r) = l + r := wrapS32_of_fits _ (by rw [fitsS32_iff]; omega)
    have e4 : l + r + (l - r) = 2 * l := by omega
    have e5 : l + r - (l - r) = 2 * r := by omega
    have w4 : wrapS 32 (2 * l) = 2 * l := wrapS32_of_fits _ (by rw [fitsS32_iff]; omega)
    have w5 : wrapS 32 (2 * r) = 2 * r := wrapS32_of_fits _ (by rw [fitsS32_iff]; omega)
    simp only [midSide32, decMidSum, decMidLeft, decMidRight, bind, Except.bind, pure, Except.pure,
      w1, w2, hpar, e3, w3, e4, e5, w4, w5]
    have e1 : 2 * l / 2 ^ 1 = l := by omega
    have e2 : 2 * r / 2 ^ 1 = r := by omega
    rw [e1, e2]

/-! ### wasted bits (encode.rs:2880 vs decode.rs:1670) -/

/-- removing `w` common trailing zero bits and shifting them back is the identity -/
theorem wasted_inverse (p : Profile) (y : Int) (w : Nat) (hw : w < 32) (hx : fitsS 32 (y * 2 ^ w) = true) :
    encWastedShr p (y * 2 ^ w) w = .ok y ∧ decWastedShl32 p y w = .ok (y * 2 ^ w) := by
  have hpos : (0 : Int) < 2 ^ w := Int.pow_pos (by decide)
  constructor
  · simp only [encWastedShr, bind, Except.bind, pure, Except.pure, shrX_ok p 32 _ _ w hw]
    rw [Int.mul_ediv_cancel _ (by omega)]
  · simp only [decWastedShl32, shlS_ok p 32 _ _ w hw]
    rw [wrapS32_of_fits _ hx]

/-! ### residual = sample − truncated prediction, and the decoder adds the same prediction back
    (encode.rs:3176 `encode_residuals` vs decode.rs:1736 `predict`) -/

/-- two's-complement wrap is additive: truncating a summand first changes nothing -/
theorem wrap32_add_wrap (a t : Int) : wrapS 32 (a + wrapS 32 t) = wrapS 32 (a + t) := by
  obtain ⟨⟨k1, h1⟩, _, _⟩ := wrapS32_spec t
  obtain ⟨⟨k2, h2⟩, l2, u2⟩ := wrapS32_spec (a + wrapS 32 t)
  obtain ⟨⟨k3, h3⟩, l3, u3⟩ := wrapS32_spec (a + t)
  omega

theorem predict_step_restores (p : Profile) (x sum : Int) (shift : Nat) (r : Int) (hs : shift < 64)
    (hx : fitsS 32 x = true) (hsum : fitsS 64 sum = true) (h : encResidualStep x sum shift = some r) :
    predictStep p 32 r sum shift = .ok x := by
  simp only [encResidualStep, checkedSubS, Int.toNat_natCast] at h
  split at h
  · simp only [Option.some.injEq] at h
    subst h
    -- the encoder subtracts the full prediction; the decoder accumulates in i64 (exact here because the sum fits),
    -- shifts, truncates the prediction to 32 bits and adds with wrap-around: truncation and wrap cancel, and the
    -- result is the sample because the sample fits 32 bits
    have e : x - sum / 2 ^ shift + sum / 2 ^ shift = x := by omega
    simp only [predictStep, decDot, wrapS64_of_fits _ hsum, decPredictStep32, if_true, bind, Except.bind,
      pure, Except.pure, shrX_ok p 64 _ _ shift hs, castS, wrap32_add_wrap, e, wrapS32_of_fits _ hx]
  · simp at h

/-- every prefix history met while encoding `xs` after `hist` keeps the prediction sum in i64 -/
def DotFits (coefs : List Int) : List Int → List Int → Prop
  | _, [] => True
  | hist, x :: xs => fitsS 64 (dot hist coefs) = true ∧ DotFits coefs (x :: hist) xs

/-- **predict_restore**: for *every* coefficient list and shift (whatever the floating-point LPC
    analysis chose), if the encoder's residual loop succeeds on `xs` after history `hist`, the
    decoder's prediction loop maps those residuals back to exactly `xs`, in both profiles. -/
theorem predict_restore_go (p : Profile) (coefs : List Int) (shift : Nat) (hs : shift < 64)
    (xs hist rs : List Int) (hx : ∀ x ∈ xs, fitsS 32 x = true) (hd : DotFits coefs hist xs)
    (h : encResidualsGo coefs shift hist xs = some rs) :
    predictGo p 32 coefs shift hist rs = .ok (hist.reverse ++ xs) := by
  induction xs generalizing hist rs with
  | nil =>
    simp only [encResidualsGo, Option.some.injEq] at h
    subst h; simp [predictGo]
  | cons x xs ih =>
    simp only [encResidualsGo] at h
    split at h
    · simp at h
    · rename_i r hr
      split at h
      · simp at h
      · rename_i rs' hrs
        simp only [Option.some.injEq] at h
        subst h
        have hx0 : fitsS 32 x = true := hx x (by simp)
        simp only [predictGo, predict_step_restores p x _ shift r hs hx0 hd.1 hr]
        rw [ih (x :: hist) rs' (fun y hy => hx y (by simp [hy])) hd.2 hrs]
        simp

/-- the sum stays in i64 for 32-bit samples, coefficients of at most 16 bits and at most 32 taps —
    which is everything the format allows (precision ≤ 15 bits, order ≤ 32) -/
theorem dotFits_of_bounds (coefs : List Int) (hc : ∀ c ∈ coefs, fitsS 16 c = true) (hl : coefs.length ≤ 32)
    (hist xs : List Int) (hh : ∀ x ∈ hist, fitsS 32 x = true) (hx : ∀ x ∈ xs, fitsS 32 x = true) :
    DotFits coefs hist xs := by
  induction xs generalizing hist with
  | nil => trivial
  | cons x xs ih =>
    refine ⟨dot_fits64 hist coefs hh hc hl, ih (x :: hist) ?_ (fun y hy => hx y (by simp [hy]))⟩
    intro y hy
    simp only [List.mem_cons] at hy
    rcases hy with rfl | hy
    · exact hx y (by simp)
    · exact hh y hy

theorem predict_restore (p : Profile) (coefs : List Int) (shift : Nat) (hs : shift < 64)
    (hc : ∀ c ∈ coefs, fitsS 16 c = true) (hl : coefs.length ≤ 32)
    (channel rs : List Int) (hx : ∀ x ∈ channel, fitsS 32 x = true)
    (h : encLpcResiduals coefs shift channel = some rs) :
    predict p 32 coefs shift (channel.take coefs.length) rs = .ok channel := by
  unfold encLpcResiduals at h
  unfold predict
  have hd : DotFits coefs (channel.take coefs.length).reverse (channel.drop coefs.length) :=
    dotFits_of_bounds coefs hc hl _ _ (fun x hx' => hx x (List.mem_of_mem_take (by simpa using hx')))
      (fun x hx' => hx x (List.mem_of_mem_drop hx'))
  rw [predict_restore_go p coefs shift hs _ _ rs (fun x hx' => hx x (List.mem_of_mem_drop hx')) hd h]
  simp

/-! ### partition layout (encode.rs:3867 `best_partitions` vs decode.rs:1803 `read_block`) -/

/-- **layout_agree**: every slicing the encoder accepts for candidate order `po` (a candidate
    always divides the block: `po ≤ trailing_zeros(block size)`) and then writes as partition order
    `ilog2(count)` is exactly the slicing the decoder derives from (block size, predictor order,
    written order) — and it satisfies the partition-order rule of RFC 9639 that the decoder now
    enforces — for all block sizes, predictor orders and candidates. -/
theorem layout_agree (bs order po : Nat) (sizes : List Nat) (hbs : bs / 2 ^ po ≠ 0) (hdiv : bs % 2 ^ po = 0)
    (hle : order ≤ bs) (h : encLayout bs order po = some sizes) :
    decLayout bs order (Nat.log2 sizes.length) = .ok sizes := by
  simp only [encLayout, encPartitionAccept] at h
  by_cases hacc : ((rchunkSizes (bs - order) (bs / 2 ^ po)).length == 2 ^ po) = true
  · simp only [hacc, if_true, Option.some.injEq] at h
    have hlen : (rchunkSizes (bs - order) (bs / 2 ^ po)).length = 2 ^ po := by simpa using hacc
    subst h
    have hb := div_mul_of_mod_zero bs (2 ^ po) hdiv
    have hlen' : (rchunkSizes (bs / 2 ^ po * 2 ^ po - order) (bs / 2 ^ po)).length = 2 ^ po := by rw [← hb]; exact hlen
    have hord : order < bs / 2 ^ po :=
      rchunk_count_order (bs / 2 ^ po) (2 ^ po) order (Nat.pos_of_ne_zero hbs) (Nat.two_pow_pos po) hlen'
    have hguard : (decLayoutRfc && !(bs % 2 ^ po == 0 && decide (bs / 2 ^ po > order))) = false := by
      simp [hdiv, hord]
    simp only [hlen, Nat.log2_two_pow, decLayout, hguard, Bool.false_eq_true, hbs, if_false]
    simp [hlen]
  · simp [hacc] at h

/-- non-vacuity of `layout_agree`, and the short-block case that used to break it:
    (bs, order, po) = (4, 2, 2) and (4, 2, 1) are *rejected* by the encoder's rule, (4, 2, 0) is
    accepted; a regular case (16, 2, 2) gives the RFC layout -/
example : encLayout 4 2 2 = none ∧ encLayout 4 2 1 = none ∧ encLayout 4 2 0 = some [2]
    ∧ encLayout 16 2 2 = some [2, 4, 4, 4] := by decide

/-! ### Rice folding (encode.rs `write_residuals` vs decode.rs `read_block`) -/

/-- the encoder's fold of a negative residual is the RFC zig-zag value and never traps, for every
    residual the RFC allows (the most negative 32-bit value is excluded there) -/
theorem rice_fold_neg (p : Profile) (r : Int) (h0 : r < 0) (h1 : -2147483648 < r) :
    encRiceFoldNeg p r = .ok (foldRice r) := by
  have hc : castU 32 (-r) = -r := by simp only [castU, wrapU]; omega
  have hw : wrapU 32 ((-r - 1) * 2 ^ 1) = (-r - 1) * 2 := by simp only [wrapU]; omega
  have hf : ((foldRice r : Nat) : Int) = (-r - 1) * 2 + 1 := by
    simp only [foldRice, h0, if_true]; omega
  simp only [encRiceFoldNeg, negS, subU, addU, bind, Except.bind, pure, Except.pure]
  rw [resS_eq p 32 _ (-r) (-r) rfl (by rw [fitsS32_iff]; omega)]
  simp only [hc]
  rw [resU_eq p 32 _ (-r - 1) (-r - 1) rfl (by rw [fitsU32_iff]; omega)]
  simp only [hw]
  rw [resU_eq p 32 _ ((-r - 1) * 2 + 1) (foldRice r) hf.symm (by rw [fitsU32_iff]; omega)]

theorem rice_fold_pos (p : Profile) (r : Int) (h0 : 0 ≤ r) (h1 : r < 2147483648) :
    encRiceFoldPos p r = .ok (foldRice r) := by
  have hc : castU 32 r = r := by simp only [castU, wrapU]; omega
  have hw : wrapU 32 (r * 2 ^ 1) = r * 2 := by simp only [wrapU]; omega
  have hn : ¬ r < 0 := by omega
  have hf : ((foldRice r : Nat) : Int) = r * 2 := by
    simp only [foldRice, hn, if_false]; omega
  simp only [encRiceFoldPos, pure, Except.pure, hc, hw, hf]

theorem join_split (n m : Nat) (hn : n < 4294967296) :
    (n / m % 4294967296 * m) % 4294967296 + n % m = n := by
  have h1 : n / m % 4294967296 = n / m :=
    Nat.mod_eq_of_lt (Nat.lt_of_le_of_lt (Nat.div_le_self _ _) hn)
  have h2 : n / m * m ≤ n := Nat.div_mul_le_self _ _
  rw [h1, Nat.mod_eq_of_lt (Nat.lt_of_le_of_lt h2 hn)]
  exact Nat.div_add_mod' _ _

/-- **fold_unfold**: the decoder's `(msb << k) | lsb` + zig-zag un-folding inverts the fold for
    every RFC-legal residual and every Rice parameter -/
theorem fold_unfold (k : Nat) (r : Int) (h0 : -2147483648 < r) (h1 : r < 2147483648) :
    unfoldRice k (foldRice r / 2 ^ k) (foldRice r % 2 ^ k) = r := by
  have hfold : foldRice r < 4294967296 := by
    unfold foldRice; split <;> omega
  have hv : ((foldRice r : Nat) : Int) = if r < 0 then (-r - 1) * 2 + 1 else r * 2 := by
    unfold foldRice; split <;> omega
  unfold unfoldRice
  rw [join_split _ _ hfold]
  generalize foldRice r = n at *
  by_cases hodd : n % 2 = 1
  · have : (n % 2 == 1) = true := by simp [hodd]
    simp only [this, if_true]
    split at hv <;> omega
  · have : (n % 2 == 1) = false := by simp [hodd]
    simp only [this]
    split at hv <;> simp <;> omega

end Flac.C01
