/-
  Props/C11.lean — metadata blocks survive a write/read round trip and report their sizes.
-/
import FlacModel.Proofs.CueCodec

namespace Flac.C11
open Flac Flac.Gen

def bytesOk (l : List Nat) : Bool := l.all (· < 256)

/-- the value invariants the public types guarantee (field widths, UTF-8 strings, byte vectors,
    contiguous seek tables, constructible cue sheets), plus canonical `Option`s -/
def streaminfoWf (si : Streaminfo) : Bool :=
  decide (si.minBlock < 65536) && decide (si.maxBlock < 65536) && decide (1 ≤ si.channels) && decide (1 ≤ si.bps) && decide (si.bps ≤ 32)
    && si.md5.length == 16 && bytesOk si.md5 && si.md5Some == !(si.md5.all (· == 0))

theorem all_zero_eq_replicate (l : List Nat) (h : l.all (· == 0) = true) : l = List.replicate l.length 0 := by
  induction l with
  | nil => rfl
  | cons x r ih =>
    simp only [List.all_cons, Bool.and_eq_true, beq_iff_eq] at h
    simp only [List.length_cons, List.replicate_succ, List.cons.injEq]
    exact ⟨h.1, ih h.2⟩

theorem streaminfo_roundtrip (si : Streaminfo) (hw : streaminfoWf si = true) (bs : List Nat)
    (h : (Block.streaminfo si).body = .ok bs) : parseStreaminfo bs = some si := by
  simp only [Block.body] at h
  split at h
  · cases h
  split at h
  · cases h
  rename_i h1 h2
  have h := (Except.ok.inj h).symm
  rw [h]
  simp only [streaminfoWf, Bool.and_eq_true, decide_eq_true_eq, beq_iff_eq] at hw
  simp only [Bool.or_eq_true, decide_eq_true_eq, not_or, Nat.not_le, Nat.not_lt] at h2
  obtain ⟨⟨⟨⟨⟨⟨⟨a1, a2⟩, a3⟩, a4⟩, a5⟩, a6⟩, a7⟩, a8⟩ := hw
  obtain ⟨⟨⟨⟨b1, b2⟩, b3⟩, b4⟩, b5⟩ := h2
  have hmd : (if si.md5Some = true then si.md5 else List.replicate 16 0) = si.md5 := by
    split
    · rfl
    · rename_i hn
      rw [a8] at hn
      simp only [Bool.not_eq_true', Bool.not_eq_false] at hn
      have := all_zero_eq_replicate _ hn
      rw [a6] at this
      exact this.symm
  have hlen : (beBytes 18 (streaminfoPack si) ++ si.md5).length = 34 := by simp [a6]
  have hpk : streaminfoPack si < 256 ^ 18 := by
    unfold streaminfoPack; omega
  unfold parseStreaminfo streaminfoBytes
  rw [hmd]
  simp only [hlen, bne_self_eq_false, Bool.false_eq_true, ↓reduceIte]
  have ht : (beBytes 18 (streaminfoPack si) ++ si.md5).take 18 = beBytes 18 (streaminfoPack si) := by
    simp
  have hd : (beBytes 18 (streaminfoPack si) ++ si.md5).drop 18 = si.md5 := by
    simp
  rw [ht, hd, beNat_beBytes _ _ hpk]
  cases si
  simp only [streaminfoPack] at *
  simp only [Option.some.injEq, Streaminfo.mk.injEq]
  refine ⟨?_, ?_, ?_, ?_, ?_, ?_, ?_, ?_, trivial, ?_⟩ <;> first | omega | (simp_all)


/-! ### padding, application -/

theorem padding_roundtrip (n : Nat) : parseBody 1 (List.replicate n 0).length (List.replicate n 0) = .ok (.padding n, []) := by
  simp [parseBody, takeBytes]

theorem application_roundtrip (id : Nat) (d : List Nat) (hid : id < 2 ^ 32) :
    parseBody 2 (beBytes 4 id ++ d).length (beBytes 4 id ++ d) = .ok (.application id d, []) := by
  have h1 : takeBytes 4 (beBytes 4 id ++ d) = .ok (beBytes 4 id, d) := takeBytes_append' 4 _ _ (by simp)
  have h2 : takeBytes ((beBytes 4 id ++ d).length - 4) d = .ok (d, []) := by
    have := takeBytes_append' d.length d [] rfl
    simpa using this
  have h3 : ¬ (beBytes 4 id ++ d).length < 4 := by simp
  simp only [parseBody, h1, h2, h3, ↓reduceIte]
  rw [beNat_beBytes 4 id (by omega)]

/-! ### seek table -/

def seekPtWf : SeekPt → Bool
  | .defined s b l => decide (s < 2 ^ 64 - 1) && decide (b < 2 ^ 64) && decide (l < 65536)
  | .placeholder => true

theorem seekPtBytes_length (p : SeekPt) : (seekPtBytes p).length = 18 := by
  cases p <;> simp [seekPtBytes]

theorem flatMap_seek_length (pts : List SeekPt) : (pts.flatMap seekPtBytes).length = 18 * pts.length := by
  induction pts with
  | nil => rfl
  | cons p r ih => simp [List.flatMap_cons, seekPtBytes_length, ih]; omega

theorem parseSeekPoints_roundtrip (pts : List SeekPt) (hw : pts.all seekPtWf = true) (rest : List Nat) :
    parseSeekPoints pts.length (pts.flatMap seekPtBytes ++ rest) = pts := by
  induction pts with
  | nil => rfl
  | cons p r ih =>
    simp only [List.all_cons, Bool.and_eq_true] at hw
    simp only [List.length_cons, parseSeekPoints, List.flatMap_cons, List.append_assoc]
    have hd : (seekPtBytes p ++ (r.flatMap seekPtBytes ++ rest)).drop 18 = r.flatMap seekPtBytes ++ rest := by
      rw [List.drop_append_of_le_length (by simp [seekPtBytes_length])]
      simp [seekPtBytes_length]
    rw [hd, ih hw.2]
    congr 1
    cases p with
    | placeholder =>
      have : (seekPtBytes .placeholder ++ (r.flatMap seekPtBytes ++ rest)).take 8 = beBytes 8 (2 ^ 64 - 1) := by
        simp only [seekPtBytes, List.append_assoc]
        exact take_append_len _ _ 8 (by simp)
      rw [this, beNat_beBytes 8 _ (by omega)]
      simp
    | defined s b l =>
      simp only [seekPtWf, Bool.and_eq_true, decide_eq_true_eq] at hw
      have t1 : (seekPtBytes (.defined s b l) ++ (r.flatMap seekPtBytes ++ rest)).take 8 = beBytes 8 s := by
        simp only [seekPtBytes, List.append_assoc]
        exact take_append_len _ _ 8 (by simp)
      have t2 : ((seekPtBytes (.defined s b l) ++ (r.flatMap seekPtBytes ++ rest)).drop 8).take 8 = beBytes 8 b := by
        simp only [seekPtBytes, List.append_assoc]
        rw [drop_append_len _ _ 8 (by simp)]
        exact take_append_len _ _ 8 (by simp)
      have t3 : ((seekPtBytes (.defined s b l) ++ (r.flatMap seekPtBytes ++ rest)).drop 16).take 2 = beBytes 2 l := by
        simp only [seekPtBytes, List.append_assoc]
        rw [drop2_append_len _ _ _ 16 (by simp)]
        exact take_append_len _ _ 2 (by simp)
      rw [t1, t2, t3, beNat_beBytes 8 s (by omega), beNat_beBytes 8 b (by omega), beNat_beBytes 2 l (by omega)]
      have : (s == 18446744073709551615) = false := by
        simp; omega
      simp [this]


theorem seektable_roundtrip (pts : List SeekPt) (hw : pts.all seekPtWf = true) (hc : seekContig none pts = true)
    (hl : pts.length ≤ seekTableMaxPoints) :
    parseBody 3 (pts.flatMap seekPtBytes).length (pts.flatMap seekPtBytes) = .ok (.seektable pts, []) := by
  have hlen := flatMap_seek_length pts
  have h1 : ((pts.flatMap seekPtBytes).length % 18 != 0) = false := by rw [hlen]; simp
  have h2 : takeBytes (pts.flatMap seekPtBytes).length (pts.flatMap seekPtBytes) = .ok (pts.flatMap seekPtBytes, []) := by
    have := takeBytes_append (pts.flatMap seekPtBytes) []
    simpa using this
  have h3 : (pts.flatMap seekPtBytes).length / 18 = pts.length := by rw [hlen]; omega
  have h4 : parseSeekPoints pts.length (pts.flatMap seekPtBytes) = pts := by
    have := parseSeekPoints_roundtrip pts hw []
    simpa using this
  simp only [parseBody, h1, h2, h3, h4, hc]
  have : ¬ pts.length > seekTableMaxPoints := by omega
  simp [this]

/-! ### Vorbis comment -/

def fieldBytes (f : List Nat) : List Nat := leBytes 4 f.length ++ f

theorem readVorbisFields_roundtrip (fs : List (List Nat)) (hw : ∀ f ∈ fs, utf8Valid f = true ∧ f.length < 2 ^ 32)
    (rest : List Nat) (fuel : Nat) (hf : fs.length ≤ fuel) :
    readVorbisFields fuel fs.length (fs.flatMap fieldBytes ++ rest) = .ok (fs, rest) := by
  induction fs generalizing fuel with
  | nil => cases fuel <;> simp [readVorbisFields]
  | cons f r ih =>
    cases fuel with
    | zero => simp at hf
    | succ fuel =>
      have hfw := hw f (by simp)
      have h1 : takeBytes 4 (fieldBytes f ++ (r.flatMap fieldBytes ++ rest)) = .ok (leBytes 4 f.length, f ++ (r.flatMap fieldBytes ++ rest)) := by
        simp only [fieldBytes, List.append_assoc]
        exact takeBytes_append' 4 _ _ (by simp)
      have h2 : takeBytes (leNat (leBytes 4 f.length)) (f ++ (r.flatMap fieldBytes ++ rest)) = .ok (f, r.flatMap fieldBytes ++ rest) := by
        rw [leNat_leBytes 4 _ (by omega)]
        exact takeBytes_append _ _
      have h3 := ih (fun g hg => hw g (by simp [hg])) fuel (by simp at hf; omega)
      simp only [List.length_cons, readVorbisFields, List.flatMap_cons, List.append_assoc, h1, h2, hfw.1, h3]
      simp

theorem vorbis_roundtrip (v : List Nat) (fs : List (List Nat)) (hv : utf8Valid v = true) (hvl : v.length < 2 ^ 32)
    (hw : ∀ f ∈ fs, utf8Valid f = true ∧ f.length < 2 ^ 32) (hn : fs.length < 2 ^ 32) :
    parseBody 4 (leBytes 4 v.length ++ v ++ leBytes 4 fs.length ++ fs.flatMap fieldBytes).length
      (leBytes 4 v.length ++ v ++ leBytes 4 fs.length ++ fs.flatMap fieldBytes) = .ok (.vorbis v fs, []) := by
  have h1 : takeBytes 4 (leBytes 4 v.length ++ v ++ leBytes 4 fs.length ++ fs.flatMap fieldBytes)
      = .ok (leBytes 4 v.length, v ++ (leBytes 4 fs.length ++ fs.flatMap fieldBytes)) := by
    simp only [List.append_assoc]
    exact takeBytes_append' 4 _ _ (by simp)
  have h2 : takeBytes (leNat (leBytes 4 v.length)) (v ++ (leBytes 4 fs.length ++ fs.flatMap fieldBytes))
      = .ok (v, leBytes 4 fs.length ++ fs.flatMap fieldBytes) := by
    rw [leNat_leBytes 4 _ (by omega)]; exact takeBytes_append _ _
  have h3 : takeBytes 4 (leBytes 4 fs.length ++ fs.flatMap fieldBytes) = .ok (leBytes 4 fs.length, fs.flatMap fieldBytes) :=
    takeBytes_append' 4 _ _ (by simp)
  have hlen : fs.length ≤ (fs.flatMap fieldBytes).length := by
    clear h1 h2 h3 hw hn
    induction fs with
    | nil => simp
    | cons f r ih =>
      rw [List.flatMap_cons, List.length_append, List.length_cons]
      have : (fieldBytes f).length = 4 + f.length := by simp [fieldBytes]
      omega
  have h4 := readVorbisFields_roundtrip fs hw [] ((fs.flatMap fieldBytes).length + 1) (by omega)
  rw [List.append_nil] at h4
  simp only [parseBody, h1, h2, hv, h3, leNat_leBytes 4 fs.length (by omega), h4]
  simp

/-! ### picture -/

def pictureWf (p : PictureVal) : Bool :=
  decide (p.ptype ≤ pictureTypeMax) && utf8Valid p.mime && utf8Valid p.desc && decide (p.width < 2 ^ 32) && decide (p.height < 2 ^ 32)
    && decide (p.depth < 2 ^ 32) && decide (p.colors < 2 ^ 32)


/-- the picture type writer is the inverse of the reader on every defined code (a finite table: `decide`) -/
theorem pictureWriteCode_id (t : Nat) (h : t ≤ pictureTypeMax) : pictureWriteCode t = t := by
  have key : ∀ i : Fin 21, pictureWriteCode i.val = i.val := by decide
  have : pictureTypeMax = 20 := rfl
  exact key ⟨t, by omega⟩

def pictureBytes (p : PictureVal) : List Nat :=
  beBytes 4 (pictureWriteCode p.ptype) ++ beBytes 4 p.mime.length ++ p.mime ++ beBytes 4 p.desc.length ++ p.desc
    ++ beBytes 4 p.width ++ beBytes 4 p.height ++ beBytes 4 p.depth ++ beBytes 4 p.colors ++ beBytes 4 p.data.length ++ p.data

theorem picture_roundtrip (p : PictureVal) (hw : pictureWf p = true) (hm : p.mime.length < 2 ^ 32) (hd : p.desc.length < 2 ^ 32)
    (hdl : p.data.length < 2 ^ 32) :
    parseBody 6 (pictureBytes p).length (pictureBytes p) = .ok (.picture p, []) := by
  simp only [pictureWf, Bool.and_eq_true, decide_eq_true_eq] at hw
  obtain ⟨⟨⟨⟨⟨⟨w1, w2⟩, w3⟩, w4⟩, w5⟩, w6⟩, w7⟩ := hw
  have e : pictureBytes p = beBytes 4 p.ptype ++ (beBytes 4 p.mime.length ++ (p.mime ++ (beBytes 4 p.desc.length ++ (p.desc
    ++ ((beBytes 4 p.width ++ beBytes 4 p.height ++ beBytes 4 p.depth ++ beBytes 4 p.colors ++ beBytes 4 p.data.length) ++ (p.data ++ [])))))) := by
    simp [pictureBytes, pictureWriteCode_id p.ptype w1]
  generalize (pictureBytes p).length = sz
  rw [e]
  have n1 : beNat (beBytes 4 p.ptype) = p.ptype := beNat_beBytes 4 _ (by have : pictureTypeMax = 20 := rfl; omega)
  have n2 : beNat (beBytes 4 p.mime.length) = p.mime.length := beNat_beBytes 4 _ (by omega)
  have n3 : beNat (beBytes 4 p.desc.length) = p.desc.length := beNat_beBytes 4 _ (by omega)
  have hnums : (beBytes 4 p.width ++ beBytes 4 p.height ++ beBytes 4 p.depth ++ beBytes 4 p.colors ++ beBytes 4 p.data.length).length = 20 := by simp
  simp only [parseBody]
  rw [takeBytes_append' 4 _ _ (by simp)]
  simp only [n1]
  have : ¬ p.ptype > pictureTypeMax := by omega
  simp only [this, ↓reduceIte]
  rw [takeBytes_append' 4 _ _ (by simp)]
  simp only [n2]
  rw [takeBytes_append]
  simp only [w2, Bool.not_true, Bool.false_eq_true, ↓reduceIte]
  rw [takeBytes_append' 4 _ _ (by simp)]
  simp only [n3]
  rw [takeBytes_append]
  simp only [w3, Bool.not_true, Bool.false_eq_true, ↓reduceIte]
  rw [takeBytes_append' 20 _ _ hnums]
  have k1 : (beBytes 4 p.width ++ beBytes 4 p.height ++ beBytes 4 p.depth ++ beBytes 4 p.colors ++ beBytes 4 p.data.length).take 4 = beBytes 4 p.width := by
    simp only [List.append_assoc]; exact take_append_len _ _ 4 (by simp)
  have k2 : ((beBytes 4 p.width ++ beBytes 4 p.height ++ beBytes 4 p.depth ++ beBytes 4 p.colors ++ beBytes 4 p.data.length).drop 4).take 4 = beBytes 4 p.height := by
    simp only [List.append_assoc]; rw [drop_append_len _ _ 4 (by simp)]; exact take_append_len _ _ 4 (by simp)
  have k3 : ((beBytes 4 p.width ++ beBytes 4 p.height ++ beBytes 4 p.depth ++ beBytes 4 p.colors ++ beBytes 4 p.data.length).drop 8).take 4 = beBytes 4 p.depth := by
    simp only [List.append_assoc]; rw [drop2_append_len _ _ _ 8 (by simp)]; exact take_append_len _ _ 4 (by simp)
  have k4 : ((beBytes 4 p.width ++ beBytes 4 p.height ++ beBytes 4 p.depth ++ beBytes 4 p.colors ++ beBytes 4 p.data.length).drop 12).take 4 = beBytes 4 p.colors := by
    simp only [List.append_assoc]
    rw [show beBytes 4 p.width ++ (beBytes 4 p.height ++ (beBytes 4 p.depth ++ (beBytes 4 p.colors ++ beBytes 4 p.data.length)))
          = (beBytes 4 p.width ++ beBytes 4 p.height ++ beBytes 4 p.depth) ++ (beBytes 4 p.colors ++ beBytes 4 p.data.length) by simp]
    rw [drop_append_len _ _ 12 (by simp)]; exact take_append_len _ _ 4 (by simp)
  have k5 : (beBytes 4 p.width ++ beBytes 4 p.height ++ beBytes 4 p.depth ++ beBytes 4 p.colors ++ beBytes 4 p.data.length).drop 16 = beBytes 4 p.data.length := by
    exact drop_append_len _ _ 16 (by simp)
  simp only [k1, k2, k3, k4, k5, beNat_beBytes 4 p.width (by omega), beNat_beBytes 4 p.height (by omega), beNat_beBytes 4 p.depth (by omega),
    beNat_beBytes 4 p.colors (by omega), beNat_beBytes 4 p.data.length (by omega)]
  rw [takeBytes_append]


/-! ### every block -/

/-- the value invariants the public types guarantee -/
def blockWf : Block → Bool
  | .streaminfo si => streaminfoWf si
  | .padding n => decide (n ≤ maxBlockSize)
  | .application id _ => decide (id < 2 ^ 32)
  | .seektable pts => pts.all seekPtWf && seekContig none pts && decide (pts.length ≤ seekTableMaxPoints)
  | .vorbis v fs => utf8Valid v && fs.all utf8Valid
  | .picture p => pictureWf p
  | .cuesheet c => c.wf

/-- Writer then reader, one block body: whatever the writer produces for a well-formed value parses
    back to the same value and consumes the whole body. -/
theorem body_roundtrip (b : Block) (hw : blockWf b = true) (bs : List Nat) (h : b.body = .ok bs) :
    parseBody b.type bs.length bs = .ok (b, []) := by
  cases b with
  | streaminfo si =>
    have hp := streaminfo_roundtrip si hw bs h
    have hl : bs.length = 34 := by
      unfold parseStreaminfo at hp
      split at hp
      · cases hp
      · rename_i hne; simpa using hne
    have ht : takeBytes 34 bs = .ok (bs, []) := by
      have := takeBytes_append' 34 bs [] hl
      simpa using this
    simp only [Block.type, parseBody, ht, hp]
  | padding n =>
    simp only [Block.body] at h
    have h := (Except.ok.inj h).symm
    rw [h]
    exact padding_roundtrip n
  | application id d =>
    simp only [Block.body] at h
    have h := (Except.ok.inj h).symm
    rw [h]
    simp only [blockWf, decide_eq_true_eq] at hw
    exact application_roundtrip id d hw
  | seektable pts =>
    simp only [blockWf, Bool.and_eq_true, decide_eq_true_eq] at hw
    simp only [Block.body] at h
    split at h
    · cases h
    split at h
    · have h := (Except.ok.inj h).symm
      rw [h]
      exact seektable_roundtrip pts hw.1.1 hw.1.2 hw.2
    · cases h
  | vorbis v fs =>
    simp only [blockWf, Bool.and_eq_true] at hw
    simp only [Block.body] at h
    split at h
    · cases h
    rename_i g1
    split at h
    · cases h
    rename_i g2
    have h := (Except.ok.inj h).symm
    simp only [Bool.or_eq_true, decide_eq_true_eq, List.any_eq_true, not_or, not_exists, not_and, Nat.not_le] at g1
    simp only [ge_iff_le, Nat.not_le] at g2
    have hw2 : ∀ f ∈ fs, utf8Valid f = true ∧ f.length < 2 ^ 32 := by
      intro f hf
      exact ⟨(List.all_eq_true.mp hw.2) f hf, g1.2 f hf⟩
    rw [h]
    exact vorbis_roundtrip v fs hw.1 g1.1 hw2 g2
  | picture p =>
    simp only [Block.body] at h
    split at h
    · cases h
    rename_i g1
    split at h
    · cases h
    rename_i g2
    have h := (Except.ok.inj h).symm
    simp only [Bool.or_eq_true, decide_eq_true_eq, not_or, Nat.not_le] at g1
    simp only [ge_iff_le, Nat.not_le] at g2
    rw [h]
    exact picture_roundtrip p hw g1.1 g1.2 g2
  | cuesheet c =>
    simp only [Block.body] at h
    have := cue_roundtrip c hw bs h []
    simp only [List.append_nil] at this
    simp only [Block.type, parseBody, this]


theorem beBytes3 (n : Nat) : beBytes 3 n = [n / 256 / 256 % 256, n / 256 % 256, n % 256] := by
  simp [beBytes]

theorem type_le (b : Block) : b.type ≤ 6 := by cases b <;> simp [Block.type]

/-- Writer then reader, one block with its header: the reader returns the `last` flag, the value
    and exactly the bytes that follow the block. -/
theorem block_roundtrip (last : Bool) (b : Block) (hw : blockWf b = true) (out : List Nat)
    (h : writeBlock last b = .ok out) (rest : List Nat) : readBlock (out ++ rest) = .ok (last, b, rest) := by
  unfold writeBlock at h
  cases hb : b.body with
  | error e => rw [hb] at h; cases h
  | ok bs =>
    rw [hb] at h
    dsimp only at h
    split at h
    · cases h
    rename_i hsz
    have h := (Except.ok.inj h).symm
    have hmax : maxBlockSize = 2 ^ 24 - 1 := rfl
    have hlen : bs.length < 256 ^ 3 := by omega
    have hty := type_le b
    rw [h, beBytes3]
    simp only [List.cons_append, List.nil_append, List.append_assoc, readBlock]
    have hmod : ((if last = true then 128 else 0) + b.type) % 128 = b.type := by
      cases last <;> simp <;> omega
    have hdiv : (((if last = true then 128 else 0) + b.type) / 128 == 1) = last := by
      cases last <;> simp <;> omega
    have hbe : beNat [bs.length / 256 / 256 % 256, bs.length / 256 % 256, bs.length % 256] = bs.length := by
      have := beNat_beBytes 3 bs.length hlen
      rwa [beBytes3] at this
    simp only [hmod, hbe, hdiv]
    have : ¬ b.type > 6 := by omega
    simp only [this, ↓reduceIte]
    rw [take_append_len bs rest bs.length rfl, body_roundtrip b hw bs hb]
    simp [drop_append_len bs rest bs.length rfl]

/-- The size a block reports for itself is the number of body bytes the writer emits (and
    `total_size` adds the 4 header bytes). -/
theorem reported_size_eq_written (b : Block) (n : Nat) (h : b.bytes = .ok (some n)) (last : Bool) :
    ∃ out, writeBlock last b = .ok out ∧ out.length = n + 4 := by
  unfold Block.bytes at h
  cases hb : b.body with
  | error e =>
    rw [hb] at h
    cases e <;> simp at h
  | ok bs =>
    rw [hb] at h
    simp only [Except.ok.injEq] at h
    split at h
    · rename_i hle
      simp only [Option.some.injEq] at h
      refine ⟨[(if last then 128 else 0) + b.type] ++ beBytes 3 bs.length ++ bs, ?_, ?_⟩
      · simp only [writeBlock, hb]
        have : ¬ bs.length > maxBlockSize := by omega
        simp [this]
      · simp; omega
    · cases h


/-! ### block lists -/

theorem rest_roundtrip (bs : List Block) (hne : bs ≠ []) (hw : ∀ b ∈ bs, blockWf b = true) (s : Seen) (out : List Nat)
    (h : writeRest s bs = .ok out) (tail : List Nat) (fuel : Nat) (hf : bs.length ≤ fuel) (used : Nat) :
    readRest fuel s (out ++ tail) used = .ok (bs, used + out.length) := by
  induction bs generalizing s out fuel used with
  | nil => exact absurd rfl hne
  | cons b r ih =>
    cases fuel with
    | zero => simp at hf
    | succ fuel =>
      simp only [writeRest] at h
      cases hc : checkUnique s b with
      | error e => rw [hc] at h; cases h
      | ok s' =>
        rw [hc] at h
        dsimp only at h
        cases hx : writeBlock r.isEmpty b with
        | error e => rw [hx] at h; cases h
        | ok x =>
          rw [hx] at h
          dsimp only at h
          cases hy : writeRest s' r with
          | error e => rw [hy] at h; cases h
          | ok y =>
            rw [hy] at h
            have h := (Except.ok.inj h).symm
            rw [h, List.append_assoc]
            simp only [readRest]
            rw [block_roundtrip r.isEmpty b (hw b (by simp)) x hx (y ++ tail)]
            dsimp only
            rw [hc]
            dsimp only
            cases r with
            | nil =>
              simp only [writeRest] at hy
              have hy := (Except.ok.inj hy).symm
              simp [hy]
            | cons b2 r2 =>
              simp only [List.isEmpty_cons, Bool.false_eq_true, ↓reduceIte]
              rw [ih (by simp) (fun q hq => hw q (by simp [hq])) s' y hy fuel (by simp at hf ⊢; omega)]
              simp; omega

theorem writeBlock_length {last : Bool} {b : Block} {x : List Nat} (h : writeBlock last b = .ok x) : 4 ≤ x.length := by
  unfold writeBlock at h
  cases hb : b.body with
  | error e => rw [hb] at h; cases h
  | ok bs =>
    rw [hb] at h
    dsimp only at h
    split at h
    · cases h
    · have h := (Except.ok.inj h).symm
      rw [h]; simp

theorem writeRest_length (bs : List Block) (s : Seen) (y : List Nat) (h : writeRest s bs = .ok y) : bs.length ≤ y.length := by
  induction bs generalizing s y with
  | nil => simp
  | cons b r ih =>
    simp only [writeRest] at h
    cases hc : checkUnique s b with
    | error e => rw [hc] at h; cases h
    | ok s' =>
      rw [hc] at h
      dsimp only at h
      cases hx : writeBlock r.isEmpty b with
      | error e => rw [hx] at h; cases h
      | ok x =>
        rw [hx] at h
        dsimp only at h
        cases hy : writeRest s' r with
        | error e => rw [hy] at h; cases h
        | ok y' =>
          rw [hy] at h
          have h := (Except.ok.inj h).symm
          have := ih s' y' hy
          have := writeBlock_length hx
          rw [h]; simp; omega

/-- Writer then reader, whole block lists: whenever `write_blocks` succeeds on well-formed values,
    `read_blocks` on its output (followed by anything, e.g. the audio frames) returns the same list
    and has consumed exactly the bytes written. -/
theorem blocklist_roundtrip (bl : List Block) (hw : ∀ b ∈ bl, blockWf b = true) (out : List Nat)
    (h : writeBlocks bl = .ok out) (tail : List Nat) : readBlocks (out ++ tail) = .ok (bl, out.length) := by
  unfold writeBlocks at h
  match bl, hw with
  | .streaminfo si :: rest, hw =>
    dsimp only at h
    cases hx : writeBlock rest.isEmpty (.streaminfo si) with
    | error e => rw [hx] at h; cases h
    | ok x =>
      rw [hx] at h
      dsimp only at h
      cases hy : writeRest {} rest with
      | error e => rw [hy] at h; cases h
      | ok y =>
        rw [hy] at h
        have h := (Except.ok.inj h).symm
        have e : out ++ tail = [0x66, 0x4C, 0x61, 0x43] ++ (x ++ (y ++ tail)) := by rw [h]; simp
        unfold readBlocks
        rw [e]
        have h1 : ¬ ([0x66, 0x4C, 0x61, 0x43] ++ (x ++ (y ++ tail))).length < 4 := by simp
        have h2 : (([0x66, 0x4C, 0x61, 0x43] ++ (x ++ (y ++ tail))).take 4 != [0x66, 0x4C, 0x61, 0x43]) = false := by simp
        have h3 : ([0x66, 0x4C, 0x61, 0x43] ++ (x ++ (y ++ tail))).drop 4 = x ++ (y ++ tail) := by simp
        simp only [h1, h2, h3, ↓reduceIte, Bool.false_eq_true]
        rw [block_roundtrip rest.isEmpty (.streaminfo si) (hw _ (by simp)) x hx (y ++ tail)]
        dsimp only
        cases rest with
        | nil =>
          simp only [writeRest] at hy
          have hy := (Except.ok.inj hy).symm
          simp only [List.isEmpty_nil, ↓reduceIte, hy, h]
          simp; omega
        | cons b2 r2 =>
          simp only [List.isEmpty_cons, Bool.false_eq_true, ↓reduceIte]
          have hlen := writeRest_length _ _ _ hy
          rw [rest_roundtrip (b2 :: r2) (by simp) (fun q hq => hw q (by simp [hq])) {} y hy tail _ (by simp at hlen ⊢; omega)]
          simp only [h]
          simp; omega
  | [], _ => cases h
  | .padding _ :: _, _ => cases h
  | .application .. :: _, _ => cases h
  | .seektable _ :: _, _ => cases h
  | .vorbis .. :: _, _ => cases h
  | .cuesheet _ :: _, _ => cases h
  | .picture _ :: _, _ => cases h


/-! ### refusal instead of panic; the single-instance rules -/

theorem cue_no_panic (c : Cue) (hw : c.wf = true) (m : String) : cueBytes c ≠ .error (.panic m) := by
  obtain ⟨_, _, w3, _, w5, _⟩ := wf_parts hw
  have hpts : (c.tracks.any fun t => decide (t.points.length > 255)) = false := by
    rw [Bool.eq_false_iff]
    intro hc
    simp only [List.any_eq_true, decide_eq_true_eq] at hc
    obtain ⟨t, ht, hgt⟩ := hc
    have h5 := (trackOk_parts ((List.all_eq_true.mp w5) t ht)).2.2.2.2.1
    have := indexVecOk_len h5
    have e1 : cueCddaIndexMax = 100 := rfl
    have e2 : cueNonCddaIndexMax = 255 := rfl
    split at this <;> omega
  have hcnt : ¬ c.tracks.length + 1 > 255 := by
    have e1 : cueCddaTrackMax = 99 := rfl
    have e2 : cueNonCddaTrackMax = 254 := rfl
    split at w3 <;> omega
  simp only [cueBytes, hcnt, hpts]
  split <;> (intro hh; cases hh)

/-- The writer never panics on values the public types admit: every failure is an error value. -/
theorem body_no_panic (b : Block) (hw : blockWf b = true) (m : String) : b.body ≠ .error (.panic m) := by
  cases b with
  | streaminfo si =>
    have : metaDepthOneWritable = true := rfl
    simp only [Block.body, this]
    simp only [Bool.not_true, Bool.false_and, Bool.false_eq_true, ↓reduceIte]
    split <;> simp
  | padding n => simp [Block.body]
  | application id d => simp [Block.body]
  | seektable pts => simp only [Block.body]; split <;> (try split) <;> simp
  | vorbis v fs => simp only [Block.body]; split <;> (try split) <;> simp
  | picture p => simp only [Block.body]; split <;> (try split) <;> simp
  | cuesheet c => exact cue_no_panic c hw m

def isSeektable : Block → Bool | .seektable _ => true | _ => false
def isVorbis : Block → Bool | .vorbis .. => true | _ => false

theorem checkUnique_seek {s s' : Seen} {b : Block} (h : checkUnique s b = .ok s') :
    (isSeektable b = true → s.seektable = false ∧ s'.seektable = true) ∧ (isSeektable b = false → s'.seektable = s.seektable) := by
  cases b with
  | streaminfo si => simp [checkUnique] at h
  | padding n => simp only [checkUnique] at h; cases h; simp [isSeektable]
  | application id d => simp only [checkUnique] at h; cases h; simp [isSeektable]
  | cuesheet c => simp only [checkUnique] at h; cases h; simp [isSeektable]
  | seektable pts =>
    simp only [checkUnique] at h
    split at h
    · cases h
    · rename_i hs; cases h; simp [isSeektable]; simpa using hs
  | vorbis v fs =>
    simp only [checkUnique] at h
    split at h
    · cases h
    · cases h; simp [isSeektable]
  | picture p =>
    simp only [checkUnique] at h
    split at h
    · split at h
      · cases h
      · cases h; simp [isSeektable]
    · split at h
      · split at h
        · cases h
        · cases h; simp [isSeektable]
      · cases h; simp [isSeektable]

/-- A block list with two SEEKTABLE blocks is never written: `write_blocks` returns an error. -/
theorem seektable_single (bs : List Block) (s : Seen) (out : List Nat) (h : writeRest s bs = .ok out) :
    (bs.filter isSeektable).length + (if s.seektable then 1 else 0) ≤ 1 := by
  induction bs generalizing s out with
  | nil => simp; split <;> omega
  | cons b r ih =>
    simp only [writeRest] at h
    cases hc : checkUnique s b with
    | error e => rw [hc] at h; cases h
    | ok s' =>
      rw [hc] at h
      dsimp only at h
      cases hx : writeBlock r.isEmpty b with
      | error e => rw [hx] at h; cases h
      | ok x =>
        rw [hx] at h
        dsimp only at h
        cases hy : writeRest s' r with
        | error e => rw [hy] at h; cases h
        | ok y =>
          have := ih s' y hy
          have hu := checkUnique_seek hc
          cases hb : isSeektable b with
          | true =>
            obtain ⟨h1, h2⟩ := hu.1 hb
            simp only [List.filter_cons, hb, ↓reduceIte, List.length_cons, h1, Bool.false_eq_true]
            simp only [h2, ↓reduceIte] at this
            omega
          | false =>
            have h2 := hu.2 hb
            simp only [List.filter_cons, hb, Bool.false_eq_true, ↓reduceIte]
            rw [h2] at this
            exact this


/-! ### the hypotheses are satisfiable; the one representational quirk -/

def exampleCue : Cue :=
  { cdda := true, catalog := [], leadIn := 88200,
    tracks := [{ offset := 0, number := 1, isrc := [], nonAudio := false, preEmph := false, points := [⟨0, 1⟩] },
               { offset := 588 * 100, number := 2, isrc := [65, 65, 54, 81, 55, 50, 48, 48, 48, 48, 52, 55], nonAudio := false, preEmph := true,
                 points := [⟨0, 0⟩, ⟨588 * 150, 1⟩] }],
    lead := { offset := 588 * 100000, isrc := [], nonAudio := false, preEmph := false } }

def exampleList : List Block :=
  [.streaminfo { minBlock := 16, maxBlock := 4096, minFrame := 0, maxFrame := 0, rate := 44100, channels := 2, bps := 1, total := 0,
                 md5 := List.replicate 16 0 },
   .padding 7, .application 0x72696666 [1, 2, 3], .seektable [.defined 0 0 4096, .defined 4096 100 4096, .placeholder],
   .vorbis [118] [[84, 61, 120]], .picture { ptype := 3, mime := [105], desc := [], width := 1, height := 2, depth := 24, colors := 0, data := [9, 9] },
   .cuesheet exampleCue]

example : (exampleList.all blockWf = true) ∧ (match writeBlocks exampleList with | .ok o => o.length | .error _ => 0) = 725 := by
  constructor <;> decide +kernel

/-- Known finding (not repaired): `md5 = Some([0; 16])` shares its encoding with `None`, so this
    value is accepted by the writer and does not read back equal. -/
theorem md5_some_zero_not_roundtrip :
    ∃ si bs, (Block.streaminfo si).body = .ok bs ∧ parseStreaminfo bs ≠ some si := by
  refine ⟨{ minBlock := 16, maxBlock := 16, minFrame := 0, maxFrame := 0, rate := 1, channels := 1, bps := 16, total := 0,
            md5 := List.replicate 16 0, md5Some := true }, _, rfl, ?_⟩
  decide +kernel

end Flac.C11
