/-
  Props/C02b.lean — C02 at the level of whole frames: the serialization of every frame that is well-formed AND meets the
  additional MUSTs of RFC 9639 (reserved bit clear, depth at least 4, zero padding, 36-bit frame number, residuals within the
  RFC range, every reconstructed sample within its depth - the executable predicates `Spec.frameWf` / `Spec.frameSamplesFit`)
  is accepted by the independent RFC-level decoder, which reconstructs exactly the specified samples.
-/
import FlacModel.Props.C02
import FlacModel.Props.C03
import FlacModel.Proofs.Codec
import FlacModel.Proofs.CrcEq
import FlacModel.Model.FrameWf

namespace Flac.C02
open Flac Gen

theorem resWf_to_rfc (bs o : Nat) (r : Residual) (h : resWf decLayout bs o r) : resWf Spec.rfcLayout bs o r := by
  obtain ⟨h1, h2, sizes, h3, h4⟩ := h
  exact ⟨h1, h2, sizes, Flac.C03.decLayout_sound bs o r.order sizes h3, h4⟩

theorem subWf_to_rfc (bs bps : Nat) (s : Subframe) (h : subWf decLayout bs bps s) : subWf Spec.rfcLayout bs bps s := by
  obtain ⟨wasted, body⟩ := s
  obtain ⟨hw, hb⟩ := h
  refine ⟨hw, ?_⟩
  cases body with
  | constant v => exact hb
  | verbatim xs => exact hb
  | fixed o warm res =>
    obtain ⟨a, b, c, d, e⟩ := hb
    exact ⟨a, b, c, d, resWf_to_rfc _ _ _ e⟩
  | lpc o warm prec shift coefs res =>
    obtain ⟨a, b, c, d, e, f, g, i, j, k, l⟩ := hb
    exact ⟨a, b, c, d, e, f, g, i, j, k, resWf_to_rfc _ _ _ l⟩

theorem subsWf_to_rfc (a : Assign) (bs bps : Nat) (ss : List Subframe) (i : Nat) (h : subsWf decLayout a bs bps ss i) :
    subsWf Spec.rfcLayout a bs bps ss i := by
  induction ss generalizing i with
  | nil => trivial
  | cons s ss ih => exact ⟨subWf_to_rfc _ _ _ h.1, ih (i + 1) h.2⟩

/-- **Serialized strictly well-formed frames are conforming**: the independent RFC-level decoder accepts them, consumes all
    their bytes and reconstructs the specified samples. -/
theorem spec_accepts_serialized (si : Option SInfo) (f : Frame) (w : FrameWf si f)
    (hwf : Spec.frameWf f = true) (hfit : Spec.frameSamplesFit f = true) :
    ∃ d, Spec.specDecode si f.serialize = .ok d ∧ d.channels = Spec.frameSamples f ∧ d.used = f.serialize.length
      ∧ d.frame.hdr = f.hdr ∧ d.frame.subs = f.subs := by
  have hp := parseFrame_serialize Spec.rfcLayout false false si f w (subsWf_to_rfc _ _ _ _ _ w.subs)
  have hb := serialize_bytes_lt f
  unfold Spec.specDecode
  rw [hp]; dsimp only
  -- header checksum (bit-serial) over the header bytes
  have hl8 := writeHeaderFields_len8 si f.hdr w.hdr
  have hbl := bitsToBytes_length _ hl8
  generalize hc : crc16 (bitsToBytes (writeHeaderFields f.hdr) ++ [crc8 (bitsToBytes (writeHeaderFields f.hdr))] ++
            bitsToBytes (writeSubframes f.hdr.assign f.hdr.bps f.subs 0 ++ f.padding)) = c16
  have eser : f.serialize = (bitsToBytes (writeHeaderFields f.hdr) ++ [crc8 (bitsToBytes (writeHeaderFields f.hdr))]) ++
      (bitsToBytes (writeSubframes f.hdr.assign f.hdr.bps f.subs 0 ++ f.padding) ++ [c16 / 256, c16 % 256]) := by
    have hc' := hc
    simp only [List.append_assoc] at hc'
    simp only [Frame.serialize, Frame.serializeWith, List.append_assoc, hc']
  have htake : f.serialize.take ((bitsToBytes (writeHeaderFields f.hdr)).length + 1) =
      bitsToBytes (writeHeaderFields f.hdr) ++ [crc8 (bitsToBytes (writeHeaderFields f.hdr))] := by
    rw [eser]; exact take_len_append _ _ _ (by simp)
  have h8 : Spec.crc8 (f.serialize.take ((bitsToBytes (writeHeaderFields f.hdr)).length + 1)) = 0 := by
    rw [← Flac.CrcEq.crc8_eq_spec _ (fun x hx => hb x (List.mem_of_mem_take hx)), htake, crc8_self]
  have h16 : Spec.crc16 (f.serialize.take f.serialize.length) = 0 := by
    rw [List.take_length, ← Flac.CrcEq.crc16_eq_spec _ hb]
    have := crc16_self (bitsToBytes (writeHeaderFields f.hdr) ++ [crc8 (bitsToBytes (writeHeaderFields f.hdr))] ++
              bitsToBytes (writeSubframes f.hdr.assign f.hdr.bps f.subs 0 ++ f.padding))
    rw [hc] at this
    rw [eser]
    simpa [List.append_assoc] using this
  have e8 : (Spec.crc8 (f.serialize.take ((bitsToBytes (writeHeaderFields f.hdr)).length + 1)) != 0) = false := by rw [h8]; rfl
  have e16 : (Spec.crc16 (f.serialize.take f.serialize.length) != 0) = false := by rw [h16]; rfl
  have ewf : Spec.frameWf { f with footer := c16 } = true := by
    unfold Spec.frameWf at hwf ⊢; exact hwf
  have efit : Spec.frameSamplesFit { f with footer := c16 } = true := by
    unfold Spec.frameSamplesFit Spec.frameSamples Spec.frameSubSamples at hfit ⊢; exact hfit
  simp only [e8, Bool.false_eq_true, if_false, ewf, Bool.not_true, e16, efit]
  exact ⟨_, rfl, rfl, rfl, rfl, rfl⟩

/-- non-vacuity: the one-sample mono frame `FF F8 69 08 00 00 1D 00 00 00 A0 27` parses to a frame that satisfies every hypothesis
    of `spec_accepts_serialized` (executable forms), and the specification decoder indeed accepts those bytes -/
example : (match parseFrame decLayout true none [255, 248, 105, 8, 0, 0, 29, 0, 0, 0, 160, 39] with
    | .ok pr => frameWfB none pr.frame && Spec.frameWf pr.frame && Spec.frameSamplesFit pr.frame
        && (match Spec.specDecode none [255, 248, 105, 8, 0, 0, 29, 0, 0, 0, 160, 39] with | .ok d => d.channels == [[0]] | .error _ => false)
    | .error _ => false) = true := by decide +kernel

end Flac.C02
