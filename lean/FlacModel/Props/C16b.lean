/-
  Props/C16b.lean — C16, the writer's side of "self-describing": every sample rate, bit depth and block length `FlacStreamWriter::write`
  accepts gets header codes under which the frame header alone carries them (the conditions of `FrameWf none`, the domain of
  `C16.written_frame_standalone`), and parameters that only STREAMINFO could carry are refused.
-/
import FlacModel.Model.RateEnc
import FlacModel.Props.C16

namespace Flac.C16
open Flac Flac.Gen

theorem fixed_all : encRateLiterals.all (fun r => match lookup sampleRateWriteFixed r with
    | some c => (lookup sampleRateCodeFixed c == some r) && decide (c < 2 ^ 4) && !sampleRateCodeInvalid.contains c && !sampleRateCodeStreaminfo.contains c
        && !sampleRateCodeKHz.contains c && !sampleRateCodeHz.contains c && !sampleRateCodeDHz.contains c
    | none => false) = true := by decide

/-- **Accepted rates are carried by the header itself**: the code is not the "see STREAMINFO" code, not the invalid code, fits its 4 bits,
    and the rate satisfies the well-formedness condition of that code without any STREAMINFO. -/
theorem accepted_rate_self_describing (rate c : Nat) (h : streamWriterRate rate = some c) :
    c < 2 ^ 4 ∧ sampleRateCodeInvalid.contains c = false ∧ sampleRateCodeStreaminfo.contains c = false ∧ rateOkB none c rate = true := by
  have hflag : streamWriterRefusesStreaminfoRate = true := rfl
  unfold streamWriterRate at h
  unfold encRateClass at h
  by_cases h0 : encRateLiterals.contains rate = true
  · simp only [h0, if_true, encRateCode, encRateClass] at h
    have hmem : rate ∈ encRateLiterals := by simpa using h0
    have := List.all_eq_true.mp fixed_all rate hmem
    rw [h] at this
    simp only [Bool.and_eq_true, beq_iff_eq, decide_eq_true_eq, Bool.not_eq_true'] at this
    obtain ⟨⟨⟨⟨⟨⟨hl, a1⟩, a2⟩, a3⟩, a4⟩, a5⟩, a6⟩ := this
    refine ⟨a1, a2, a3, ?_⟩
    simp only [rateOkB, a3, a4, a5, a6, Bool.false_eq_true, if_false, hl, Option.getD_some, beq_self_eq_true]
  · simp only [h0, Bool.false_eq_true, if_false] at h
    by_cases h1 : (rate % 1000 == 0 && decide (rate / 1000 < 255)) = true
    · simp only [h1, if_true, encRateCode, encRateClass, h0, Bool.false_eq_true, if_false, Option.some.injEq] at h
      have : c = 12 := by rw [← h]; decide
      subst this
      simp only [Bool.and_eq_true, beq_iff_eq, decide_eq_true_eq] at h1
      refine ⟨by decide, by decide, by decide, ?_⟩
      have e1 : sampleRateCodeStreaminfo.contains 12 = false := by decide
      have e2 : sampleRateCodeKHz.contains 12 = true := by decide
      simp only [rateOkB, e1, e2, Bool.false_eq_true, if_false, if_true, sampleRateKHzMul, sampleRateKHzBits, h1.1, beq_self_eq_true, Bool.true_and]
      have : (2 : Nat) ^ 8 = 256 := by decide
      exact decide_eq_true (by omega)
    · simp only [h1, Bool.false_eq_true, if_false] at h
      by_cases h2 : (rate % 10 == 0 && decide (rate / 10 < 65535)) = true
      · simp only [h2, if_true, encRateCode, encRateClass, h0, h1, Bool.false_eq_true, if_false, Option.some.injEq] at h
        have : c = 14 := by rw [← h]; decide
        subst this
        simp only [Bool.and_eq_true, beq_iff_eq, decide_eq_true_eq] at h2
        refine ⟨by decide, by decide, by decide, ?_⟩
        have e1 : sampleRateCodeStreaminfo.contains 14 = false := by decide
        have e2 : sampleRateCodeKHz.contains 14 = false := by decide
        have e3 : sampleRateCodeHz.contains 14 = false := by decide
        have e4 : sampleRateCodeDHz.contains 14 = true := by decide
        simp only [rateOkB, e1, e2, e3, e4, Bool.false_eq_true, if_false, if_true, sampleRateDHzMul, sampleRateDHzBits, h2.1, beq_self_eq_true, Bool.true_and]
        have : (2 : Nat) ^ 16 = 65536 := by decide
        exact decide_eq_true (by omega)
      · simp only [h2, Bool.false_eq_true, if_false] at h
        by_cases h3 : decide (rate < 65535) = true
        · simp only [h3, if_true, encRateCode, encRateClass, h0, h1, h2, Bool.false_eq_true, if_false, Option.some.injEq] at h
          have : c = 13 := by rw [← h]; decide
          subst this
          simp only [decide_eq_true_eq] at h3
          refine ⟨by decide, by decide, by decide, ?_⟩
          have e1 : sampleRateCodeStreaminfo.contains 13 = false := by decide
          have e2 : sampleRateCodeKHz.contains 13 = false := by decide
          have e3 : sampleRateCodeHz.contains 13 = true := by decide
          simp only [rateOkB, e1, e2, e3, Bool.false_eq_true, if_false, if_true, sampleRateHzMul, sampleRateHzBits, Nat.mod_one, beq_self_eq_true,
            Bool.true_and, Nat.div_one]
          have : (2 : Nat) ^ 16 = 65536 := by decide
          exact decide_eq_true (by omega)
        · simp only [h3, Bool.false_eq_true, if_false] at h
          by_cases h4 : decide (rate < 2 ^ 20) = true
          · simp only [h4, if_true, hflag] at h
            cases h
          · simp only [h4, Bool.false_eq_true, if_false, encRateCode, encRateClass, h0, h1, h2, h3] at h
            cases h

/-- rates that only STREAMINFO could carry are refused, whatever else is true of them -/
theorem streaminfo_only_rate_refused (rate : Nat) (h : encRateClass rate = some 4) : streamWriterRate rate = none := by
  simp [streamWriterRate, h, show streamWriterRefusesStreaminfoRate = true from rfl]

theorem bps_all : encBpsLiterals.all (fun b => match lookup bpsWriteFixed b with
    | some c => (lookup bpsCodeFixed c == some b) && decide (c < 2 ^ 3) && !bpsCodeInvalid.contains c && !bpsCodeStreaminfo.contains c
    | none => false) = true := by decide

/-- **Accepted depths are carried by the header itself** (the depth conditions of `FrameWf none`), and every other depth is refused. -/
theorem accepted_bps_self_describing (bps c : Nat) (h : streamWriterBps bps = some c) :
    c < 2 ^ 3 ∧ bpsCodeInvalid.contains c = false ∧ bpsCodeStreaminfo.contains c = false ∧ lookup bpsCodeFixed c = some bps := by
  unfold streamWriterBps at h
  by_cases hb : encBpsLiterals.contains bps = true
  · simp only [hb, if_true] at h
    have hmem : bps ∈ encBpsLiterals := by simpa using hb
    have := List.all_eq_true.mp bps_all bps hmem
    rw [h] at this
    simp only [Bool.and_eq_true, beq_iff_eq, decide_eq_true_eq, Bool.not_eq_true'] at this
    obtain ⟨⟨⟨hl, h3⟩, h4⟩, h5⟩ := this
    exact ⟨h3, h4, h5, hl⟩
  · have hflag : streamWriterRefusesStreaminfoBps = true := rfl
    simp only [hb, Bool.false_eq_true, if_false, hflag, if_true] at h
    cases h

theorem bs_write_all : blockSizeWriteFixed.all (fun p => (lookup blockSizeCodeFixed p.2 == some p.1) && decide (p.2 < 2 ^ 4) && !blockSizeCodeInvalid.contains p.2
    && !blockSizeCodeU8.contains p.2 && !blockSizeCodeU16.contains p.2) = true := by decide

/-- **Accepted block lengths are carried by the header itself**: 1 … 65535 samples per channel get a code whose well-formedness condition
    the length satisfies; 0 and anything longer is refused. -/
theorem accepted_block_size_self_describing (n c : Nat) (h : encBlockSizeCode n = some c) :
    1 ≤ n ∧ n ≤ 65535 ∧ c < 2 ^ 4 ∧ blockSizeCodeInvalid.contains c = false ∧ blockSizeOkB c n = true := by
  unfold encBlockSizeCode at h
  by_cases hr : n = 0 ∨ n > 65535
  · simp [hr] at h
  · simp only [hr, if_false] at h
    have hn : 1 ≤ n ∧ n ≤ 65535 := by omega
    cases hl : lookup blockSizeWriteFixed n with
    | some c0 =>
      rw [hl] at h
      simp only [Option.some.injEq] at h
      subst h
      -- (n, c0) is an entry of the write table
      have hmem : (n, c0) ∈ blockSizeWriteFixed := by
        unfold lookup at hl
        cases hf : blockSizeWriteFixed.find? (fun p => p.1 == n) with
        | none => rw [hf] at hl; cases hl
        | some p =>
          rw [hf] at hl
          simp only [Option.map_some, Option.some.injEq] at hl
          have h1 := List.find?_some hf
          have h2 := List.mem_of_find?_eq_some hf
          simp only [beq_iff_eq] at h1
          obtain ⟨a, b⟩ := p
          simp only at h1 hl
          subst h1 hl
          exact h2
      have := List.all_eq_true.mp bs_write_all (n, c0) hmem
      simp only [Bool.and_eq_true, beq_iff_eq, decide_eq_true_eq, Bool.not_eq_true'] at this
      obtain ⟨⟨⟨⟨l1, l2⟩, l3⟩, l4⟩, l5⟩ := this
      refine ⟨hn.1, hn.2, l2, l3, ?_⟩
      simp only [blockSizeOkB, l4, l5, Bool.false_eq_true, if_false, l1, Option.getD_some, beq_self_eq_true]
    | none =>
      rw [hl] at h
      dsimp only at h
      by_cases h8 : n ≤ blockSizeU8Bound
      · simp only [h8, if_true, Option.some.injEq] at h
        subst h
        have e : blockSizeCodeU8.contains blockSizeWriteU8 = true := by decide
        have hb : blockSizeU8Bound = 256 := rfl
        refine ⟨hn.1, hn.2, by decide, by decide, ?_⟩
        simp only [blockSizeOkB, e, if_true, Bool.and_eq_true, decide_eq_true_eq]
        omega
      · simp only [h8, if_false, Option.some.injEq] at h
        subst h
        have e1 : blockSizeCodeU8.contains blockSizeWriteU16 = false := by decide
        have e2 : blockSizeCodeU16.contains blockSizeWriteU16 = true := by decide
        refine ⟨hn.1, hn.2, by decide, by decide, ?_⟩
        simp only [blockSizeOkB, e1, e2, Bool.false_eq_true, if_false, if_true, Bool.and_eq_true, decide_eq_true_eq]
        omega

/-- non-vacuity, both ways -/
example : streamWriterRate 44100 = some 9 ∧ streamWriterRate 12000 = some 12 ∧ streamWriterRate 11025 = some 13 ∧ streamWriterRate 655340 = some 14
    ∧ streamWriterRate 768000 = none ∧ streamWriterRate 65537 = none ∧ streamWriterRate 2000000 = none
    ∧ streamWriterBps 16 = some 4 ∧ streamWriterBps 32 = some 7 ∧ streamWriterBps 10 = none ∧ streamWriterBps 1 = none
    ∧ encBlockSizeCode 4096 = some 12 ∧ encBlockSizeCode 100 = some 6 ∧ encBlockSizeCode 1000 = some 7 ∧ encBlockSizeCode 0 = none
    ∧ encBlockSizeCode 65536 = none := by decide

end Flac.C16
