/-
  Props/C16b.lean — C16, the writer's side of "self-describing": every sample rate, bit depth and block length `FlacStreamWriter::write`
  accepts gets header codes under which the frame header alone carries them (the conditions of `FrameWf none`, the domain of
  `C16.written_frame_standalone`), and parameters that only STREAMINFO could carry are refused.
-/
import FlacModel.Model.RateEnc
import FlacModel.Props.C16
import FlacModel.Proofs.CodecB

namespace Flac.C16
open Flac Flac.Gen

theorem fixed_all : encRateLiterals.all (fun r => match lookup sampleRateWriteFixed r with
    | some c => (lookup sampleRateCodeFixed c == some r) && decide (c < 2 ^ 4) && !sampleRateCodeInvalid.contains c && !sampleRateCodeStreaminfo.contains c
        && !sampleRateCodeKHz.contains c && !sampleRateCodeHz.contains c && !sampleRateCodeDHz.contains c
    | none => false) = true := by decide

/-- **Accepted rates are carried by the header itself**: the code is not the "see STREAMINFO" code, not the invalid code, fits its 4 bits,
    and the rate satisfies the well-formedness condition of that code without any STREAMINFO. -/
theorem accepted_rate_self_describing (rate c : Nat) (h : streamWriterRate rate = some c) :
    c < 2 ^ 4 ∧ sampleRateCodeInvalid.contains c = false ∧ sampleRateCodeStreaminfo.contains c = false ∧ rateOkB none c rate = true := by
  have hflag : streamWriterRefusesStreaminfoRate = true := rfl
  unfold streamWriterRate at h
  unfold encRateClass at h
  by_cases h0 : encRateLiterals.contains rate = true
  · simp only [h0, if_true, encRateCode, encRateClass] at h
    have hmem : rate ∈ encRateLiterals := by simpa using h0
    have := List.all_eq_true.mp fixed_all rate hmem
    rw [h] at this
    simp only [Bool.and_eq_true, beq_iff_eq, decide_eq_true_eq, Bool.not_eq_true'] at this
    obtain ⟨⟨⟨⟨⟨⟨hl, a1⟩, a2⟩, a3⟩, a4⟩, a5⟩, a6⟩ := this
    refine ⟨a1, a2, a3, ?_⟩
    simp only [rateOkB, a3, a4, a5, a6, Bool.false_eq_true, if_false, hl, Option.getD_some, beq_self_eq_true]
  · simp only [h0, Bool.false_eq_true, if_false] at h
    by_cases h1 : (rate % 1000 == 0 && decide (rate / 1000 < 255)) = true
    · simp only [h1, if_true, encRateCode, encRateClass, h0, Bool.false_eq_true, if_false, Option.some.injEq] at h
      have : c = 12 := by rw [← h]; decide
      subst this
      simp only [Bool.and_eq_true, beq_iff_eq, decide_eq_true_eq] at h1
      refine ⟨by decide, by decide, by decide, ?_⟩
      have e1 : sampleRateCodeStreaminfo.contains 12 = false := by decide
      have e2 : sampleRateCodeKHz.contains 12 = true := by decide
      simp only [rateOkB, e1, e2, Bool.false_eq_true, if_false, if_true, sampleRateKHzMul, sampleRateKHzBits, h1.1, beq_self_eq_true, Bool.true_and]
      have : (2 : Nat) ^ 8 = 256 := by decide
      exact decide_eq_true (by omega)
    · simp only [h1, Bool.false_eq_true, if_false] at h
      by_cases h2 : (rate % 10 == 0 && decide (rate / 10 < 65535)) = true
      · simp only [h2, if_true, encRateCode, encRateClass, h0, h1, Bool.false_eq_true, if_false, Option.some.injEq] at h
        have : c = 14 := by rw [← h]; decide
        subst this
        simp only [Bool.and_eq_true, beq_iff_eq, decide_eq_true_eq] at h2
        refine ⟨by decide, by decide, by decide, ?_⟩
        have e1 : sampleRateCodeStreaminfo.contains 14 = false := by decide
        have e2 : sampleRateCodeKHz.contains 14 = false := by decide
        have e3 : sampleRateCodeHz.contains 14 = false := by decide
        have e4 : sampleRateCodeDHz.contains 14 = true := by decide
        simp only [rateOkB, e1, e2, e3, e4, Bool.false_eq_true, if_false, if_true, sampleRateDHzMul, sampleRateDHzBits, h2.1, beq_self_eq_true, Bool.true_and]
        have : (2 : Nat) ^ 16 = 65536 := by decide
        exact decide_eq_true (by omega)
      · simp only [h2, Bool.false_eq_true, if_false] at h
        by_cases h3 : decide (rate < 65535) = true
        · simp only [h3, if_true, encRateCode, encRateClass, h0, h1, h2, Bool.false_eq_true, if_false, Option.some.injEq] at h
          have : c = 13 := by rw [← h]; decide
          subst this
          simp only [decide_eq_true_eq] at h3
          refine ⟨by decide, by decide, by decide, ?_⟩
          have e1 : sampleRateCodeStreaminfo.contains 13 = false := by decide
          have e2 : sampleRateCodeKHz.contains 13 = false := by decide
          have e3 : sampleRateCodeHz.contains 13 = true := by decide
          simp only [rateOkB, e1, e2, e3, Bool.false_eq_true, if_false, if_true, sampleRateHzMul, sampleRateHzBits, Nat.mod_one, beq_self_eq_true,
            Bool.true_and, Nat.div_one]
          have : (2 : Nat) ^ 16 = 65536 := by decide
          exact decide_eq_true (by omega)
        · simp only [h3, Bool.false_eq_true, if_false] at h
          by_cases h4 : decide (rate < 2 ^ 20) = true
          · simp only [h4, if_true, hflag] at h
            cases h
          · simp only [h4, Bool.false_eq_true, if_false, encRateCode, encRateClass, h0, h1, h2, h3] at h
            cases h

/-- rates that only STREAMINFO could carry are refused, whatever else is true of them -/
theorem streaminfo_only_rate_refused (rate : Nat) (h : encRateClass rate = some 4) : streamWriterRate rate = none := by
  simp [streamWriterRate, h, show streamWriterRefusesStreaminfoRate = true from rfl]

theorem bps_all : encBpsLiterals.all (fun b => match lookup bpsWriteFixed b with
    | some c => (lookup bpsCodeFixed c == some b) && decide (c < 2 ^ 3) && !bpsCodeInvalid.contains c && !bpsCodeStreaminfo.contains c
    | none => false) = true := by decide

/-- **Accepted depths are carried by the header itself** (the depth conditions of `FrameWf none`), and every other depth is refused. -/
theorem accepted_bps_self_describing (bps c : Nat) (h : streamWriterBps bps = some c) :
    c < 2 ^ 3 ∧ bpsCodeInvalid.contains c = false ∧ bpsCodeStreaminfo.contains c = false ∧ lookup bpsCodeFixed c = some bps := by
  unfold streamWriterBps at h
  by_cases hb : encBpsLiterals.contains bps = true
  · simp only [hb, if_true] at h
    have hmem : bps ∈ encBpsLiterals := by simpa using hb
    have := List.all_eq_true.mp bps_all bps hmem
    rw [h] at this
    simp only [Bool.and_eq_true, beq_iff_eq, decide_eq_true_eq, Bool.not_eq_true'] at this
    obtain ⟨⟨⟨hl, h3⟩, h4⟩, h5⟩ := this
    exact ⟨h3, h4, h5, hl⟩
  · have hflag : streamWriterRefusesStreaminfoBps = true := rfl
    simp only [hb, Bool.false_eq_true, if_false, hflag, if_true] at h
    cases h

theorem bs_write_all : blockSizeWriteFixed.all (fun p => (lookup blockSizeCodeFixed p.2 == some p.1) && decide (p.2 < 2 ^ 4) && !blockSizeCodeInvalid.contains p.2
    && !blockSizeCodeU8.contains p.2 && !blockSizeCodeU16.contains p.2) = true := by decide

/-- **Accepted block lengths are carried by the header itself**: 1 … 65535 samples per channel get a code whose well-formedness condition
    the length satisfies; 0 and anything longer is refused. -/
theorem accepted_block_size_self_describing (n c : Nat) (h : encBlockSizeCode n = some c) :
    1 ≤ n ∧ n ≤ 65535 ∧ c < 2 ^ 4 ∧ blockSizeCodeInvalid.contains c = false ∧ blockSizeOkB c n = true := by
  unfold encBlockSizeCode at h
  by_cases hr : n = 0 ∨ n > 65535
  · simp [hr] at h
  · simp only [hr, if_false] at h
    have hn : 1 ≤ n ∧ n ≤ 65535 := by omega
    cases hl : lookup blockSizeWriteFixed n with
    | some c0 =>
      rw [hl] at h
      simp only [Option.some.injEq] at h
      subst h
      -- (n, c0) is an entry of the write table
      have hmem : (n, c0) ∈ blockSizeWriteFixed := by
        unfold lookup at hl
        cases hf : blockSizeWriteFixed.find? (fun p => p.1 == n) with
        | none => rw [hf] at hl; cases hl
        | some p =>
          rw [hf] at hl
          simp only [Option.map_some, Option.some.injEq] at hl
          have h1 := List.find?_some hf
          have h2 := List.mem_of_find?_eq_some hf
          simp only [beq_iff_eq] at h1
          obtain ⟨a, b⟩ := p
          simp only at h1 hl
          subst h1 hl
          exact h2
      have := List.all_eq_true.mp bs_write_all (n, c0) hmem
      simp only [Bool.and_eq_true, beq_iff_eq, decide_eq_true_eq, Bool.not_eq_true'] at this
      obtain ⟨⟨⟨⟨l1, l2⟩, l3⟩, l4⟩, l5⟩ := this
      refine ⟨hn.1, hn.2, l2, l3, ?_⟩
      simp only [blockSizeOkB, l4, l5, Bool.false_eq_true, if_false, l1, Option.getD_some, beq_self_eq_true]
    | none =>
      rw [hl] at h
      dsimp only at h
      by_cases h8 : n ≤ blockSizeU8Bound
      · simp only [h8, if_true, Option.some.injEq] at h
        subst h
        have e : blockSizeCodeU8.contains blockSizeWriteU8 = true := by decide
        have hb : blockSizeU8Bound = 256 := rfl
        refine ⟨hn.1, hn.2, by decide, by decide, ?_⟩
        simp only [blockSizeOkB, e, if_true, Bool.and_eq_true, decide_eq_true_eq]
        omega
      · simp only [h8, if_false, Option.some.injEq] at h
        subst h
        have e1 : blockSizeCodeU8.contains blockSizeWriteU16 = false := by decide
        have e2 : blockSizeCodeU16.contains blockSizeWriteU16 = true := by decide
        refine ⟨hn.1, hn.2, by decide, by decide, ?_⟩
        simp only [blockSizeOkB, e1, e2, Bool.false_eq_true, if_false, if_true, Bool.and_eq_true, decide_eq_true_eq]
        omega

theorem number_wf (v : Nat) (h : v < 2 ^ 36) : numWfB v (encNumberBytes v) = true := by
  unfold encNumberBytes numWfB
  have p7 : (2 : Nat) ^ 7 = 128 := by decide
  have p11 : (2 : Nat) ^ 11 = 2048 := by decide
  have p16 : (2 : Nat) ^ 16 = 65536 := by decide
  have p21 : (2 : Nat) ^ 21 = 2097152 := by decide
  have p26 : (2 : Nat) ^ 26 = 67108864 := by decide
  have p31 : (2 : Nat) ^ 31 = 2147483648 := by decide
  have p36 : (2 : Nat) ^ 36 = 68719476736 := by decide
  rw [p36] at h
  simp only [p7, p11, p16, p21, p26, p31]
  split
  · simp; omega
  · split
    · simp; omega
    · split
      · simp; omega
      · split
        · simp; omega
        · split
          · simp; omega
          · split
            · simp; omega
            · simp; omega

/-- **Every header the stream writer builds for parameters it accepts is well-formed without STREAMINFO** (`headerWfB none`, proved sound
    for `HeaderWf none`, the header part of the domain of `C16.written_frame_standalone`): whatever rate, depth, channel assignment, block
    length and frame number it was asked for, either it refuses or the header it writes carries all of them by itself. -/
theorem stream_writer_header_wf (rate bps : Nat) (a : Assign) (n number hcrc : Nat) (hnum : number < 2 ^ 36) (hc : hcrc < 2 ^ 8) (h : Header)
    (hh : streamWriterHeader rate bps a n number hcrc = some h) : headerWfB none h = true := by
  unfold streamWriterHeader at hh
  cases hr : streamWriterRate rate with
  | none => rw [hr] at hh; cases hh
  | some rc =>
    cases hb : streamWriterBps bps with
    | none => rw [hr, hb] at hh; cases hh
    | some bc =>
      cases hs : encBlockSizeCode n with
      | none => rw [hr, hb, hs] at hh; cases hh
      | some sc =>
        rw [hr, hb, hs] at hh
        dsimp only at hh
        by_cases hch : assignOkB a = true
        · simp only [hch, if_true, Option.some.injEq] at hh
          subst hh
          obtain ⟨r1, r2, r3, r4⟩ := accepted_rate_self_describing rate rc hr
          obtain ⟨b1, b2, b3, b4⟩ := accepted_bps_self_describing bps bc hb
          obtain ⟨s1, s2, s3, s4, s5⟩ := accepted_block_size_self_describing n sc hs
          simp only [headerWfB, s3, s4, r1, r2, r3, b1, b2, b3, b4, r4, s5, number_wf number hnum, hc, hch, decide_true,
            Bool.not_false, Bool.and_self, Bool.true_and, Bool.false_and, Option.isNone_none, Bool.and_true, Bool.false_eq_true, if_false,
            Option.getD_some, beq_self_eq_true, Bool.not_true]
        · simp only [hch, Bool.false_eq_true, if_false] at hh
          cases hh

theorem bps_le_32 : encBpsLiterals.all (· ≤ 32) = true := by decide

theorem accepted_bps_le (bps c : Nat) (h : streamWriterBps bps = some c) : bps ≤ 32 := by
  unfold streamWriterBps at h
  by_cases hl : encBpsLiterals.contains bps = true
  · have := List.all_eq_true.mp bps_le_32 bps (by simpa using hl)
    simpa using this
  · have hflag : streamWriterRefusesStreaminfoBps = true := rfl
    simp only [hl, Bool.false_eq_true, if_false, hflag, if_true] at h
    cases h

/-- **Every frame the stream writer emits stands alone.**  Take any parameters it accepts, any channel assignment, and any subframes
    the encoder's search may produce for them (well-formed for that header: `subsWf`), byte-aligned with zero to seven padding bits:
    the frame is well-formed WITHOUT any STREAMINFO, so (`C16.written_frame_standalone`) it decodes from its own bytes alone to the
    samples its subframes expand to. -/
theorem stream_writer_frame_wf (rate bps : Nat) (a : Assign) (n number : Nat) (hnum : number < 2 ^ 36) (h0 : Header)
    (hh : streamWriterHeader rate bps a n number 0 = some h0) (subs : List Subframe) (padding : Bits) (footer : Nat)
    (hcount : subs.length = a.count) (hsubs : subsWf decLayout a n bps subs 0) (hpad : padding.length < 8)
    (hal : ((writeSubframes a bps subs 0).length + padding.length) % 8 = 0) :
    FrameWf none { hdr := { h0 with hcrc := crc8 (bitsToBytes (writeHeaderFields h0)) }, subs := subs, padding := padding, footer := footer } := by
  have hh' : streamWriterHeader rate bps a n number (crc8 (bitsToBytes (writeHeaderFields h0)))
      = some { h0 with hcrc := crc8 (bitsToBytes (writeHeaderFields h0)) } := by
    unfold streamWriterHeader at hh ⊢
    cases hr : streamWriterRate rate with
    | none => rw [hr] at hh; cases hh
    | some rc =>
      cases hb : streamWriterBps bps with
      | none => rw [hr, hb] at hh; cases hh
      | some bc =>
        cases hs : encBlockSizeCode n with
        | none => rw [hr, hb, hs] at hh; cases hh
        | some sc =>
          rw [hr, hb, hs] at hh
          dsimp only at hh ⊢
          by_cases hch : assignOkB a = true
          · simp only [hch, if_true, Option.some.injEq] at hh ⊢
            subst hh; rfl
          · simp only [hch, Bool.false_eq_true, if_false] at hh; cases hh
  have hwf := headerWfB_sound none _ (stream_writer_header_wf rate bps a n number _ hnum (crc8_lt _) _ hh')
  -- the fields of the header
  have hfields : h0.assign = a ∧ h0.blockSize = n ∧ h0.bps = bps ∧ bps ≤ 32 := by
    unfold streamWriterHeader at hh
    cases hr : streamWriterRate rate with
    | none => rw [hr] at hh; cases hh
    | some rc =>
      cases hb : streamWriterBps bps with
      | none => rw [hr, hb] at hh; cases hh
      | some bc =>
        cases hs : encBlockSizeCode n with
        | none => rw [hr, hb, hs] at hh; cases hh
        | some sc =>
          rw [hr, hb, hs] at hh
          dsimp only at hh
          by_cases hch : assignOkB a = true
          · simp only [hch, if_true, Option.some.injEq] at hh
            subst hh
            exact ⟨rfl, rfl, rfl, accepted_bps_le bps bc hb⟩
          · simp only [hch, Bool.false_eq_true, if_false] at hh; cases hh
  obtain ⟨f1, f2, f3, f4⟩ := hfields
  exact { hdr := hwf, hcrc := rfl, check := rfl, bps := by show h0.bps ≤ 32; rw [f3]; exact f4,
          count := by show subs.length = h0.assign.count; rw [f1]; exact hcount,
          subs := by show subsWf decLayout h0.assign h0.blockSize h0.bps subs 0; rw [f1, f2, f3]; exact hsubs,
          padLt := hpad,
          aligned := by show ((writeSubframes h0.assign h0.bps subs 0).length + padding.length) % 8 = 0; rw [f1, f3]; exact hal }

/-- … hence it is read back from its own bytes alone, with the samples its subframes expand to -/
theorem stream_writer_frame_standalone (p : Profile) (rate bps : Nat) (a : Assign) (n number : Nat) (hnum : number < 2 ^ 36) (h0 : Header)
    (hh : streamWriterHeader rate bps a n number 0 = some h0) (subs : List Subframe) (padding : Bits) (footer : Nat)
    (hcount : subs.length = a.count) (hsubs : subsWf decLayout a n bps subs 0) (hpad : padding.length < 8)
    (hal : ((writeSubframes a bps subs 0).length + padding.length) % 8 = 0)
    (xss out : List (List Int))
    (hx : subsDecode p h0.assign h0.blockSize h0.bps subs xss 0) (hr : recorrelate p h0.assign h0.bps xss = .ok out) :
    let f : Frame := { hdr := { h0 with hcrc := crc8 (bitsToBytes (writeHeaderFields h0)) }, subs := subs, padding := padding, footer := footer }
    Standalone p f.serialize { hdr := f.hdr, channels := out, used := f.serialize.length } :=
  written_frame_standalone p _ xss out (stream_writer_frame_wf rate bps a n number hnum h0 hh subs padding footer hcount hsubs hpad hal) hx hr

/-- non-vacuity, both ways -/
example : streamWriterRate 44100 = some 9 ∧ streamWriterRate 12000 = some 12 ∧ streamWriterRate 11025 = some 13 ∧ streamWriterRate 655340 = some 14
    ∧ streamWriterRate 768000 = none ∧ streamWriterRate 65537 = none ∧ streamWriterRate 2000000 = none
    ∧ streamWriterBps 16 = some 4 ∧ streamWriterBps 32 = some 7 ∧ streamWriterBps 10 = none ∧ streamWriterBps 1 = none
    ∧ encBlockSizeCode 4096 = some 12 ∧ encBlockSizeCode 100 = some 6 ∧ encBlockSizeCode 1000 = some 7 ∧ encBlockSizeCode 0 = none
    ∧ encBlockSizeCode 65536 = none
    ∧ (streamWriterHeader 44100 16 (.indep 2) 4096 7 0).isSome = true ∧ (streamWriterHeader 768000 16 (.indep 2) 4096 7 0).isSome = false := by decide

end Flac.C16
