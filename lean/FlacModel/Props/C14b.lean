/-
  Props/C14b.lean — C14 for the whole interrupted FILE: the metadata section written up front (with the provisional
  STREAMINFO that declares no total) followed by the frames written so far and a cut inside the next frame is decoded by the
  file readers' model to exactly the complete frames, then end of data (or a clean end if the cut fell on a frame boundary).
-/
import FlacModel.Props.C14
import FlacModel.Proofs.FileHead

namespace Flac.C14
open Flac Gen

theorem frame_bytes_pos (p : Profile) (si : Option SInfo) (f : List Nat) (d : Decoded)
    (h : decodeFrame p si f = .ok d) : 1 ≤ f.length := by
  cases f with
  | nil =>
    simp [decodeFrame, readHeaderFields, bytesToBits, bind, P.bind, readU, takeBits, splitExact] at h
  | cons _ _ => simp

theorem flatten_len_ge (fs : List (List Nat × Decoded)) (h : ∀ fd ∈ fs, 1 ≤ fd.1.length) :
    fs.length ≤ ((fs.map (·.1)).flatten).length := by
  induction fs with
  | nil => simp
  | cons x xs ih =>
    have := h x (by simp)
    have := ih (fun y hy => h y (by simp [hy]))
    simp only [List.map_cons, List.flatten_cons, List.length_append, List.length_cons]
    omega

/-- **An interrupted file decodes to its complete frames.** -/
theorem interrupted_file_decodes (p : Profile) (si : Streaminfo) (rest : List Block) (hw : C11.streaminfoWf si = true)
    (out : List Nat) (h : writeBlocks (.streaminfo si :: rest) = .ok out) (htot : si.total = 0)
    (fs : List (List Nat × Decoded))
    (hdec : ∀ fd ∈ fs, decodeFrame p (some { rate := si.rate, channels := si.channels, bps := si.bps, maxBlock := si.maxBlock }) fd.1 = .ok fd.2
      ∧ fd.2.used = fd.1.length)
    (part x : List Nat) (d : Decoded)
    (hcut : part = [] ∨ (x ≠ [] ∧ decodeFrame p (some { rate := si.rate, channels := si.channels, bps := si.bps, maxBlock := si.maxBlock }) (part ++ x) = .ok d
      ∧ d.used = (part ++ x).length)) :
    ∃ hd, hd.si = si ∧
      fileDecode p (out ++ ((fs.map (·.1)).flatten ++ part))
        = .ok { head := hd, frames := fs.map (·.2.channels), stop := if part = [] then none else some .eof } := by
  obtain ⟨hd, h1, h2, h3⟩ := file_head_roundtrip si rest hw out h ((fs.map (·.1)).flatten ++ part)
  refine ⟨hd, h2, ?_⟩
  unfold fileDecode
  rw [h1]; dsimp only
  have hdrop : (out ++ ((fs.map (·.1)).flatten ++ part)).drop hd.framesStart = (fs.map (·.1)).flatten ++ part := by
    rw [h3]; simp
  have hsi : sinfoOfHead hd = { rate := si.rate, channels := si.channels, bps := si.bps, maxBlock := si.maxBlock } := by
    simp [sinfoOfHead, h2]
  rw [hdrop, hsi, h2, htot]
  have hlen := flatten_len_ge fs (fun fd hfd => frame_bytes_pos p _ fd.1 fd.2 (hdec fd hfd).1)
  have := interrupted_decodes_complete_frames p _ fs hdec part x d hcut
    ((out ++ ((fs.map (·.1)).flatten ++ part)).length + 2) 0 []
    (by simp only [List.length_append]; omega)
  rw [this]
  simp

end Flac.C14
