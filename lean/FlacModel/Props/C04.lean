/-
  Props/C04.lean — C04: decoding arbitrary bytes never panics (both build profiles).
  `NoPanic r` = the modelled call does not end at a panic site.  Every function of the frame
  decoder model is shown panic-free for ALL inputs; the arithmetic facts come from the kernels
  regenerated from decode.rs (wrapping operations, guarded partition length).
-/
import FlacModel.Model.FileDecode
import FlacModel.Model.StreamReader
import FlacModel.Proofs.Machine

namespace Flac.C04
open Flac Gen

def NoPanic (r : Res α) : Prop := ∀ s, r ≠ .error (.panic s)

def PNoPanic (p : P α) : Prop := ∀ b, NoPanic (p b)

theorem np_ok (a : α) : NoPanic (.ok a : Res α) := by intro s h; cases h
theorem np_err (c : String) : NoPanic (.error (.err c) : Res α) := by intro s h; cases h
theorem np_eof : NoPanic (.error .eof : Res α) := by intro s h; cases h

/-- sequencing in the explicit `match … with | .error e => .error e | .ok a => g a` style -/
theorem np_seq {f : Res α} {g : α → Res β} (hf : NoPanic f) (hg : ∀ a, NoPanic (g a)) :
    NoPanic (match f with | .error e => .error e | .ok a => g a) := by
  cases f with
  | error e => intro s h; exact hf s (by simpa using h)
  | ok a => exact hg a

theorem pnp_pure (a : α) : PNoPanic (pure a : P α) := fun _ => np_ok _
theorem pnp_failErr (c : String) : PNoPanic (P.fail (.err c) : P α) := fun _ => np_err c

theorem pnp_bind {p : P α} {f : α → P β} (hp : PNoPanic p) (hf : ∀ a, PNoPanic (f a)) : PNoPanic (p >>= f) := by
  intro b
  show NoPanic (P.bind p f b)
  unfold P.bind
  cases h : p b with
  | error e => intro s hs; exact hp b s (by rw [h]; simpa using hs)
  | ok r => obtain ⟨a, b'⟩ := r; exact hf a b'

/-! ### primitive readers -/

theorem pnp_readBit : PNoPanic readBit := by
  intro b; cases b <;> simp [readBit, np_eof, np_ok]

theorem pnp_takeBits (n : Nat) : PNoPanic (takeBits n) := by
  intro b; unfold takeBits; split
  · exact np_eof
  · exact np_ok _

theorem pnp_readU (n : Nat) : PNoPanic (readU n) := by
  intro b; unfold readU
  cases h : takeBits n b with
  | error e => intro s hs; exact pnp_takeBits n b s (by rw [h]; simpa using hs)
  | ok r => exact np_ok _

theorem pnp_readS (n : Nat) : PNoPanic (readS n) := by
  intro b; unfold readS
  cases h : takeBits n b with
  | error e => intro s hs; exact pnp_takeBits n b s (by rw [h]; simpa using hs)
  | ok r => exact np_ok _

theorem pnp_readUnary1 : PNoPanic readUnary1 := by
  intro b
  induction b with
  | nil => simp [readUnary1, np_eof]
  | cons x xs ih =>
    cases x with
    | true => simp [readUnary1, np_ok]
    | false =>
      simp only [readUnary1]
      cases h : readUnary1 xs with
      | error e => intro s hs; exact ih s (by rw [h]; simpa using hs)
      | ok r => exact np_ok _

theorem pnp_readUnary0 : PNoPanic readUnary0 := by
  intro b
  induction b with
  | nil => simp [readUnary0, np_eof]
  | cons x xs ih =>
    cases x with
    | false => simp [readUnary0, np_ok]
    | true =>
      simp only [readUnary0]
      cases h : readUnary0 xs with
      | error e => intro s hs; exact ih s (by rw [h]; simpa using hs)
      | ok r => exact np_ok _

theorem pnp_readN {p : P α} (hp : PNoPanic p) (n : Nat) : PNoPanic (readN p n) := by
  induction n with
  | zero => intro b; simp [readN, np_ok]
  | succ n ih =>
    intro b
    simp only [readN]
    cases h : p b with
    | error e => intro s hs; exact hp b s (by rw [h]; simpa using hs)
    | ok r =>
      obtain ⟨x, b'⟩ := r
      simp only []
      cases h2 : readN p n b' with
      | error e => intro s hs; exact ih b' s (by rw [h2]; simpa using hs)
      | ok r2 => exact np_ok _

/-! ### residuals -/

theorem pnp_readRiceOne (k : Nat) : PNoPanic (readRiceOne k) := by
  intro b; unfold readRiceOne
  cases h : readUnary1 b with
  | error e => intro s hs; exact pnp_readUnary1 b s (by rw [h]; simpa using hs)
  | ok r =>
    obtain ⟨msb, b1⟩ := r
    simp only []
    cases h2 : readU k b1 with
    | error e => intro s hs; exact pnp_readU k b1 s (by rw [h2]; simpa using hs)
    | ok r2 =>
      obtain ⟨lsb, b2⟩ := r2
      simp only []
      split
      · exact np_err _
      · exact np_ok _

theorem pnp_readPartition (pbits n : Nat) : PNoPanic (readPartition pbits n) := by
  intro b; unfold readPartition
  cases h : readU pbits b with
  | error e => intro s hs; exact pnp_readU pbits b s (by rw [h]; simpa using hs)
  | ok r =>
    obtain ⟨k, b1⟩ := r
    simp only []
    split
    · cases h2 : readU 5 b1 with
      | error e => intro s hs; exact pnp_readU 5 b1 s (by rw [h2]; simpa using hs)
      | ok r2 =>
        obtain ⟨w, b2⟩ := r2
        simp only []
        split
        · exact np_ok _
        · cases h3 : readN (readS w) n b2 with
          | error e => intro s hs; exact pnp_readN (pnp_readS w) n b2 s (by rw [h3]; simpa using hs)
          | ok r3 => exact np_ok _
    · cases h3 : readN (readRiceOne k) n b1 with
      | error e => intro s hs; exact pnp_readN (pnp_readRiceOne k) n b1 s (by rw [h3]; simpa using hs)
      | ok r3 => exact np_ok _

theorem pnp_readPartitions (pbits : Nat) (ns : List Nat) : PNoPanic (readPartitions pbits ns) := by
  induction ns with
  | nil => intro b; simp [readPartitions, np_ok]
  | cons n ns ih =>
    intro b
    simp only [readPartitions]
    cases h : readPartition pbits n b with
    | error e => intro s hs; exact pnp_readPartition pbits n b s (by rw [h]; simpa using hs)
    | ok r =>
      obtain ⟨p, b1⟩ := r
      simp only []
      cases h2 : readPartitions pbits ns b1 with
      | error e => intro s hs; exact ih b1 s (by rw [h2]; simpa using hs)
      | ok r2 => exact np_ok _

/-- the decoder's partition layout never panics: a zero partition length is an error
    (this is `Gen.decZeroPartitionLen`, extracted from `read_block`) -/
theorem np_decLayout (bs order po : Nat) : NoPanic (decLayout bs order po) := by
  unfold decLayout
  split
  · exact np_err _
  · split
    · have : decZeroPartitionLen = .err "InvalidPartitionOrder" := rfl
      rw [this]; exact np_err _
    · split
      · exact np_err _
      · exact np_ok _

theorem pnp_readResidual (bs order : Nat) : PNoPanic (readResidual decLayout bs order) := by
  intro b; unfold readResidual
  cases h : readU 2 b with
  | error e => intro s hs; exact pnp_readU 2 b s (by rw [h]; simpa using hs)
  | ok r =>
    obtain ⟨method, b1⟩ := r
    simp only []
    split
    · exact np_err _
    · cases h2 : readU 4 b1 with
      | error e => intro s hs; exact pnp_readU 4 b1 s (by rw [h2]; simpa using hs)
      | ok r2 =>
        obtain ⟨po, b2⟩ := r2
        simp only []
        cases h3 : decLayout bs order po with
        | error e => intro s hs; exact np_decLayout bs order po s (by rw [h3]; simpa using hs)
        | ok sizes =>
          simp only []
          cases h4 : readPartitions (4 + method) sizes b2 with
          | error e => intro s hs; exact pnp_readPartitions _ sizes b2 s (by rw [h4]; simpa using hs)
          | ok r4 => exact np_ok _

/-! ### subframes -/

theorem pnp_readSubHeader : PNoPanic readSubHeader := by
  intro b; unfold readSubHeader
  cases h : readBit b with
  | error e => intro s hs; exact pnp_readBit b s (by rw [h]; simpa using hs)
  | ok r =>
    obtain ⟨pad, b1⟩ := r
    simp only []
    split
    · exact np_err _
    · cases h2 : readU 6 b1 with
      | error e => intro s hs; exact pnp_readU 6 b1 s (by rw [h2]; simpa using hs)
      | ok r2 =>
        obtain ⟨ty, b2⟩ := r2
        simp only []
        split
        · exact np_err _
        · cases h3 : readBit b2 with
          | error e => intro s hs; exact pnp_readBit b2 s (by rw [h3]; simpa using hs)
          | ok r3 =>
            obtain ⟨hasW, b3⟩ := r3
            simp only []
            split
            · exact np_ok _
            · cases h4 : readUnary1 b3 with
              | error e => intro s hs; exact pnp_readUnary1 b3 s (by rw [h4]; simpa using hs)
              | ok r4 => exact np_ok _

/-- the signed value of `n` bits is below `2^(n-1)` -/
theorem bitsToNat_lt (b : Bits) : bitsToNat b < 2 ^ b.length := by
  have gen : ∀ (b : Bits) (a : Nat), b.foldl (fun a x => 2 * a + (if x then 1 else 0)) a < (a + 1) * 2 ^ b.length := by
    intro b
    induction b with
    | nil => intro a; simp
    | cons x xs ih =>
      intro a
      simp only [List.foldl_cons, List.length_cons]
      have := ih (2 * a + (if x then 1 else 0))
      have h2 : (2 * a + (if x then 1 else 0) + 1) * 2 ^ xs.length ≤ (a + 1) * 2 ^ (xs.length + 1) := by
        rw [Nat.pow_succ]
        have : 2 * a + (if x then 1 else 0) + 1 ≤ (a + 1) * 2 := by split <;> omega
        calc (2 * a + (if x then 1 else 0) + 1) * 2 ^ xs.length ≤ ((a + 1) * 2) * 2 ^ xs.length := Nat.mul_le_mul_right _ this
          _ = (a + 1) * (2 ^ xs.length * 2) := by rw [Nat.mul_assoc, Nat.mul_comm 2]
      omega
  have := gen b 0
  simpa [bitsToNat] using this

theorem splitExact_length (n : Nat) (b t r : Bits) (h : splitExact n b = some (t, r)) : t.length = n := by
  induction n generalizing b t r with
  | zero => simp [splitExact] at h; rw [h.1]; rfl
  | succ n ih =>
    cases b with
    | nil => simp [splitExact] at h
    | cons x xs =>
      simp only [splitExact] at h
      cases hs : splitExact n xs with
      | none => rw [hs] at h; simp at h
      | some p =>
        obtain ⟨t', r'⟩ := p
        rw [hs] at h
        simp only [Option.some.injEq, Prod.mk.injEq] at h
        rw [← h.1]; simp [ih xs t' r' hs]

theorem readS5_lt (b : Bits) (v : Int) (r : Bits) (h : readS 5 b = .ok (v, r)) : v < 16 := by
  unfold readS at h
  cases ht : takeBits 5 b with
  | error e => rw [ht] at h; simp at h
  | ok x =>
    obtain ⟨bits, rest⟩ := x
    rw [ht] at h
    simp only [Except.ok.injEq, Prod.mk.injEq] at h
    unfold takeBits at ht
    cases hs : splitExact 5 b with
    | none => rw [hs] at ht; simp at ht
    | some p =>
      obtain ⟨t', r'⟩ := p
      rw [hs] at ht
      simp only [Except.ok.injEq, Prod.mk.injEq] at ht
      have hlen : bits.length = 5 := by rw [← ht.1]; exact splitExact_length 5 b t' r' hs
      rw [← h.1]
      match bits, hlen with
      | [s, a, b', c, d], _ =>
        have hb := bitsToNat_lt [a, b', c, d]
        simp only [bitsToInt, List.length_cons, List.length_nil] at hb ⊢
        split <;> omega

/-- facts about a parsed subframe that the arithmetic relies on -/
def SubOk (bps : Nat) (s : Subframe) : Prop :=
  s.wasted < bps ∧ (∀ o w pr sh c r, s.body = .lpc o w pr sh c r → sh < 16)

theorem readSubframe_np_facts (cw : Bool) (bs bps : Nat) (b : Bits) :
    NoPanic (readSubframe decLayout cw bs bps b) ∧
    (∀ s r, readSubframe decLayout cw bs bps b = .ok (s, r) → SubOk bps s) := by
  unfold readSubframe
  cases h : readSubHeader b with
  | error e =>
    refine ⟨?_, fun s r hs => by simp at hs⟩
    intro s hs; exact pnp_readSubHeader b s (by rw [h]; simpa using hs)
  | ok r0 =>
    obtain ⟨⟨ty, wasted⟩, b1⟩ := r0
    simp only []
    by_cases hw : bps ≤ wasted
    · simp only [hw, if_true]
      exact ⟨np_err _, fun s r hs => by simp at hs⟩
    · simp only [hw, if_false]
      have hwl : wasted < bps := by omega
      by_cases hc : (ty == subTypeConstant) = true
      · simp only [hc, if_true]
        cases h1 : readS (bps - wasted) b1 with
        | error e => exact ⟨fun s hs => pnp_readS _ b1 s (by rw [h1]; simpa using hs), fun s r hs => by simp at hs⟩
        | ok r1 =>
          refine ⟨np_ok _, ?_⟩
          intro s r hs
          simp only [Except.ok.injEq, Prod.mk.injEq] at hs
          rw [← hs.1]; exact ⟨hwl, fun o w pr sh c r hb => by simp at hb⟩
      · simp only [hc, Bool.false_eq_true, if_false]
        by_cases hv : (ty == subTypeVerbatim) = true
        · simp only [hv, if_true]
          cases h1 : readN (readS (bps - wasted)) bs b1 with
          | error e => exact ⟨fun s hs => pnp_readN (pnp_readS _) bs b1 s (by rw [h1]; simpa using hs), fun s r hs => by simp at hs⟩
          | ok r1 =>
            refine ⟨np_ok _, ?_⟩
            intro s r hs
            simp only [Except.ok.injEq, Prod.mk.injEq] at hs
            rw [← hs.1]; exact ⟨hwl, fun o w pr sh c r hb => by simp at hb⟩
        · simp only [hv, Bool.false_eq_true, if_false]
          by_cases hf : (decide (subTypeFixedLo ≤ ty) && decide (ty ≤ subTypeFixedHi)) = true
          · simp only [hf, if_true]
            split
            · exact ⟨np_err _, fun s r hs => by simp at hs⟩
            · cases h1 : readN (readS (bps - wasted)) (ty - subTypeFixedBase) b1 with
              | error e => exact ⟨fun s hs => pnp_readN (pnp_readS _) _ b1 s (by rw [h1]; simpa using hs), fun s r hs => by simp at hs⟩
              | ok r1 =>
                obtain ⟨warm, b2⟩ := r1
                simp only []
                cases h2 : readResidual decLayout bs (ty - subTypeFixedBase) b2 with
                | error e => exact ⟨fun s hs => pnp_readResidual _ _ b2 s (by rw [h2]; simpa using hs), fun s r hs => by simp at hs⟩
                | ok r2 =>
                  refine ⟨np_ok _, ?_⟩
                  intro s r hs
                  simp only [Except.ok.injEq, Prod.mk.injEq] at hs
                  rw [← hs.1]; exact ⟨hwl, fun o w pr sh c r hb => by simp at hb⟩
          · simp only [hf, Bool.false_eq_true, if_false]
            split
            · exact ⟨np_err _, fun s r hs => by simp at hs⟩
            · cases h1 : readN (readS (bps - wasted)) (ty - subTypeLpcBase) b1 with
              | error e => exact ⟨fun s hs => pnp_readN (pnp_readS _) _ b1 s (by rw [h1]; simpa using hs), fun s r hs => by simp at hs⟩
              | ok r1 =>
                obtain ⟨warm, b2⟩ := r1
                simp only []
                cases h2 : readU 4 b2 with
                | error e => exact ⟨fun s hs => pnp_readU 4 b2 s (by rw [h2]; simpa using hs), fun s r hs => by simp at hs⟩
                | ok r2 =>
                  obtain ⟨pm1, b3⟩ := r2
                  simp only []
                  split
                  · exact ⟨np_err _, fun s r hs => by simp at hs⟩
                  · cases h3 : readS 5 b3 with
                    | error e => exact ⟨fun s hs => pnp_readS 5 b3 s (by rw [h3]; simpa using hs), fun s r hs => by simp at hs⟩
                    | ok r3 =>
                      obtain ⟨shift, b4⟩ := r3
                      simp only []
                      split
                      · exact ⟨np_err _, fun s r hs => by simp at hs⟩
                      · rename_i hsh
                        cases h4 : readN (readS (pm1 + 1)) (ty - subTypeLpcBase) b4 with
                        | error e => exact ⟨fun s hs => pnp_readN (pnp_readS _) _ b4 s (by rw [h4]; simpa using hs), fun s r hs => by simp at hs⟩
                        | ok r4 =>
                          obtain ⟨coefs, b5⟩ := r4
                          simp only []
                          cases h5 : readResidual decLayout bs (ty - subTypeLpcBase) b5 with
                          | error e => exact ⟨fun s hs => pnp_readResidual _ _ b5 s (by rw [h5]; simpa using hs), fun s r hs => by simp at hs⟩
                          | ok r5 =>
                            refine ⟨np_ok _, ?_⟩
                            intro s r hs
                            simp only [Except.ok.injEq, Prod.mk.injEq] at hs
                            rw [← hs.1]
                            refine ⟨hwl, ?_⟩
                            intro o w pr sh c rr hb
                            simp only [SubBody.lpc.injEq] at hb
                            have := readS5_lt b3 shift b4 h3
                            omega

/-! ### sample arithmetic -/

theorem np_predictStep (p : Profile) (w : Nat) (r sum : Int) (shift : Nat) (hs : shift < 64) :
    NoPanic (predictStep p w r sum shift) := by
  unfold predictStep decDot
  simp only [pure, Except.pure]
  split
  · simp only [decPredictStep32, bind, Except.bind, pure, Except.pure, shrX_ok p 64 _ _ shift hs]; exact np_ok _
  · simp only [decPredictStep64, bind, Except.bind, pure, Except.pure, shrX_ok p 64 _ _ shift hs]; exact np_ok _

theorem np_predictGo (p : Profile) (w : Nat) (coefs : List Int) (shift : Nat) (hs : shift < 64) (hist rs : List Int) :
    NoPanic (predictGo p w coefs shift hist rs) := by
  induction rs generalizing hist with
  | nil => simp [predictGo, np_ok]
  | cons r rs ih =>
    simp only [predictGo]
    cases h : predictStep p w r (dot hist coefs) shift with
    | error e => intro s hs'; exact np_predictStep p w r _ shift hs s (by rw [h]; simpa using hs')
    | ok v => exact ih _

theorem np_mapM' {f : Int → Res Int} (hf : ∀ x, NoPanic (f x)) (xs : List Int) : NoPanic (mapM' f xs) := by
  induction xs with
  | nil => simp [mapM', np_ok]
  | cons x xs ih =>
    simp only [mapM']
    cases h : f x with
    | error e => intro s hs; exact hf x s (by rw [h]; simpa using hs)
    | ok c =>
      simp only []
      cases h2 : mapM' f xs with
      | error e => intro s hs; exact ih s (by rw [h2]; simpa using hs)
      | ok cs => exact np_ok _

theorem np_wastedShl (p : Profile) (w wasted : Nat) (hw : wasted < w) (hw32 : w = 32 ∨ w = 64) (x : Int) :
    NoPanic (wastedShl p w wasted x) := by
  unfold wastedShl
  rcases hw32 with rfl | rfl
  · simp only [if_true, decWastedShl32, shlS_ok p 32 _ _ wasted hw]; exact np_ok _
  · simp only [decWastedShl64, shlS_ok p 64 _ _ wasted hw]
    exact np_ok _

theorem np_of_eq {r r' : Res α} (h : r = r') (hn : NoPanic r') : NoPanic r := by rw [h]; exact hn

theorem np_decodeSub (p : Profile) (w bs bps : Nat) (s : Subframe) (hok : SubOk bps s) (hbw : bps ≤ w)
    (hw32 : w = 32 ∨ w = 64) : NoPanic (decodeSub p w bs s) := by
  obtain ⟨hwasted, hshift⟩ := hok
  have hinner : ∀ e, (match s.body with
      | .constant v => (.ok (List.replicate bs v) : Res (List Int))
      | .verbatim xs => .ok xs
      | .fixed o warm res => predict p w (fixedCoeffs.getD o []) 0 warm res.residuals
      | .lpc _ warm _ shift coefs res => predict p w coefs shift warm res.residuals) = .error e → ∀ s', e ≠ .panic s' := by
    intro e he s' hp
    subst hp
    cases hb : s.body with
    | constant v => rw [hb] at he; simp at he
    | verbatim xs => rw [hb] at he; simp at he
    | fixed o warm res => rw [hb] at he; exact np_predictGo p w _ 0 (by omega) _ _ s' he
    | lpc o warm pr sh c res =>
      rw [hb] at he
      have := hshift o warm pr sh c res hb
      exact np_predictGo p w _ sh (by omega) _ _ s' he
  unfold decodeSub
  split
  · rename_i e heq
    intro s' hs
    simp only [Except.error.injEq] at hs
    exact hinner e heq s' hs
  · split
    · exact np_mapM' (np_wastedShl p w s.wasted (by omega) hw32) _
    · exact np_ok _

theorem np_zipWithM {f : Int → Int → Res α} (hf : ∀ a b, NoPanic (f a b)) (xs ys : List Int) :
    NoPanic (zipWithM f xs ys) := by
  induction xs generalizing ys with
  | nil => simp [zipWithM, np_ok]
  | cons x xs ih =>
    cases ys with
    | nil => simp [zipWithM, np_ok]
    | cons y ys =>
      simp only [zipWithM]
      cases h : f x y with
      | error e => intro s hs; exact hf x y s (by rw [h]; simpa using hs)
      | ok c =>
        simp only []
        cases h2 : zipWithM f xs ys with
        | error e => intro s hs; exact ih ys s (by rw [h2]; simpa using hs)
        | ok cs => exact np_ok _

/-- the narrow reconstruction kernels are pure wrapping arithmetic -/
theorem np_narrow (p : Profile) (a b : Int) :
    NoPanic (decLeftSide p a b) ∧ NoPanic (decSideRight p a b) ∧ NoPanic (midSide32 p a b) := by
  refine ⟨?_, ?_, ?_⟩
  · simp only [decLeftSide, pure, Except.pure]; exact np_ok _
  · simp only [decSideRight, pure, Except.pure]; exact np_ok _
  · simp only [midSide32, decMidSum, decMidLeft, decMidRight, pure, Except.pure]; exact np_ok _

theorem wrapS32_bounds (x : Int) : -2147483648 ≤ wrapS 32 x ∧ wrapS 32 x < 2147483648 := (wrapS32_spec x).2

/-- the 33-bit kernels: the only checked operation left is `*mid as i64 * 2`, which cannot
    overflow because `*mid` is an `i32` -/
theorem np_wide (p : Profile) (a b : Int) :
    NoPanic (decLeftSideWide p a b) ∧ NoPanic (decSideRightWide p a b) ∧ NoPanic (midSide64 p a b) := by
  refine ⟨?_, ?_, ?_⟩
  · simp only [decLeftSideWide, pure, Except.pure]; exact np_ok _
  · simp only [decSideRightWide, pure, Except.pure]; exact np_ok _
  · have hb := wrapS32_bounds a
    have hc : castS 64 (castS 32 a) = castS 32 a := wrapS64_of_fits' _ (by simp only [castS]; rw [fitsS64_iff]; omega)
    have hm : mulS p 64 "decMidSumWide: x * x" (castS 64 (castS 32 a)) 2 = .ok (castS 32 a * 2) := by
      rw [hc]; unfold mulS
      exact resS_eq p 64 _ _ _ rfl (by simp only [castS]; rw [fitsS64_iff]; omega)
    have hsum : ∃ v, decMidSumWide p a b = .ok v := by
      unfold decMidSumWide
      rw [hm]
      exact ⟨_, rfl⟩
    obtain ⟨v, hv⟩ := hsum
    unfold midSide64
    rw [hv]
    simp only [decMidLeftWide, decMidRightWide, pure, Except.pure]
    exact np_ok _

theorem np_recorrelate (p : Profile) (a : Assign) (bps : Nat) (chs : List (List Int)) :
    NoPanic (recorrelate p a bps chs) := by
  unfold recorrelate
  split
  · exact np_ok _
  · rename_i left side
    have hk : ∀ x y, NoPanic ((if bps < 32 then decLeftSide p else decLeftSideWide p) x y) := by
      intro x y; split
      · exact (np_narrow p x y).1
      · exact (np_wide p x y).1
    cases h : zipWithM (if bps < 32 then decLeftSide p else decLeftSideWide p) left side with
    | error e => intro s hs; exact np_zipWithM hk left side s (by rw [h]; simpa using hs)
    | ok r => exact np_ok _
  · rename_i side right
    have hk : ∀ x y, NoPanic ((if bps < 32 then decSideRight p else decSideRightWide p) x y) := by
      intro x y; split
      · exact (np_narrow p x y).2.1
      · exact (np_wide p x y).2.1
    cases h : zipWithM (if bps < 32 then decSideRight p else decSideRightWide p) side right with
    | error e => intro s hs; exact np_zipWithM hk side right s (by rw [h]; simpa using hs)
    | ok r => exact np_ok _
  · rename_i mid side
    have hk : ∀ x y, NoPanic ((if bps < 32 then midSide32 p else midSide64 p) x y) := by
      intro x y; split
      · exact (np_narrow p x y).2.2
      · exact (np_wide p x y).2.2
    cases h : zipWithM (if bps < 32 then midSide32 p else midSide64 p) mid side with
    | error e => intro s hs; exact np_zipWithM hk mid side s (by rw [h]; simpa using hs)
    | ok r => exact np_ok _
  · exact np_ok _

/-! ### frame header -/

theorem pnp_readNumberTail (n acc : Nat) : PNoPanic (readNumberTail n acc) := by
  induction n generalizing acc with
  | zero => intro b; simp [readNumberTail, np_ok]
  | succ n ih =>
    intro b
    simp only [readNumberTail]
    cases h : readU 2 b with
    | error e => intro s hs; exact pnp_readU 2 b s (by rw [h]; simpa using hs)
    | ok r =>
      obtain ⟨t, b1⟩ := r
      simp only []
      split
      · exact np_err _
      · cases h2 : readU 6 b1 with
        | error e => intro s hs; exact pnp_readU 6 b1 s (by rw [h2]; simpa using hs)
        | ok r2 => obtain ⟨v, b2⟩ := r2; exact ih _ b2

theorem pnp_readNumber : PNoPanic readNumber := by
  intro b; unfold readNumber
  cases h : readUnary0 b with
  | error e => intro s hs; exact pnp_readUnary0 b s (by rw [h]; simpa using hs)
  | ok r =>
    obtain ⟨n, b1⟩ := r
    simp only []
    split
    · cases h2 : readU 7 b1 with
      | error e => intro s hs; exact pnp_readU 7 b1 s (by rw [h2]; simpa using hs)
      | ok r2 => exact np_ok _
    · split
      · exact np_err _
      · cases h2 : readU (7 - n) b1 with
        | error e => intro s hs; exact pnp_readU _ b1 s (by rw [h2]; simpa using hs)
        | ok r2 =>
          obtain ⟨v, b2⟩ := r2
          simp only []
          cases h3 : readNumberTail (n - 1) v b2 with
          | error e => intro s hs; exact pnp_readNumberTail _ _ b2 s (by rw [h3]; simpa using hs)
          | ok r3 => exact np_ok _

theorem pnp_ite {c : Prop} [Decidable c] {p q : P α} (hp : PNoPanic p) (hq : PNoPanic q) : PNoPanic (if c then p else q) := by
  split <;> assumption

theorem pnp_readHeaderFields (si : Option SInfo) : PNoPanic (readHeaderFields si) := by
  unfold readHeaderFields
  repeat' (first
    | exact pnp_readU _
    | exact pnp_readBit
    | exact pnp_readNumber
    | exact pnp_pure _
    | exact pnp_failErr _
    | apply pnp_bind
    | apply pnp_ite
    | intro _)

theorem np_checkStreaminfo (si : Option SInfo) (h : Header) : NoPanic (checkStreaminfo si h) := by
  unfold checkStreaminfo
  split
  · exact np_ok _
  · split
    · exact np_err _
    · split
      · exact np_err _
      · split
        · exact np_err _
        · split
          · exact np_err _
          · exact np_ok _

/-! ### whole frames -/

theorem np_decSubframes (p : Profile) (a : Assign) (bs bps : Nat) (hb : bps ≤ 32) (n i : Nat) :
    PNoPanic (decSubframes p a bs bps n i) := by
  induction n generalizing i with
  | zero => intro b; simp [decSubframes, np_ok]
  | succ n ih =>
    intro b
    simp only [decSubframes]
    obtain ⟨hnp, hfacts⟩ := readSubframe_np_facts true bs (subBps a bps i) b
    cases h : readSubframe decLayout true bs (subBps a bps i) b with
    | error e => intro s hs; exact hnp s (by rw [h]; simpa using hs)
    | ok r =>
      obtain ⟨sub, b1⟩ := r
      simp only []
      have hok := hfacts sub b1 h
      have hsb : subBps a bps i ≤ bps + 1 := by
        unfold subBps; split <;> omega
      have hw : subBps a bps i ≤ subWidth a bps i ∧ (subWidth a bps i = 32 ∨ subWidth a bps i = 64) := by
        unfold subWidth; split <;> omega
      cases h2 : decodeSub p (subWidth a bps i) bs sub with
      | error e =>
        intro s hs
        exact np_decodeSub p _ bs _ sub hok hw.1 hw.2 s (by rw [h2]; simpa using hs)
      | ok xs =>
        simp only []
        cases h3 : decSubframes p a bs bps n (i + 1) b1 with
        | error e => intro s hs; exact ih (i + 1) b1 s (by rw [h3]; simpa using hs)
        | ok r3 => exact np_ok _

/-- **decode_no_panic** — for EVERY byte string, every STREAMINFO context and BOTH build profiles,
    decoding one frame (`FrameHeader::read{,_subset}` + `read_subframes` + CRC-16) returns data or
    an error; no panic site is reachable. -/
theorem decode_no_panic (p : Profile) (si : Option SInfo) (bytes : List Nat) : NoPanic (decodeFrame p si bytes) := by
  unfold decodeFrame
  cases h : readHeaderFields si (bytesToBits bytes) with
  | error e => intro s hs; exact pnp_readHeaderFields si _ s (by rw [h]; simpa using hs)
  | ok r =>
    obtain ⟨hd, rest⟩ := r
    simp only []
    cases h1 : checkStreaminfo si hd with
    | error e => intro s hs; exact np_checkStreaminfo si hd s (by rw [h1]; simpa using hs)
    | ok u =>
      simp only []
      split
      · exact np_err _
      · split
        · exact np_err _
        · rename_i hb
          have hb32 : hd.bps ≤ 32 := by omega
          cases h2 : decSubframes p hd.assign hd.blockSize hd.bps hd.assign.count 0 rest with
          | error e => intro s hs; exact np_decSubframes p _ _ _ hb32 _ _ rest s (by rw [h2]; simpa using hs)
          | ok r2 =>
            obtain ⟨chs, rest2⟩ := r2
            simp only []
            cases h3 : recorrelate p hd.assign hd.bps chs with
            | error e => intro s hs; exact np_recorrelate p _ _ chs s (by rw [h3]; simpa using hs)
            | ok out =>
              simp only []
              cases h4 : readU 16 (rest2.drop (rest2.length % 8)) with
              | error e => intro s hs; exact pnp_readU 16 _ s (by rw [h4]; simpa using hs)
              | ok r4 =>
                obtain ⟨c, rest3⟩ := r4
                simp only []
                split
                · exact np_err _
                · exact np_ok _

/-- the stream reader never panics either: every result of one `read()` is a frame or an error -/
theorem stream_read_no_panic (p : Profile) (fuel : Nat) (bytes : List Nat) :
    ∀ s, (streamReadOne p fuel bytes).1 ≠ .fail (.panic s) := by
  induction fuel generalizing bytes with
  | zero => intro s; simp [streamReadOne]
  | succ fuel ih =>
    intro s
    simp only [streamReadOne]
    split
    · simp
    · split
      · exact ih _ s
      · split
        · exact ih _ s
        · split
          · simp
          · rename_i s' hd
            exact absurd hd (decode_no_panic p none _ s')
          · rename_i e hne hd
            intro hcontra
            simp only [ReadResult.fail.injEq] at hcontra
            subst hcontra
            exact decode_no_panic p none _ s hd

/-- and the file readers' frame loop: with the accounting fix (`TooManySamples`) the subtraction
    `total − current_sample` cannot underflow, and every frame goes through `decodeFrame` -/
theorem file_loop_no_panic (p : Profile) (si : SInfo) (total fuel : Nat) (bytes : List Nat) (cur : Nat)
    (acc : List (List (List Int))) (hcur : total = 0 ∨ cur ≤ total) :
    ∀ s, (decodeLoop p si total fuel bytes cur acc).2 ≠ some (.panic s) := by
  have hov : decOvershootIsError = true := rfl
  induction fuel generalizing bytes cur acc with
  | zero => intro s; simp [decodeLoop]
  | succ fuel ih =>
    intro s
    simp only [decodeLoop]
    by_cases ht : total = 0
    · have : (total != 0) = false := by simp [ht]
      simp only [this, Bool.false_eq_true, if_false]
      split
      · split <;> simp
      · simp only [Option.some.injEq]
        rename_i e _ he
        intro hc; cases hc
        have := pnp_readHeaderFields (some si) (bytesToBits bytes)
        unfold parseHeaderBytes at he
        cases hh : readHeaderFields (some si) (bytesToBits bytes) with
        | error e' => rw [hh] at he; simp at he; exact this s (by rw [hh, he])
        | ok r => rw [hh] at he; simp at he
      · split
        · rename_i e hd
          simp only [Option.some.injEq]
          intro hc; cases hc
          exact decode_no_panic p (some si) bytes s hd
        · exact ih _ _ _ (Or.inl ht) s
    · have hne : (total != 0) = true := by simp [ht]
      have hle : cur ≤ total := by rcases hcur with h | h; exact absurd h ht; exact h
      simp only [hne, if_true]
      have hlt : ¬ (total < cur) := by omega
      simp only [show (decide (total < cur) && (p == Profile.debug)) = false by simp [hlt], Bool.false_eq_true, if_false]
      split
      · simp
      · split
        · simp only [Option.some.injEq]
          rename_i e he
          intro hc; cases hc
          unfold parseHeaderBytes at he
          cases hh : readHeaderFields (some si) (bytesToBits bytes) with
          | error e' => rw [hh] at he; simp at he; exact pnp_readHeaderFields (some si) _ s (by rw [hh, he])
          | ok r => rw [hh] at he; simp at he
        · split
          · rename_i e hcs
            simp only [Option.some.injEq]
            intro hc; cases hc
            exact np_checkStreaminfo _ _ s hcs
          · split
            · simp
            · split
              · simp
              · split
                · simp
                · split
                  · rename_i e hd
                    simp only [Option.some.injEq]
                    intro hc; cases hc
                    exact decode_no_panic p (some si) bytes s hd
                  · rename_i hnov _ _ _ _
                    apply ih
                    right
                    rw [hov] at hnov
                    simp at hnov
                    omega

end Flac.C04
