/-
  Props/C14c.lean — C14, the provisional header: what the encoder writes before the first frame when a total is declared and a seek
  table is requested (STREAMINFO, an all-placeholder SEEKTABLE of any admissible size, optional PADDING) is a block list the reader
  accepts and reads back as written — so an encode interrupted before finalize can be opened.
-/
import FlacModel.Props.C14b
import FlacModel.Props.C11

namespace Flac.C14
open Flac Flac.Gen

theorem seekContig_placeholders (n : Nat) : seekContig (some .placeholder) (List.replicate n SeekPt.placeholder) = true := by
  induction n with
  | zero => rfl
  | succ n ih => simp only [List.replicate_succ, seekContig]; exact ih

/-- an all-placeholder table of any size a SEEKTABLE block can hold is well-formed -/
theorem placeholder_table_wf (n : Nat) (h : n ≤ seekTableMaxPoints) :
    C11.blockWf (.seektable (List.replicate n SeekPt.placeholder)) = true := by
  have h1 : (List.replicate n SeekPt.placeholder).all C11.seekPtWf = true := by
    simp [List.all_eq_true, List.mem_replicate, C11.seekPtWf]
  have h2 : seekContig none (List.replicate n SeekPt.placeholder) = true := by
    cases n with
    | zero => rfl
    | succ n => simp only [List.replicate_succ, seekContig]; exact seekContig_placeholders n
  simp only [C11.blockWf, h1, h2, Bool.and_self, Bool.true_and, decide_eq_true_eq, List.length_replicate]
  exact h

def padBlocks : Option Nat → List Block
  | some p => [.padding p]
  | none => []

/-- **The provisional header reads back as written**, whatever follows it (frames, a cut frame, nothing). -/
theorem provisional_header_reads_back (si : Streaminfo) (hsi : C11.streaminfoWf si = true) (n : Nat) (hn : n ≤ seekTableMaxPoints)
    (pad : Option Nat) (hpad : ∀ p, pad = some p → p ≤ maxBlockSize) (out : List Nat)
    (h : writeBlocks ([.streaminfo si, .seektable (List.replicate n SeekPt.placeholder)] ++ padBlocks pad) = .ok out)
    (tail : List Nat) :
    readBlocks (out ++ tail)
      = .ok ([.streaminfo si, .seektable (List.replicate n SeekPt.placeholder)] ++ padBlocks pad, out.length) := by
  apply C11.blocklist_roundtrip _ _ out h tail
  intro b hb
  simp only [List.mem_append, List.mem_cons, List.mem_nil_iff, or_false] at hb
  rcases hb with (rfl | rfl) | hb
  · exact hsi
  · exact placeholder_table_wf n hn
  · cases pad with
    | none => simp [padBlocks] at hb
    | some p =>
      simp only [padBlocks, List.mem_cons, List.mem_nil_iff, or_false] at hb
      subst hb
      simp only [C11.blockWf, decide_eq_true_eq]
      exact hpad p rfl

end Flac.C14
