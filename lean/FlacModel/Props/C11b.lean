/-
  Props/C11b.lean — the converse direction of C11: whatever the reader accepts can be written again
  and re-read to an equal block list.  Structure: (1) every parsed block satisfies the value
  invariants (`blockWf`), (2) the writer accepts it and produces a body of exactly the size that was
  read, (3) `blocklist_roundtrip`.
-/
import FlacModel.Props.C11

namespace Flac.C11
open Flac Flac.Gen

theorem beNat_lt (l : List Nat) (h : bytesOk l = true) : beNat l < 256 ^ l.length := by
  have key : ∀ (l : List Nat) (acc : Nat), bytesOk l = true → l.foldl (fun a b => a * 256 + b) acc < (acc + 1) * 256 ^ l.length := by
    intro l
    induction l with
    | nil => intro acc _; simp
    | cons x r ih =>
      intro acc h
      simp only [bytesOk, List.all_cons, Bool.and_eq_true, decide_eq_true_eq] at h
      simp only [List.foldl_cons, List.length_cons, Nat.pow_succ]
      have := ih (acc * 256 + x) (by simpa [bytesOk] using h.2)
      have h2 : (acc * 256 + x + 1) * 256 ^ r.length ≤ (acc + 1) * (256 ^ r.length * 256) := by
        have : acc * 256 + x + 1 ≤ (acc + 1) * 256 := by omega
        calc (acc * 256 + x + 1) * 256 ^ r.length ≤ ((acc + 1) * 256) * 256 ^ r.length := Nat.mul_le_mul_right _ this
          _ = (acc + 1) * (256 ^ r.length * 256) := by rw [Nat.mul_assoc, Nat.mul_comm 256]
      omega
  have := key l 0 h
  simpa [beNat] using this

theorem bytesOk_take {l : List Nat} (n : Nat) (h : bytesOk l = true) : bytesOk (l.take n) = true := by
  simp only [bytesOk, List.all_eq_true] at h ⊢
  intro x hx
  exact h x (List.mem_of_mem_take hx)

theorem bytesOk_drop {l : List Nat} (n : Nat) (h : bytesOk l = true) : bytesOk (l.drop n) = true := by
  simp only [bytesOk, List.all_eq_true] at h ⊢
  intro x hx
  exact h x (List.mem_of_mem_drop hx)

theorem bytesOk_append {a b : List Nat} : bytesOk (a ++ b) = true ↔ bytesOk a = true ∧ bytesOk b = true := by
  simp [bytesOk, List.all_append]

theorem takeBytes_bytesOk {n : Nat} {b x r : List Nat} (h : takeBytes n b = .ok (x, r)) (hb : bytesOk b = true) :
    bytesOk x = true ∧ bytesOk r = true := by
  obtain ⟨e, _⟩ := takeBytes_ok h
  rw [e] at hb
  exact bytesOk_append.mp hb

/-- STREAMINFO: whatever parses satisfies the invariants -/
theorem parseStreaminfo_wf (b : List Nat) (hb : bytesOk b = true) (si : Streaminfo) (h : parseStreaminfo b = some si) :
    streaminfoWf si = true ∧ si.minFrame < 2 ^ 24 ∧ si.maxFrame < 2 ^ 24 ∧ si.rate < 2 ^ 20 ∧ si.channels ≤ 8 ∧ si.total < 2 ^ 36 := by
  unfold parseStreaminfo at h
  split at h
  · cases h
  · rename_i hl
    simp only [bne_iff_ne, ne_eq, Decidable.not_not] at hl
    have hv := beNat_lt (b.take 18) (bytesOk_take 18 hb)
    have hl18 : (b.take 18).length = 18 := by simp [hl]
    rw [hl18] at hv
    cases h
    have hd : (b.drop 18).length = 16 := by simp [hl]
    refine ⟨?_, ?_, ?_, ?_, ?_, ?_⟩
    · simp only [streaminfoWf, Bool.and_eq_true, decide_eq_true_eq, beq_iff_eq]
      refine ⟨⟨⟨⟨⟨⟨⟨?_, ?_⟩, ?_⟩, ?_⟩, ?_⟩, hd⟩, bytesOk_drop 18 hb⟩, ?_⟩ <;> first | omega | (dsimp only; omega) | trivial
    all_goals first | omega | (dsimp only; omega)


/-- what the converse direction needs of one parsed block: it satisfies the invariants, has the
    type that was read, and the writer accepts it with a body of exactly the size that was read -/
def Rewritable (ty size : Nat) (b : Block) : Prop :=
  blockWf b = true ∧ b.type = ty ∧ ∃ bs, b.body = .ok bs ∧ bs.length = size

theorem takeBytes_all {n : Nat} {b x : List Nat} (h : takeBytes n b = .ok (x, [])) : x = b ∧ b.length = n := by
  obtain ⟨e, hl⟩ := takeBytes_ok h
  simp only [List.append_nil] at e
  exact ⟨e.symm, by rw [e]; exact hl⟩

theorem sound_streaminfo (size : Nat) (body : List Nat) (hb : bytesOk body = true) (hlen : body.length = size) (b : Block)
    (h : parseBody 0 size body = .ok (b, [])) : Rewritable 0 size b := by
  simp only [parseBody] at h
  cases ht : takeBytes 34 body with
  | error e => rw [ht] at h; cases h
  | ok v =>
    obtain ⟨x, r⟩ := v
    rw [ht] at h
    dsimp only at h
    cases hp : parseStreaminfo x with
    | none => rw [hp] at h; cases h
    | some si =>
      rw [hp] at h
      simp only [Except.ok.injEq, Prod.mk.injEq] at h
      obtain ⟨rfl, rfl⟩ := h
      obtain ⟨rfl, hl⟩ := takeBytes_all ht
      obtain ⟨w, f1, f2, f3, f4, f5⟩ := parseStreaminfo_wf x hb si hp
      refine ⟨w, rfl, streaminfoBytes si, ?_, ?_⟩
      · have hflag : metaDepthOneWritable = true := rfl
        simp only [Block.body, hflag, Bool.not_true, Bool.false_and, Bool.false_eq_true, ↓reduceIte]
        have : ¬ ((decide (si.minFrame ≥ 2 ^ 24) || decide (si.maxFrame ≥ 2 ^ 24) || decide (si.rate ≥ 2 ^ 20) || decide (si.channels > 8)
            || decide (si.total ≥ 2 ^ 36)) = true) := by
          simp only [Bool.or_eq_true, decide_eq_true_eq, not_or]; omega
        simp only [this, Bool.false_eq_true, ↓reduceIte]
      · simp only [streaminfoWf, Bool.and_eq_true, decide_eq_true_eq, beq_iff_eq] at w
        have hm : si.md5.length = 16 := w.1.1.2
        simp only [streaminfoBytes, List.length_append, beBytes_length]
        split <;> simp [hm] <;> omega

theorem sound_padding (size : Nat) (body : List Nat) (hsz : size ≤ maxBlockSize) (b : Block)
    (h : parseBody 1 size body = .ok (b, [])) : Rewritable 1 size b := by
  simp only [parseBody] at h
  cases ht : takeBytes size body with
  | error e => rw [ht] at h; cases h
  | ok v =>
    rw [ht] at h
    simp only [Except.ok.injEq, Prod.mk.injEq] at h
    obtain ⟨rfl, _⟩ := h
    exact ⟨by simpa [blockWf] using hsz, rfl, List.replicate size 0, rfl, by simp⟩

theorem sound_application (size : Nat) (body : List Nat) (hb : bytesOk body = true) (b : Block)
    (h : parseBody 2 size body = .ok (b, [])) : Rewritable 2 size b := by
  simp only [parseBody] at h
  cases ht : takeBytes 4 body with
  | error e => rw [ht] at h; cases h
  | ok v =>
    obtain ⟨id, r⟩ := v
    rw [ht] at h
    dsimp only at h
    split at h
    · cases h
    rename_i hs4
    cases ht2 : takeBytes (size - 4) r with
    | error e => rw [ht2] at h; cases h
    | ok w =>
      obtain ⟨d, r2⟩ := w
      rw [ht2] at h
      simp only [Except.ok.injEq, Prod.mk.injEq] at h
      obtain ⟨rfl, rfl⟩ := h
      obtain ⟨e1, l1⟩ := takeBytes_ok ht
      obtain ⟨rfl, l2⟩ := takeBytes_all ht2
      have hid := (takeBytes_bytesOk ht hb).1
      have := beNat_lt id hid
      rw [l1] at this
      refine ⟨by simp only [blockWf, decide_eq_true_eq]; omega, rfl, beBytes 4 (beNat id) ++ d, rfl, ?_⟩
      simp; omega


/-! ### seek table -/

theorem beNat_lt_pow (l : List Nat) (h : bytesOk l = true) (n : Nat) (hl : l.length ≤ n) : beNat l < 256 ^ n := by
  have := beNat_lt l h
  have : 256 ^ l.length ≤ 256 ^ n := Nat.pow_le_pow_right (by omega) hl
  omega

theorem parseSeekPoints_length (n : Nat) (b : List Nat) : (parseSeekPoints n b).length = n := by
  induction n generalizing b with
  | zero => rfl
  | succ n ih => simp [parseSeekPoints, ih]

theorem parseSeekPoints_wf (n : Nat) (b : List Nat) (hb : bytesOk b = true) : (parseSeekPoints n b).all seekPtWf = true := by
  induction n generalizing b with
  | zero => rfl
  | succ n ih =>
    simp only [parseSeekPoints, List.all_cons, Bool.and_eq_true]
    refine ⟨?_, ih _ (bytesOk_drop 18 hb)⟩
    have h1 := beNat_lt_pow (b.take 8) (bytesOk_take 8 hb) 8 (by simp; omega)
    have h2 := beNat_lt_pow ((b.drop 8).take 8) (bytesOk_take 8 (bytesOk_drop 8 hb)) 8 (by simp; omega)
    have h3 := beNat_lt_pow ((b.drop 16).take 2) (bytesOk_take 2 (bytesOk_drop 16 hb)) 2 (by simp; omega)
    split
    · rfl
    · rename_i hne
      simp only [beq_iff_eq] at hne
      simp only [seekPtWf, Bool.and_eq_true, decide_eq_true_eq]
      omega

theorem contig_ascending (ps : List SeekPt) : ∀ (q : SeekPt) (last : Option Nat), seekContig (some q) ps = true →
    (∀ s b l, q = .defined s b l → last = some s) → seekAscending last ps = true := by
  induction ps with
  | nil => intro _ _ _ _; rfl
  | cons x r ih =>
    intro q last hc hq
    cases q with
    | defined s b l =>
      have hl := hq s b l rfl
      subst hl
      cases x with
      | defined s2 b2 l2 =>
        simp only [seekContig, Bool.and_eq_true, decide_eq_true_eq] at hc
        simp only [seekAscending, Bool.and_eq_true, decide_eq_true_eq]
        exact ⟨hc.1, ih _ _ hc.2 (by intro s' b' l' h; cases h; rfl)⟩
      | placeholder =>
        simp only [seekContig] at hc
        simp only [seekAscending]
        exact ih _ _ hc (by intro s' b' l' h; cases h)
    | placeholder =>
      cases x with
      | defined s2 b2 l2 => simp [seekContig] at hc
      | placeholder =>
        simp only [seekContig] at hc
        simp only [seekAscending]
        exact ih _ _ hc (by intro s' b' l' h; cases h)

theorem contig_writable (pts : List SeekPt) (h : seekContig none pts = true) : seekWritable pts = true := by
  cases pts with
  | nil => rfl
  | cons p ps =>
    simp only [seekContig] at h
    simp only [seekWritable]
    apply contig_ascending ps p _ h
    intro s b l hp
    subst hp
    rfl

theorem sound_seektable (size : Nat) (body : List Nat) (hb : bytesOk body = true) (b : Block)
    (h : parseBody 3 size body = .ok (b, [])) : Rewritable 3 size b := by
  simp only [parseBody] at h
  split at h
  · cases h
  rename_i hmod
  cases ht : takeBytes size body with
  | error e => rw [ht] at h; cases h
  | ok v =>
    obtain ⟨x, r⟩ := v
    rw [ht] at h
    dsimp only at h
    split at h
    · cases h
    rename_i hchk
    simp only [Except.ok.injEq, Prod.mk.injEq] at h
    obtain ⟨rfl, rfl⟩ := h
    simp only [Bool.or_eq_true, decide_eq_true_eq, Bool.not_eq_true', not_or, Nat.not_lt, Bool.not_eq_false] at hchk
    have hx := (takeBytes_bytesOk ht hb).1
    have hwf := parseSeekPoints_wf (size / 18) x hx
    have hlen := parseSeekPoints_length (size / 18) x
    refine ⟨by simp only [blockWf, Bool.and_eq_true, decide_eq_true_eq]; exact ⟨⟨hwf, hchk.2⟩, hchk.1⟩, rfl,
      (parseSeekPoints (size / 18) x).flatMap seekPtBytes, ?_, ?_⟩
    · have hno : seekHasMax (parseSeekPoints (size / 18) x) = false := by
        rw [Bool.eq_false_iff]
        intro hc
        simp only [seekHasMax, List.any_eq_true] at hc
        obtain ⟨p, hp, hpm⟩ := hc
        have := (List.all_eq_true.mp hwf) p hp
        cases p with
        | placeholder => simp [seekIsMax] at hpm
        | defined s b l =>
          simp only [seekPtWf, Bool.and_eq_true, decide_eq_true_eq] at this
          simp only [seekIsMax, beq_iff_eq] at hpm
          omega
      simp only [Block.body, hno, Bool.and_false, Bool.false_eq_true, ↓reduceIte, contig_writable _ hchk.2]
    · rw [flatMap_seek_length, hlen]
      simp only [bne_iff_ne, ne_eq, Decidable.not_not] at hmod
      omega


/-! ### Vorbis comment, picture -/

theorem readVorbisFields_sound (fuel n : Nat) (b : List Nat) (fs : List (List Nat)) (r : List Nat)
    (h : readVorbisFields fuel n b = .ok (fs, r)) :
    b.length = (fs.flatMap fieldBytes).length + r.length ∧ fs.all utf8Valid = true := by
  induction fuel generalizing n b fs r with
  | zero => simp only [readVorbisFields] at h; cases h; simp
  | succ fuel ih =>
    cases n with
    | zero => simp only [readVorbisFields] at h; cases h; simp
    | succ n =>
      simp only [readVorbisFields] at h
      cases h1 : takeBytes 4 b with
      | error e => rw [h1] at h; cases h
      | ok v1 =>
        obtain ⟨l, b1⟩ := v1
        rw [h1] at h
        dsimp only at h
        cases h2 : takeBytes (leNat l) b1 with
        | error e => rw [h2] at h; cases h
        | ok v2 =>
          obtain ⟨f, b2⟩ := v2
          rw [h2] at h
          dsimp only at h
          split at h
          · cases h
          rename_i hu
          cases h3 : readVorbisFields fuel n b2 with
          | error e => rw [h3] at h; cases h
          | ok v3 =>
            obtain ⟨fs', b3⟩ := v3
            rw [h3] at h
            simp only [Except.ok.injEq, Prod.mk.injEq] at h
            obtain ⟨rfl, rfl⟩ := h
            obtain ⟨e1, l1⟩ := takeBytes_ok h1
            obtain ⟨e2, l2⟩ := takeBytes_ok h2
            obtain ⟨il, iu⟩ := ih n b2 fs' _ h3
            constructor
            · rw [e1, e2]
              have hfb : (fieldBytes f).length = 4 + f.length := by simp [fieldBytes]
              simp only [List.length_append, List.flatMap_cons, hfb]
              omega
            · simp only [List.all_cons, Bool.and_eq_true]
              exact ⟨by simpa using hu, iu⟩

theorem length_le_flatMap (fs : List (List Nat)) : fs.length ≤ (fs.flatMap fieldBytes).length := by
  induction fs with
  | nil => simp
  | cons f r ih =>
    rw [List.flatMap_cons, List.length_append, List.length_cons]
    have : (fieldBytes f).length = 4 + f.length := by simp [fieldBytes]
    omega

theorem field_le_flatMap (fs : List (List Nat)) (f : List Nat) (hf : f ∈ fs) : f.length ≤ (fs.flatMap fieldBytes).length := by
  induction fs with
  | nil => simp at hf
  | cons g r ih =>
    rw [List.flatMap_cons, List.length_append]
    have hg : (fieldBytes g).length = 4 + g.length := by simp [fieldBytes]
    simp only [List.mem_cons] at hf
    rcases hf with rfl | hf
    · omega
    · have := ih hf; omega

theorem sound_vorbis (size : Nat) (body : List Nat) (hlen : body.length = size) (hsz : size ≤ maxBlockSize) (b : Block)
    (h : parseBody 4 size body = .ok (b, [])) : Rewritable 4 size b := by
  simp only [parseBody] at h
  cases h1 : takeBytes 4 body with
  | error e => rw [h1] at h; cases h
  | ok v1 =>
    obtain ⟨l, b1⟩ := v1
    rw [h1] at h
    dsimp only at h
    cases h2 : takeBytes (leNat l) b1 with
    | error e => rw [h2] at h; cases h
    | ok v2 =>
      obtain ⟨v, b2⟩ := v2
      rw [h2] at h
      dsimp only at h
      split at h
      · cases h
      rename_i hu
      cases h3 : takeBytes 4 b2 with
      | error e => rw [h3] at h; cases h
      | ok v3 =>
        obtain ⟨nb, b3⟩ := v3
        rw [h3] at h
        dsimp only at h
        cases h4 : readVorbisFields (b3.length + 1) (leNat nb) b3 with
        | error e => rw [h4] at h; cases h
        | ok v4 =>
          obtain ⟨fs, b4⟩ := v4
          rw [h4] at h
          dsimp only at h
          split at h
          · cases h
          simp only [Except.ok.injEq, Prod.mk.injEq] at h
          obtain ⟨rfl, rfl⟩ := h
          obtain ⟨e1, l1⟩ := takeBytes_ok h1
          obtain ⟨e2, l2⟩ := takeBytes_ok h2
          obtain ⟨e3, l3⟩ := takeBytes_ok h3
          obtain ⟨il, iu⟩ := readVorbisFields_sound _ _ _ _ _ h4
          have hmax : maxBlockSize = 2 ^ 24 - 1 := rfl
          have htot : size = 4 + v.length + 4 + (fs.flatMap fieldBytes).length := by
            rw [← hlen, e1, e2, e3]; simp only [List.length_append, List.length_nil] at il ⊢; omega
          have hfl := length_le_flatMap fs
          have hfs : ∀ f ∈ fs, f.length < 2 ^ 32 := by
            intro f hf
            have := field_le_flatMap fs f hf
            omega
          refine ⟨by simp only [blockWf, Bool.and_eq_true]; exact ⟨by simpa using hu, iu⟩, rfl,
            leBytes 4 v.length ++ v ++ leBytes 4 fs.length ++ fs.flatMap fieldBytes, ?_, ?_⟩
          · have c1 : ¬ ((decide (v.length ≥ 2 ^ 32) || fs.any fun f => decide (f.length ≥ 2 ^ 32)) = true) := by
              simp only [Bool.or_eq_true, decide_eq_true_eq, List.any_eq_true, not_or, not_exists, not_and, Nat.not_le]
              exact ⟨by omega, fun f hf => hfs f hf⟩
            have c2 : ¬ (fs.length ≥ 2 ^ 32) := by omega
            simp only [Block.body, c1, ↓reduceIte, c2, decide_false, Bool.false_eq_true]
            rfl
          · simp only [List.length_append, leBytes_length]; omega


theorem picture_body_len (t w hh d c : Nat) (mime desc data : List Nat) (hm : mime.length < 2 ^ 32) (hd : desc.length < 2 ^ 32)
    (hdl : data.length < 2 ^ 32) :
    ∃ bs, (Block.picture { ptype := t, mime := mime, desc := desc, width := w, height := hh, depth := d, colors := c, data := data }).body = .ok bs
      ∧ bs.length = 4 + 4 + mime.length + 4 + desc.length + 20 + data.length := by
  have c1 : ¬ ((decide (mime.length ≥ 2 ^ 32) || decide (desc.length ≥ 2 ^ 32)) = true) := by
    simp only [Bool.or_eq_true, decide_eq_true_eq, not_or]; omega
  have c2 : ¬ (data.length ≥ 2 ^ 32) := by omega
  refine ⟨pictureBytes { ptype := t, mime := mime, desc := desc, width := w, height := hh, depth := d, colors := c, data := data }, ?_, ?_⟩
  · simp only [Block.body, c1, ↓reduceIte, c2, Bool.false_eq_true, pictureBytes]
  · simp only [pictureBytes, List.length_append, beBytes_length]

theorem sound_picture (size : Nat) (body : List Nat) (hb : bytesOk body = true) (hlen : body.length = size) (hsz : size ≤ maxBlockSize) (b : Block)
    (h : parseBody 6 size body = .ok (b, [])) : Rewritable 6 size b := by
  simp only [parseBody] at h
  cases h1 : takeBytes 4 body with
  | error e => rw [h1] at h; cases h
  | ok v1 =>
    obtain ⟨t, b1⟩ := v1
    rw [h1] at h; dsimp only at h
    split at h
    · cases h
    rename_i hty
    cases h2 : takeBytes 4 b1 with
    | error e => rw [h2] at h; cases h
    | ok v2 =>
      obtain ⟨ml, b2⟩ := v2
      rw [h2] at h; dsimp only at h
      cases h3 : takeBytes (beNat ml) b2 with
      | error e => rw [h3] at h; cases h
      | ok v3 =>
        obtain ⟨mime, b3⟩ := v3
        rw [h3] at h; dsimp only at h
        split at h
        · cases h
        rename_i hum
        cases h4 : takeBytes 4 b3 with
        | error e => rw [h4] at h; cases h
        | ok v4 =>
          obtain ⟨dl, b4⟩ := v4
          rw [h4] at h; dsimp only at h
          cases h5 : takeBytes (beNat dl) b4 with
          | error e => rw [h5] at h; cases h
          | ok v5 =>
            obtain ⟨desc, b5⟩ := v5
            rw [h5] at h; dsimp only at h
            split at h
            · cases h
            rename_i hud
            cases h6 : takeBytes 20 b5 with
            | error e => rw [h6] at h; cases h
            | ok v6 =>
              obtain ⟨nums, b6⟩ := v6
              rw [h6] at h; dsimp only at h
              cases h7 : takeBytes (beNat (nums.drop 16)) b6 with
              | error e => rw [h7] at h; cases h
              | ok v7 =>
                obtain ⟨data, b7⟩ := v7
                rw [h7] at h
                simp only [Except.ok.injEq, Prod.mk.injEq] at h
                obtain ⟨rfl, rfl⟩ := h
                obtain ⟨e1, l1⟩ := takeBytes_ok h1
                obtain ⟨e2, l2⟩ := takeBytes_ok h2
                obtain ⟨e3, l3⟩ := takeBytes_ok h3
                obtain ⟨e4, l4⟩ := takeBytes_ok h4
                obtain ⟨e5, l5⟩ := takeBytes_ok h5
                obtain ⟨e6, l6⟩ := takeBytes_ok h6
                obtain ⟨e7, l7⟩ := takeBytes_ok h7
                have k1 := takeBytes_bytesOk h1 hb
                have k2 := takeBytes_bytesOk h2 k1.2
                have k3 := takeBytes_bytesOk h3 k2.2
                have k4 := takeBytes_bytesOk h4 k3.2
                have k5 := takeBytes_bytesOk h5 k4.2
                have k6 := takeBytes_bytesOk h6 k5.2
                have hmax : maxBlockSize = 2 ^ 24 - 1 := rfl
                have htot : size = 4 + 4 + mime.length + 4 + desc.length + 20 + data.length := by
                  rw [← hlen, e1, e2, e3, e4, e5, e6, e7]; simp only [List.length_append, List.length_nil]; omega
                have n1 := beNat_lt_pow (nums.take 4) (bytesOk_take 4 k6.1) 4 (by simp; omega)
                have n2 := beNat_lt_pow ((nums.drop 4).take 4) (bytesOk_take 4 (bytesOk_drop 4 k6.1)) 4 (by simp; omega)
                have n3 := beNat_lt_pow ((nums.drop 8).take 4) (bytesOk_take 4 (bytesOk_drop 8 k6.1)) 4 (by simp; omega)
                have n4 := beNat_lt_pow ((nums.drop 12).take 4) (bytesOk_take 4 (bytesOk_drop 12 k6.1)) 4 (by simp; omega)
                have hpt : beNat t ≤ pictureTypeMax := by simpa using hty
                obtain ⟨bs, hbs, hbl⟩ := picture_body_len (beNat t) (beNat (nums.take 4)) (beNat ((nums.drop 4).take 4))
                  (beNat ((nums.drop 8).take 4)) (beNat ((nums.drop 12).take 4)) mime desc data (by omega) (by omega) (by omega)
                refine ⟨?_, rfl, bs, hbs, by omega⟩
                simp only [blockWf, pictureWf, Bool.and_eq_true, decide_eq_true_eq]
                refine ⟨⟨⟨⟨⟨⟨hpt, by simpa using hum⟩, by simpa using hud⟩, ?_⟩, ?_⟩, ?_⟩, ?_⟩ <;> omega


/-! ### cue sheet -/

theorem headD_lt (l : List Nat) (h : bytesOk l = true) : l.headD 0 < 256 := by
  cases l with
  | nil => simp
  | cons x r => simp only [bytesOk, List.all_cons, Bool.and_eq_true, decide_eq_true_eq] at h; simpa using h.1

theorem readIsrc_sound (ib isrc : List Nat) (h : readIsrc ib = .ok isrc) : isrcOk isrc = true := by
  unfold readIsrc at h
  split at h
  · cases h; rfl
  · cases hs : isrcFromStr ib with
    | none => rw [hs] at h; cases h
    | some s =>
      rw [hs] at h
      cases h
      unfold isrcFromStr at hs
      split at hs
      · rename_i hp
        cases hs
        simp [isrcOk, hp]
      · cases hs

theorem readIndexes_sound (cdda : Bool) (n : Nat) (b : List Nat) (hb : bytesOk b = true) (pts : List CIndex) (r : List Nat)
    (h : readIndexes cdda n b = .ok (pts, r)) :
    b.length = 12 * n + r.length ∧ pts.length = n ∧ pts.all (indexOk cdda) = true ∧ bytesOk r = true := by
  induction n generalizing b pts r with
  | zero => simp only [readIndexes] at h; cases h; simp [hb]
  | succ n ih =>
    simp only [readIndexes] at h
    cases h1 : takeBytes 8 b with
    | error e => rw [h1] at h; cases h
    | ok v1 =>
      obtain ⟨off, r0⟩ := v1
      rw [h1] at h; dsimp only at h
      split at h
      · cases h
      rename_i hsec
      cases h2 : takeBytes 1 r0 with
      | error e => rw [h2] at h; cases h
      | ok v2 =>
        obtain ⟨num, r1⟩ := v2
        rw [h2] at h; dsimp only at h
        cases h3 : takeBytes 3 r1 with
        | error e => rw [h3] at h; cases h
        | ok v3 =>
          obtain ⟨pad, r2⟩ := v3
          rw [h3] at h; dsimp only at h
          cases h4 : readIndexes cdda n r2 with
          | error e => rw [h4] at h; cases h
          | ok v4 =>
            obtain ⟨is, r3⟩ := v4
            rw [h4] at h
            simp only [Except.ok.injEq, Prod.mk.injEq] at h
            obtain ⟨rfl, rfl⟩ := h
            obtain ⟨e1, l1⟩ := takeBytes_ok h1
            obtain ⟨e2, l2⟩ := takeBytes_ok h2
            obtain ⟨e3, l3⟩ := takeBytes_ok h3
            have k1 := takeBytes_bytesOk h1 hb
            have k2 := takeBytes_bytesOk h2 k1.2
            have k3 := takeBytes_bytesOk h3 k2.2
            obtain ⟨i1, i2, i3, i4⟩ := ih r2 k3.2 is _ h4
            have hoff := beNat_lt_pow off k1.1 8 (by omega)
            have hnum := headD_lt num k2.1
            refine ⟨?_, by simp [i2], ?_, i4⟩
            · rw [e1, e2, e3]; simp only [List.length_append]; omega
            · simp only [List.all_cons, Bool.and_eq_true, i3, and_true, indexOk, decide_eq_true_eq, u64Max, Bool.or_eq_true,
                Bool.not_eq_true', beq_iff_eq]
              refine ⟨⟨by first | omega | exact decide_eq_true (by omega), by omega⟩, ?_⟩
              cases cdda with
              | false => left; rfl
              | true => right; simpa using hsec

theorem trackBytes_length (t : CTrack) : (trackBytes t).length = 36 + 12 * t.points.length := by
  have : ∀ l : List CIndex, (l.flatMap indexBytes).length = 12 * l.length := by
    intro l; induction l with
    | nil => rfl
    | cons x r ih => simp [List.flatMap_cons, indexBytes_length, ih]; omega
  simp only [trackBytes, List.length_append, beBytes_length, padTo_length, List.length_replicate, List.length_cons, List.length_nil, this]

theorem readTrack_sound (cdda : Bool) (b : List Nat) (hb : bytesOk b = true) (t : CTrack) (r : List Nat)
    (h : readTrack cdda b = .ok (t, r)) :
    trackOk cdda t = true ∧ b.length = (trackBytes t).length + r.length ∧ t.points.length ≤ 255 ∧ bytesOk r = true := by
  simp only [readTrack] at h
  cases h1 : takeBytes 8 b with
  | error e => rw [h1] at h; cases h
  | ok v1 =>
    obtain ⟨off, r0⟩ := v1
    rw [h1] at h; dsimp only at h
    split at h
    · cases h
    rename_i hsec
    cases h2 : takeBytes 1 r0 with
    | error e => rw [h2] at h; cases h
    | ok v2 =>
      obtain ⟨num, r1⟩ := v2
      rw [h2] at h; dsimp only at h
      split at h
      · cases h
      rename_i hnz
      cases h3 : takeBytes 12 r1 with
      | error e => rw [h3] at h; cases h
      | ok v3 =>
        obtain ⟨ib, r2⟩ := v3
        rw [h3] at h; dsimp only at h
        cases h4 : readIsrc ib with
        | error e => rw [h4] at h; cases h
        | ok isrc =>
          rw [h4] at h; dsimp only at h
          cases h5 : takeBytes 1 r2 with
          | error e => rw [h5] at h; cases h
          | ok v5 =>
            obtain ⟨fl, r3⟩ := v5
            rw [h5] at h; dsimp only at h
            cases h6 : takeBytes 13 r3 with
            | error e => rw [h6] at h; cases h
            | ok v6 =>
              obtain ⟨pad, r4⟩ := v6
              rw [h6] at h; dsimp only at h
              cases h7 : takeBytes 1 r4 with
              | error e => rw [h7] at h; cases h
              | ok v7 =>
                obtain ⟨cnt, r5⟩ := v7
                rw [h7] at h; dsimp only at h
                cases h8 : readIndexes cdda (cnt.headD 0) r5 with
                | error e => rw [h8] at h; cases h
                | ok v8 =>
                  obtain ⟨pts, r6⟩ := v8
                  rw [h8] at h; dsimp only at h
                  by_cases hiv : (!indexVecOk (if cdda = true then cueCddaIndexMax else cueNonCddaIndexMax) pts) = true
                  · rw [if_pos hiv] at h; cases h
                  rw [if_neg hiv] at h
                  simp only [Except.ok.injEq, Prod.mk.injEq] at h
                  obtain ⟨rfl, rfl⟩ := h
                  obtain ⟨e1, l1⟩ := takeBytes_ok h1
                  obtain ⟨e2, l2⟩ := takeBytes_ok h2
                  obtain ⟨e3, l3⟩ := takeBytes_ok h3
                  obtain ⟨e5, l5⟩ := takeBytes_ok h5
                  obtain ⟨e6, l6⟩ := takeBytes_ok h6
                  obtain ⟨e7, l7⟩ := takeBytes_ok h7
                  have k1 := takeBytes_bytesOk h1 hb
                  have k2 := takeBytes_bytesOk h2 k1.2
                  have k3 := takeBytes_bytesOk h3 k2.2
                  have k5 := takeBytes_bytesOk h5 k3.2
                  have k6 := takeBytes_bytesOk h6 k5.2
                  have k7 := takeBytes_bytesOk h7 k6.2
                  obtain ⟨i1, i2, i3, i4⟩ := readIndexes_sound cdda _ r5 k7.2 pts _ h8
                  have hoff := beNat_lt_pow off k1.1 8 (by omega)
                  have hnum := headD_lt num k2.1
                  have hcnt := headD_lt cnt k7.1
                  refine ⟨?_, ?_, by simp only; omega, i4⟩
                  · simp only [trackOk, Bool.and_eq_true, decide_eq_true_eq, u64Max, readIsrc_sound ib isrc h4, Bool.or_eq_true,
                      Bool.not_eq_true', beq_iff_eq]
                    have hv : indexVecOk (if cdda = true then cueCddaIndexMax else cueNonCddaIndexMax) pts = true := by simpa using hiv
                    have hn0 : num.headD 0 ≠ 0 := by simpa using hnz
                    refine ⟨⟨⟨⟨⟨⟨by omega, by omega⟩, by first | omega | exact decide_eq_true (by omega)⟩, trivial⟩, hv⟩, ?_⟩, ?_⟩
                    · rw [List.all_eq_true] at i3 ⊢
                      intro i hi
                      have := i3 i hi
                      simp only [indexOk, Bool.and_eq_true, decide_eq_true_eq, Bool.or_eq_true, Bool.not_eq_true', beq_iff_eq] at this
                      simp only [Bool.and_eq_true, Bool.or_eq_true, Bool.not_eq_true', beq_iff_eq, u64Max] at this ⊢
                      exact ⟨⟨decide_eq_true this.1.1, decide_eq_true this.1.2⟩, this.2⟩
                    · cases cdda with
                      | false => left; rfl
                      | true => right; simpa using hsec
                  · rw [trackBytes_length, e1, e2, e3, e5, e6, e7]
                    simp only [List.length_append]
                    omega


theorem readTracks_sound (cdda : Bool) (n : Nat) (b : List Nat) (hb : bytesOk b = true) (ts : List CTrack) (r : List Nat)
    (h : readTracks cdda n b = .ok (ts, r)) :
    ts.all (trackOk cdda) = true ∧ ts.length = n ∧ b.length = (ts.flatMap trackBytes).length + r.length
      ∧ (∀ t ∈ ts, t.points.length ≤ 255) ∧ bytesOk r = true := by
  induction n generalizing b ts r with
  | zero => simp only [readTracks] at h; cases h; simp [hb]
  | succ n ih =>
    simp only [readTracks] at h
    cases h1 : readTrack cdda b with
    | error e => rw [h1] at h; cases h
    | ok v1 =>
      obtain ⟨t, r1⟩ := v1
      rw [h1] at h; dsimp only at h
      cases h2 : readTracks cdda n r1 with
      | error e => rw [h2] at h; cases h
      | ok v2 =>
        obtain ⟨ts', r2⟩ := v2
        rw [h2] at h
        simp only [Except.ok.injEq, Prod.mk.injEq] at h
        obtain ⟨rfl, rfl⟩ := h
        obtain ⟨t1, t2, t3, t4⟩ := readTrack_sound cdda b hb t r1 h1
        obtain ⟨i1, i2, i3, i4, i5⟩ := ih r1 t4 ts' _ h2
        refine ⟨by simp [t1, i1], by simp [i2], ?_, ?_, i5⟩
        · simp only [List.flatMap_cons, List.length_append]; omega
        · intro x hx
          simp only [List.mem_cons] at hx
          rcases hx with rfl | hx
          · exact t3
          · exact i4 x hx

theorem leadBytes_length (cdda : Bool) (l : CLead) : (leadBytes cdda l).length = 36 := by
  simp [leadBytes, padTo_length]

theorem readLead_sound (cdda : Bool) (b : List Nat) (hb : bytesOk b = true) (l : CLead) (r : List Nat)
    (h : readLead cdda b = .ok (l, r)) :
    l.offset ≤ u64Max ∧ isrcOk l.isrc = true ∧ (cdda = false ∨ l.offset % cueSector = 0) ∧ b.length = 36 + r.length := by
  simp only [readLead] at h
  cases h1 : takeBytes 8 b with
  | error e => rw [h1] at h; cases h
  | ok v1 =>
    obtain ⟨off, r0⟩ := v1
    rw [h1] at h; dsimp only at h
    split at h
    · cases h
    rename_i hsec
    cases h2 : takeBytes 1 r0 with
    | error e => rw [h2] at h; cases h
    | ok v2 =>
      obtain ⟨num, r1⟩ := v2
      rw [h2] at h; dsimp only at h
      by_cases hnum : (num.headD 0 != (if cdda = true then cueLeadOutCdda else cueLeadOutNonCdda)) = true
      · rw [if_pos hnum] at h; cases h
      rw [if_neg hnum] at h
      cases h3 : takeBytes 12 r1 with
      | error e => rw [h3] at h; cases h
      | ok v3 =>
        obtain ⟨ib, r2⟩ := v3
        rw [h3] at h; dsimp only at h
        cases h4 : readIsrc ib with
        | error e => rw [h4] at h; cases h
        | ok isrc =>
          rw [h4] at h; dsimp only at h
          cases h5 : takeBytes 1 r2 with
          | error e => rw [h5] at h; cases h
          | ok v5 =>
            obtain ⟨fl, r3⟩ := v5
            rw [h5] at h; dsimp only at h
            cases h6 : takeBytes 13 r3 with
            | error e => rw [h6] at h; cases h
            | ok v6 =>
              obtain ⟨pad, r4⟩ := v6
              rw [h6] at h; dsimp only at h
              cases h7 : takeBytes 1 r4 with
              | error e => rw [h7] at h; cases h
              | ok v7 =>
                obtain ⟨cnt, r5⟩ := v7
                rw [h7] at h; dsimp only at h
                by_cases hcz : (cnt.headD 0 != 0) = true
                · rw [if_pos hcz] at h; cases h
                rw [if_neg hcz] at h
                simp only [Except.ok.injEq, Prod.mk.injEq] at h
                obtain ⟨rfl, rfl⟩ := h
                obtain ⟨e1, l1⟩ := takeBytes_ok h1
                obtain ⟨e2, l2⟩ := takeBytes_ok h2
                obtain ⟨e3, l3⟩ := takeBytes_ok h3
                obtain ⟨e5, l5⟩ := takeBytes_ok h5
                obtain ⟨e6, l6⟩ := takeBytes_ok h6
                obtain ⟨e7, l7⟩ := takeBytes_ok h7
                have k1 := takeBytes_bytesOk h1 hb
                have hoff := beNat_lt_pow off k1.1 8 (by omega)
                refine ⟨by simp only [u64Max]; omega, readIsrc_sound ib isrc h4, ?_, ?_⟩
                · cases cdda with
                  | false => left; rfl
                  | true => right; simpa using hsec
                · rw [e1, e2, e3, e5, e6, e7]; simp only [List.length_append]; omega

theorem dropWhile_length_le {α} (p : α → Bool) (l : List α) : (l.dropWhile p).length ≤ l.length := by
  induction l with
  | nil => simp
  | cons x r ih => simp only [List.dropWhile_cons]; split <;> simp <;> omega

theorem trimNulls_length_le (l : List Nat) : (trimNulls l).length ≤ l.length := by
  unfold trimNulls
  have := dropWhile_length_le (· == 0) l.reverse
  simpa using this

theorem readCatalog_sound (cdda : Bool) (field cat : List Nat) (h : readCatalog cdda field = .ok cat) :
    cat.all isDigit = true ∧ cat.length ≤ field.length ∧ (cdda = true → cat.isEmpty = true ∨ cat.length = 13) := by
  unfold readCatalog at h
  split at h
  · cases h
  rename_i hd
  split at h
  · cases h
  rename_i hc
  cases h
  refine ⟨by simpa using hd, trimNulls_length_le field, ?_⟩
  intro hcd
  subst hcd
  simp only [Bool.true_and, Bool.not_eq_true', Bool.or_eq_false_iff, not_and, Bool.not_eq_false, beq_iff_eq] at hc
  by_cases he : (trimNulls field).isEmpty = true
  · left; exact he
  · right
    have := hc (by simpa using he)
    simpa using this

theorem cueBytes_ok_len (c : Cue) (g1 : c.cdda = true ∨ c.catalog.length ≤ cueCatalogLen) (g2 : c.tracks.length + 1 ≤ 255)
    (g3 : ∀ t ∈ c.tracks, t.points.length ≤ 255) :
    ∃ bs, cueBytes c = .ok bs ∧ bs.length = 396 + (c.tracks.flatMap trackBytes).length + 36 := by
  have hk : cueCatalogChecked = true := rfl
  have c1 : ¬ ((!c.cdda && cueCatalogChecked && decide (c.catalog.length > cueCatalogLen)) = true) := by
    simp only [hk, Bool.and_true, Bool.and_eq_true, Bool.not_eq_true', decide_eq_true_eq, not_and, Nat.not_lt]
    intro hc
    rcases g1 with h | h
    · rw [h] at hc; cases hc
    · exact h
  have c2 : ¬ (c.tracks.length + 1 > 255) := by omega
  have c3 : ¬ ((c.tracks.any fun t => decide (t.points.length > 255)) = true) := by
    simp only [List.any_eq_true, decide_eq_true_eq, not_exists, not_and, Nat.not_lt]
    exact g3
  refine ⟨padTo cueCatalogLen c.catalog ++ beBytes 8 (if c.cdda then c.leadIn else 0) ++ [if c.cdda then 128 else 0]
    ++ List.replicate 258 0 ++ [c.tracks.length + 1] ++ c.tracks.flatMap trackBytes ++ leadBytes c.cdda c.lead, ?_, ?_⟩
  · simp only [cueBytes, c1, ↓reduceIte, c2, c3, Bool.false_eq_true]
  · have : cueCatalogLen = 128 := rfl
    simp only [List.length_append, padTo_length, beBytes_length, List.length_replicate, List.length_cons, List.length_nil,
      leadBytes_length]
    omega

theorem parseCue_sound (b : List Nat) (hb : bytesOk b = true) (c : Cue) (h : parseCue b = .ok (c, [])) :
    c.wf = true ∧ ∃ bs, cueBytes c = .ok bs ∧ bs.length = b.length := by
  simp only [parseCue] at h
  cases h1 : takeBytes cueCatalogLen b with
  | error e => rw [h1] at h; cases h
  | ok v1 =>
    obtain ⟨catf, r0⟩ := v1
    rw [h1] at h; dsimp only at h
    cases h2 : takeBytes 8 r0 with
    | error e => rw [h2] at h; cases h
    | ok v2 =>
      obtain ⟨li, r1⟩ := v2
      rw [h2] at h; dsimp only at h
      cases h3 : takeBytes 1 r1 with
      | error e => rw [h3] at h; cases h
      | ok v3 =>
        obtain ⟨fl, r2⟩ := v3
        rw [h3] at h; dsimp only at h
        cases h4 : takeBytes 258 r2 with
        | error e => rw [h4] at h; cases h
        | ok v4 =>
          obtain ⟨pad, r3⟩ := v4
          rw [h4] at h; dsimp only at h
          cases h5 : takeBytes 1 r3 with
          | error e => rw [h5] at h; cases h
          | ok v5 =>
            obtain ⟨cnt, r⟩ := v5
            rw [h5] at h; dsimp only at h
            cases h6 : readCatalog (fl.headD 0 / 128 == 1) catf with
            | error e => rw [h6] at h; cases h
            | ok cat =>
              rw [h6] at h; dsimp only at h
              by_cases hnt : (cnt.headD 0 == 0 || ((fl.headD 0 / 128 == 1) && decide (cnt.headD 0 - 1 > cueCddaReadTrackLimit))) = true
              · rw [if_pos hnt] at h; cases h
              rw [if_neg hnt] at h
              cases h7 : readTracks (fl.headD 0 / 128 == 1) (cnt.headD 0 - 1) r with
              | error e => rw [h7] at h; cases h
              | ok v7 =>
                obtain ⟨ts, r4⟩ := v7
                rw [h7] at h; dsimp only at h
                by_cases hch : (!(decide (ts.length ≤ if (fl.headD 0 / 128 == 1) = true then cueCddaTrackMax else cueNonCddaTrackMax) && trackChain none ts)) = true
                · rw [if_pos hch] at h; cases h
                rw [if_neg hch] at h
                cases h8 : readLead (fl.headD 0 / 128 == 1) r4 with
                | error e => rw [h8] at h; cases h
                | ok v8 =>
                  obtain ⟨l, r5⟩ := v8
                  rw [h8] at h
                  simp only [Except.ok.injEq, Prod.mk.injEq] at h
                  obtain ⟨rfl, rfl⟩ := h
                  obtain ⟨e1, l1⟩ := takeBytes_ok h1
                  obtain ⟨e2, l2⟩ := takeBytes_ok h2
                  obtain ⟨e3, l3⟩ := takeBytes_ok h3
                  obtain ⟨e4, l4⟩ := takeBytes_ok h4
                  obtain ⟨e5, l5⟩ := takeBytes_ok h5
                  have k1 := takeBytes_bytesOk h1 hb
                  have k2 := takeBytes_bytesOk h2 k1.2
                  have k3 := takeBytes_bytesOk h3 k2.2
                  have k4 := takeBytes_bytesOk h4 k3.2
                  have k5 := takeBytes_bytesOk h5 k4.2
                  obtain ⟨c1, c2, c3⟩ := readCatalog_sound _ catf cat h6
                  obtain ⟨t1, t2, t3, t4, t5⟩ := readTracks_sound _ _ r k5.2 ts r4 h7
                  obtain ⟨d1, d2, d3, d4⟩ := readLead_sound _ r4 t5 l _ h8
                  have hcnt := headD_lt cnt k5.1
                  have hli := beNat_lt_pow li k2.1 8 (by omega)
                  simp only [Bool.or_eq_true, beq_iff_eq, Bool.and_eq_true, decide_eq_true_eq, not_or, not_and] at hnt
                  simp only [Bool.not_eq_true', Bool.and_eq_false_iff, not_or, Bool.not_eq_false, decide_eq_false_iff_not, Decidable.not_not] at hch
                  generalize hcd : (fl.headD 0 / 128 == 1) = cdda at *
                  have hcatlen : cat.length ≤ cueCatalogLen := by omega
                  constructor
                  · simp only [Cue.wf, Bool.and_eq_true, decide_eq_true_eq, Bool.or_eq_true, Bool.not_eq_true', beq_iff_eq]
                    refine ⟨⟨⟨⟨⟨⟨⟨c1, ?_⟩, hch.1⟩, hch.2⟩, t1⟩, d1⟩, d2⟩, d3⟩
                    cases cdda with
                    | false => simp
                    | true =>
                      simp only [↓reduceIte, Bool.and_eq_true, Bool.or_eq_true, beq_iff_eq, decide_eq_true_eq, u64Max]
                      exact ⟨by simpa using c3 rfl, by omega⟩
                  · obtain ⟨bs, hbs, hbl⟩ := cueBytes_ok_len
                      { cdda := cdda, catalog := cat, leadIn := if cdda = true then beNat li else 0, tracks := ts, lead := l }
                      (Or.inr hcatlen) (by simp only; omega) t4
                    refine ⟨bs, hbs, ?_⟩
                    rw [hbl, e1, e2, e3, e4, e5]
                    simp only [List.length_append]
                    have : cueCatalogLen = 128 := rfl
                    simp only [List.length_nil] at d4
                    omega

theorem sound_cuesheet (size : Nat) (body : List Nat) (hb : bytesOk body = true) (hlen : body.length = size) (b : Block)
    (h : parseBody 5 size body = .ok (b, [])) : Rewritable 5 size b := by
  simp only [parseBody] at h
  cases hp : parseCue body with
  | error e => rw [hp] at h; cases h
  | ok v =>
    obtain ⟨c, r⟩ := v
    rw [hp] at h
    simp only [Except.ok.injEq, Prod.mk.injEq] at h
    obtain ⟨rfl, rfl⟩ := h
    obtain ⟨w, bs, hbs, hl⟩ := parseCue_sound body hb c hp
    exact ⟨w, rfl, bs, hbs, by omega⟩

/-- every block the reader can produce from a body of the declared size is `Rewritable` -/
theorem parseBody_sound (ty size : Nat) (body : List Nat) (hb : bytesOk body = true) (hlen : body.length = size)
    (hsz : size ≤ maxBlockSize) (b : Block) (h : parseBody ty size body = .ok (b, [])) : Rewritable ty size b := by
  match ty, h with
  | 0, h => exact sound_streaminfo size body hb hlen b h
  | 1, h => exact sound_padding size body hsz b h
  | 2, h => exact sound_application size body hb b h
  | 3, h => exact sound_seektable size body hb b h
  | 4, h => exact sound_vorbis size body hlen hsz b h
  | 5, h => exact sound_cuesheet size body hb hlen b h
  | 6, h => exact sound_picture size body hb hlen hsz b h
  | n + 7, h => simp only [parseBody] at h; split at h <;> cases h


/-! ### blocks and block lists -/

/-- whatever `readBlock` accepts satisfies the invariants and is written back by `writeBlock` (with
    the same `last` flag) to exactly as many bytes as were consumed -/
theorem readBlock_sound (bytes : List Nat) (hb : bytesOk bytes = true) (last : Bool) (b : Block) (rest : List Nat)
    (h : readBlock bytes = .ok (last, b, rest)) :
    blockWf b = true ∧ (∃ x, writeBlock last b = .ok x ∧ bytes.length = x.length + rest.length) ∧ bytesOk rest = true := by
  unfold readBlock at h
  split at h
  · rename_i hd a b' c rest'
    split at h
    · split at h <;> cases h
    rename_i hty
    cases hp : parseBody (hd % 128) (beNat [a, b', c]) (rest'.take (beNat [a, b', c])) with
    | error e => rw [hp] at h; cases h
    | ok v =>
      obtain ⟨blk, left⟩ := v
      rw [hp] at h
      dsimp only at h
      split at h
      · cases h
      rename_i hchk
      simp only [Except.ok.injEq, Prod.mk.injEq] at h
      obtain ⟨rfl, rfl, rfl⟩ := h
      simp only [Bool.or_eq_true, Bool.not_eq_true', bne_iff_ne, ne_eq, not_or, Bool.not_eq_false, Decidable.not_not, List.isEmpty_iff] at hchk
      obtain ⟨hleft, hblen⟩ := hchk
      subst hleft
      have hbs : bytesOk (hd :: a :: b' :: c :: rest') = true := hb
      simp only [bytesOk, List.all_cons, Bool.and_eq_true, decide_eq_true_eq] at hbs
      obtain ⟨hhd, ha, hb', hc, hrest⟩ := hbs
      have hsz : beNat [a, b', c] < 256 ^ 3 := beNat_lt [a, b', c] (by simp [bytesOk, ha, hb', hc])
      have hmax : maxBlockSize = 2 ^ 24 - 1 := rfl
      have hbody : bytesOk (rest'.take (beNat [a, b', c])) = true := bytesOk_take _ (by simpa [bytesOk] using hrest)
      obtain ⟨w, hty', bs, hbs', hlen⟩ := parseBody_sound (hd % 128) (beNat [a, b', c]) _ hbody hblen (by omega) blk hp
      refine ⟨w, ⟨[(if (hd / 128 == 1) then 128 else 0) + blk.type] ++ beBytes 3 bs.length ++ bs, ?_, ?_⟩, bytesOk_drop _ (by simpa [bytesOk] using hrest)⟩
      · simp only [writeBlock, hbs']
        have : ¬ bs.length > maxBlockSize := by omega
        simp [this]
      · simp only [List.length_cons, List.length_append, beBytes_length, List.length_nil, List.length_drop]
        simp only [List.length_take] at hblen
        omega
  · cases h

theorem readRest_nonempty (fuel : Nat) (s : Seen) (bytes : List Nat) (used : Nat) (bl : List Block) (u : Nat)
    (h : readRest fuel s bytes used = .ok (bl, u)) : bl ≠ [] := by
  cases fuel with
  | zero => simp [readRest] at h
  | succ fuel =>
    simp only [readRest] at h
    cases hb : readBlock bytes with
    | error e => rw [hb] at h; cases h
    | ok v =>
      obtain ⟨last, b, rest⟩ := v
      rw [hb] at h; dsimp only at h
      cases hc : checkUnique s b with
      | error e => rw [hc] at h; cases h
      | ok s' =>
        rw [hc] at h; dsimp only at h
        split at h
        · cases h; simp
        · cases hr : readRest fuel s' rest (used + (bytes.length - rest.length)) with
          | error e => rw [hr] at h; cases h
          | ok w => rw [hr] at h; cases h; simp

theorem readRest_sound (fuel : Nat) (s : Seen) (bytes : List Nat) (hb : bytesOk bytes = true) (used : Nat) (bl : List Block) (u : Nat)
    (h : readRest fuel s bytes used = .ok (bl, u)) :
    (∀ b ∈ bl, blockWf b = true) ∧ ∃ y, writeRest s bl = .ok y := by
  induction fuel generalizing s bytes used bl u with
  | zero => simp [readRest] at h
  | succ fuel ih =>
    simp only [readRest] at h
    cases hrb : readBlock bytes with
    | error e => rw [hrb] at h; cases h
    | ok v =>
      obtain ⟨last, b, rest⟩ := v
      rw [hrb] at h; dsimp only at h
      obtain ⟨w, ⟨x, hx, _⟩, hrest⟩ := readBlock_sound bytes hb last b rest hrb
      cases hc : checkUnique s b with
      | error e => rw [hc] at h; cases h
      | ok s' =>
        rw [hc] at h; dsimp only at h
        split at h
        · rename_i hl
          cases h
          subst hl
          refine ⟨by intro q hq; simp at hq; subst hq; exact w, x ++ [], ?_⟩
          simp only [writeRest, hc, List.isEmpty_nil, hx]
        · rename_i hl
          cases hr : readRest fuel s' rest (used + (bytes.length - rest.length)) with
          | error e => rw [hr] at h; cases h
          | ok v2 =>
            obtain ⟨bs, u2⟩ := v2
            rw [hr] at h
            obtain ⟨hw, y, hy⟩ := ih s' rest hrest _ bs u2 hr
            have hne := readRest_nonempty _ _ _ _ _ _ hr
            cases h
            have hemp : bs.isEmpty = false := by cases bs <;> simp_all
            have hlast : last = false := by simpa using hl
            subst hlast
            refine ⟨?_, x ++ y, ?_⟩
            · intro q hq
              simp only [List.mem_cons] at hq
              rcases hq with rfl | hq
              · exact w
              · exact hw q hq
            · simp only [writeRest, hc, hemp, hx, hy]

/-- **The converse direction.**  Any byte sequence the reader accepts yields a block list that the
    writer accepts, and reading what the writer produces returns an equal list. -/
theorem read_then_write_then_read (bytes : List Nat) (hb : bytesOk bytes = true) (bl : List Block) (n : Nat)
    (h : readBlocks bytes = .ok (bl, n)) :
    ∃ out, writeBlocks bl = .ok out ∧ readBlocks out = .ok (bl, out.length) := by
  have key : (∀ b ∈ bl, blockWf b = true) ∧ ∃ out, writeBlocks bl = .ok out := by
    unfold readBlocks at h
    split at h
    · cases h
    split at h
    · cases h
    split at h
    · rename_i last si rest hrb
      have hbd : bytesOk (bytes.drop 4) = true := bytesOk_drop 4 hb
      obtain ⟨w, ⟨x, hx, _⟩, hrest⟩ := readBlock_sound _ hbd last (.streaminfo si) rest hrb
      split at h
      · rename_i hl
        cases h
        subst hl
        refine ⟨by intro q hq; simp at hq; subst hq; exact w, [0x66, 0x4C, 0x61, 0x43] ++ x ++ [], ?_⟩
        simp only [writeBlocks, List.isEmpty_nil, hx, writeRest]
      · rename_i hl
        cases hr : readRest (bytes.length + 1) {} rest (bytes.length - rest.length) with
        | error e => rw [hr] at h; cases h
        | ok v2 =>
          obtain ⟨bs, u2⟩ := v2
          rw [hr] at h
          obtain ⟨hw, y, hy⟩ := readRest_sound _ _ rest hrest _ bs u2 hr
          have hne := readRest_nonempty _ _ _ _ _ _ hr
          cases h
          have hemp : bs.isEmpty = false := by cases bs <;> simp_all
          have hlast : last = false := by simpa using hl
          subst hlast
          refine ⟨?_, [0x66, 0x4C, 0x61, 0x43] ++ x ++ y, ?_⟩
          · intro q hq
            simp only [List.mem_cons] at hq
            rcases hq with rfl | hq
            · exact w
            · exact hw q hq
          · simp only [writeBlocks, hemp, hx, hy]
    · cases h
  obtain ⟨hw, out, ho⟩ := key
  refine ⟨out, ho, ?_⟩
  have := blocklist_roundtrip bl hw out ho []
  simpa using this

end Flac.C11
