/-
  Props/C10.lean — metadata updates never disturb the audio and are size-neutral when in place.
-/
import FlacModel.Props.C11
import FlacModel.Model.MetaOps

namespace Flac.C10
open Flac Flac.Gen Flac.C11

/-! ### a failed update leaves the file untouched -/

/-- Whatever goes wrong (unreadable metadata, the callback failing, the edited list breaking a
    validation rule), the file afterwards is byte-for-byte the file before. -/
theorem update_error_untouched (file : List Nat) (edit : List Block → Option (List Block)) (e : Fail)
    (h : (updateFile file edit).2 = .error e) : (updateFile file edit).1 = file := by
  unfold updateFile at h ⊢
  cases hr : readBlocks file with
  | error e' => rfl
  | ok v =>
    obtain ⟨bl, oldSize⟩ := v
    rw [hr] at h
    dsimp only at h ⊢
    cases he : edit bl with
    | none => rfl
    | some bl' =>
      rw [he] at h
      dsimp only at h ⊢
      cases hw : writeBlocks bl' with
      | error e' => rfl
      | ok dry =>
        rw [hw] at h
        dsimp only at h ⊢
        cases ha : adjustFor oldSize dry.length bl' with
        | none => rw [ha] at h; cases h
        | some bl'' =>
          rw [ha] at h
          dsimp only at h ⊢
          cases hw2 : writeBlocks bl'' with
          | error e' => rfl
          | ok out => rw [hw2] at h; cases h

/-! ### byte accounting -/

theorem readBlock_rest_le {bytes rest : List Nat} {l : Bool} {b : Block} (h : readBlock bytes = .ok (l, b, rest)) :
    rest.length ≤ bytes.length := by
  unfold readBlock at h
  split at h
  · rename_i hd a b' c rest'
    split at h
    · split at h <;> cases h
    · cases hp : parseBody (hd % 128) (beNat [a, b', c]) (rest'.take (beNat [a, b', c])) with
      | error e => rw [hp] at h; cases h
      | ok v =>
        rw [hp] at h
        dsimp only at h
        split at h
        · cases h
        · cases h
          simp; omega
  · cases h

theorem readRest_used_le (fuel : Nat) (s : Seen) (bytes : List Nat) (used : Nat) (bl : List Block) (u : Nat)
    (h : readRest fuel s bytes used = .ok (bl, u)) : u ≤ used + bytes.length := by
  induction fuel generalizing s bytes used bl u with
  | zero => simp [readRest] at h
  | succ fuel ih =>
    simp only [readRest] at h
    cases hb : readBlock bytes with
    | error e => rw [hb] at h; cases h
    | ok v =>
      obtain ⟨last, b, rest⟩ := v
      rw [hb] at h
      dsimp only at h
      have hle := readBlock_rest_le hb
      cases hc : checkUnique s b with
      | error e => rw [hc] at h; cases h
      | ok s' =>
        rw [hc] at h
        dsimp only at h
        split at h
        · cases h; omega
        · cases hr : readRest fuel s' rest (used + (bytes.length - rest.length)) with
          | error e => rw [hr] at h; cases h
          | ok w =>
            obtain ⟨bs, u2⟩ := w
            rw [hr] at h
            have := ih s' rest _ bs u2 hr
            cases h
            omega

/-- the reader never claims to have consumed more than the file holds -/
theorem readBlocks_used_le (file : List Nat) (bl : List Block) (n : Nat) (h : readBlocks file = .ok (bl, n)) : n ≤ file.length := by
  unfold readBlocks at h
  split at h
  · cases h
  split at h
  · cases h
  split at h
  · rename_i last si rest hb
    have hle := readBlock_rest_le hb
    simp only [List.length_drop] at hle
    split at h
    · cases h; omega
    · cases hr : readRest (file.length + 1) {} rest (file.length - rest.length) with
      | error e => rw [hr] at h; cases h
      | ok w =>
        obtain ⟨bs, u⟩ := w
        rw [hr] at h
        have := readRest_used_le _ _ _ _ _ _ hr
        cases h
        omega
  · cases h


/-! ### growing / shrinking the first PADDING block -/

theorem adjust_isEmpty {f : Nat → Option Nat} {bs bs' : List Block} (h : adjustFirstPadding f bs = some bs') : bs'.isEmpty = bs.isEmpty := by
  cases bs with
  | nil => simp [adjustFirstPadding] at h
  | cons b r =>
    cases b <;> simp only [adjustFirstPadding] at h
    all_goals first
      | (cases ha : adjustFirstPadding f r with
         | none => rw [ha] at h; cases h
         | some r' => rw [ha] at h; cases h; rfl)
      | (split at h <;> first | (cases h; rfl) | cases h)

/-- replacing the size of the first PADDING: the writer still succeeds and the output length moves
    by exactly the size difference -/
theorem adjust_writeRest (f : Nat → Option Nat) (hf : ∀ n n', f n = some n' → n ≤ maxBlockSize → n' ≤ maxBlockSize) (bs bs' : List Block)
    (ha : adjustFirstPadding f bs = some bs') (s : Seen) (y : List Nat) (h : writeRest s bs = .ok y) :
    ∃ y' n n', writeRest s bs' = .ok y' ∧ f n = some n' ∧ y'.length + n = y.length + n' := by
  induction bs generalizing bs' s y with
  | nil => simp [adjustFirstPadding] at ha
  | cons b r ih =>
    simp only [writeRest] at h
    cases hc : checkUnique s b with
    | error e => rw [hc] at h; cases h
    | ok s' =>
      rw [hc] at h
      dsimp only at h
      cases hx : writeBlock r.isEmpty b with
      | error e => rw [hx] at h; cases h
      | ok x =>
        rw [hx] at h
        dsimp only at h
        cases hy : writeRest s' r with
        | error e => rw [hy] at h; cases h
        | ok yr =>
          rw [hy] at h
          have h := (Except.ok.inj h).symm
          by_cases hp : ∃ n, b = .padding n
          · obtain ⟨n, rfl⟩ := hp
            simp only [adjustFirstPadding] at ha
            cases hfn : f n with
            | none => rw [hfn] at ha; cases ha
            | some n' =>
              rw [hfn] at ha
              cases ha
              have hxl : x.length = 4 + n ∧ n ≤ maxBlockSize := by
                simp only [writeBlock, Block.body] at hx
                split at hx
                · cases hx
                · rename_i hle
                  simp only [List.length_replicate] at hle
                  cases hx; simp; omega
              have hn' := hf n n' hfn hxl.2
              have hc' : checkUnique s (.padding n') = .ok s' := by
                simp only [checkUnique] at hc ⊢; exact hc
              refine ⟨[(if r.isEmpty then 128 else 0) + 1] ++ beBytes 3 n' ++ List.replicate n' 0 ++ yr, n, n', ?_, hfn, ?_⟩
              · simp only [writeRest, hc', writeBlock, Block.body, List.length_replicate, Block.type, hy]
                have : ¬ n' > maxBlockSize := by omega
                simp [this]
              · rw [h]; simp; omega
          · have ha' : ∃ r', adjustFirstPadding f r = some r' ∧ bs' = b :: r' := by
              cases b
              case padding n => exact absurd ⟨n, rfl⟩ hp
              all_goals
                simp only [adjustFirstPadding] at ha
                cases har : adjustFirstPadding f r with
                | none => rw [har] at ha; cases ha
                | some r' => rw [har] at ha; cases ha; exact ⟨r', rfl, rfl⟩
            obtain ⟨r', har, rfl⟩ := ha'
            obtain ⟨y', n, n', hw', hfn, hl⟩ := ih r' har s' yr hy
            refine ⟨x ++ y', n, n', ?_, hfn, ?_⟩
            · simp only [writeRest, hc, adjust_isEmpty har, hx, hw']
            · rw [h]; simp; omega

theorem adjust_writeBlocks (f : Nat → Option Nat) (hf : ∀ n n', f n = some n' → n ≤ maxBlockSize → n' ≤ maxBlockSize) (bl bl' : List Block)
    (ha : adjustFirstPadding f bl = some bl') (dry : List Nat) (h : writeBlocks bl = .ok dry) :
    ∃ out n n', writeBlocks bl' = .ok out ∧ f n = some n' ∧ out.length + n = dry.length + n' := by
  unfold writeBlocks at h
  match bl, ha with
  | .streaminfo si :: rest, ha =>
    dsimp only at h
    simp only [adjustFirstPadding] at ha
    cases har : adjustFirstPadding f rest with
    | none => rw [har] at ha; cases ha
    | some rest' =>
      rw [har] at ha
      cases ha
      cases hx : writeBlock rest.isEmpty (.streaminfo si) with
      | error e => rw [hx] at h; cases h
      | ok x =>
        rw [hx] at h
        dsimp only at h
        cases hy : writeRest {} rest with
        | error e => rw [hy] at h; cases h
        | ok y =>
          rw [hy] at h
          have h := (Except.ok.inj h).symm
          obtain ⟨y', n, n', hw', hfn, hl⟩ := adjust_writeRest f hf rest rest' har {} y hy
          refine ⟨[0x66, 0x4C, 0x61, 0x43] ++ x ++ y', n, n', ?_, hfn, ?_⟩
          · simp only [writeBlocks, adjust_isEmpty har, hx, hw']
          · rw [h]; simp; omega
  | [], _ => cases h
  | .padding _ :: _, _ => cases h
  | .application .. :: _, _ => cases h
  | .seektable _ :: _, _ => cases h
  | .vorbis .. :: _, _ => cases h
  | .cuesheet _ :: _, _ => cases h
  | .picture _ :: _, _ => cases h

/-- when the update goes in place, the blocks actually written have exactly the old size -/
theorem adjustFor_length (oldSize : Nat) (bl' bl'' : List Block) (dry : List Nat) (hw : writeBlocks bl' = .ok dry)
    (ha : adjustFor oldSize dry.length bl' = some bl'') : ∃ out, writeBlocks bl'' = .ok out ∧ out.length = oldSize := by
  unfold adjustFor at ha
  split at ha
  · rename_i hlt
    split at ha
    · obtain ⟨out, n, n', hw', hfn, hl⟩ := adjust_writeBlocks _ (by
        intro n n' h _; split at h
        · cases h; assumption
        · cases h) bl' bl'' ha dry hw
      refine ⟨out, hw', ?_⟩
      split at hfn
      · cases hfn; omega
      · cases hfn
    · cases ha
  · split at ha
    · rename_i heq
      cases ha
      exact ⟨dry, hw, by simpa using heq⟩
    · rename_i hne
      split at ha
      · obtain ⟨out, n, n', hw', hfn, hl⟩ := adjust_writeBlocks _ (by
          intro n n' h hn; split at h
          · cases h
            omega
          · cases h) bl' bl'' ha dry hw
        refine ⟨out, hw', ?_⟩
        split at hfn
        · cases hfn
          simp only [beq_iff_eq] at hne
          omega
        · cases hfn
      · cases ha


/-! ### the property -/

/-- the shape of every successful update: in place, the old blocks are overwritten by a list of
    exactly the old size; rebuilt, the new blocks are followed by everything after the old ones -/
theorem update_success_shape (file : List Nat) (edit : List Block → Option (List Block)) (o : UpdateOutcome)
    (h : (updateFile file edit).2 = .ok o) :
    ∃ bl oldSize bl' dry, readBlocks file = .ok (bl, oldSize) ∧ edit bl = some bl' ∧ writeBlocks bl' = .ok dry ∧
      ((o = .inPlace ∧ ∃ bl'' out, adjustFor oldSize dry.length bl' = some bl'' ∧ writeBlocks bl'' = .ok out ∧ out.length = oldSize
          ∧ (updateFile file edit).1 = out ++ file.drop oldSize)
       ∨ (o = .rebuilt ∧ adjustFor oldSize dry.length bl' = none ∧ (updateFile file edit).1 = dry ++ file.drop oldSize)) := by
  unfold updateFile at h ⊢
  cases hr : readBlocks file with
  | error e' => rw [hr] at h; cases h
  | ok v =>
    obtain ⟨bl, oldSize⟩ := v
    rw [hr] at h
    dsimp only at h ⊢
    cases he : edit bl with
    | none => rw [he] at h; cases h
    | some bl' =>
      rw [he] at h
      dsimp only at h ⊢
      cases hw : writeBlocks bl' with
      | error e' => rw [hw] at h; cases h
      | ok dry =>
        rw [hw] at h
        dsimp only at h ⊢
        refine ⟨bl, oldSize, bl', dry, rfl, he, hw, ?_⟩
        cases ha : adjustFor oldSize dry.length bl' with
        | none =>
          rw [ha] at h
          dsimp only at h ⊢
          cases h
          exact Or.inr ⟨rfl, rfl, rfl⟩
        | some bl'' =>
          rw [ha] at h
          dsimp only at h ⊢
          obtain ⟨out, hw2, hlen⟩ := adjustFor_length oldSize bl' bl'' dry hw ha
          rw [hw2] at h ⊢
          dsimp only at h ⊢
          cases h
          exact Or.inl ⟨rfl, bl'', out, rfl, hw2, hlen, by rw [hlen]⟩

/-- **Audio untouched.**  After any successful update, everything from the first audio frame onward
    is the same bytes as before (so the file decodes to the same PCM whenever STREAMINFO is kept). -/
theorem update_preserves_frames (file : List Nat) (edit : List Block → Option (List Block)) (o : UpdateOutcome)
    (h : (updateFile file edit).2 = .ok o) :
    ∃ oldSize newSize bl, readBlocks file = .ok (bl, oldSize) ∧ ((updateFile file edit).1).drop newSize = file.drop oldSize
      ∧ newSize ≤ ((updateFile file edit).1).length := by
  obtain ⟨bl, oldSize, bl', dry, hr, he, hw, hcase⟩ := update_success_shape file edit o h
  rcases hcase with ⟨_, bl'', out, _, _, hlen, hf⟩ | ⟨_, _, hf⟩
  · refine ⟨oldSize, out.length, bl, hr, ?_, ?_⟩
    · rw [hf]; exact drop_append_len _ _ _ rfl
    · rw [hf]; simp
  · refine ⟨oldSize, dry.length, bl, hr, ?_, ?_⟩
    · rw [hf]; exact drop_append_len _ _ _ rfl
    · rw [hf]; simp

/-- **In place means size-neutral.**  The file length is unchanged. -/
theorem update_inplace_length (file : List Nat) (edit : List Block → Option (List Block))
    (h : (updateFile file edit).2 = .ok .inPlace) : ((updateFile file edit).1).length = file.length := by
  obtain ⟨bl, oldSize, bl', dry, hr, he, hw, hcase⟩ := update_success_shape file edit _ h
  rcases hcase with ⟨_, bl'', out, _, _, hlen, hf⟩ | ⟨hc, _⟩
  · have := readBlocks_used_le file bl oldSize hr
    rw [hf]; simp; omega
  · cases hc

/-- **In place reads back as the edited list**, apart from the size of the first PADDING block: the
    blocks read from the updated file are the edited list with that padding grown or shrunk by the
    size difference, and they occupy exactly the old metadata region. -/
theorem update_inplace_readback (file : List Nat) (edit : List Block → Option (List Block))
    (hwf : ∀ bl bl', edit bl = some bl' → ∀ b ∈ bl', blockWf b = true)
    (h : (updateFile file edit).2 = .ok .inPlace) :
    ∃ bl oldSize bl' dry bl'', readBlocks file = .ok (bl, oldSize) ∧ edit bl = some bl' ∧ writeBlocks bl' = .ok dry
      ∧ adjustFor oldSize dry.length bl' = some bl'' ∧ readBlocks (updateFile file edit).1 = .ok (bl'', oldSize) := by
  obtain ⟨bl, oldSize, bl', dry, hr, he, hw, hcase⟩ := update_success_shape file edit _ h
  rcases hcase with ⟨_, bl'', out, ha, hw2, hlen, hf⟩ | ⟨hc, _⟩
  · refine ⟨bl, oldSize, bl', dry, bl'', hr, he, hw, ha, ?_⟩
    have hwf'' : ∀ b ∈ bl'', blockWf b = true := by
      have hb' := hwf bl bl' he
      -- the adjusted list has the same blocks except one PADDING, whose new size is bounded
      clear hf hw2 hr he hw h
      unfold adjustFor at ha
      have key : ∀ (f : Nat → Option Nat) (hf : ∀ n n', f n = some n' → n ≤ maxBlockSize → n' ≤ maxBlockSize) (l l' : List Block),
          adjustFirstPadding f l = some l' → (∀ b ∈ l, blockWf b = true) → ∀ b ∈ l', blockWf b = true := by
        intro f hf l
        induction l with
        | nil => intro l' h; simp [adjustFirstPadding] at h
        | cons x r ih =>
          intro l' h hall
          by_cases hp : ∃ n, x = .padding n
          · obtain ⟨n, rfl⟩ := hp
            simp only [adjustFirstPadding] at h
            cases hfn : f n with
            | none => rw [hfn] at h; cases h
            | some n' =>
              rw [hfn] at h; cases h
              intro b hb
              simp only [List.mem_cons] at hb
              rcases hb with rfl | hb
              · have := hall (.padding n) (by simp)
                simp only [blockWf, decide_eq_true_eq] at this ⊢
                exact hf n n' hfn this
              · exact hall b (by simp [hb])
          · have : ∃ r', adjustFirstPadding f r = some r' ∧ l' = x :: r' := by
              cases x
              case padding n => exact absurd ⟨n, rfl⟩ hp
              all_goals
                simp only [adjustFirstPadding] at h
                cases har : adjustFirstPadding f r with
                | none => rw [har] at h; cases h
                | some r' => rw [har] at h; cases h; exact ⟨r', rfl, rfl⟩
            obtain ⟨r', har, rfl⟩ := this
            intro b hb
            simp only [List.mem_cons] at hb
            rcases hb with rfl | hb
            · exact hall _ (by simp)
            · exact ih r' har (fun q hq => hall q (by simp [hq])) b hb
      split at ha
      · split at ha
        · exact key _ (by intro n n' h _; split at h <;> cases h; assumption) bl' bl'' ha hb'
        · cases ha
      · split at ha
        · cases ha; exact hb'
        · split at ha
          · exact key _ (by intro n n' h hn; split at h <;> cases h; omega) bl' bl'' ha hb'
          · cases ha
    rw [hf]
    have := blocklist_roundtrip bl'' hwf'' out hw2 (file.drop oldSize)
    rw [this, hlen]
  · cases hc

/-- **Rebuilt means new blocks + identical frames.** -/
theorem update_rebuilt_shape (file : List Nat) (edit : List Block → Option (List Block))
    (h : (updateFile file edit).2 = .ok .rebuilt) :
    ∃ bl oldSize bl' dry, readBlocks file = .ok (bl, oldSize) ∧ edit bl = some bl' ∧ writeBlocks bl' = .ok dry
      ∧ (updateFile file edit).1 = dry ++ file.drop oldSize := by
  obtain ⟨bl, oldSize, bl', dry, hr, he, hw, hcase⟩ := update_success_shape file edit _ h
  rcases hcase with ⟨hc, _⟩ | ⟨_, _, hf⟩
  · cases hc
  · exact ⟨bl, oldSize, bl', dry, hr, he, hw, hf⟩

/-- repeated edits: the frames survive any history of successful updates -/
theorem history_preserves_frames (edits : List (List Block → Option (List Block))) (file : List Nat) :
    ∀ final, (edits.foldl (fun (acc : Option (List Nat)) e => match acc with
        | none => none
        | some f => match (updateFile f e).2 with | .ok _ => some (updateFile f e).1 | .error _ => none) (some file)) = some final →
      ∃ a b, final.drop b = file.drop a := by
  induction edits generalizing file with
  | nil => intro final h; simp at h; subst h; exact ⟨0, 0, rfl⟩
  | cons e r ih =>
    intro final h
    simp only [List.foldl_cons] at h
    cases hu : (updateFile file e).2 with
    | error x =>
      rw [hu] at h
      have : ∀ l : List (List Block → Option (List Block)), l.foldl (fun (acc : Option (List Nat)) e => match acc with
        | none => none
        | some f => match (updateFile f e).2 with | .ok _ => some (updateFile f e).1 | .error _ => none) none = none := by
        intro l; induction l with
        | nil => rfl
        | cons _ _ ih2 => simpa using ih2
      simp only [this] at h
      cases h
    | ok o =>
      rw [hu] at h
      obtain ⟨a, b, hab⟩ := ih (updateFile file e).1 final h
      obtain ⟨oldSize, newSize, _, _, hd, hle⟩ := update_preserves_frames file e o hu
      -- frames of `file` start at oldSize; of the intermediate file at newSize
      refine ⟨oldSize + (a - newSize), b + (newSize - a), ?_⟩
      by_cases hc : newSize ≤ a
      · have : (updateFile file e).1.drop a = file.drop (oldSize + (a - newSize)) := by
          have := congrArg (List.drop (a - newSize)) hd
          simp only [List.drop_drop] at this
          rw [show newSize + (a - newSize) = a by omega] at this
          rw [this, Nat.add_comm]
        rw [show newSize - a = 0 by omega, Nat.add_zero, hab, this]
      · have : final.drop (b + (newSize - a)) = (updateFile file e).1.drop newSize := by
          have := congrArg (List.drop (newSize - a)) hab
          simp only [List.drop_drop] at this
          rw [show a + (newSize - a) = newSize by omega] at this
          exact this
        rw [this, hd, show a - newSize = 0 by omega, Nat.add_zero]


/-! ### the hypotheses are satisfiable: one in-place and one rebuilt update -/

def demoBlocks : List Block :=
  [.streaminfo { minBlock := 16, maxBlock := 16, minFrame := 0, maxFrame := 0, rate := 44100, channels := 2, bps := 16, total := 0,
                 md5 := List.replicate 16 0 }, .padding 20, .application 7 [1, 2, 3]]

def demoFile : List Nat := (match writeBlocks demoBlocks with | .ok o => o | .error _ => []) ++ [0xFF, 0xF8, 1, 2, 3]

def demoEdit (n : Nat) (bl : List Block) : Option (List Block) :=
  some (bl.map fun b => match b with | .application id _ => .application id (List.replicate n 9) | x => x)

example : (match (updateFile demoFile (demoEdit 10)).2 with | .ok .inPlace => true | _ => false) = true
    ∧ (match (updateFile demoFile (demoEdit 30)).2 with | .ok .rebuilt => true | _ => false) = true
    ∧ ((updateFile demoFile (demoEdit 10)).1).length = demoFile.length := by
  refine ⟨?_, ?_, ?_⟩ <;> decide +kernel

end Flac.C10
