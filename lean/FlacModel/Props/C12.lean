/-
  Props/C12.lean — metadata and auxiliary parsers are total: no panic in either build profile.
-/
import FlacModel.Model.MetaOps

namespace Flac.C12
open Flac Flac.Gen

def NoPanic {α} (r : Res α) : Prop := ∀ m, r ≠ .error (.panic m)

theorem np_ok {α} (a : α) : NoPanic (.ok a : Res α) := by intro m h; cases h
theorem np_err {α} (c : String) : NoPanic (.error (.err c) : Res α) := by intro m h; cases h
theorem np_eof {α} : NoPanic (.error .eof : Res α) := by intro m h; cases h

/-! ### accessors -/

/-- `duration()` never divides by zero: a sample rate of 0 yields `None`. -/
theorem duration_no_panic (si : Streaminfo) : NoPanic (duration si) := by
  unfold duration
  split
  · exact np_ok _
  · split
    · exact np_ok _     -- `metaDurationGuardsZero` (regenerated from the source) is `true`
    · exact np_ok _

theorem accAdd_ok (p : Profile) (a b : Nat) : accAdd p a b = .ok (satAdd a b) := by
  have : cueAccessorsSaturate = true := rfl
  simp [accAdd, this]

theorem accMul_ok (p : Profile) (a b : Nat) : accMul p a b = .ok (satMul a b) := by
  have : cueAccessorsSaturate = true := rfl
  simp [accMul, this]

theorem mapRes_np {α β} (f : α → Res β) (l : List α) (h : ∀ a, NoPanic (f a)) : NoPanic (mapRes f l) := by
  induction l with
  | nil => exact np_ok _
  | cons a r ih =>
    simp only [mapRes]
    cases ha : f a with
    | error e => intro m hm; cases hm; exact h a m ha
    | ok b =>
      dsimp only
      cases hr : mapRes f r with
      | error e => intro m hm; cases hm; exact ih m hr
      | ok bs => exact np_ok _

/-- `track_sample_ranges` on any cue sheet value, in either profile. -/
theorem trackRanges_no_panic (p : Profile) (c : Cue) : NoPanic (trackRanges p c) := by
  unfold trackRanges trackOffsets
  cases h : mapRes (fun t => accAdd p t.offset (startOffset t)) c.tracks with
  | error e =>
    intro m hm
    have := mapRes_np (fun t => accAdd p t.offset (startOffset t)) c.tracks (fun t => by rw [accAdd_ok]; exact np_ok _)
    cases hm
    exact this m h
  | ok os => exact np_ok _

/-- `track_byte_ranges` for any channel count and depth. -/
theorem trackByteRanges_no_panic (p : Profile) (c : Cue) (ch bps : Nat) : NoPanic (trackByteRanges p c ch bps) := by
  unfold trackByteRanges
  cases h : trackRanges p c with
  | error e => intro m hm; cases hm; exact trackRanges_no_panic p c m h
  | ok rs =>
    dsimp only
    apply mapRes_np
    intro r
    simp only [accMul_ok]
    exact np_ok _

/-- `display()` (text export) on any cue sheet value. -/
theorem cueDisplay_no_panic (p : Profile) (c : Cue) (fname : List Nat) : NoPanic (cueDisplay p c fname) := by
  unfold cueDisplay
  have hin : ∀ t : CTrack, NoPanic (mapRes (fun (i : CIndex) =>
      match accAdd p i.offset t.offset with
      | .error e => .error e
      | .ok o => .ok (str "    INDEX " ++ decimal2 i.number ++ [32] ++ timestamp o ++ [10])) t.points) := by
    intro t
    apply mapRes_np
    intro i
    rw [accAdd_ok]
    exact np_ok _
  cases h : mapRes (fun (t : CTrack) =>
      match mapRes (fun (i : CIndex) =>
          match accAdd p i.offset t.offset with
          | .error e => .error e
          | .ok o => .ok (str "    INDEX " ++ decimal2 i.number ++ [32] ++ timestamp o ++ [10])) t.points with
      | .error e => .error e
      | .ok ls => .ok (str "  TRACK " ++ decimal t.number ++ [32] ++ (if t.nonAudio then str "NON_AUDIO" else str "AUDIO") ++ [10] ++ ls.flatten)) c.tracks with
  | ok ts => exact np_ok _
  | error e =>
    intro m hm
    cases hm
    refine mapRes_np _ c.tracks ?_ m h
    intro t
    cases ht : mapRes (fun (i : CIndex) =>
          match accAdd p i.offset t.offset with
          | .error e => .error e
          | .ok o => .ok (str "    INDEX " ++ decimal2 i.number ++ [32] ++ timestamp o ++ [10])) t.points with
    | error e => intro m hm; cases hm; exact hin t m ht
    | ok ls => exact np_ok _


/-! ### image header sniffers -/

theorem depthMul_png_ok (p : Profile) (site : String) (a b : Nat) : depthMul picPngDepthWide p site a b = .ok (a * b) := by
  have : picPngDepthWide = true := rfl
  simp [depthMul, this]

theorem depthMul_jpeg_ok (p : Profile) (site : String) (a b : Nat) : depthMul picJpegDepthWide p site a b = .ok (a * b) := by
  have : picJpegDepthWide = true := rfl
  simp [depthMul, this]

theorem rd_np (n : Nat) (b : List Nat) : NoPanic (rd n b) := by
  unfold rd; split
  · exact np_err _
  · exact np_ok _

theorem rd_rest_len {n : Nat} {b x r : List Nat} (h : rd n b = .ok (x, r)) : r.length + n = b.length := by
  unfold rd at h
  split at h
  · cases h
  · cases h; simp; omega

theorem plteColors_no_panic (fuel : Nat) (b : List Nat) : NoPanic (plteColors fuel b) := by
  induction fuel generalizing b with
  | zero => exact np_err _
  | succ fuel ih =>
    simp only [plteColors]
    cases h1 : rd 8 b with
    | error e => intro m hm; cases hm; exact rd_np 8 b m h1
    | ok v =>
      obtain ⟨h, r⟩ := v
      dsimp only
      split
      · split
        · exact np_ok _
        · exact np_err _
      · cases h2 : rd (beNat (h.take 4) + 4) r with
        | error e => intro m hm; cases hm; exact rd_np _ r m h2
        | ok w => exact ih _

/-- the palette scan does not depend on its fuel once the fuel exceeds the input length: the
    recursion is bounded by the data, every round consuming at least 12 bytes -/
theorem plteColors_fuel (f1 f2 : Nat) (b : List Nat) (h1 : b.length < f1) (h2 : b.length < f2) : plteColors f1 b = plteColors f2 b := by
  induction f1 generalizing f2 b with
  | zero => omega
  | succ f1 ih =>
    cases f2 with
    | zero => omega
    | succ f2 =>
      simp only [plteColors]
      cases hr : rd 8 b with
      | error e => rfl
      | ok v =>
        obtain ⟨h, r⟩ := v
        dsimp only
        split
        · rfl
        · cases hr2 : rd (beNat (h.take 4) + 4) r with
          | error e => rfl
          | ok w =>
            obtain ⟨x, r2⟩ := w
            dsimp only
            have := rd_rest_len hr
            have := rd_rest_len hr2
            exact ih f2 r2 (by omega) (by omega)

theorem jpegLoop_no_panic (p : Profile) (fuel : Nat) (b : List Nat) : NoPanic (jpegLoop p fuel b) := by
  induction fuel generalizing b with
  | zero => exact np_err _
  | succ fuel ih =>
    simp only [jpegLoop]
    cases h1 : rd 1 b with
    | error e => intro m hm; cases hm; exact rd_np 1 b m h1
    | ok v =>
      obtain ⟨ff, r0⟩ := v
      dsimp only
      split
      · exact np_err _
      · cases h2 : rd 1 r0 with
        | error e => intro m hm; cases hm; exact rd_np 1 r0 m h2
        | ok w =>
          obtain ⟨mk, r1⟩ := w
          dsimp only
          split
          · cases h3 : rd 8 r1 with
            | error e => intro m hm; cases hm; exact rd_np 8 r1 m h3
            | ok u =>
              obtain ⟨hh, _⟩ := u
              dsimp only
              rw [depthMul_jpeg_ok]
              exact np_ok _
          · cases h3 : rd 2 r1 with
            | error e => intro m hm; cases hm; exact rd_np 2 r1 m h3
            | ok u =>
              obtain ⟨l, r2⟩ := u
              dsimp only
              split
              · exact np_err _
              · cases h4 : rd (beNat l - 2) r2 with
                | error e => intro m hm; cases hm; exact rd_np _ r2 m h4
                | ok t => exact ih _

theorem jpegLoop_fuel (p : Profile) (f1 f2 : Nat) (b : List Nat) (h1 : b.length < f1) (h2 : b.length < f2) :
    jpegLoop p f1 b = jpegLoop p f2 b := by
  induction f1 generalizing f2 b with
  | zero => omega
  | succ f1 ih =>
    cases f2 with
    | zero => omega
    | succ f2 =>
      simp only [jpegLoop]
      cases hr1 : rd 1 b with
      | error e => rfl
      | ok v =>
        obtain ⟨ff, r0⟩ := v
        dsimp only
        split
        · rfl
        · cases hr2 : rd 1 r0 with
          | error e => rfl
          | ok w =>
            obtain ⟨mk, r1⟩ := w
            dsimp only
            split
            · rfl
            · cases hr3 : rd 2 r1 with
              | error e => rfl
              | ok u =>
                obtain ⟨l, r2⟩ := u
                dsimp only
                split
                · rfl
                · cases hr4 : rd (beNat l - 2) r2 with
                  | error e => rfl
                  | ok t =>
                    obtain ⟨x, r3⟩ := t
                    dsimp only
                    have := rd_rest_len hr1
                    have := rd_rest_len hr2
                    have := rd_rest_len hr3
                    have := rd_rest_len hr4
                    exact ih f2 r3 (by omega) (by omega)

theorem tryPng_no_panic (p : Profile) (b : List Nat) : NoPanic (tryPng p b) := by
  unfold tryPng
  cases h0 : rd 8 b with
  | error e => intro m hm; cases hm; exact rd_np 8 b m h0
  | ok v0 =>
    obtain ⟨sig, r0⟩ := v0
    dsimp only
    split
    · exact np_err _
    cases h1 : rd 4 r0 with
    | error e => intro m hm; cases hm; exact rd_np 4 r0 m h1
    | ok v1 =>
      obtain ⟨len, r1⟩ := v1
      dsimp only
      split
      · exact np_err _
      cases h2 : rd 4 r1 with
      | error e => intro m hm; cases hm; exact rd_np 4 r1 m h2
      | ok v2 =>
        obtain ⟨ty, r2⟩ := v2
        dsimp only
        split
        · exact np_err _
        cases h3 : rd 17 r2 with
        | error e => intro m hm; cases hm; exact rd_np 17 r2 m h3
        | ok v3 =>
          obtain ⟨h, r3⟩ := v3
          dsimp only
          split
          · exact np_ok _
          split
          · rw [depthMul_png_ok]; exact np_ok _
          split
          · cases h4 : plteColors (r3.length + 1) r3 with
            | error e => intro m hm; cases hm; exact plteColors_no_panic _ r3 m h4
            | ok c => exact np_ok _
          split
          · rw [depthMul_png_ok]; exact np_ok _
          split
          · rw [depthMul_png_ok]; exact np_ok _
          · exact np_err _

theorem tryJpeg_no_panic (p : Profile) (b : List Nat) : NoPanic (tryJpeg p b) := by
  unfold tryJpeg
  cases h0 : rd 2 b with
  | error e => intro m hm; cases hm; exact rd_np 2 b m h0
  | ok v0 =>
    obtain ⟨h, r⟩ := v0
    dsimp only
    split
    · exact np_err _
    · exact jpegLoop_no_panic p _ r

theorem tryGif_no_panic (b : List Nat) : NoPanic (tryGif b) := by
  unfold tryGif
  cases h0 : rd 3 b with
  | error e => intro m hm; cases hm; exact rd_np 3 b m h0
  | ok v0 =>
    obtain ⟨sig, r0⟩ := v0
    dsimp only
    split
    · exact np_err _
    cases h1 : rd 3 r0 with
    | error e => intro m hm; cases hm; exact rd_np 3 r0 m h1
    | ok v1 =>
      obtain ⟨x, r1⟩ := v1
      dsimp only
      cases h2 : rd 5 r1 with
      | error e => intro m hm; cases hm; exact rd_np 5 r1 m h2
      | ok v2 => exact np_ok _

/-- `Picture::new` on ANY byte string, in either build profile, returns metrics or an error. -/
theorem sniff_no_panic (p : Profile) (b : List Nat) : NoPanic (sniff p b) := by
  unfold sniff
  split
  · exact tryPng_no_panic p b
  split
  · exact tryJpeg_no_panic p b
  split
  · exact tryGif_no_panic b
  · exact np_err _


/-! ### cue sheet text import -/

theorem resU_fits (p : Profile) (w : Nat) (site : String) (v : Int) (h : fitsU w v = true) : resU p w site v = .ok v := by
  simp [resU, h]

/-- with the checked conversion, `CDDAOffset::from_str` never traps and never exceeds 64 bits -/
theorem parseMsf_ok (p : Profile) (l : List Char) : ∃ v, parseMsf p l = .ok v ∧ ∀ o, v = some o → o < 2 ^ 64 := by
  have hk : cueOffsetChecked = true := rfl
  unfold parseMsf
  simp only [hk, ↓reduceIte]
  repeat' split
  all_goals first
    | exact ⟨none, rfl, by simp⟩
    | (rename_i hle
       refine ⟨_, rfl, ?_⟩
       intro o ho
       cases ho
       simp only [u64Max] at hle
       omega)

theorem parseUnsigned_lt (bits : Nat) (l : List Char) (v : Nat) (h : parseUnsigned bits l = some v) : v < 2 ^ bits := by
  unfold parseUnsigned at h
  split at h
  · split at h
    · cases h; assumption
    · cases h
  · cases h

def tokOk : Tok → Prop
  | .trap _ => False
  | .index _ (some o) => o < 2 ^ 64
  | _ => True

theorem classifyIndex_ok (p : Profile) (cdda : Bool) (rest : List Char) : tokOk (classifyIndex p cdda rest) := by
  unfold classifyIndex
  split
  · trivial
  · rename_i n o _
    split
    · trivial
    · split
      · obtain ⟨v, hv, hb⟩ := parseMsf_ok p o
        rw [hv]
        dsimp only
        cases v with
        | none => trivial
        | some x => exact hb x rfl
      · cases h : parseUnsigned 64 o with
        | none => trivial
        | some v => exact parseUnsigned_lt 64 _ v h

theorem classify_ok (p : Profile) (cdda : Bool) (line : List Char) : tokOk (classify p cdda line) := by
  unfold classify
  dsimp only
  split
  · repeat' (first | trivial | split)
  split
  · repeat' (first | trivial | split)
  split
  · exact classifyIndex_ok p cdda _
  repeat' (first | trivial | split)

theorem finishWip_np (w : Wip) : NoPanic (finishWip w) := by
  unfold finishWip
  repeat' (first | exact np_ok _ | exact np_err _ | split)

theorem pushTrack_np (max : Nat) (ts : List CTrack) (t : CTrack) : NoPanic (pushTrack max ts t) := by
  unfold pushTrack
  repeat' (first | exact np_ok _ | exact np_err _ | split)

/-- index numbers in a work-in-progress track never exceed the number of points pushed so far, so
    the 8-bit `previous.number + 1` cannot overflow while there is room for another point -/
def chainInv (pts : List CIndex) : Prop := ∀ q, pts.getLast? = some q → q.number ≤ pts.length

theorem pushIndex_np (p : Profile) (max : Nat) (hmax : max ≤ 255) (pts : List CIndex) (i : CIndex) (hi : chainInv pts) :
    NoPanic (pushIndex p max pts i) ∧ ∀ pts', pushIndex p max pts i = .ok pts' → chainInv pts' := by
  unfold pushIndex
  split
  · rename_i hlen
    cases hl : pts.getLast? with
    | none =>
      dsimp only
      split
      · rename_i hc
        refine ⟨np_ok _, ?_⟩
        intro pts' h
        cases h
        have hnil : pts = [] := by simpa using hl
        subst hnil
        intro q hq
        simp at hq
        subst hq
        simp only [Bool.and_eq_true, Bool.or_eq_true, beq_iff_eq] at hc
        simp; omega
      · exact ⟨np_err _, by intro _ h; cases h⟩
    | some q =>
      dsimp only
      split
      · have hq := hi q hl
        have hfit : fitsU 8 ((q.number : Int) + 1) = true := by
          simp [fitsU]; omega
        simp only [addU, resU_fits p 8 _ _ hfit]
        split
        · rename_i hn
          refine ⟨np_ok _, ?_⟩
          intro pts' h
          cases h
          intro q' hq'
          simp at hq'
          subst hq'
          simp only [beq_iff_eq] at hn
          simp; omega
        · exact ⟨np_err _, by intro _ h; cases h⟩
      · exact ⟨np_err _, by intro _ h; cases h⟩
  · exact ⟨np_err _, by intro _ h; cases h⟩

def stateInv (s : PState) : Prop := ∀ w, s.wip = some w → chainInv w.points

theorem imax_le (cdda : Bool) : (if cdda then cueCddaIndexMax else cueNonCddaIndexMax) ≤ 255 := by
  have e1 : cueCddaIndexMax = 100 := rfl
  have e2 : cueNonCddaIndexMax = 255 := rfl
  split <;> omega

theorem chainInv_nil : chainInv [] := by intro q h; simp at h

theorem stepTok_np (p : Profile) (cdda : Bool) (s : PState) (t : Tok) (ht : tokOk t) (hs : stateInv s) :
    NoPanic (stepTok p cdda s t) ∧ ∀ s', stepTok p cdda s t = .ok s' → stateInv s' := by
  have hguard : cueIndexBeforeTrackIsError = true := rfl
  cases t with
  | trap f => exact absurd ht (by simp [tokOk])
  | other => exact ⟨np_ok _, by intro s' h; cases h; exact hs⟩
  | catalogMissing => exact ⟨np_err _, by intro _ h; cases h⟩
  | flagsPre =>
    simp only [stepTok]
    cases hw : s.wip with
    | none => exact ⟨np_err _, by intro _ h; cases h⟩
    | some w =>
      dsimp only
      split
      · exact ⟨np_err _, by intro _ h; cases h⟩
      · refine ⟨np_ok _, ?_⟩
        intro s' h; cases h
        intro w' hw'; cases hw'
        exact hs w hw
  | catalog d =>
    simp only [stepTok]
    cases s.catalog with
    | some _ => exact ⟨np_err _, by intro _ h; cases h⟩
    | none =>
      cases d with
      | none => exact ⟨np_err _, by intro _ h; cases h⟩
      | some ds => exact ⟨np_ok _, by intro s' h; cases h; exact hs⟩
  | isrc c =>
    simp only [stepTok]
    cases hw : s.wip with
    | none => exact ⟨np_err _, by intro _ h; cases h⟩
    | some w =>
      dsimp only
      split
      · exact ⟨np_err _, by intro _ h; cases h⟩
      split
      · exact ⟨np_err _, by intro _ h; cases h⟩
      cases c with
      | none => exact ⟨np_err _, by intro _ h; cases h⟩
      | some code =>
        refine ⟨np_ok _, ?_⟩
        intro s' h; cases h
        intro w' hw'; cases hw'
        exact hs w hw
  | track n =>
    cases n with
    | none => exact ⟨np_err _, by intro _ h; cases h⟩
    | some n =>
      simp only [stepTok]
      cases hw : s.wip with
      | none =>
        refine ⟨np_ok _, ?_⟩
        intro s' h; cases h
        intro w' hw'; cases hw'
        exact chainInv_nil
      | some w =>
        dsimp only
        cases hf : finishWip w with
        | error e =>
          exact ⟨by intro m hm; cases hm; exact finishWip_np w m hf, by intro _ h; cases h⟩
        | ok tr =>
          dsimp only
          cases hp : pushTrack (if cdda then cueCddaTrackMax else cueNonCddaTrackMax) s.tracks tr with
          | error e =>
            exact ⟨by intro m hm; cases hm; exact pushTrack_np _ _ _ m hp, by intro _ h; cases h⟩
          | ok ts =>
            refine ⟨np_ok _, ?_⟩
            intro s' h; cases h
            intro w' hw'; cases hw'
            exact chainInv_nil
  | index n o =>
    cases n with
    | none => exact ⟨np_err _, by intro _ h; cases h⟩
    | some n =>
      cases o with
      | none => exact ⟨np_err _, by intro _ h; cases h⟩
      | some o =>
        have ho : o < 2 ^ 64 := ht
        simp only [stepTok]
        cases hw : s.wip with
        | none => exact ⟨np_err _, by intro _ h; cases h⟩
        | some w =>
          dsimp only
          have hci := hs w hw
          cases hoff : w.offset with
          | none =>
            dsimp only
            split
            · exact ⟨np_err _, by intro _ h; cases h⟩
            · obtain ⟨hnp, hinv⟩ := pushIndex_np p _ (imax_le cdda) w.points { offset := 0, number := n } hci
              cases hpi : pushIndex p (if cdda then cueCddaIndexMax else cueNonCddaIndexMax) w.points { offset := 0, number := n } with
              | error e => exact ⟨by intro m hm; cases hm; exact hnp m hpi, by intro _ h; cases h⟩
              | ok pts =>
                refine ⟨np_ok _, ?_⟩
                intro s' h; cases h
                intro w' hw'; cases hw'
                exact hinv pts hpi
          | some to =>
            dsimp only
            simp only [hguard, Bool.true_and]
            split
            · exact ⟨np_err _, by intro _ h; cases h⟩
            · rename_i hge
              simp only [decide_eq_true_eq, Nat.not_lt] at hge
              have hfit : fitsU 64 ((o : Int) - (to : Int)) = true := by
                simp [fitsU]; omega
              simp only [subU, resU_fits p 64 _ _ hfit]
              obtain ⟨hnp, hinv⟩ := pushIndex_np p _ (imax_le cdda) w.points { offset := ((o : Int) - (to : Int)).toNat, number := n } hci
              cases hpi : pushIndex p (if cdda then cueCddaIndexMax else cueNonCddaIndexMax) w.points { offset := ((o : Int) - (to : Int)).toNat, number := n } with
              | error e => exact ⟨by intro m hm; cases hm; exact hnp m hpi, by intro _ h; cases h⟩
              | ok pts =>
                refine ⟨np_ok _, ?_⟩
                intro s' h; cases h
                intro w' hw'; cases hw'
                exact hinv pts hpi

theorem runToks_np (p : Profile) (cdda : Bool) (toks : List Tok) (ht : ∀ t ∈ toks, tokOk t) (s : PState) (hs : stateInv s) :
    NoPanic (runToks p cdda s toks) := by
  induction toks generalizing s with
  | nil => exact np_ok _
  | cons t r ih =>
    simp only [runToks]
    obtain ⟨hnp, hinv⟩ := stepTok_np p cdda s t (ht t (by simp)) hs
    cases hst : stepTok p cdda s t with
    | error e => intro m hm; cases hm; exact hnp m hst
    | ok s' => exact ih (fun q hq => ht q (by simp [hq])) s' (hinv s' hst)

theorem finishParse_np (cdda : Bool) (total : Nat) (s : PState) : NoPanic (finishParse cdda total s) := by
  unfold finishParse
  cases s.wip with
  | none => exact np_err _
  | some w =>
    dsimp only
    cases hf : finishWip w with
    | error e => intro m hm; cases hm; exact finishWip_np w m hf
    | ok tr =>
      dsimp only
      cases hp : pushTrack (if cdda then cueCddaTrackMax else cueNonCddaTrackMax) s.tracks tr with
      | error e => intro m hm; cases hm; exact pushTrack_np _ _ _ m hp
      | ok ts =>
        dsimp only
        split
        · exact np_err _
        · exact np_ok _

/-- `Cuesheet::parse` on ANY text and stream length, in either build profile, returns a cue sheet
    or an error: the offset subtraction, the MM:SS:FF conversion and the 8-bit index-number
    successor cannot trap. -/
theorem cueParse_no_panic (p : Profile) (total : Nat) (text : List Char) : NoPanic (cueParse p total text) := by
  unfold cueParse interp
  dsimp only
  cases hr : runToks p (total % cueSector == 0) {} ((splitOnChar '\n' text).map (classify p (total % cueSector == 0))) with
  | error e =>
    intro m hm; cases hm
    refine runToks_np p _ _ ?_ {} ?_ m hr
    · intro t ht
      simp only [List.mem_map] at ht
      obtain ⟨l, _, rfl⟩ := ht
      exact classify_ok p _ l
    · intro w hw; cases hw
  | ok s => exact finishParse_np _ total s

end Flac.C12
