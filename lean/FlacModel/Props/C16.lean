/-
  Props/C16.lean — C16: raw frame streams are self-describing; the stream reader fabricates no frame.
  Theorems only (helper lemmas are local and small).  Model: `Model/StreamReader.lean`.
-/
import FlacModel.Model.StreamReader
import FlacModel.Proofs.Local
import FlacModel.Proofs.Sync
import FlacModel.Proofs.Codec

namespace Flac.C16
open Flac

/-- scanning garbage that contains no `0xFF` byte stops exactly behind the next `0xFF` -/
theorem skipUntilFF_no_ff (g rest : List Nat) (hg : ∀ b ∈ g, b ≠ 255) :
    skipUntilFF (g ++ 255 :: rest) = rest := by
  induction g with
  | nil => simp [skipUntilFF]
  | cons b g ih =>
    have hb : b ≠ 255 := hg b (by simp)
    have : (b == 255) = false := by simpa using hb
    simp only [List.cons_append, skipUntilFF, this]
    exact ih (fun x hx => hg x (by simp [hx]))

/-- whatever `skip_until` leaves is what followed a `0xFF` of the input -/
theorem skipUntilFF_suffix (bytes : List Nat) (b : Nat) (r : List Nat)
    (h : skipUntilFF bytes = b :: r) : ∃ pre, bytes = pre ++ 255 :: b :: r := by
  induction bytes with
  | nil => simp [skipUntilFF] at h
  | cons x xs ih =>
    simp only [skipUntilFF] at h
    split at h
    · rename_i hx
      have : x = 255 := by simpa using hx
      exact ⟨[], by simp [this, h]⟩
    · obtain ⟨pre, hp⟩ := ih h
      exact ⟨x :: pre, by simp [hp]⟩

/-- **No fabrication.** For *arbitrary* input bytes, every frame one `read()` returns is the decoding
    (by `decodeFrame`, i.e. valid sync, CRC-8-valid subset header, every subframe parsed, valid
    CRC-16) of a contiguous range of the input that starts at a `0xFF` followed by `F8|F9`, and the
    unconsumed rest is exactly what follows that range. -/
theorem stream_no_fabrication (p : Profile) (fuel : Nat) (bytes : List Nat) (d : Decoded) (rest : List Nat)
    (h : streamReadOne p fuel bytes = (.frame d, rest)) :
    ∃ pre b r, bytes = pre ++ 255 :: b :: r ∧ b / 2 = 124 ∧
      decodeFrame p none (255 :: b :: r) = .ok d ∧ rest = (b :: r).drop (d.used - 1) := by
  induction fuel generalizing bytes with
  | zero => simp [streamReadOne] at h
  | succ fuel ih =>
    simp only [streamReadOne] at h
    split at h
    · simp at h
    · rename_i b r hs
      obtain ⟨pre, hpre⟩ := skipUntilFF_suffix bytes b r hs
      split at h
      · -- not a sync code: continue on `b :: r`
        obtain ⟨pre', b', r', h1, h2, h3, h4⟩ := ih (b :: r) h
        refine ⟨pre ++ 255 :: pre', b', r', ?_, h2, h3, h4⟩
        rw [hpre, h1]; simp
      · rename_i hb
        have hb' : b / 2 = 124 := by simpa using hb
        split at h
        · -- header failed: continue after the consumed bytes
          obtain ⟨pre', b', r', h1, h2, h3, h4⟩ := ih _ h
          refine ⟨pre ++ 255 :: (b :: r).take (hdrConsumed (255 :: b :: r) - 1) ++ pre', b', r', ?_, h2, h3, h4⟩
          rw [hpre]
          have := List.take_append_drop (hdrConsumed (255 :: b :: r) - 1) (b :: r)
          rw [h1] at this
          simp only [List.append_assoc, List.cons_append]
          rw [this]
        · split at h
          · rename_i d' hd
            simp only [Prod.mk.injEq, ReadResult.frame.injEq] at h
            obtain ⟨h1, h2⟩ := h
            subst h1
            exact ⟨pre, b, r, hpre, hb', hd, h2.symm⟩
          · simp at h
          · simp at h

/-- results come out in increasing offset order: every call that returns a frame consumes at
    least the sync byte, so the rest handed to the next call is a strictly shorter suffix -/
theorem stream_results_ascending (p : Profile) (fuel : Nat) (bytes : List Nat) (d : Decoded) (rest : List Nat)
    (h : streamReadOne p fuel bytes = (.frame d, rest)) : rest.length < bytes.length := by
  obtain ⟨pre, b, r, h1, _, _, h4⟩ := stream_no_fabrication p fuel bytes d rest h
  subst h4
  rw [h1]
  simp only [List.length_append, List.length_cons, List.length_drop]
  omega

/-- the subset header the scanner tries first succeeds whenever the full frame decode does -/
theorem subsetHeader_of_decode (p : Profile) (bytes : List Nat) (d : Decoded)
    (h : decodeFrame p none bytes = .ok d) : ∃ x, subsetHeader bytes = .ok x := by
  simp only [decodeFrame] at h
  simp only [subsetHeader, parseHeaderBytes]
  split at h
  · simp at h
  · rename_i hdr rest hh
    rw [hh]
    simp only [checkStreaminfo] at h
    split at h
    · simp at h
    · rename_i hc
      have hc' : Gen.crc8Valid (crc8 (bytes.take (bytes.length - rest.length / 8))) = true := by
        cases hcv : Gen.crc8Valid (crc8 (bytes.take (bytes.length - rest.length / 8))) <;> simp_all
      simp [hc']

/-- **No loss without sync-like garbage** (partial: the hypotheses `hd`/`hb` — the written frame
    decodes and starts `FF F8|F9` — are C01's `frame_roundtrip` and the header writer's sync code).
    If the bytes in front of a frame contain no `0xFF`, one `read()` returns exactly that frame and
    leaves exactly the bytes behind it. -/
theorem no_sync_no_loss_partial (p : Profile) (fuel : Nat) (g : List Nat) (b : Nat) (t rest : List Nat) (d : Decoded)
    (hg : ∀ x ∈ g, x ≠ 255) (hb : b / 2 = 124)
    (hd : decodeFrame p none (255 :: b :: (t ++ rest)) = .ok d) (hu : d.used = t.length + 2) :
    streamReadOne p (fuel + 1) (g ++ 255 :: b :: (t ++ rest)) = (.frame d, rest) := by
  simp only [streamReadOne]
  rw [skipUntilFF_no_ff g _ hg]
  have hb' : (b / 2 != 124) = false := by simp [hb]
  simp only [hb']
  obtain ⟨x, hx⟩ := subsetHeader_of_decode p _ d hd
  simp only [hx, hd, hu]
  simp

/-- non-vacuity: a concrete one-frame stream behind sync-free garbage meets every hypothesis
    (mono 16-bit, 1 sample of value 0: CONSTANT subframe) -/
example : (match decodeFrame .release none [255, 248, 105, 8, 0, 0, 29, 0, 0, 0, 160, 39] with
    | .ok d => d.used == 12 && d.channels == [[0]] | .error _ => false) = true := by
  decide +kernel

/-! ### No loss, in full: garbage without the sync pattern costs no frame

`noSync g`: no `0xFF` in `g` is followed (inside `g`) by `F8|F9`.  A trailing `0xFF` is allowed - the
byte after it is the frame's own `0xFF`, which is not `F8|F9`. -/

def noSync : List Nat → Bool
  | a :: b :: r => !(a == 255 && b / 2 == 124) && noSync (b :: r)
  | _ => true

theorem read_skip_nonFF (p : Profile) (fuel : Nat) (a : Nat) (x : List Nat) (ha : a ≠ 255) :
    streamReadOne p (fuel + 1) (a :: x) = streamReadOne p (fuel + 1) x := by
  have : (a == 255) = false := by simpa using ha
  simp only [streamReadOne, skipUntilFF, this]
  rfl

theorem read_skip_lone_ff (p : Profile) (fuel : Nat) (y : Nat) (z : List Nat) (hy : y / 2 ≠ 124) :
    streamReadOne p (fuel + 1) (255 :: y :: z) = streamReadOne p fuel (y :: z) := by
  simp [streamReadOne, skipUntilFF, hy]

/-- a frame that decodes on its own (from its header alone: no STREAMINFO) using all of its bytes -/
structure Standalone (p : Profile) (f : List Nat) (d : Decoded) : Prop where
  bytes : ∀ x ∈ f, x < 256
  decodes : decodeFrame p none f = .ok d
  used : d.used = f.length

/-- **No loss.**  Garbage that does not contain the sync pattern - it may contain `0xFF` bytes, even as
    its last byte - costs no frame: one `read()` over `garbage ++ frame ++ anything` returns exactly
    that frame, decoded as it decodes on its own, and leaves exactly `anything`. -/
theorem no_sync_no_loss (p : Profile) (g f rest : List Nat) (d : Decoded) (hg : noSync g = true)
    (hf : Standalone p f d) (fuel : Nat) (hfuel : g.length < fuel) :
    streamReadOne p fuel (g ++ f ++ rest) = (.frame d, rest) := by
  obtain ⟨b, t, hshape, hb⟩ := decodeFrame_sync p none f hf.bytes d hf.decodes
  have hd : decodeFrame p none (255 :: b :: (t ++ rest)) = .ok d := by
    have := decodeFrame_ext p none f d hf.decodes rest
    rwa [hshape] at this
  have hu : d.used = t.length + 2 := by rw [hf.used, hshape]; simp
  have e : g ++ f ++ rest = g ++ 255 :: b :: (t ++ rest) := by rw [hshape]; simp
  rw [e]
  clear e hshape
  induction g generalizing fuel with
  | nil =>
    cases fuel with
    | zero => simp at hfuel
    | succ k => exact no_sync_no_loss_partial p k [] b t rest d (by simp) hb hd hu
  | cons a g ih =>
    cases fuel with
    | zero => simp at hfuel
    | succ k =>
      have hk : g.length < k := by simp at hfuel; omega
      have hg' : noSync g = true := by
        cases g with
        | nil => simp [noSync]
        | cons c g' => simp only [noSync, Bool.and_eq_true] at hg; exact hg.2
      by_cases ha : a = 255
      · subst ha
        cases g with
        | nil =>
          rw [List.cons_append, List.nil_append, read_skip_lone_ff p k 255 _ (by decide)]
          exact ih hg' k hk
        | cons c g' =>
          have hc : c / 2 ≠ 124 := by
            simp only [noSync, Bool.and_eq_true, Bool.not_eq_true', Bool.and_eq_false_iff] at hg
            rcases hg.1 with h | h
            · simp at h
            · simpa using h
          rw [List.cons_append, List.cons_append, read_skip_lone_ff p k c _ hc]
          exact ih hg' k hk
      · rw [List.cons_append, read_skip_nonFF p k a _ ha]
        exact ih hg' (k + 1) (by omega)

/-- scanning bytes without the sync pattern and with nothing behind them ends the stream -/
theorem tail_noSync_eof (p : Profile) (g : List Nat) (hg : noSync g = true) (fuel : Nat) (hfuel : g.length < fuel) :
    ∃ r, streamReadOne p fuel g = (.fail .eof, r) := by
  induction g generalizing fuel with
  | nil =>
    cases fuel with
    | zero => simp at hfuel
    | succ k => exact ⟨[], by simp [streamReadOne, skipUntilFF]⟩
  | cons a g ih =>
    cases fuel with
    | zero => simp at hfuel
    | succ k =>
      have hk : g.length < k := by simp at hfuel; omega
      have hg' : noSync g = true := by
        cases g with
        | nil => simp [noSync]
        | cons c g' => simp only [noSync, Bool.and_eq_true] at hg; exact hg.2
      by_cases ha : a = 255
      · subst ha
        cases g with
        | nil => exact ⟨[], by simp [streamReadOne, skipUntilFF]⟩
        | cons c g' =>
          have hc : c / 2 ≠ 124 := by
            simp only [noSync, Bool.and_eq_true, Bool.not_eq_true', Bool.and_eq_false_iff] at hg
            rcases hg.1 with h | h
            · simp at h
            · simpa using h
          rw [read_skip_lone_ff p k c _ hc]
          exact ih hg' k hk
      · rw [read_skip_nonFF p k a _ ha]
        exact ih hg' (k + 1) (by omega)

/-- the byte stream: before each frame some bytes without the sync pattern -/
def wire : List (List Nat × List Nat × Decoded) → List Nat
  | [] => []
  | (g, f, _) :: r => g ++ f ++ wire r

/-- **Every written frame comes back, in order, exactly.**  A sequence of standalone frames - each with its
    own parameters: nothing relates one `Decoded` to the next - with sync-free bytes before, between and
    after them is read back by repeated `read()` as exactly those frames, in order, then end of stream. -/
theorem clean_stream_reads_all (p : Profile) (items : List (List Nat × List Nat × Decoded)) (tail : List Nat)
    (h : ∀ it ∈ items, noSync it.1 = true ∧ Standalone p it.2.1 it.2.2)
    (ht : noSync tail = true) (limit : Nat) (hl : items.length < limit) :
    streamReadAll p limit (wire items ++ tail) = items.map (fun it => ReadResult.frame it.2.2) ++ [.fail .eof] := by
  induction items generalizing limit with
  | nil =>
    cases limit with
    | zero => simp at hl
    | succ k =>
      obtain ⟨r, hr⟩ := tail_noSync_eof p tail ht (tail.length + 1) (by omega)
      simp only [wire, List.nil_append, streamReadAll, hr, List.map_nil]
  | cons it items ih =>
    obtain ⟨g, f, d⟩ := it
    cases limit with
    | zero => simp at hl
    | succ k =>
      have h0 := h (g, f, d) (by simp)
      have e : wire ((g, f, d) :: items) ++ tail = g ++ f ++ (wire items ++ tail) := by simp [wire]
      have hr := no_sync_no_loss p g f (wire items ++ tail) d h0.1 h0.2 ((g ++ f ++ (wire items ++ tail)).length + 1)
        (by simp only [List.length_append]; omega)
      rw [e]
      simp only [streamReadAll, hr, List.map_cons, List.cons_append]
      congr 1
      exact ih (fun it hit => h it (by simp [hit])) k (by simp at hl; omega)

/-- non-vacuity of `Standalone` and `noSync`: the one-sample frame below, behind garbage ending in a lone `0xFF` -/
example : noSync [1, 255, 3, 255] = true ∧ (∀ x ∈ [255, 248, 105, 8, 0, 0, 29, 0, 0, 0, 160, 39], x < 256) := by
  decide

/-! ### written frames are self-describing -/

/-- **Every frame that can be written without reference to STREAMINFO decodes from its own header alone**:
    a frame that is well-formed with no STREAMINFO context (`FrameWf none`: no header code refers to it - what
    `FrameHeader::write_subset` enforces) is `Standalone`: the bytes decode, with `si = none`, to its header and
    samples, using all of them. -/
theorem written_frame_standalone (p : Profile) (f : Frame) (xss out : List (List Int)) (w : FrameWf none f)
    (hx : subsDecode p f.hdr.assign f.hdr.blockSize f.hdr.bps f.subs xss 0)
    (hr : recorrelate p f.hdr.assign f.hdr.bps xss = .ok out) :
    Standalone p f.serialize { hdr := f.hdr, channels := out, used := f.serialize.length } :=
  { bytes := serialize_bytes_lt f
    decodes := Flac.decodeFrame_serialize p none f xss out w hx hr
    used := rfl }

/-- **A clean concatenation reads back frame by frame, whatever changes between frames.**  Any sequence of
    well-formed frames - each with its own rate, channel assignment, depth and length: the hypotheses relate
    nothing across frames - with bytes free of the sync pattern before, between and after them, is returned by
    repeated `read()` as exactly those frames' headers and samples, in order, followed by end of stream. -/
theorem written_stream_reads_back (p : Profile)
    (items : List (List Nat × Frame × List (List Int) × List (List Int))) (tail : List Nat)
    (h : ∀ it ∈ items, noSync it.1 = true ∧ FrameWf none it.2.1
      ∧ subsDecode p it.2.1.hdr.assign it.2.1.hdr.blockSize it.2.1.hdr.bps it.2.1.subs it.2.2.1 0
      ∧ recorrelate p it.2.1.hdr.assign it.2.1.hdr.bps it.2.2.1 = .ok it.2.2.2)
    (ht : noSync tail = true) (limit : Nat) (hl : items.length < limit) :
    streamReadAll p limit
        (wire (items.map fun it => (it.1, it.2.1.serialize,
          ({ hdr := it.2.1.hdr, channels := it.2.2.2, used := it.2.1.serialize.length } : Decoded))) ++ tail)
      = items.map (fun it => ReadResult.frame { hdr := it.2.1.hdr, channels := it.2.2.2, used := it.2.1.serialize.length })
          ++ [.fail .eof] := by
  have := clean_stream_reads_all p
    (items.map fun it => (it.1, it.2.1.serialize,
      ({ hdr := it.2.1.hdr, channels := it.2.2.2, used := it.2.1.serialize.length } : Decoded))) tail
    (by
      intro it hit
      obtain ⟨src, hsrc, rfl⟩ := List.mem_map.mp hit
      obtain ⟨h1, h2, h3, h4⟩ := h src hsrc
      exact ⟨h1, written_frame_standalone p src.2.1 src.2.2.1 src.2.2.2 h2 h3 h4⟩)
    ht limit (by simpa using hl)
  rw [this, List.map_map]
  rfl

end Flac.C16
