/-
  Props/C16.lean — C16: raw frame streams are self-describing; the stream reader fabricates no frame.
  Theorems only (helper lemmas are local and small).  Model: `Model/StreamReader.lean`.
-/
import FlacModel.Model.StreamReader

namespace Flac.C16
open Flac

/-- scanning garbage that contains no `0xFF` byte stops exactly behind the next `0xFF` -/
theorem skipUntilFF_no_ff (g rest : List Nat) (hg : ∀ b ∈ g, b ≠ 255) :
    skipUntilFF (g ++ 255 :: rest) = rest := by
  induction g with
  | nil => simp [skipUntilFF]
  | cons b g ih =>
    have hb : b ≠ 255 := hg b (by simp)
    have : (b == 255) = false := by simpa using hb
    simp only [List.cons_append, skipUntilFF, this]
    exact ih (fun x hx => hg x (by simp [hx]))

/-- whatever `skip_until` leaves is what followed a `0xFF` of the input -/
theorem skipUntilFF_suffix (bytes : List Nat) (b : Nat) (r : List Nat)
    (h : skipUntilFF bytes = b :: r) : ∃ pre, bytes = pre ++ 255 :: b :: r := by
  induction bytes with
  | nil => simp [skipUntilFF] at h
  | cons x xs ih =>
    simp only [skipUntilFF] at h
    split at h
    · rename_i hx
      have : x = 255 := by simpa using hx
      exact ⟨[], by simp [this, h]⟩
    · obtain ⟨pre, hp⟩ := ih h
      exact ⟨x :: pre, by simp [hp]⟩

/-- **No fabrication.** For *arbitrary* input bytes, every frame one `read()` returns is the decoding
    (by `decodeFrame`, i.e. valid sync, CRC-8-valid subset header, every subframe parsed, valid
    CRC-16) of a contiguous range of the input that starts at a `0xFF` followed by `F8|F9`, and the
    unconsumed rest is exactly what follows that range. -/
theorem stream_no_fabrication (p : Profile) (fuel : Nat) (bytes : List Nat) (d : Decoded) (rest : List Nat)
    (h : streamReadOne p fuel bytes = (.frame d, rest)) :
    ∃ pre b r, bytes = pre ++ 255 :: b :: r ∧ b / 2 = 124 ∧
      decodeFrame p none (255 :: b :: r) = .ok d ∧ rest = (b :: r).drop (d.used - 1) := by
  induction fuel generalizing bytes with
  | zero => simp [streamReadOne] at h
  | succ fuel ih =>
    simp only [streamReadOne] at h
    split at h
    · simp at h
    · rename_i b r hs
      obtain ⟨pre, hpre⟩ := skipUntilFF_suffix bytes b r hs
      split at h
      · -- not a sync code: continue on `b :: r`
        obtain ⟨pre', b', r', h1, h2, h3, h4⟩ := ih (b :: r) h
        refine ⟨pre ++ 255 :: pre', b', r', ?_, h2, h3, h4⟩
        rw [hpre, h1]; simp
      · rename_i hb
        have hb' : b / 2 = 124 := by simpa using hb
        split at h
        · -- header failed: continue after the consumed bytes
          obtain ⟨pre', b', r', h1, h2, h3, h4⟩ := ih _ h
          refine ⟨pre ++ 255 :: (b :: r).take (hdrConsumed (255 :: b :: r) - 1) ++ pre', b', r', ?_, h2, h3, h4⟩
          rw [hpre]
          have := List.take_append_drop (hdrConsumed (255 :: b :: r) - 1) (b :: r)
          rw [h1] at this
          simp only [List.append_assoc, List.cons_append]
          rw [this]
        · split at h
          · rename_i d' hd
            simp only [Prod.mk.injEq, ReadResult.frame.injEq] at h
            obtain ⟨h1, h2⟩ := h
            subst h1
            exact ⟨pre, b, r, hpre, hb', hd, h2.symm⟩
          · simp at h
          · simp at h

/-- results come out in increasing offset order: every call that returns a frame consumes at
    least the sync byte, so the rest handed to the next call is a strictly shorter suffix -/
theorem stream_results_ascending (p : Profile) (fuel : Nat) (bytes : List Nat) (d : Decoded) (rest : List Nat)
    (h : streamReadOne p fuel bytes = (.frame d, rest)) : rest.length < bytes.length := by
  obtain ⟨pre, b, r, h1, _, _, h4⟩ := stream_no_fabrication p fuel bytes d rest h
  subst h4
  rw [h1]
  simp only [List.length_append, List.length_cons, List.length_drop]
  omega

/-- the subset header the scanner tries first succeeds whenever the full frame decode does -/
theorem subsetHeader_of_decode (p : Profile) (bytes : List Nat) (d : Decoded)
    (h : decodeFrame p none bytes = .ok d) : ∃ x, subsetHeader bytes = .ok x := by
  simp only [decodeFrame] at h
  simp only [subsetHeader, parseHeaderBytes]
  split at h
  · simp at h
  · rename_i hdr rest hh
    rw [hh]
    simp only [checkStreaminfo] at h
    split at h
    · simp at h
    · rename_i hc
      have hc' : Gen.crc8Valid (crc8 (bytes.take (bytes.length - rest.length / 8))) = true := by
        cases hcv : Gen.crc8Valid (crc8 (bytes.take (bytes.length - rest.length / 8))) <;> simp_all
      simp [hc']

/-- **No loss without sync-like garbage** (partial: the hypotheses `hd`/`hb` — the written frame
    decodes and starts `FF F8|F9` — are C01's `frame_roundtrip` and the header writer's sync code).
    If the bytes in front of a frame contain no `0xFF`, one `read()` returns exactly that frame and
    leaves exactly the bytes behind it. -/
theorem no_sync_no_loss_partial (p : Profile) (fuel : Nat) (g : List Nat) (b : Nat) (t rest : List Nat) (d : Decoded)
    (hg : ∀ x ∈ g, x ≠ 255) (hb : b / 2 = 124)
    (hd : decodeFrame p none (255 :: b :: (t ++ rest)) = .ok d) (hu : d.used = t.length + 2) :
    streamReadOne p (fuel + 1) (g ++ 255 :: b :: (t ++ rest)) = (.frame d, rest) := by
  simp only [streamReadOne]
  rw [skipUntilFF_no_ff g _ hg]
  have hb' : (b / 2 != 124) = false := by simp [hb]
  simp only [hb']
  obtain ⟨x, hx⟩ := subsetHeader_of_decode p _ d hd
  simp only [hx, hd, hu]
  simp

/-- non-vacuity: a concrete one-frame stream behind sync-free garbage meets every hypothesis
    (mono 16-bit, 1 sample of value 0: CONSTANT subframe) -/
example : (match decodeFrame .release none [255, 248, 105, 8, 0, 0, 29, 0, 0, 0, 160, 39] with
    | .ok d => d.used == 12 && d.channels == [[0]] | .error _ => false) = true := by
  decide +kernel

end Flac.C16
