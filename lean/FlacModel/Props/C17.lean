/-
  Props/C17.lean — C17: parsed frame structures re-serialise identically and agree with the decoder.
  The structural parser (stream.rs) and the streaming decoder (decode.rs) are modelled by ONE parser
  skeleton (`Model/Frame.lean`) instantiated with the partition layout rule extracted from each file
  (`structLayout`, `decLayout`); sample expansion is the same `decodeSub` in both.
-/
import FlacModel.Proofs.Layout
import FlacModel.Props.C04

namespace Flac.C17
open Flac Gen

/-- **layouts_agree**: for every block size, predictor order and partition order the two parsers
    slice the residuals identically, and refuse exactly the same partition orders -/
theorem layouts_agree (bs order po : Nat) : structLayout bs order po = decLayout bs order po := by
  have h1 : structLayoutRfc = true := rfl
  have h2 : decLayoutRfc = true := rfl
  simp only [structLayout, decLayout, h1, h2, Bool.true_and]
  by_cases hok : (bs % 2 ^ po == 0 && decide (bs / 2 ^ po > order)) = true
  · have hg : (!(bs % 2 ^ po == 0 && decide (bs / 2 ^ po > order))) = false := by simp [hok]
    simp only [Bool.and_eq_true, beq_iff_eq, decide_eq_true_eq] at hok
    obtain ⟨hdiv, hgt⟩ := hok
    have hbs := div_mul_of_mod_zero bs (2 ^ po) hdiv
    have hr := rchunk_rfc (bs / 2 ^ po) (2 ^ po) order (by omega) (Nat.two_pow_pos po)
    rw [← hbs] at hr
    have hc0 : ¬ bs / 2 ^ po = 0 := by omega
    have hlt : ¬ bs / 2 ^ po < order := by omega
    have hlen : ((bs / 2 ^ po - order) :: List.replicate (2 ^ po - 1) (bs / 2 ^ po)).length = 2 ^ po := by
      have := Nat.two_pow_pos po
      simp; omega
    simp only [hg, Bool.false_eq_true, if_false, hc0, hlt, hr, hlen, ne_eq, not_true_eq_false]
  · have hg : (!(bs % 2 ^ po == 0 && decide (bs / 2 ^ po > order))) = true := by
      cases hb : (bs % 2 ^ po == 0 && decide (bs / 2 ^ po > order)) with
      | true => exact absurd hb hok
      | false => rfl
    simp only [hg, if_true]

/-! ### every parsed subframe expands to exactly block-size samples -/

theorem readN_length {p : P α} (n : Nat) (b : Bits) (xs : List α) (r : Bits) (h : readN p n b = .ok (xs, r)) :
    xs.length = n := by
  induction n generalizing b xs r with
  | zero => simp [readN] at h; rw [h.1]; rfl
  | succ n ih =>
    simp only [readN] at h
    cases h1 : p b with
    | error e => rw [h1] at h; simp at h
    | ok q =>
      obtain ⟨x, b1⟩ := q
      rw [h1] at h
      simp only [] at h
      cases h2 : readN p n b1 with
      | error e => rw [h2] at h; simp at h
      | ok q2 =>
        obtain ⟨ys, b2⟩ := q2
        rw [h2] at h
        simp only [Except.ok.injEq, Prod.mk.injEq] at h
        rw [← h.1]; simp [ih b1 ys b2 h2]

theorem readPartition_length (pbits n : Nat) (b : Bits) (p : Partition) (r : Bits)
    (h : readPartition pbits n b = .ok (p, r)) : p.residuals.length = n := by
  unfold readPartition at h
  cases h0 : readU pbits b with
  | error e => rw [h0] at h; simp at h
  | ok q =>
    obtain ⟨k, b1⟩ := q
    rw [h0] at h
    simp only [] at h
    split at h
    · cases h1 : readU 5 b1 with
      | error e => rw [h1] at h; simp at h
      | ok q1 =>
        obtain ⟨w, b2⟩ := q1
        rw [h1] at h
        simp only [] at h
        split at h
        · simp only [Except.ok.injEq, Prod.mk.injEq] at h
          rw [← h.1]; simp [Partition.residuals]
        · cases h2 : readN (readS w) n b2 with
          | error e => rw [h2] at h; simp at h
          | ok q2 =>
            obtain ⟨rs, b3⟩ := q2
            rw [h2] at h
            simp only [Except.ok.injEq, Prod.mk.injEq] at h
            rw [← h.1]; simp [Partition.residuals, readN_length n b2 rs b3 h2]
    · cases h2 : readN (readRiceOne k) n b1 with
      | error e => rw [h2] at h; simp at h
      | ok q2 =>
        obtain ⟨rs, b3⟩ := q2
        rw [h2] at h
        simp only [Except.ok.injEq, Prod.mk.injEq] at h
        rw [← h.1]; simp [Partition.residuals, readN_length n b1 rs b3 h2]

theorem readPartitions_length (pbits : Nat) (ns : List Nat) (b : Bits) (ps : List Partition) (r : Bits)
    (h : readPartitions pbits ns b = .ok (ps, r)) : (ps.flatMap Partition.residuals).length = ns.sum := by
  induction ns generalizing b ps r with
  | nil => simp [readPartitions] at h; rw [h.1]; simp
  | cons n ns ih =>
    simp only [readPartitions] at h
    cases h1 : readPartition pbits n b with
    | error e => rw [h1] at h; simp at h
    | ok q =>
      obtain ⟨p, b1⟩ := q
      rw [h1] at h
      simp only [] at h
      cases h2 : readPartitions pbits ns b1 with
      | error e => rw [h2] at h; simp at h
      | ok q2 =>
        obtain ⟨ps', b2⟩ := q2
        rw [h2] at h
        simp only [Except.ok.injEq, Prod.mk.injEq] at h
        rw [← h.1]
        simp [readPartition_length pbits n b p b1 h1, ih b1 ps' b2 h2]

/-- the sizes an accepted layout hands out add up to `block size − predictor order` -/
theorem structLayout_sum (bs order po : Nat) (sizes : List Nat) (h : structLayout bs order po = .ok sizes) :
    sizes.sum + order = bs := by
  have h1 : structLayoutRfc = true := rfl
  simp only [structLayout, h1, Bool.true_and] at h
  by_cases hok : (bs % 2 ^ po == 0 && decide (bs / 2 ^ po > order)) = true
  · have hg : (!(bs % 2 ^ po == 0 && decide (bs / 2 ^ po > order))) = false := by simp [hok]
    simp only [Bool.and_eq_true, beq_iff_eq, decide_eq_true_eq] at hok
    obtain ⟨hdiv, hgt⟩ := hok
    have hlt : ¬ bs / 2 ^ po < order := by omega
    simp only [hg, Bool.false_eq_true, if_false, hlt, Except.ok.injEq] at h
    rw [← h]
    have hbs := div_mul_of_mod_zero bs (2 ^ po) hdiv
    have hp := Nat.two_pow_pos po
    have hsum : ∀ (n c : Nat), (List.replicate n c).sum = n * c := by
      intro n c; induction n with
      | zero => simp
      | succ n ih => simp [List.replicate_succ, ih, Nat.succ_mul]; omega
    simp only [List.sum_cons, hsum]
    generalize hc : bs / 2 ^ po = c at *
    generalize hk : 2 ^ po = k at *
    have : (k - 1) * c + c = c * k := by
      have hk' : k = (k - 1) + 1 := by omega
      conv => rhs; rw [hk', Nat.mul_add, Nat.mul_one, Nat.mul_comm]
    omega
  · have hg : (!(bs % 2 ^ po == 0 && decide (bs / 2 ^ po > order))) = true := by
      cases hb : (bs % 2 ^ po == 0 && decide (bs / 2 ^ po > order)) with
      | true => exact absurd hb hok
      | false => rfl
    simp [hg] at h

theorem readResidual_length (layout : Layout) (hl : ∀ bs order po sizes, layout bs order po = .ok sizes → sizes.sum + order = bs)
    (bs order : Nat) (b : Bits) (res : Residual) (r : Bits)
    (h : readResidual layout bs order b = .ok (res, r)) : res.residuals.length + order = bs := by
  unfold readResidual at h
  cases h0 : readU 2 b with
  | error e => rw [h0] at h; simp at h
  | ok q =>
    obtain ⟨method, b1⟩ := q
    rw [h0] at h
    simp only [] at h
    split at h
    · simp at h
    · cases h1 : readU 4 b1 with
      | error e => rw [h1] at h; simp at h
      | ok q1 =>
        obtain ⟨po, b2⟩ := q1
        rw [h1] at h
        simp only [] at h
        cases h2 : layout bs order po with
        | error e => rw [h2] at h; simp at h
        | ok sizes =>
          rw [h2] at h
          simp only [] at h
          cases h3 : readPartitions (4 + method) sizes b2 with
          | error e => rw [h3] at h; simp at h
          | ok q3 =>
            obtain ⟨ps, b3⟩ := q3
            rw [h3] at h
            simp only [Except.ok.injEq, Prod.mk.injEq] at h
            rw [← h.1]
            simp only [Residual.residuals]
            rw [readPartitions_length _ sizes b2 ps b3 h3]
            exact hl bs order po sizes h2

theorem predictGo_length (p : Profile) (w : Nat) (coefs : List Int) (shift : Nat) (hist rs out : List Int)
    (h : predictGo p w coefs shift hist rs = .ok out) : out.length = hist.length + rs.length := by
  induction rs generalizing hist out with
  | nil => simp [predictGo] at h; rw [← h]; simp
  | cons r rs ih =>
    simp only [predictGo] at h
    cases h1 : predictStep p w r (dot hist coefs) shift with
    | error e => rw [h1] at h; simp at h
    | ok v =>
      rw [h1] at h
      have := ih (v :: hist) out h
      simp at this ⊢; omega

theorem mapM'_length (f : Int → Res Int) (xs ys : List Int) (h : mapM' f xs = .ok ys) : ys.length = xs.length := by
  induction xs generalizing ys with
  | nil => simp [mapM'] at h; rw [← h]
  | cons x xs ih =>
    simp only [mapM'] at h
    cases h1 : f x with
    | error e => rw [h1] at h; simp at h
    | ok c =>
      rw [h1] at h
      simp only [] at h
      cases h2 : mapM' f xs with
      | error e => rw [h2] at h; simp at h
      | ok cs =>
        rw [h2] at h
        simp only [Except.ok.injEq] at h
        rw [← h]; simp [ih cs h2]

/-- **struct_expand_len**: every subframe the structural parser accepts (with its now RFC-conforming
    partition rule) expands to exactly block-size samples -/
theorem struct_expand_len (p : Profile) (w bs bps : Nat) (b : Bits) (s : Subframe) (r : Bits) (xs : List Int)
    (hp : readSubframe structLayout false bs bps b = .ok (s, r)) (hd : decodeSub p w bs s = .ok xs) :
    xs.length = bs := by
  -- shape facts of the parsed subframe
  have hshape : (match s.body with
      | .constant _ => True
      | .verbatim ys => ys.length = bs
      | .fixed o warm res => warm.length = o ∧ res.residuals.length + o = bs
      | .lpc o warm _ _ _ res => warm.length = o ∧ res.residuals.length + o = bs) := by
    unfold readSubframe at hp
    cases h0 : readSubHeader b with
    | error e => rw [h0] at hp; simp at hp
    | ok q =>
      obtain ⟨⟨ty, wasted⟩, b1⟩ := q
      rw [h0] at hp
      simp only [] at hp
      split at hp
      · simp at hp
      · split at hp
        · cases h1 : readS (bps - wasted) b1 with
          | error e => rw [h1] at hp; simp at hp
          | ok q1 => rw [h1] at hp; simp only [Except.ok.injEq, Prod.mk.injEq] at hp; rw [← hp.1]; trivial
        · split at hp
          · cases h1 : readN (readS (bps - wasted)) bs b1 with
            | error e => rw [h1] at hp; simp at hp
            | ok q1 =>
              obtain ⟨ys, b2⟩ := q1
              rw [h1] at hp; simp only [Except.ok.injEq, Prod.mk.injEq] at hp; rw [← hp.1]
              exact readN_length bs b1 ys b2 h1
          · split at hp
            · simp only [Bool.false_and, Bool.false_eq_true, if_false] at hp
              cases h1 : readN (readS (bps - wasted)) (ty - subTypeFixedBase) b1 with
              | error e => rw [h1] at hp; simp at hp
              | ok q1 =>
                obtain ⟨warm, b2⟩ := q1
                rw [h1] at hp
                simp only [] at hp
                cases h2 : readResidual structLayout bs (ty - subTypeFixedBase) b2 with
                | error e => rw [h2] at hp; simp at hp
                | ok q2 =>
                  obtain ⟨res, b3⟩ := q2
                  rw [h2] at hp; simp only [Except.ok.injEq, Prod.mk.injEq] at hp; rw [← hp.1]
                  exact ⟨readN_length _ b1 warm b2 h1, readResidual_length structLayout structLayout_sum bs _ b2 res b3 h2⟩
            · simp only [Bool.false_and, Bool.false_eq_true, if_false] at hp
              cases h1 : readN (readS (bps - wasted)) (ty - subTypeLpcBase) b1 with
              | error e => rw [h1] at hp; simp at hp
              | ok q1 =>
                obtain ⟨warm, b2⟩ := q1
                rw [h1] at hp
                simp only [] at hp
                cases h2 : readU 4 b2 with
                | error e => rw [h2] at hp; simp at hp
                | ok q2 =>
                  obtain ⟨pm1, b3⟩ := q2
                  rw [h2] at hp
                  simp only [] at hp
                  split at hp
                  · simp at hp
                  · cases h3 : readS 5 b3 with
                    | error e => rw [h3] at hp; simp at hp
                    | ok q3 =>
                      obtain ⟨shift, b4⟩ := q3
                      rw [h3] at hp
                      simp only [] at hp
                      split at hp
                      · simp at hp
                      · cases h4 : readN (readS (pm1 + 1)) (ty - subTypeLpcBase) b4 with
                        | error e => rw [h4] at hp; simp at hp
                        | ok q4 =>
                          obtain ⟨coefs, b5⟩ := q4
                          rw [h4] at hp
                          simp only [] at hp
                          cases h5 : readResidual structLayout bs (ty - subTypeLpcBase) b5 with
                          | error e => rw [h5] at hp; simp at hp
                          | ok q5 =>
                            obtain ⟨res, b6⟩ := q5
                            rw [h5] at hp; simp only [Except.ok.injEq, Prod.mk.injEq] at hp; rw [← hp.1]
                            exact ⟨readN_length _ b1 warm b2 h1, readResidual_length structLayout structLayout_sum bs _ b5 res b6 h5⟩
  -- expansion
  unfold decodeSub at hd
  have hinner : ∀ ys, (match s.body with
      | .constant v => (.ok (List.replicate bs v) : Res (List Int))
      | .verbatim xs => .ok xs
      | .fixed o warm res => predict p w (fixedCoeffs.getD o []) 0 warm res.residuals
      | .lpc _ warm _ shift coefs res => predict p w coefs shift warm res.residuals) = .ok ys → ys.length = bs := by
    intro ys hy
    cases hb : s.body with
    | constant v => rw [hb] at hy; simp only [Except.ok.injEq] at hy; rw [← hy]; simp
    | verbatim zs => rw [hb] at hy hshape; simp only [Except.ok.injEq] at hy; rw [← hy]; exact hshape
    | fixed o warm res =>
      rw [hb] at hy hshape
      have := predictGo_length p w _ 0 _ _ ys hy
      simp at this; omega
    | lpc o warm pr sh c res =>
      rw [hb] at hy hshape
      have := predictGo_length p w _ sh _ _ ys hy
      simp at this; omega
  split at hd
  · simp at hd
  · rename_i ys heq
    split at hd
    · rw [mapM'_length _ ys xs hd]; exact hinner ys heq
    · simp only [Except.ok.injEq] at hd; rw [← hd]; exact hinner ys heq

end Flac.C17
