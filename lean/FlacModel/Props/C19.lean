/-
  Props/C19.lean — C19: encoding never expands audio beyond verbatim size plus a fixed overhead.
  The bound follows from the fallback comparison extracted from `encode_subframe`
  (`Gen.encKeepBest`, `Gen.encPickCandidate`), not from any heuristic: it holds for EVERY candidate
  size, i.e. whatever the LPC analysis, the Rice estimate or the partition search produced.
-/
import FlacModel.Proofs.Bits
import FlacModel.Gen.Kernels

namespace Flac.C19
open Flac Gen

/-- bits of the subframe `encode_subframe` returns, given the bit count of the best candidate
    (`none` = every candidate failed) and the size of the VERBATIM subframe
    (`hdr` header bits + `n` samples of `bps` effective bits) -/
def chosenBits (best : Option Nat) (hdr n bps : Nat) : Nat :=
  match best with
  | none => hdr + n * bps
  | some b => if encKeepBest b (encVerbatimLen n bps) then b else hdr + n * bps

/-- **subframe_bits_le_verbatim** — for every candidate whatsoever -/
theorem subframe_bits_le_verbatim (best : Option Nat) (hdr n bps : Nat) :
    chosenBits best hdr n bps ≤ hdr + n * bps := by
  unfold chosenBits
  cases best with
  | none => exact Nat.le_refl _
  | some b =>
    simp only [encKeepBest, encVerbatimLen]
    by_cases h : b < n * bps
    · simp [h]; omega
    · simp [h]

/-- when FIXED and LPC both succeed the smaller recording is taken, so the result is never larger
    than the FIXED candidate — the step behind the constant-block clause: a block of equal samples
    has an all-zero order-1 FIXED residual whose recording is a few dozen bits, whatever LPC does -/
theorem pick_le_fixed (fixedBits lpcBits : Nat) : encPickCandidate fixedBits lpcBits ≤ fixedBits := by
  unfold encPickCandidate; split <;> omega

/-- constant-block clause (partial: the size `fixedBits` of the FIXED candidate for a constant block
    is measured by the correspondence run, not derived from a model of `write_residuals`) -/
theorem constant_block_small_partial (fixedBits lpcBits hdr n bps : Nat) :
    chosenBits (some (encPickCandidate fixedBits lpcBits)) hdr n bps ≤ fixedBits + hdr := by
  unfold chosenBits
  simp only [encKeepBest, encVerbatimLen]
  have h := pick_le_fixed fixedBits lpcBits
  by_cases hk : encPickCandidate fixedBits lpcBits < n * bps
  · simp [hk]; omega
  · simp [hk]; omega

/-- a frame header never exceeds 16 bytes: 15+1+4+4+4+3+1 fixed bits, a coded number of at most
    7 bytes, at most 16 bits of block size, at most 16 bits of sample rate, and the CRC-8 -/
theorem header_bits_le (h : Header) (hn : h.numberBytes ≤ 7) : (writeHeaderFields h).length ≤ 120 := by
  have hnum := writeNumber_length_le h.number h.numberBytes hn
  have hbits : sampleRateKHzBits = 8 ∧ sampleRateHzBits = 16 ∧ sampleRateDHzBits = 16 := by decide
  unfold writeHeaderFields
  simp only [List.length_append, natToBits_length, List.length_cons, List.length_nil]
  have h1 : (if blockSizeCodeU8.contains h.bsCode = true then natToBits 8 (h.blockSize - 1)
        else if blockSizeCodeU16.contains h.bsCode = true then natToBits 16 (h.blockSize - 1) else []).length ≤ 16 := by
    split
    · simp
    · split <;> simp
  have h2 : (if sampleRateCodeKHz.contains h.rateCode = true then natToBits sampleRateKHzBits (h.rate / sampleRateKHzMul)
        else if sampleRateCodeHz.contains h.rateCode = true then natToBits sampleRateHzBits (h.rate / sampleRateHzMul)
        else if sampleRateCodeDHz.contains h.rateCode = true then natToBits sampleRateDHzBits (h.rate / sampleRateDHzMul)
        else []).length ≤ 16 := by
    split
    · simp [hbits.1]
    · split
      · simp [hbits.2.1]
      · split <;> simp [hbits.2.2]
  omega

/-- **frame_bytes_bound**: with every subframe bounded by its verbatim size, a frame is at most
    16 header bytes + the verbatim bits rounded up + 2 footer bytes -/
theorem frame_bytes_bound (hdrBits : Nat) (subBits verbBits : List Nat) (hh : hdrBits ≤ 120)
    (hs : subBits.sum ≤ verbBits.sum) :
    (hdrBits + 8) / 8 + (subBits.sum + 7) / 8 + 2 ≤ 16 + (verbBits.sum + 7) / 8 + 2 := by
  have : (subBits.sum + 7) / 8 ≤ (verbBits.sum + 7) / 8 := Nat.div_le_div_right (by omega)
  omega

/-- non-vacuity: a candidate of 10 bits against 4 samples of 16 bits is kept; one of 100 bits is
    replaced by VERBATIM (8 + 64 bits) -/
example : chosenBits (some 10) 8 4 16 = 10 ∧ chosenBits (some 100) 8 4 16 = 72 ∧ chosenBits none 8 4 16 = 72 := by decide

end Flac.C19
