/-
  Props/C19.lean — C19: encoding never expands audio beyond verbatim size plus a fixed overhead.
  The bound follows from the fallback comparison extracted from `encode_subframe`
  (`Gen.encKeepBest`, `Gen.encPickCandidate`), not from any heuristic: it holds for EVERY candidate
  size, i.e. whatever the LPC analysis, the Rice estimate or the partition search produced.
-/
import FlacModel.Proofs.Bits
import FlacModel.Gen.KernelsEnc
import FlacModel.Gen.Resid

namespace Flac.C19
open Flac Gen

/-- bits of the subframe `encode_subframe` returns, given the bit count of the best candidate
    (`none` = every candidate failed) and the size of the VERBATIM subframe
    (`hdr` header bits + `n` samples of `bps` effective bits) -/
def chosenBits (best : Option Nat) (hdr n bps : Nat) : Nat :=
  match best with
  | none => hdr + n * bps
  | some b => if encKeepBest b (encVerbatimLen n bps) then b else hdr + n * bps

/-- **subframe_bits_le_verbatim** — for every candidate whatsoever -/
theorem subframe_bits_le_verbatim (best : Option Nat) (hdr n bps : Nat) :
    chosenBits best hdr n bps ≤ hdr + n * bps := by
  unfold chosenBits
  cases best with
  | none => exact Nat.le_refl _
  | some b =>
    simp only [encKeepBest, encVerbatimLen]
    by_cases h : b < n * bps
    · simp [h]; omega
    · simp [h]

/-- when FIXED and LPC both succeed the smaller recording is taken, so the result is never larger
    than the FIXED candidate — the step behind the constant-block clause: a block of equal samples
    has an all-zero order-1 FIXED residual whose recording is a few dozen bits, whatever LPC does -/
theorem pick_le_fixed (fixedBits lpcBits : Nat) : encPickCandidate fixedBits lpcBits ≤ fixedBits := by
  unfold encPickCandidate; split <;> omega

/-- constant-block clause (partial: the size `fixedBits` of the FIXED candidate for a constant block
    is measured by the correspondence run, not derived from a model of `write_residuals`) -/
theorem constant_block_small_partial (fixedBits lpcBits hdr n bps : Nat) :
    chosenBits (some (encPickCandidate fixedBits lpcBits)) hdr n bps ≤ fixedBits + hdr := by
  unfold chosenBits
  simp only [encKeepBest, encVerbatimLen]
  have h := pick_le_fixed fixedBits lpcBits
  by_cases hk : encPickCandidate fixedBits lpcBits < n * bps
  · simp [hk]; omega
  · simp [hk]; omega

/-! ### the constant-block clause: what a block of equal samples costs does not depend on its length

Facts regenerated from the source (`Gen/Resid.lean`): a partition whose residuals are all zero gets the zero-width escape
header (9 or 10 bits, no residual bits); no candidate has more than `encMaxPartitions` partitions; an all-zero channel
is written as a CONSTANT subframe.  A block of equal non-zero samples has an all-zero FIXED residual from order 1 on, so
the FIXED candidate the encoder records is a subframe of the shape bounded below, whatever orders it picked; and the
subframe finally written is never larger than the FIXED candidate (`pick_le_fixed`, `subframe_bits_le_verbatim`). -/

theorem zero_partition_is_constant : encZeroPartitionIsConstant = true := rfl
theorem all_zero_is_constant_subframe : encAllZeroIsConstantSubframe = true := rfl

/-- every partition is the zero-width escape -/
def zeroParts (r : Residual) : Prop := ∀ pt ∈ r.parts, ∃ n, pt = Partition.zero n

theorem zero_parts_bits (pbits : Nat) (hp : pbits ≤ 5) (parts : List Partition) (hz : ∀ pt ∈ parts, ∃ n, pt = Partition.zero n) :
    (parts.flatMap (writePartition pbits)).length ≤ parts.length * 10 := by
  induction parts with
  | nil => simp
  | cons pt parts ih =>
    obtain ⟨n, rfl⟩ := hz pt (by simp)
    have := ih (fun q hq => hz q (by simp [hq]))
    simp only [List.flatMap_cons, List.length_append, writePartition, natToBits_length, List.length_cons]
    omega

/-- a residual block of zero-width partitions: 6 bits of coding method and order, at most 10 bits per partition -/
theorem zero_residual_bits (r : Residual) (hm : r.method ≤ 1) (hz : zeroParts r) (hn : r.parts.length ≤ encMaxPartitions) :
    (writeResidual r).length ≤ 6 + encMaxPartitions * 10 := by
  have := zero_parts_bits (4 + r.method) (by omega) r.parts hz
  simp only [writeResidual, List.length_append, natToBits_length]
  have h64 : encMaxPartitions = 64 := rfl
  omega

theorem subheader_bits (ty w : Nat) : (writeSubHeader ty w).length = 8 + w := by
  by_cases h : w = 0
  · subst h; simp [writeSubHeader]
  · have : (w == 0) = false := by simpa using h
    simp only [writeSubHeader, this, Bool.false_eq_true, if_false, List.length_append, List.length_cons, List.length_nil,
      natToBits_length, writeUnary1, List.length_replicate]
    omega

theorem warm_bits (d : Nat) (warm : List Int) : (warm.flatMap (intToBits d)).length = warm.length * d := by
  induction warm with
  | nil => simp
  | cons x xs ih => simp only [List.flatMap_cons, List.length_append, intToBits_length, ih, List.length_cons]; rw [Nat.succ_mul]; omega

/-- **the FIXED candidate of a block with all-zero residual**: at most 8 + wasted + 4 warm-up samples + 646 bits,
    whatever the block length -/
theorem fixed_zero_candidate_bits (bps w o : Nat) (warm : List Int) (res : Residual) (ho : o ≤ 4) (hwl : warm.length = o)
    (hm : res.method ≤ 1) (hz : zeroParts res) (hn : res.parts.length ≤ encMaxPartitions) :
    (writeSubframe bps { wasted := w, body := .fixed o warm res }).length ≤ 8 + w + 4 * (bps - w) + (6 + encMaxPartitions * 10) := by
  have h1 := zero_residual_bits res hm hz hn
  simp only [writeSubframe, List.length_append, subheader_bits, warm_bits, hwl]
  have : o * (bps - w) ≤ 4 * (bps - w) := Nat.mul_le_mul_right _ ho
  omega

/-- **constant_block_small**: with the FIXED candidate of a constant block bounded as above, the subframe written for the
    channel costs at most that bound plus the VERBATIM header allowance - for every block length `n`, every LPC
    candidate, every depth -/
theorem constant_block_small (bps w o : Nat) (warm : List Int) (res : Residual) (ho : o ≤ 4) (hwl : warm.length = o)
    (hm : res.method ≤ 1) (hz : zeroParts res) (hn : res.parts.length ≤ encMaxPartitions) (lpcBits hdr n : Nat) :
    chosenBits (some (encPickCandidate (writeSubframe bps { wasted := w, body := .fixed o warm res }).length lpcBits)) hdr n bps
      ≤ 8 + w + 4 * (bps - w) + (6 + encMaxPartitions * 10) + hdr := by
  have h1 := fixed_zero_candidate_bits bps w o warm res ho hwl hm hz hn
  have h2 := constant_block_small_partial (writeSubframe bps { wasted := w, body := .fixed o warm res }).length lpcBits hdr n bps
  omega

/-- a frame header never exceeds 16 bytes: 15+1+4+4+4+3+1 fixed bits, a coded number of at most
    7 bytes, at most 16 bits of block size, at most 16 bits of sample rate, and the CRC-8 -/
theorem header_bits_le (h : Header) (hn : h.numberBytes ≤ 7) : (writeHeaderFields h).length ≤ 120 := by
  have hnum := writeNumber_length_le h.number h.numberBytes hn
  have hbits : sampleRateKHzBits = 8 ∧ sampleRateHzBits = 16 ∧ sampleRateDHzBits = 16 := by decide
  unfold writeHeaderFields
  simp only [List.length_append, natToBits_length, List.length_cons, List.length_nil]
  have h1 : (if blockSizeCodeU8.contains h.bsCode = true then natToBits 8 (h.blockSize - 1)
        else if blockSizeCodeU16.contains h.bsCode = true then natToBits 16 (h.blockSize - 1) else []).length ≤ 16 := by
    split
    · simp
    · split <;> simp
  have h2 : (if sampleRateCodeKHz.contains h.rateCode = true then natToBits sampleRateKHzBits (h.rate / sampleRateKHzMul)
        else if sampleRateCodeHz.contains h.rateCode = true then natToBits sampleRateHzBits (h.rate / sampleRateHzMul)
        else if sampleRateCodeDHz.contains h.rateCode = true then natToBits sampleRateDHzBits (h.rate / sampleRateDHzMul)
        else []).length ≤ 16 := by
    split
    · simp [hbits.1]
    · split
      · simp [hbits.2.1]
      · split <;> simp [hbits.2.2]
  omega

/-- **frame_bytes_bound**: with every subframe bounded by its verbatim size, a frame is at most
    16 header bytes + the verbatim bits rounded up + 2 footer bytes -/
theorem frame_bytes_bound (hdrBits : Nat) (subBits verbBits : List Nat) (hh : hdrBits ≤ 120)
    (hs : subBits.sum ≤ verbBits.sum) :
    (hdrBits + 8) / 8 + (subBits.sum + 7) / 8 + 2 ≤ 16 + (verbBits.sum + 7) / 8 + 2 := by
  have : (subBits.sum + 7) / 8 ≤ (verbBits.sum + 7) / 8 := Nat.div_le_div_right (by omega)
  omega

/-- non-vacuity: a candidate of 10 bits against 4 samples of 16 bits is kept; one of 100 bits is
    replaced by VERBATIM (8 + 64 bits) -/
example : chosenBits (some 10) 8 4 16 = 10 ∧ chosenBits (some 100) 8 4 16 = 72 ∧ chosenBits none 8 4 16 = 72 := by decide

end Flac.C19
