/-
  Props/C06b.lean — closing the loop between C09 and C06: the seek table that `finalize` writes (whatever interval policy,
  whatever of the three layout cases applies) is truthful in the sense C06's seek theorems assume (`TableTruthful`),
  for every sequence of frames of non-zero size.  So seeking is exact on every file the crate itself wrote.
-/
import FlacModel.Props.C06
import FlacModel.Props.C09

namespace Flac.C06
open Flac Flac.C07 Flac.C09

/-- the frames of a file as the readers see them: byte offsets are the running sum of the frame sizes -/
def mkFrames : Nat → List (List (List Int) × Nat) → List FrameInfo
  | _, [] => []
  | b, (c, n) :: r => { off := b, chans := c } :: mkFrames (b + n) r

/-- what the encoder's recorder is told about the same frames: (length in samples, size in bytes) -/
def recInput (fr : List (List (List Int) × Nat)) : List (Nat × Nat) := fr.map fun f => ((f.1.headD []).length, f.2)

theorem mkFrames_append (b : Nat) (a c : List (List (List Int) × Nat)) :
    mkFrames b (a ++ c) = mkFrames b a ++ mkFrames (b + (a.map (·.2)).sum) c := by
  induction a generalizing b with
  | nil => simp [mkFrames]
  | cons x a ih =>
    obtain ⟨ch, n⟩ := x
    simp only [List.cons_append, mkFrames, List.map_cons, List.sum_cons, ih]
    rw [Nat.add_assoc]

theorem mkFrames_off_lt (b : Nat) (a : List (List (List Int) × Nat)) (hpos : ∀ f ∈ a, 0 < f.2) :
    ∀ g ∈ mkFrames b a, b ≤ g.off ∧ g.off < b + (a.map (·.2)).sum := by
  induction a generalizing b with
  | nil => intro g hg; simp [mkFrames] at hg
  | cons x a ih =>
    obtain ⟨ch, n⟩ := x
    intro g hg
    have hn : 0 < n := hpos (ch, n) (by simp)
    simp only [mkFrames, List.mem_cons] at hg
    simp only [List.map_cons, List.sum_cons]
    rcases hg with rfl | hg
    · dsimp only; omega
    · have := ih (b + n) (fun f hf => hpos f (by simp [hf])) g hg
      omega

theorem recInput_snd (a : List (List (List Int) × Nat)) : (recInput a).map (·.2) = a.map (·.2) := by
  simp [recInput, List.map_map, Function.comp]

theorem recInput_fst (a : List (List (List Int) × Nat)) : (recInput a).map (·.1) = a.map (fun f => (f.1.headD []).length) := by
  simp [recInput, List.map_map, Function.comp]

theorem lens_mkFrames (b : Nat) (a : List (List (List Int) × Nat)) :
    lens (mkFrames b a) = ((recInput a).map (·.1)).sum := by
  rw [recInput_fst]
  induction a generalizing b with
  | nil => simp [mkFrames, lens]
  | cons x a ih =>
    obtain ⟨ch, n⟩ := x
    have := ih (b + n)
    simp only [lens, FrameInfo.len] at this ⊢
    simp only [mkFrames, List.map_cons, List.sum_cons, this]

theorem recInput_split (fr : List (List (List Int) × Nat)) (pre : List (Nat × Nat)) (f : Nat × Nat) (post : List (Nat × Nat))
    (h : recInput fr = pre ++ f :: post) :
    ∃ preF g postF, fr = preF ++ g :: postF ∧ recInput preF = pre ∧ recInput postF = post := by
  unfold recInput at h
  obtain ⟨l1, l2, e, h1, h2⟩ := List.map_eq_append_iff.mp h
  cases l2 with
  | nil => simp at h2
  | cons g postF =>
    simp only [List.map_cons, List.cons.injEq] at h2
    exact ⟨l1, g, postF, e, h1, h2.2⟩

/-- a defined seek point that came out of the interval filter names a real frame of the file -/
theorem filtered_point_truthful (iv : Interval) (rate : Nat) (fr : List (List (List Int) × Nat)) (hpos : ∀ f ∈ fr, 0 < f.2)
    (p : EncPoint) (hp : p ∈ iv.filter rate (record Recorder.init (recInput fr)).points) :
    ∃ pre g post, mkFrames 0 fr = pre ++ g :: post ∧ (∀ f ∈ pre, f.off ≠ p.byte) ∧ g.off = p.byte ∧ lens pre = p.sample := by
  obtain ⟨pre, f, post, e1, e2, e3, _⟩ := written_points_truthful iv rate (recInput fr) p hp
  obtain ⟨preF, g, postF, e, h1, _⟩ := recInput_split fr pre f post e1
  obtain ⟨gc, gn⟩ := g
  refine ⟨mkFrames 0 preF, { off := 0 + (preF.map (·.2)).sum, chans := gc }, mkFrames (0 + (preF.map (·.2)).sum + gn) postF, ?_, ?_, ?_, ?_⟩
  · rw [e, mkFrames_append]; rfl
  · intro x hx
    have := mkFrames_off_lt 0 preF (fun y hy => hpos y (by rw [e]; simp [hy])) x hx
    have hb : p.byte = (preF.map (·.2)).sum := by
      rw [e3, ← h1, recInput_snd]
    omega
  · dsimp only
    rw [e3, ← h1, recInput_snd]; omega
  · rw [lens_mkFrames, h1, e2]

theorem defined_mem_table (pts : List EncPoint) (n : Nat) (so bo fsz : Nat) :
    (SeekPt.defined so bo fsz ∈ ((pts.map toSeekPt) ++ List.replicate n SeekPt.placeholder).take n
      ∨ SeekPt.defined so bo fsz ∈ (pts.take n).map toSeekPt) →
    ∃ p ∈ pts, p.sample = so ∧ p.byte = bo := by
  intro h
  rcases h with h | h
  · have h' := List.mem_of_mem_take h
    rcases List.mem_append.mp h' with h1 | h1
    · obtain ⟨p, hp, e⟩ := List.mem_map.mp h1
      simp only [toSeekPt, SeekPt.defined.injEq] at e
      exact ⟨p, hp, e.1, e.2.1⟩
    · have := List.eq_of_mem_replicate h1
      cases this
  · obtain ⟨p, hp, e⟩ := List.mem_map.mp h
    simp only [toSeekPt, SeekPt.defined.injEq] at e
    exact ⟨p, List.mem_of_mem_take hp, e.1, e.2.1⟩

/-- **The table `finalize` writes is truthful** - in all three layout cases (placeholder table filled in, table carved out
    of the padding, no table), for every interval policy and every sequence of frames of non-zero byte size: every defined
    point names the first sample and the byte offset of a real frame.  This is the hypothesis `TableTruthful` of
    `seek_lands` / `seek_refines_cursor` / `chan_seek_lands`. -/
theorem finalize_table_truthful (iv : Option Interval) (rate : Nat) (fr : List (List (List Int) × Nat)) (hpos : ∀ f ∈ fr, 0 < f.2)
    (tablePoints padding : Option Nat) (ch bps : Nat) (total : Option Nat) :
    TableTruthful { ch := ch, bps := bps, total := total, frames := mkFrames 0 fr,
                    table := (finalizeLayout iv rate (record Recorder.init (recInput fr)).points tablePoints padding).1 } := by
  intro pts hpts so bo fsz hmem
  dsimp only at hpts
  have key : ∃ iv' : Interval, ∃ p ∈ iv'.filter rate (record Recorder.init (recInput fr)).points, p.sample = so ∧ p.byte = bo := by
    unfold finalizeLayout at hpts
    cases iv with
    | none =>
      dsimp only at hpts
      cases tablePoints with
      | none => simp at hpts
      | some n =>
        simp only [Option.map_some, Option.some.injEq] at hpts
        subst hpts
        have := List.eq_of_mem_replicate hmem
        cases this
    | some iv' =>
      dsimp only at hpts
      cases tablePoints with
      | some n =>
        dsimp only at hpts
        simp only [Option.some.injEq] at hpts
        subst hpts
        obtain ⟨p, hp, e1, e2⟩ := defined_mem_table _ n so bo fsz (Or.inl hmem)
        exact ⟨iv', p, hp, e1, e2⟩
      | none =>
        cases padding with
        | none => simp at hpts
        | some pad =>
          dsimp only at hpts
          split at hpts
          · simp only [Option.some.injEq] at hpts
            subst hpts
            obtain ⟨p, hp, e1, e2⟩ := defined_mem_table _ maxPoints so bo fsz (Or.inr hmem)
            exact ⟨iv', p, hp, e1, e2⟩
          · simp at hpts
  obtain ⟨iv', p, hp, e1, e2⟩ := key
  obtain ⟨pre, g, post, h1, h2, h3, h4⟩ := filtered_point_truthful iv' rate fr hpos p hp
  exact ⟨pre, g, post, h1, by rw [← e2]; exact h2, by rw [← e2]; exact h3, by rw [← e1]; exact h4⟩

end Flac.C06
