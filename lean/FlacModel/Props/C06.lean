/-
  Props/C06.lean — C06: seeking lands exactly on the requested position.
  Hypothesis `TableTruthful` (every defined seek point names the first sample and byte offset of a
  real frame) is what C09 establishes for the crate's own writer; tables that lie are outside the
  property's quantifier.
-/
import FlacModel.Props.C07

namespace Flac.C06
open Flac Flac.C07

/-- every defined seek point names a real frame: the frames before it hold exactly `sample`
    samples and it is the first frame at that byte offset -/
def TableTruthful (s : Stream) : Prop :=
  ∀ pts, s.table = some pts → ∀ so bo fsz, SeekPt.defined so bo fsz ∈ pts →
    ∃ pre g post, s.frames = pre ++ g :: post ∧ (∀ f ∈ pre, f.off ≠ bo) ∧ g.off = bo ∧ lens pre = so

/-- a well-formed stream: frames non-empty, total (if declared) = sum of lengths, only the last
    frame short -/
def StreamOk (s : Stream) : Prop := Good s { rest := s.frames, cur := 0 }

theorem lastPointLe_mem (pts : List SeekPt) (sample : Nat) (acc : Option (Nat × Nat)) (so bo : Nat)
    (h : pts.foldl (fun acc p => match p with
      | .defined so bo _ => if so ≤ sample then some (so, bo) else acc
      | .placeholder => acc) acc = some (so, bo)) :
    acc = some (so, bo) ∨ (∃ fsz, SeekPt.defined so bo fsz ∈ pts ∧ so ≤ sample) := by
  induction pts generalizing acc with
  | nil => left; simpa using h
  | cons p ps ih =>
    simp only [List.foldl_cons] at h
    rcases ih _ h with h1 | ⟨fsz, hm, hle⟩
    · cases p with
      | placeholder => left; simpa using h1
      | defined so' bo' fsz' =>
        simp only at h1
        split at h1
        · rename_i hle
          simp only [Option.some.injEq, Prod.mk.injEq] at h1
          right; exact ⟨fsz', by simp [h1.1, h1.2], by omega⟩
        · left; exact h1
    · right; exact ⟨fsz, by simp [hm], hle⟩

theorem dropWhile_lands (pre : List FrameInfo) (g : FrameInfo) (post : List FrameInfo) (bo : Nat)
    (hpre : ∀ f ∈ pre, f.off ≠ bo) (hg : g.off = bo) :
    (pre ++ g :: post).dropWhile (fun f => f.off != bo) = g :: post := by
  induction pre with
  | nil => simp [List.dropWhile, hg]
  | cons f fs ih =>
    have : f.off ≠ bo := hpre f (by simp)
    have hb : (f.off != bo) = true := by simp [this]
    simp only [List.cons_append, List.dropWhile, hb]
    exact ih (fun x hx => hpre x (by simp [hx]))

theorem lens_append (a b : List FrameInfo) : lens (a ++ b) = lens a + lens b := by
  simp [lens, List.map_append, List.sum_append]

theorem nonFinalLong_suffix (pre post : List FrameInfo) (h : nonFinalLong (pre ++ post)) : nonFinalLong post := by
  induction pre with
  | nil => simpa using h
  | cons f fs ih => exact ih (nonFinalLong_tail f (fs ++ post) h)

/-- **Decoder::seek lands on a frame boundary at or before the target**, and the decoder is again
    in a good state there -/
theorem seek_lands (s : Stream) (sample : Nat) (hok : StreamOk s) (ht : TableTruthful s) :
    ∃ pre post, s.frames = pre ++ post ∧ (Dec.seek s sample).1 = { rest := post, cur := lens pre }
      ∧ (Dec.seek s sample).2 = lens pre ∧ lens pre ≤ sample ∧ Good s { rest := post, cur := lens pre } := by
  have good_of (pre post : List FrameInfo) (hsplit : s.frames = pre ++ post) : Good s { rest := post, cur := lens pre } := by
    obtain ⟨hpos, htot⟩ := hok
    refine ⟨fun f hf => hpos f (by simp [hsplit, hf]), ?_⟩
    cases hto : s.total with
    | none => trivial
    | some t =>
      rw [hto] at htot
      simp only at htot ⊢
      obtain ⟨hsum, hlong⟩ := htot
      rw [hsplit] at hsum hlong
      rw [lens_append] at hsum
      exact ⟨by omega, nonFinalLong_suffix pre post hlong⟩
  unfold Dec.seek
  cases hl : s.table.bind (fun pts => lastPointLe pts sample) with
  | none =>
    exact ⟨[], s.frames, by simp, by simp [lens], by simp [lens], by simp [lens], good_of [] s.frames (by simp)⟩
  | some sb =>
    obtain ⟨so, bo⟩ := sb
    cases htab : s.table with
    | none => simp [htab] at hl
    | some pts =>
      simp only [htab, Option.bind_some, lastPointLe] at hl
      rcases lastPointLe_mem pts sample none so bo hl with h0 | ⟨fsz, hm, hle⟩
      · simp at h0
      · obtain ⟨pre, g, post, hsplit, hpre, hg, hso⟩ := ht pts htab so bo fsz hm
        refine ⟨pre, g :: post, hsplit, ?_, by simp [hso], by omega, good_of pre (g :: post) hsplit⟩
        simp only [hsplit, dropWhile_lands pre g post bo hpre hg, hso]

/-- the skip-forward loop consumes exactly the requested number of units when that many remain,
    and fails (never returning data from elsewhere) when they do not -/
theorem skipTo_spec (s : Stream) (enc : FrameInfo → List α) (want : Nat) (fuel : Nat) (r : Rd α) (pos : Nat)
    (hg : Good s r.dec) (henc : ∀ f ∈ r.dec.rest, enc f ≠ []) (hfuel : want - pos < fuel) :
    (want - pos ≤ (remaining enc r).length →
        ∃ r', Rd.skipTo s enc want fuel r pos = (none, r') ∧ Good s r'.dec
          ∧ remaining enc r' = (remaining enc r).drop (want - pos))
    ∧ ((remaining enc r).length < want - pos → ∃ e r', Rd.skipTo s enc want fuel r pos = (some e, r')) := by
  induction fuel generalizing r pos with
  | zero => omega
  | succ fuel ih =>
    unfold Rd.skipTo
    by_cases hp : pos ≥ want
    · simp only [hp, if_true]
      have : want - pos = 0 := by omega
      exact ⟨fun _ => ⟨r, rfl, hg, by simp [this]⟩, fun h => by omega⟩
    · simp only [hp, if_false]
      obtain ⟨r1, h1, hg1, hrem, hcase, hsub⟩ := refill_good s enc r hg
      simp only [Rd.fill, h1]
      cases hb : r1.buf with
      | nil =>
        have hr1 : remaining enc r = [] := by
          rcases hcase hb with hrest | ⟨f, hf, he⟩
          · rw [← hrem]; simp [remaining, hb, hrest]
          · exact absurd he (henc f hf)
        simp only [List.isEmpty_nil, if_true]
        exact ⟨fun h => by rw [hr1] at h; simp at h; omega, fun _ => ⟨_, _, rfl⟩⟩
      | cons x xs =>
        simp only [List.isEmpty_cons, Bool.false_eq_true, if_false]
        have hm1 : 1 ≤ min (x :: xs).length (want - pos) := by simp; omega
        have hmle : min (x :: xs).length (want - pos) ≤ (x :: xs).length := Nat.min_le_left _ _
        have hrem2 : remaining enc (r1.consume (min (x :: xs).length (want - pos)))
            = (remaining enc r).drop (min (x :: xs).length (want - pos)) := by
          rw [← hrem]
          simp only [remaining, Rd.consume, hb]
          rw [List.drop_append_of_le_length hmle]
        have hg2 : Good s (r1.consume (min (x :: xs).length (want - pos))).dec := hg1
        have henc2 : ∀ f ∈ (r1.consume (min (x :: xs).length (want - pos))).dec.rest, enc f ≠ [] :=
          fun f hf => henc f (hsub f hf)
        obtain ⟨ihA, ihB⟩ := ih (r1.consume (min (x :: xs).length (want - pos))) (pos + min (x :: xs).length (want - pos))
          hg2 henc2 (by omega)
        have hlenrem : (remaining enc r).length ≥ (x :: xs).length := by
          rw [← hrem]; simp [remaining, hb]
        constructor
        · intro hle
          obtain ⟨r', e1, e2, e3⟩ := ihA (by rw [hrem2, List.length_drop]; omega)
          refine ⟨r', e1, e2, ?_⟩
          rw [e3, hrem2, List.drop_drop]
          congr 1; omega
        · intro hlt
          exact ihB (by rw [hrem2, List.length_drop]; omega)

/-- all units of a frame list, given that every frame encodes to `len · u` units -/
theorem flatMap_length (enc : FrameInfo → List α) (u : Nat) (fs : List FrameInfo)
    (h : ∀ f ∈ fs, (enc f).length = f.len * u) : (fs.flatMap enc).length = lens fs * u := by
  induction fs with
  | nil => simp [lens]
  | cons f fs ih =>
    simp only [List.flatMap_cons, List.length_append, lens, List.map_cons, List.sum_cons]
    rw [h f (by simp), ih (fun g hg => h g (by simp [hg]))]
    simp only [lens, Nat.add_mul]

/-- **seek_refines_cursor** (generic over the unit: bytes for the byte reader with `u` =
    bytes per PCM frame, interleaved samples for the sample reader with `u` = channels).
    After repositioning with `Decoder::seek` and the skip-forward loop, what the reader will deliver
    is exactly the full stream from unit `target·u + extra` on — like a cursor over the decoded
    PCM — when that position exists, and the seek fails when it does not. -/
theorem seek_refines_cursor (s : Stream) (enc : FrameInfo → List α) (u : Nat) (want : Nat) (sample : Nat)
    (hok : StreamOk s) (ht : TableTruthful s) (hu : 0 < u)
    (hlen : ∀ f ∈ s.frames, (enc f).length = f.len * u)
    (hsample : sample * u ≤ want) (fuel : Nat) (hfuel : want < fuel) :
    (want ≤ (s.frames.flatMap enc).length →
      ∃ r', Rd.skipTo s enc want fuel { dec := (Dec.seek s sample).1, buf := [] } ((Dec.seek s sample).2 * u) = (none, r')
        ∧ remaining enc r' = (s.frames.flatMap enc).drop want ∧ Good s r'.dec)
    ∧ ((s.frames.flatMap enc).length < want →
      ∃ e r', Rd.skipTo s enc want fuel { dec := (Dec.seek s sample).1, buf := [] } ((Dec.seek s sample).2 * u) = (some e, r')) := by
  obtain ⟨pre, post, hsplit, hdec, hland, hle, hgood⟩ := seek_lands s sample hok ht
  rw [hdec, hland]
  have hpos : ∀ f ∈ post, enc f ≠ [] := by
    intro f hf he
    have h1 := hlen f (by simp [hsplit, hf])
    have h2 : 0 < f.len := hgood.1 f hf
    rw [he] at h1; simp at h1
    have : 0 < f.len * u := Nat.mul_pos h2 hu
    omega
  have hprelen : (pre.flatMap enc).length = lens pre * u :=
    flatMap_length enc u pre (fun f hf => hlen f (by simp [hsplit, hf]))
  have hle2 : lens pre * u ≤ want := Nat.le_trans (Nat.mul_le_mul_right u hle) hsample
  obtain ⟨hA, hB⟩ := skipTo_spec s enc want fuel { dec := { rest := post, cur := lens pre }, buf := [] } (lens pre * u)
    hgood hpos (by omega)
  have hremain : remaining enc { dec := { rest := post, cur := lens pre }, buf := ([] : List α) } = post.flatMap enc := by
    simp [remaining]
  have hall : s.frames.flatMap enc = pre.flatMap enc ++ post.flatMap enc := by rw [hsplit, List.flatMap_append]
  constructor
  · intro hw
    obtain ⟨r', e1, e2, e3⟩ := hA (by rw [hremain]; rw [hall, List.length_append, hprelen] at hw; omega)
    refine ⟨r', e1, ?_, e2⟩
    rw [e3, hremain, hall]
    have hd : (pre.flatMap enc).drop want = [] := List.drop_of_length_le (by rw [hprelen]; exact hle2)
    rw [List.drop_append, hd, hprelen]
    simp
  · intro hw
    exact hB (by rw [hremain]; rw [hall, List.length_append, hprelen] at hw; omega)

/-- **End-relative requests are measured in BYTES**: on a stream of `t` PCM frames of `bpf` bytes,
    `End(−k)` asks for byte `t·bpf − k`, `End(0)` for `t·bpf`, and a positive offset is refused -/
theorem end_seek_in_bytes (s : Stream) (r : Rd Nat) (t k : Nat) (htot : s.total = some t)
    (hk : k ≤ t * (bytesPerSample s.bps * s.ch)) :
    byteSeekTarget s r .fromEnd (-(k : Int)) = .ok (t * (bytesPerSample s.bps * s.ch) - k)
    ∧ (∀ j : Nat, 0 < j → byteSeekTarget s r .fromEnd (j : Int) = .error (.err "Io(InvalidInput)"))
    ∧ (t * (bytesPerSample s.bps * s.ch) < k + 0 → False) := by
  refine ⟨?_, ?_, by omega⟩
  · unfold byteSeekTarget
    simp only [htot]
    by_cases hk0 : k = 0
    · subst hk0; simp
    · have hneg : (-(k : Int)) < 0 := by omega
      have h1 : ¬ ((t * (bytesPerSample s.bps * s.ch) : Nat) : Int) + -(k : Int) < 0 := by omega
      have h2 : (((t * (bytesPerSample s.bps * s.ch) : Nat) : Int) + -(k : Int)).toNat = t * (bytesPerSample s.bps * s.ch) - k := by omega
      simp only [hneg, if_true, h1, if_false, h2]
  · intro j hj
    unfold byteSeekTarget
    simp only [htot]
    have h1 : ¬ ((j : Int) < 0) := by omega
    have h2 : ((j : Int) == 0) = false := by simp; omega
    simp [h1, h2]

/-- start-relative requests are taken literally; current-relative ones from
    `current_sample·bpf − |buffer|`, the number of bytes delivered so far -/
theorem start_current_targets (s : Stream) (r : Rd Nat) (n : Nat) (d : Int) (hd : 0 < d)
    (hsmall : ((r.dec.cur * (bytesPerSample s.bps * s.ch) : Nat) : Int) - (r.buf.length : Nat) + d < 18446744073709551616) :
    byteSeekTarget s r .start (n : Int) = .ok n
    ∧ byteSeekTarget s r .current d = .ok (((r.dec.cur * (bytesPerSample s.bps * s.ch) : Nat) : Int) - (r.buf.length : Nat) + d).toNat := by
  constructor
  · unfold byteSeekTarget
    have : ¬ ((n : Int) < 0) := by omega
    simp [this]
  · unfold byteSeekTarget
    have h1 : ¬ (d < 0) := by omega
    have h2 : (d == 0) = false := by simp; omega
    have h3 : ¬ (((r.dec.cur * (bytesPerSample s.bps * s.ch) : Nat) : Int) - (r.buf.length : Nat) + d ≥ 18446744073709551616) := by omega
    simp only [h1, if_false, h2, h3]
    simp


/-! ### the per-channel reader -/

/-- PCM frames the channel reader can still hand out -/
def avail (r : ChanRd) : Nat := (r.pcmFrames - r.consumed) + lens r.dec.rest

/-- channel `c` exists in the frame being consumed and in every unread frame -/
def ChanIn (c : Nat) (r : ChanRd) : Prop := (∀ f ∈ r.dec.rest, c < f.chans.length) ∧ (r.frame = [] ∨ c < r.frame.length)

theorem rest_chan_length (c : Nat) (fs : List FrameInfo) (hrect : ∀ f ∈ fs, Rect f) (hin : ∀ f ∈ fs, c < f.chans.length) :
    (fs.flatMap (fun f => f.chans.getD c [])).length = lens fs := by
  induction fs with
  | nil => simp [lens]
  | cons f fs ih =>
    have hc := hin f (by simp)
    have : (f.chans.getD c []).length = f.len := by
      rw [List.getD_eq_getElem?_getD, List.getElem?_eq_getElem hc]
      exact hrect f (by simp) _ (List.getElem_mem hc)
    simp only [List.flatMap_cons, List.length_append, this, lens, List.map_cons, List.sum_cons]
    have := ih (fun g hg => hrect g (by simp [hg])) (fun g hg => hin g (by simp [hg]))
    simp only [lens] at this
    omega

theorem frame_chan_length (c : Nat) (r : ChanRd) (hr : FrameRect r) (hin : r.frame = [] ∨ c < r.frame.length) :
    (r.frame.getD c []).length = r.pcmFrames := by
  rcases hin with h | h
  · simp [h, ChanRd.pcmFrames]
  · rw [List.getD_eq_getElem?_getD, List.getElem?_eq_getElem h]
    exact hr _ (List.getElem_mem h)

theorem chanRemaining_length (c : Nat) (r : ChanRd) (hr : FrameRect r) (hrest : ∀ f ∈ r.dec.rest, Rect f) (hin : ChanIn c r) :
    (chanRemaining c r).length = avail r := by
  simp only [chanRemaining, List.length_append, List.length_drop, frame_chan_length c r hr hin.2,
    rest_chan_length c r.dec.rest hrest hin.1, avail]

/-- the channel reader's skip-forward loop drops exactly the requested number of PCM frames from EVERY channel when
    that many remain, and fails otherwise -/
theorem chan_skipTo_spec (s : Stream) (c : Nat) (want : Nat) (fuel : Nat) (r : ChanRd) (pos : Nat)
    (hg : Good s r.dec) (hr : FrameRect r) (hrest : ∀ f ∈ r.dec.rest, Rect f) (hin : ChanIn c r) (hfuel : want - pos < fuel) :
    (want - pos ≤ avail r →
        ∃ r', ChanRd.skipTo s want fuel r pos = (none, r') ∧ Good s r'.dec ∧ FrameRect r' ∧ (∀ f ∈ r'.dec.rest, Rect f)
          ∧ chanRemaining c r' = (chanRemaining c r).drop (want - pos))
    ∧ (avail r < want - pos → ∃ e r', ChanRd.skipTo s want fuel r pos = (some e, r')) := by
  induction fuel generalizing r pos with
  | zero => omega
  | succ fuel ih =>
    unfold ChanRd.skipTo
    by_cases hp : pos ≥ want
    · simp only [hp, if_true]
      have : want - pos = 0 := by omega
      exact ⟨fun _ => ⟨r, rfl, hg, hr, hrest, by simp [this]⟩, fun h => by omega⟩
    · simp only [hp, if_false]
      obtain ⟨b, r1, h1, hg1, hr1, hrest1, hrem, hblen, hsub, hframe, hzero⟩ := chanFill_exact s r hg hr hrest
      simp only [h1]
      have hin1 : ChanIn c r1 := by
        refine ⟨fun f hf => hin.1 f (hsub f hf), ?_⟩
        rcases hframe with h | h | ⟨f, hf, h⟩
        · rw [h]; exact hin.2
        · exact Or.inl h
        · right; rw [h]; exact hin.1 f hf
      have hav : avail r1 = avail r := by
        rw [← chanRemaining_length c r1 hr1 hrest1 hin1, ← chanRemaining_length c r hr hrest hin, hrem c]
      by_cases he : (b.headD []).isEmpty = true
      · rw [if_pos he]
        have hl0 : r1.pcmFrames - r1.consumed = 0 := by
          rw [← hblen]; simpa using he
        have : avail r = 0 := by
          rw [← hav]; simp [avail, hl0, hzero hl0, lens]
        exact ⟨fun h => by omega, fun _ => ⟨_, _, rfl⟩⟩
      · rw [if_neg he]
        have hbpos : 0 < (b.headD []).length := by
          cases hb : b.headD [] with
          | nil => rw [hb] at he; simp at he
          | cons x xs => simp
        have hm1 : 1 ≤ min (b.headD []).length (want - pos) := by
          have : 1 ≤ want - pos := by omega
          exact Nat.le_min.mpr ⟨hbpos, this⟩
        have hmle : min (b.headD []).length (want - pos) ≤ r1.pcmFrames - r1.consumed := by
          rw [← hblen]; exact Nat.min_le_left _ _
        -- consuming m ≤ what the current frame holds drops m from the channel
        have hcons : chanRemaining c (r1.consume (min (b.headD []).length (want - pos)))
            = (chanRemaining c r).drop (min (b.headD []).length (want - pos)) := by
          rw [← hrem c]
          simp only [chanRemaining, ChanRd.consume]
          rw [List.drop_append_of_le_length (by rw [List.length_drop, frame_chan_length c r1 hr1 hin1.2]; exact hmle), List.drop_drop]
        have hav2 : avail (r1.consume (min (b.headD []).length (want - pos))) = avail r - min (b.headD []).length (want - pos) := by
          rw [← hav]
          simp only [avail, ChanRd.consume, ChanRd.pcmFrames] at hmle ⊢
          omega
        have hm_av : min (b.headD []).length (want - pos) ≤ avail r := by
          rw [← hav]; simp only [avail]; omega
        have hm_w : min (b.headD []).length (want - pos) ≤ want - pos := Nat.min_le_right _ _
        obtain ⟨ihA, ihB⟩ := ih (r1.consume (min (b.headD []).length (want - pos))) (pos + min (b.headD []).length (want - pos))
          hg1 (fun ch hch => hr1 ch hch) hrest1 hin1 (by omega)
        constructor
        · intro hle
          obtain ⟨r', e1, e2, e3, e4, e5⟩ := ihA (by rw [hav2]; omega)
          refine ⟨r', e1, e2, e3, e4, ?_⟩
          rw [e5, hcons, List.drop_drop]
          congr 1; omega
        · intro hlt
          exact ihB (by rw [hav2]; omega)

/-- **chan_seek_lands**: after `FlacChannelReader::seek(sample)` on a valid rectangular stream with a truthful seek table
    (or none), what channel `c` will deliver is exactly that channel of the whole stream from PCM frame `sample` on, when
    that position exists; and the seek fails when it does not. -/
theorem chan_seek_lands (s : Stream) (c : Nat) (sample : Nat) (hok : StreamOk s) (ht : TableTruthful s)
    (hrect : ∀ f ∈ s.frames, Rect f) (hin : ∀ f ∈ s.frames, c < f.chans.length) :
    (sample ≤ lens s.frames →
      ∃ r', ChanRd.seek s sample = (none, r')
        ∧ chanRemaining c r' = (s.frames.flatMap (fun f => f.chans.getD c [])).drop sample ∧ Good s r'.dec)
    ∧ (lens s.frames < sample → ∃ e r', ChanRd.seek s sample = (some e, r')) := by
  obtain ⟨pre, post, hsplit, hdec, hland, hle, hgood⟩ := seek_lands s sample hok ht
  unfold ChanRd.seek
  have hpair : Dec.seek s sample = ((Dec.seek s sample).1, (Dec.seek s sample).2) := rfl
  rw [hpair, hdec, hland]
  dsimp only
  have hrpost : ∀ f ∈ post, Rect f := fun f hf => hrect f (by rw [hsplit]; simp [hf])
  have hinpost : ∀ f ∈ post, c < f.chans.length := fun f hf => hin f (by rw [hsplit]; simp [hf])
  have hfr : FrameRect { dec := { rest := post, cur := lens pre }, frame := [], consumed := 0 } := by
    intro ch hch; simp at hch
  have hci : ChanIn c { dec := { rest := post, cur := lens pre }, frame := [], consumed := 0 } := ⟨hinpost, Or.inl rfl⟩
  obtain ⟨hA, hB⟩ := chan_skipTo_spec s c sample (sample + 2) { dec := { rest := post, cur := lens pre }, frame := [], consumed := 0 }
    (lens pre) hgood hfr hrpost hci (by omega)
  have hav : avail { dec := { rest := post, cur := lens pre }, frame := [], consumed := 0 } = lens post := by
    simp [avail, ChanRd.pcmFrames]
  have hl : lens s.frames = lens pre + lens post := by rw [hsplit, lens_append]
  have hrem0 : chanRemaining c { dec := { rest := post, cur := lens pre }, frame := [], consumed := 0 }
      = post.flatMap (fun f => f.chans.getD c []) := by simp [chanRemaining]
  have hprelen : (pre.flatMap (fun f => f.chans.getD c [])).length = lens pre :=
    rest_chan_length c pre (fun f hf => hrect f (by rw [hsplit]; simp [hf])) (fun f hf => hin f (by rw [hsplit]; simp [hf]))
  constructor
  · intro hw
    obtain ⟨r', e1, e2, _, _, e5⟩ := hA (by rw [hav]; omega)
    refine ⟨r', e1, ?_, e2⟩
    rw [e5, hrem0, hsplit, List.flatMap_append]
    have hd : (pre.flatMap (fun f => f.chans.getD c [])).drop sample = [] := List.drop_of_length_le (by rw [hprelen]; exact hle)
    rw [List.drop_append, hd, hprelen]
    simp
  · intro hw
    exact hB (by rw [hav]; omega)

end Flac.C06
