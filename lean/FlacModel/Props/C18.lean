/-
  Props/C18.lean — parallel encoding is schedule-independent.
-/
import FlacModel.Model.Par
import FlacModel.Gen.KernelsEnc
import FlacModel.Gen.Par

namespace Flac.C18
open Flac.Par

variable {ι : Type} [DecidableEq ι] {σ : Type}

/-- one scheduler step never changes what any task will finally compute -/
theorem step_final (p : Pool ι σ) (i j : ι) : (p.step i).final j = p.final j := by
  unfold Pool.step
  cases h : p.prog i with
  | nil => rfl
  | cons f r =>
    simp only [Pool.final, upd]
    by_cases hj : j = i
    · subst hj; simp [h]
    · simp [hj]

theorem run_final (p : Pool ι σ) (sched : List ι) (j : ι) : (p.run sched).final j = p.final j := by
  induction sched generalizing p with
  | nil => rfl
  | cons i r ih =>
    simp only [Pool.run, List.foldl_cons]
    exact (ih (p.step i)).trans (step_final p i j)

/-- **Schedule independence.**  Under EVERY interleaving of the tasks' steps that runs them all to
    completion, every task ends in exactly the state serial execution gives it. -/
theorem schedule_independent (p : Pool ι σ) (sched : List ι) (hdone : (p.run sched).done) (j : ι) :
    (p.run sched).state j = p.serial j := by
  have := run_final p sched j
  simp only [Pool.final, hdone j, List.foldl_nil] at this
  exact this

/-- two complete schedules agree on every result, hence on anything computed from the results
    (the candidate chosen by written bits, the bytes appended to the file) -/
theorem outputs_agree {β : Type} (p : Pool ι σ) (s1 s2 : List ι) (h1 : (p.run s1).done) (h2 : (p.run s2).done)
    (select : (ι → σ) → β) : select (p.run s1).state = select (p.run s2).state := by
  have : (p.run s1).state = (p.run s2).state := by
    funext j
    rw [schedule_independent p s1 h1 j, schedule_independent p s2 h2 j]
  rw [this]

/-- the choice between the FIXED and the LPC candidate is a function of the two bit counts alone
    (regenerated from `encode.rs`): ties cannot be broken by timing -/
theorem pick_is_function (a b : Nat) : ∀ x y, x = a → y = b → Gen.encPickCandidate x y = Gen.encPickCandidate a b := by
  intro x y hx hy; subst hx hy; rfl

/-- the premise of the model, regenerated from the source: encode.rs has no Mutex, atomic, RefCell,
    static mut or unsafe through which two parallel closures could share mutable state -/
theorem no_shared_mutable_state : Gen.encNoSharedMutableState = true := rfl

/-- non-vacuity: two tasks, two different complete schedules, same results -/
example :
    let p : Pool Bool Nat := { state := fun _ => 1, prog := fun b => if b then [(· + 2), (· * 3)] else [(· * 5)] }
    ((p.run [true, false, true]).state true, (p.run [true, false, true]).state false)
      = ((p.run [false, true, true]).state true, (p.run [false, true, true]).state false) := by decide

end Flac.C18
