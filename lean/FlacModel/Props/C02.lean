/-
  Props/C02.lean — C02: encoder output is conforming RFC 9639.
  Obligations on the definitions REGENERATED from the source (CRC tables, update expressions, header
  code tables), checked against the RFC's polynomials and tables written here from the RFC text.
-/
import FlacModel.Spec.Rfc
import FlacModel.Model.Decode
import FlacModel.Proofs.CrcEq
import FlacModel.Gen.KernelsEnc

namespace Flac.C02
open Flac Gen

/-- table entry `i` of an MSB-first CRC = eight LFSR steps of the byte `i` -/
def specEntry (width poly i : Nat) : Nat := Spec.crcBits width poly (natToBits 8 i)

/-- `crc.rs` CRC-8 table is the table of x⁸+x²+x+1 (RFC 9639 §9.1.8) — all 256 entries -/
theorem gen_crc8_is_poly07 : ∀ i : Fin 256, crc8Table.getD i.val 0 = specEntry 8 0x07 i.val := by
  decide +kernel

/-- `crc.rs` CRC-16 table is the table of x¹⁶+x¹⁵+x²+1 (RFC 9639 §9.3) — all 256 entries.
    (an entry is the LFSR run on the byte followed by eight zero bits shifted through 16-bit state) -/
theorem gen_crc16_is_poly8005 :
    ∀ i : Fin 256, crc16Table.getD i.val 0 = Spec.crcBits 16 0x8005 (natToBits 8 i.val) := by
  decide +kernel

/-- the update expressions extracted from `Crc8::update` / `Crc16::update` are the standard
    MSB-first table-driven forms -/
theorem gen_crc8_update_shape (c b : Nat) : crc8Update c b = crc8Table.getD (Nat.xor c b) 0 := rfl

theorem gen_crc16_update_shape (c b : Nat) :
    crc16Update c b = Nat.xor (crc16Table.getD (Nat.xor (c / 2 ^ 8 % 256) b) 0) (c * 2 ^ 8 % 65536) := rfl

/-- **The checksums the crate computes are the RFC's checksums, on every message of every length**: the table-driven
    `Crc16`/`Crc8` of crc.rs (tables and update expressions regenerated into `Gen/Crc.lean`) equal the bit-serial LFSRs
    of x¹⁶+x¹⁵+x²+1 and x⁸+x²+x+1 written from the RFC.  Proof (`Proofs/CrcEq.lean`): the LFSR step is linear over
    xor, so eight steps from any state are "eight steps of the state" xor "the table entry of the byte"; the tables are
    checked entry by entry. -/
theorem crc16_all_messages (bs : List Nat) (hb : ∀ x ∈ bs, x < 256) : crc16 bs = Spec.crc16 bs :=
  CrcEq.crc16_eq_spec bs hb

theorem crc8_all_messages (bs : List Nat) (hb : ∀ x ∈ bs, x < 256) : crc8 bs = Spec.crc8 bs :=
  CrcEq.crc8_eq_spec bs hb

/-- the one-byte instances, by evaluation (kept as a direct table check) -/
theorem gen_crc16_one_byte : ∀ i : Fin 256, crc16 [i.val] = Spec.crc16 [i.val] := by
  decide +kernel

theorem gen_crc8_one_byte : ∀ i : Fin 256, crc8 [i.val] = Spec.crc8 [i.val] := by
  decide +kernel

/-- **The residual the encoder records is the exact difference** `sample − ⌊Σ cᵢ·xᵢ / 2^shift⌋` whenever it records one, so
    the RFC's exact reconstruction `residual + prediction` gives the sample back - also when the prediction itself lies
    outside 32 bits (32-bit audio with a large step), where a prediction truncated before the subtraction would encode
    the sample plus a multiple of 2^32.  (`encResidualStep` is regenerated from `encode_residuals`.) -/
theorem residual_exact (x sum : Int) (shift : Nat) (r : Int) (h : encResidualStep x sum shift = some r) :
    r + sum / 2 ^ shift = x ∧ fitsS 32 r = true := by
  simp only [encResidualStep, checkedSubS, Int.toNat_natCast] at h
  split at h
  · rename_i hf
    simp only [Option.some.injEq] at h
    subst h
    exact ⟨by omega, hf⟩
  · simp at h

/-- the step that exposed the truncation: warm-up −1553219575, 1939558944 with coefficients 2, −1 predicts 5432337463,
    which is outside 32 bits; the residual is refused rather than wrapped -/
example : encResidualStep 1939558944 (2 * 1939558944 - -1553219575) 0 = none := by decide

/-! ### header code tables (RFC 9639 §9.1.1–§9.1.4, Tables 14–17) written from the RFC -/

def rfcBlockSizes : List (Nat × Nat) :=
  [(1, 192), (2, 576), (3, 1152), (4, 2304), (5, 4608), (8, 256), (9, 512), (10, 1024), (11, 2048),
   (12, 4096), (13, 8192), (14, 16384), (15, 32768)]
def rfcSampleRates : List (Nat × Nat) :=
  [(1, 88200), (2, 176400), (3, 192000), (4, 8000), (5, 16000), (6, 22050), (7, 24000), (8, 32000),
   (9, 44100), (10, 48000), (11, 96000)]
def rfcChannels : List (Nat × Nat) := [(0, 1), (1, 2), (2, 3), (3, 4), (4, 5), (5, 6), (6, 7), (7, 8)]
def rfcBps : List (Nat × Nat) := [(1, 8), (2, 12), (4, 16), (5, 20), (6, 24), (7, 32)]

/-- every header code table extracted from `stream.rs` is the RFC's table, including the
    uncommon/reserved codes and the sync code -/
theorem gen_tables_eq_rfc :
    blockSizeCodeFixed = rfcBlockSizes ∧ blockSizeCodeU8 = [6] ∧ blockSizeCodeU16 = [7] ∧ blockSizeCodeInvalid = [0]
    ∧ sampleRateCodeFixed = rfcSampleRates ∧ sampleRateCodeStreaminfo = [0] ∧ sampleRateCodeKHz = [12]
    ∧ sampleRateCodeHz = [13] ∧ sampleRateCodeDHz = [14] ∧ sampleRateCodeInvalid = [15]
    ∧ [sampleRateKHzBits, sampleRateKHzMul, sampleRateHzBits, sampleRateHzMul, sampleRateDHzBits, sampleRateDHzMul] = [8, 1000, 16, 1, 16, 10]
    ∧ chanCodeIndependent = rfcChannels ∧ chanCodeLeftSide = [8] ∧ chanCodeSideRight = [9] ∧ chanCodeMidSide = [10]
    ∧ chanCodeInvalid = [11, 12, 13, 14, 15]
    ∧ bpsCodeFixed = rfcBps ∧ bpsCodeStreaminfo = [0] ∧ bpsCodeInvalid = [3]
    ∧ [subTypeConstant, subTypeVerbatim, subTypeFixedLo, subTypeFixedHi, subTypeFixedBase, subTypeLpcLo, subTypeLpcHi, subTypeLpcBase]
        = [0, 1, 8, 12, 8, 32, 63, 31]
    ∧ fixedCoeffs = [[], [1], [2, -1], [3, -3, 1], [4, -6, 4, -1]]
    ∧ syncCode15 = 0x7FFC ∧ maxFrameNumber = 2 ^ 36 - 1 := by
  repeat' apply And.intro
  all_goals decide

/-- the code the writer picks for a value is a code the reader maps back to that value -/
theorem gen_write_read_inverse :
    (∀ p ∈ blockSizeWriteFixed, lookup blockSizeCodeFixed p.2 = some p.1)
    ∧ (∀ p ∈ sampleRateWriteFixed, lookup sampleRateCodeFixed p.2 = some p.1)
    ∧ (∀ p ∈ chanWriteIndependent, lookup chanCodeIndependent p.2 = some p.1)
    ∧ (∀ p ∈ bpsWriteFixed, lookup bpsCodeFixed p.2 = some p.1)
    ∧ blockSizeCodeU8.contains blockSizeWriteU8 = true ∧ blockSizeCodeU16.contains blockSizeWriteU16 = true
    ∧ sampleRateCodeKHz.contains sampleRateWriteKHz = true ∧ sampleRateCodeHz.contains sampleRateWriteHz = true
    ∧ sampleRateCodeDHz.contains sampleRateWriteDHz = true ∧ sampleRateCodeStreaminfo.contains sampleRateWriteStreaminfo = true
    ∧ chanCodeLeftSide.contains chanWriteLeftSide = true ∧ chanCodeSideRight.contains chanWriteSideRight = true
    ∧ chanCodeMidSide.contains chanWriteMidSide = true ∧ bpsCodeStreaminfo.contains bpsWriteStreaminfo = true := by
  repeat' apply And.intro
  all_goals decide

/-- the L0 partition layout is the one the (fixed) encoder rule produces whenever the RFC's
    conditions hold: `2^po ∣ bs` and `(bs >> po) > order` -/
theorem rfc_layout_is_rchunks (bs order po : Nat) (hdiv : bs % 2 ^ po = 0) (hgt : order < bs / 2 ^ po) (ho : 0 < order) :
    Spec.rfcLayout bs order po = .ok (rchunkSizes (bs - order) (bs / 2 ^ po)) := by
  have hc : 0 < bs / 2 ^ po := by omega
  have hpow : 0 < 2 ^ po := Nat.two_pow_pos po
  have hbs : bs = bs / 2 ^ po * 2 ^ po := by
    have := Nat.div_add_mod bs (2 ^ po); rw [hdiv] at this; rw [Nat.mul_comm] at this; omega
  simp only [Spec.rfcLayout, hdiv, ne_eq, not_true_eq_false, if_false]
  have : ¬ bs / 2 ^ po ≤ order := by omega
  simp only [this, if_false]
  congr 1
  -- bs − order = (c − order) + (2^po − 1)·c with 0 < c − order < c
  generalize hcdef : bs / 2 ^ po = c at *
  generalize hndef : 2 ^ po = n at *
  have hn1 : 1 ≤ n := hpow
  have e : bs - order = (c - order) + (n - 1) * c := by
    have : c * n = c * (n - 1) + c := by
      have : n = (n - 1) + 1 := by omega
      conv => lhs; rw [this, Nat.mul_add, Nat.mul_one]
    rw [hbs, this]; rw [Nat.mul_comm c (n-1)]; omega
  unfold rchunkSizes
  have hmod : (bs - order) % c = c - order := by
    rw [e, Nat.add_mul_mod_self_right]; exact Nat.mod_eq_of_lt (by omega)
  have hdivv : (bs - order) / c = n - 1 := by
    rw [e, Nat.add_mul_div_right _ _ hc, Nat.div_eq_of_lt (by omega)]; omega
  rw [hmod, hdivv]
  have : ¬ c - order = 0 := by omega
  simp [this]

end Flac.C02
