/-
  Props/C01d.lean — C01 for whole FILES: the metadata section the block writer emits (`write_blocks`, model
  `writeBlocks`) followed by well-formed frames is decoded by the file readers' model (`fileDecode`: "fLaC" tag,
  block headers, STREAMINFO, then the frame loop) to exactly the frames' samples, with the STREAMINFO that was written.
-/
import FlacModel.Props.C01c
import FlacModel.Props.C11
import FlacModel.Proofs.FileHead
import FlacModel.Props.C07b

namespace Flac.C01
open Flac Gen

theorem serialize_length_pos (f : Frame) : 1 ≤ f.serialize.length := by
  simp only [Frame.serialize, Frame.serializeWith, List.length_append, List.length_cons, List.length_nil]
  omega

theorem flatten_length_ge (fs : List Frame) : fs.length ≤ ((fs.map (·.serialize)).flatten).length := by
  induction fs with
  | nil => simp
  | cons f fs ih =>
    have := serialize_length_pos f
    simp only [List.map_cons, List.flatten_cons, List.length_append, List.length_cons]
    omega

/-- the frame loop over serialized well-formed frames, for any sufficient fuel -/
theorem frames_loop (p : Profile) (si : SInfo) (total : Nat) (htot : total ≠ 0)
    (items : List (Frame × List (List Int) × List (List Int))) (rest : List Nat)
    (h : ∀ it ∈ items, FrameWf (some si) it.1
      ∧ subsDecode p it.1.hdr.assign it.1.hdr.blockSize it.1.hdr.bps it.1.subs it.2.1 0
      ∧ recorrelate p it.1.hdr.assign it.1.hdr.bps it.2.1 = .ok it.2.2)
    (hblocks : blocksOk (items.map (·.1.hdr.blockSize)) total) (fuel : Nat) (hfuel : items.length < fuel) :
    decodeLoop p si total fuel ((items.map (·.1.serialize)).flatten ++ rest) 0 [] = (items.map (·.2.2), none) := by
  have e1 : (items.map fun it => (it.1.serialize, ({ hdr := it.1.hdr, channels := it.2.2, used := it.1.serialize.length } : Decoded))).map
      (·.2.hdr.blockSize) = items.map (·.1.hdr.blockSize) := by
    rw [List.map_map]; rfl
  have e2 : (items.map fun it => (it.1.serialize, ({ hdr := it.1.hdr, channels := it.2.2, used := it.1.serialize.length } : Decoded))).map
      (·.1) = items.map (·.1.serialize) := by
    rw [List.map_map]; rfl
  have e3 : (items.map fun it => (it.1.serialize, ({ hdr := it.1.hdr, channels := it.2.2, used := it.1.serialize.length } : Decoded))).map
      (·.2.channels) = items.map (·.2.2) := by
    rw [List.map_map]; rfl
  have key := declared_total_decodes_all p si total
    (items.map fun it => (it.1.serialize, ({ hdr := it.1.hdr, channels := it.2.2, used := it.1.serialize.length } : Decoded)))
    (by
      intro fd hfd
      obtain ⟨it, hit, rfl⟩ := List.mem_map.mp hfd
      obtain ⟨w, hx, hr⟩ := h it hit
      exact ⟨frame_roundtrip p (some si) it.1 it.2.1 it.2.2 w hx hr, rfl⟩)
    rest fuel 0 [] (by simpa using hfuel) (by omega) htot
    (by rw [e1, Nat.sub_zero]; exact hblocks)
  rw [e2, e3] at key
  simpa using key

/-- **A whole file is lossless.**  The metadata section written by `write_blocks` for any block list headed by a well-formed
    STREAMINFO with a declared total, followed by ANY sequence of frames that are well-formed against that STREAMINFO and whose
    block sizes add up to the total, is decoded by the file readers' model - tag, block walk, STREAMINFO, frame loop with its
    sample accounting - to exactly those frames' samples, in order, with a clean end of stream; trailing bytes are ignored. -/
theorem file_lossless (p : Profile) (si : Streaminfo) (rest : List Block) (hw : C11.streaminfoWf si = true) (out : List Nat)
    (h : writeBlocks (.streaminfo si :: rest) = .ok out) (htot : si.total ≠ 0)
    (items : List (Frame × List (List Int) × List (List Int))) (extra : List Nat)
    (hf : ∀ it ∈ items, FrameWf (some { rate := si.rate, channels := si.channels, bps := si.bps, maxBlock := si.maxBlock }) it.1
      ∧ subsDecode p it.1.hdr.assign it.1.hdr.blockSize it.1.hdr.bps it.1.subs it.2.1 0
      ∧ recorrelate p it.1.hdr.assign it.1.hdr.bps it.2.1 = .ok it.2.2)
    (hblocks : blocksOk (items.map (·.1.hdr.blockSize)) si.total) :
    ∃ hd, hd.si = si ∧
      fileDecode p (out ++ ((items.map (·.1.serialize)).flatten ++ extra))
        = .ok { head := hd, frames := items.map (·.2.2), stop := none } := by
  obtain ⟨hd, h1, h2, h3⟩ := file_head_roundtrip si rest hw out h ((items.map (·.1.serialize)).flatten ++ extra)
  refine ⟨hd, h2, ?_⟩
  unfold fileDecode
  rw [h1]; dsimp only
  have hdrop : (out ++ ((items.map (·.1.serialize)).flatten ++ extra)).drop hd.framesStart
      = (items.map (·.1.serialize)).flatten ++ extra := by rw [h3]; simp
  have hsi : sinfoOfHead hd = { rate := si.rate, channels := si.channels, bps := si.bps, maxBlock := si.maxBlock } := by
    simp [sinfoOfHead, h2]
  rw [hdrop, hsi, h2]
  have hlen := flatten_length_ge (items.map (·.1))
  rw [List.map_map] at hlen
  have := frames_loop p _ si.total htot items extra hf hblocks
    ((out ++ ((items.map (·.1.serialize)).flatten ++ extra)).length + 2)
    (by
      simp only [List.length_append, List.length_map] at hlen ⊢
      have e : (List.map ((fun x => x.serialize) ∘ fun x => x.1) items) = items.map (·.1.serialize) := rfl
      rw [e] at hlen
      omega)
  rw [this]

end Flac.C01
