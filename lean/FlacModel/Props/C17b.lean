/-
  Props/C17b.lean — C17, main statement: every frame the structural parser accepts (with valid checksums) is the
  serialization of a well-formed frame - writing the parsed structure back yields the bytes that were read - and
  its samples are what the streaming decoder returns for the same bytes.
-/
import FlacModel.Props.C17
import FlacModel.Proofs.CodecConv

namespace Flac.C17
open Flac Gen

theorem structLayout_eq : structLayout = decLayout :=
  funext fun bs => funext fun o => funext fun po => layouts_agree bs o po

theorem decLayout_fits : LayoutFits decLayout := by
  intro bs o po sizes h
  have := structLayout_sum bs o po sizes (by rw [layouts_agree]; exact h)
  omega

theorem crcValid8 (c : Nat) (h : crc8Valid c = true) : c = 0 := by simpa [crc8Valid] using h
theorem crcValid16 (c : Nat) (h : crc16Valid c = true) : c = 0 := by simpa [crc16Valid] using h

theorem take_lt (bytes : List Nat) (hb : ∀ x ∈ bytes, x < 256) (k : Nat) : ∀ x ∈ bytes.take k, x < 256 :=
  fun x hx => hb x (List.mem_of_mem_take hx)

/-- **Re-serialisation.**  Whatever bytes the structural parser accepts as a frame with both checksums valid
    (depth ≤ 32), the parsed structure is a well-formed frame and writing it back gives exactly the bytes consumed. -/
theorem parse_reserializes (cw : Bool) (si : Option SInfo) (bytes : List Nat) (hb : ∀ x ∈ bytes, x < 256) (pr : Parsed)
    (h : parseFrame decLayout cw si bytes = .ok pr) (h16 : pr.crc16ok = true) (hbps : pr.frame.hdr.bps ≤ 32) :
    pr.frame.serialize = bytes.take pr.used ∧ FrameWf si pr.frame := by
  unfold parseFrame at h
  cases g1 : readHeaderFields si (bytesToBits bytes) with
  | error e => rw [g1] at h; cases h
  | ok v1 =>
    obtain ⟨hd, rest⟩ := v1
    rw [g1] at h; dsimp only at h
    cases g2 : checkStreaminfo si hd with
    | error e => rw [g2] at h; cases h
    | ok u =>
      cases u
      rw [g2] at h; dsimp only at h
      by_cases c8 : (true && !crc8Valid (crc8 (bytes.take (bytes.length - rest.length / 8)))) = true
      · rw [if_pos c8] at h; cases h
      · rw [if_neg c8] at h
        have c8ok : crc8Valid (crc8 (bytes.take (bytes.length - rest.length / 8))) = true := by
          cases hv : crc8Valid (crc8 (bytes.take (bytes.length - rest.length / 8))) with
          | true => rfl
          | false => rw [hv] at c8; simp at c8
        cases g3 : readSubframes decLayout cw hd.assign hd.blockSize hd.bps hd.assign.count 0 rest with
        | error e => rw [g3] at h; cases h
        | ok v3 =>
          obtain ⟨subs, rest2⟩ := v3
          rw [g3] at h; dsimp only at h
          cases g4 : readU 16 (rest2.drop (rest2.length % 8)) with
          | error e => rw [g4] at h; cases h
          | ok v4 =>
            obtain ⟨c16, rest3⟩ := v4
            rw [g4] at h
            simp only [Except.ok.injEq] at h
            subst h
            dsimp only at h16 hbps ⊢
            -- structure of the bits
            obtain ⟨e1, wH⟩ := readHeaderFields_sound si _ hd rest g1
            obtain ⟨e3, l3, w3⟩ := readSubframes_sound decLayout decLayout_fits cw hd.assign hd.blockSize hd.bps _ 0 rest subs rest2 g3
            obtain ⟨e4, q4⟩ := readU_sound 16 _ c16 rest3 g4
            have hH8 := writeHeaderFields_len8 si hd wH
            have hbl := bitsToBytes_length _ hH8
            have hpad : (rest2.take (rest2.length % 8)).length = rest2.length % 8 := by
              rw [List.length_take]; exact Nat.min_eq_left (Nat.mod_le _ _)
            have hr2 : rest2 = rest2.take (rest2.length % 8) ++ (natToBits 16 c16 ++ rest3) := by
              rw [← e4, List.take_append_drop]
            have hlen := congrArg List.length e1
            rw [bytesToBits_length] at hlen
            simp only [List.length_append, natToBits_length] at hlen
            have hlen3 := congrArg List.length e3
            simp only [List.length_append] at hlen3
            have hlen2 := congrArg List.length hr2
            simp only [List.length_append, natToBits_length, hpad] at hlen2
            -- header bytes
            have hk1 : bytes.length - rest.length / 8 = (bitsToBytes (writeHeaderFields hd)).length + 1 := by omega
            have hx1 : (writeHeaderFields hd ++ natToBits 8 hd.hcrc).length = 8 * ((bitsToBytes (writeHeaderFields hd)).length + 1) := by
              simp only [List.length_append, natToBits_length]; omega
            have t1 := (bytesToBits_take bytes _ rest _ (by rw [e1]) hx1).1
            have hhead : bytes.take ((bitsToBytes (writeHeaderFields hd)).length + 1) = bitsToBytes (writeHeaderFields hd) ++ [hd.hcrc] := by
              rw [← bitsToBytes_bytesToBits _ (take_lt bytes hb _), t1, bitsToBytes_append _ _ hH8]
              have := bitsToBytes_byte hd.hcrc wH.hcrc []
              rw [List.append_nil] at this
              rw [this]; rfl
            rw [hk1, hhead] at c8ok
            have hcrc : hd.hcrc = crc8 (bitsToBytes (writeHeaderFields hd)) := crc8_pins _ _ wH.hcrc (crcValid8 _ c8ok)
            -- alignment
            have hal : ((writeSubframes hd.assign hd.bps subs 0).length + (rest2.take (rest2.length % 8)).length) % 8 = 0 := by
              rw [hpad]; omega
            have hsb : (writeSubframes hd.assign hd.bps subs 0 ++ rest2.take (rest2.length % 8)).length % 8 = 0 := by
              rw [List.length_append]; exact hal
            have hsl := bitsToBytes_length _ hsb
            simp only [List.length_append, hpad] at hsl
            -- all frame bits
            have ebits : bytesToBits bytes = (writeHeaderFields hd ++ natToBits 8 hd.hcrc ++
                ((writeSubframes hd.assign hd.bps subs 0 ++ rest2.take (rest2.length % 8)) ++ natToBits 16 c16)) ++ rest3 := by
              rw [e1, e3]
              conv => lhs; rw [hr2]
              simp only [List.append_assoc]
            have hused : bytes.length - rest3.length / 8 = (bitsToBytes (writeHeaderFields hd)).length + 1 +
                ((bitsToBytes (writeSubframes hd.assign hd.bps subs 0 ++ rest2.take (rest2.length % 8))).length + 2) := by
              omega
            have hx2 : (writeHeaderFields hd ++ natToBits 8 hd.hcrc ++
                ((writeSubframes hd.assign hd.bps subs 0 ++ rest2.take (rest2.length % 8)) ++ natToBits 16 c16)).length
                = 8 * ((bitsToBytes (writeHeaderFields hd)).length + 1 +
                ((bitsToBytes (writeSubframes hd.assign hd.bps subs 0 ++ rest2.take (rest2.length % 8))).length + 2)) := by
              simp only [List.length_append, natToBits_length, hpad]; omega
            have t2 := (bytesToBits_take bytes _ rest3 _ ebits hx2).1
            have hx1' : (writeHeaderFields hd ++ natToBits 8 hd.hcrc).length % 8 = 0 := by rw [hx1]; omega
            have hall : bytes.take (bytes.length - rest3.length / 8) =
                bitsToBytes (writeHeaderFields hd) ++ [hd.hcrc] ++
                  bitsToBytes (writeSubframes hd.assign hd.bps subs 0 ++ rest2.take (rest2.length % 8)) ++ [c16 / 256, c16 % 256] := by
              rw [hused, ← bitsToBytes_bytesToBits _ (take_lt bytes hb _), t2, bitsToBytes_append _ _ hx1',
                bitsToBytes_append _ _ hH8, bitsToBytes_append _ _ hsb, bitsToBytes_u16 c16 q4]
              have := bitsToBytes_byte hd.hcrc wH.hcrc []
              rw [List.append_nil] at this
              rw [this]; simp [bitsToBytes]
            have h16' := crcValid16 _ h16
            rw [hall] at h16'
            obtain ⟨p1, p2⟩ := crc16_pins _ _ _ (by omega) (by omega) h16'
            refine ⟨?_, ?_⟩
            · rw [hall]
              simp only [Frame.serialize, Frame.serializeWith, ← hcrc]
              rw [← p1, ← p2]
            · exact { hdr := wH, hcrc := hcrc, check := g2, bps := hbps, count := l3, subs := w3,
                      padLt := by rw [hpad]; omega, aligned := hal }


/-- the same for the structural parser's own partition rule (the two rules are the same function: `layouts_agree`) -/
theorem struct_parse_reserializes (cw : Bool) (si : Option SInfo) (bytes : List Nat) (hb : ∀ x ∈ bytes, x < 256) (pr : Parsed)
    (h : parseFrame structLayout cw si bytes = .ok pr) (h16 : pr.crc16ok = true) (hbps : pr.frame.hdr.bps ≤ 32) :
    pr.frame.serialize = bytes.take pr.used ∧ FrameWf si pr.frame := by
  rw [structLayout_eq] at h
  exact parse_reserializes cw si bytes hb pr h h16 hbps

/-- **The parsed structure's samples are the streaming decoder's samples.**  If the structural parser accepts a frame
    (checksums valid) and its subframes expand (in the arithmetic of profile `p`) to `xss`, which channel reconstruction
    turns into `out`, then the streaming decoder accepts the same bytes, consumes the same number of them, and returns
    exactly `out` - whatever follows the frame. -/
theorem parse_agrees_with_decoder (p : Profile) (cw : Bool) (si : Option SInfo) (bytes : List Nat) (hb : ∀ x ∈ bytes, x < 256)
    (pr : Parsed) (xss out : List (List Int))
    (h : parseFrame structLayout cw si bytes = .ok pr) (h16 : pr.crc16ok = true) (hbps : pr.frame.hdr.bps ≤ 32)
    (hx : subsDecode p pr.frame.hdr.assign pr.frame.hdr.blockSize pr.frame.hdr.bps pr.frame.subs xss 0)
    (hr : recorrelate p pr.frame.hdr.assign pr.frame.hdr.bps xss = .ok out) :
    decodeFrame p si bytes = .ok { hdr := pr.frame.hdr, channels := out, used := (bytes.take pr.used).length } := by
  obtain ⟨e, w⟩ := struct_parse_reserializes cw si bytes hb pr h h16 hbps
  have := Flac.decodeFrame_serialize p si pr.frame xss out w hx hr
  rw [e] at this
  have := decodeFrame_ext p si _ _ this (bytes.drop pr.used)
  rwa [List.take_append_drop] at this

/-- whatever the streaming decoder reads subframe by subframe, the structural parser reads too, leaving the same rest -/
theorem decSubframes_inv (p : Profile) (a : Assign) (bs bps n i : Nat) (b : Bits) (xss : List (List Int)) (r : Bits)
    (h : decSubframes p a bs bps n i b = .ok (xss, r)) :
    ∃ ss, readSubframes decLayout true a bs bps n i b = .ok (ss, r) ∧ subsDecode p a bs bps ss xss i := by
  induction n generalizing i b xss with
  | zero =>
    simp only [decSubframes, Except.ok.injEq, Prod.mk.injEq] at h
    obtain ⟨rfl, rfl⟩ := h
    exact ⟨[], rfl, trivial⟩
  | succ n ih =>
    simp only [decSubframes] at h
    cases h1 : readSubframe decLayout true bs (subBps a bps i) b with
    | error e => rw [h1] at h; cases h
    | ok v1 =>
      obtain ⟨s, b1⟩ := v1
      rw [h1] at h; dsimp only at h
      cases h2 : decodeSub p (subWidth a bps i) bs s with
      | error e => rw [h2] at h; cases h
      | ok xs =>
        rw [h2] at h; dsimp only at h
        cases h3 : decSubframes p a bs bps n (i + 1) b1 with
        | error e => rw [h3] at h; cases h
        | ok v3 =>
          obtain ⟨xss', b2⟩ := v3
          rw [h3] at h
          simp only [Except.ok.injEq, Prod.mk.injEq] at h
          obtain ⟨rfl, rfl⟩ := h
          obtain ⟨ss, g1, g2⟩ := ih (i + 1) b1 xss' h3
          exact ⟨s :: ss, by simp only [readSubframes, h1, g1], h2, g2⟩

/-- **Same acceptance.**  Every frame the streaming decoder accepts, the structural parser accepts too (same STREAMINFO
    context, with the warm-up guard), with both checksums valid, the same header and the same extent. -/
theorem decoder_accepts_implies_parser (p : Profile) (si : Option SInfo) (bytes : List Nat) (d : Decoded)
    (h : decodeFrame p si bytes = .ok d) :
    ∃ pr, parseFrame structLayout true si bytes = .ok pr ∧ pr.crc8ok = true ∧ pr.crc16ok = true
      ∧ pr.frame.hdr = d.hdr ∧ pr.used = d.used := by
  rw [structLayout_eq]
  unfold decodeFrame at h
  unfold parseFrame
  cases g1 : readHeaderFields si (bytesToBits bytes) with
  | error e => rw [g1] at h; cases h
  | ok v1 =>
    obtain ⟨hd, rest⟩ := v1
    rw [g1] at h; dsimp only at h ⊢
    cases g2 : checkStreaminfo si hd with
    | error e => rw [g2] at h; cases h
    | ok u =>
      cases u
      rw [g2] at h; dsimp only at h ⊢
      by_cases c8 : (!crc8Valid (crc8 (bytes.take (bytes.length - rest.length / 8)))) = true
      · rw [if_pos c8] at h; cases h
      · rw [if_neg c8] at h
        have c8' : crc8Valid (crc8 (bytes.take (bytes.length - rest.length / 8))) = true := by
          cases hv : crc8Valid (crc8 (bytes.take (bytes.length - rest.length / 8))) with
          | true => rfl
          | false => rw [hv] at c8; simp at c8
        by_cases cb : hd.bps > 32
        · rw [if_pos cb] at h; cases h
        · rw [if_neg cb] at h
          cases g3 : decSubframes p hd.assign hd.blockSize hd.bps hd.assign.count 0 rest with
          | error e => rw [g3] at h; cases h
          | ok v3 =>
            obtain ⟨chs, rest2⟩ := v3
            rw [g3] at h; dsimp only at h
            obtain ⟨ss, k1, _⟩ := decSubframes_inv p hd.assign hd.blockSize hd.bps _ 0 rest chs rest2 g3
            cases g4 : recorrelate p hd.assign hd.bps chs with
            | error e => rw [g4] at h; cases h
            | ok out =>
              rw [g4] at h; dsimp only at h
              cases g5 : readU 16 (rest2.drop (rest2.length % 8)) with
              | error e => rw [g5] at h; cases h
              | ok v5 =>
                obtain ⟨c16, rest3⟩ := v5
                rw [g5] at h; dsimp only at h
                by_cases c16v : (!crc16Valid (crc16 (bytes.take (bytes.length - rest3.length / 8)))) = true
                · rw [if_pos c16v] at h; cases h
                · rw [if_neg c16v] at h
                  have c16' : crc16Valid (crc16 (bytes.take (bytes.length - rest3.length / 8))) = true := by
                    cases hv : crc16Valid (crc16 (bytes.take (bytes.length - rest3.length / 8))) with
                    | true => rfl
                    | false => rw [hv] at c16v; simp at c16v
                  simp only [Except.ok.injEq] at h
                  subst h
                  simp only [c8', Bool.not_true, Bool.and_false, Bool.false_eq_true, if_false, k1, g5]
                  exact ⟨_, rfl, rfl, c16', rfl, rfl⟩

end Flac.C17
