/-
  Props/C15b.lean — C15, "partition orders to 15 … yield a writer that works": whatever `max_partition_order` a writer was
  built with, the partitionings `write_residuals` tries never exceed the capacity of the fixed-size vector that holds one
  (`ArrayVec<_, MAX_PARTITIONS>`), so the documented values 7 … 15 cannot overflow it.
-/
import FlacModel.Props.C15
import FlacModel.Gen.KernelsEnc

namespace Flac.C15
open Flac Flac.Gen

/-- the partition orders `best_partitions` tries for a block whose size has `tz` trailing zero bits:
    `0 ..= tz.min(max_partition_order)[.min(MAX_PARTITIONS.ilog2())]` — whether the last clamp is there is regenerated from the source -/
def candidateOrders (tz maxPo : Nat) : List Nat :=
  List.range (min (min tz maxPo) (if encPartitionOrderCapped then Nat.log2 encMaxPartitions else maxPo) + 1)

/-- **no candidate partitioning exceeds the vector's capacity**, for every block size and every accepted `max_partition_order` -/
theorem candidates_fit (tz maxPo po : Nat) (h : po ∈ candidateOrders tz maxPo) : 2 ^ po ≤ encMaxPartitions := by
  simp only [candidateOrders, List.mem_range] at h
  have hc : encPartitionOrderCapped = true := rfl
  simp only [hc, if_true] at h
  have h6 : Nat.log2 encMaxPartitions = 6 := by decide
  have : po ≤ 6 := by omega
  calc 2 ^ po ≤ 2 ^ 6 := Nat.pow_le_pow_right (by decide) this
    _ = encMaxPartitions := by decide

/-- order 0 (one partition) is always tried, so there is always a candidate -/
theorem candidates_nonempty (tz maxPo : Nat) : 0 ∈ candidateOrders tz maxPo := by
  simp [candidateOrders]

/-- non-vacuity: a 4096-sample block with the documented maximum 15 tries orders 0 … 6 -/
example : candidateOrders 12 15 = [0, 1, 2, 3, 4, 5, 6] := by decide

end Flac.C15
