/-
  Props/C08.lean — C08: the encoded file depends only on the PCM and the options, not on how the
  input was split across write calls or which front-end supplied it.
-/
import FlacModel.Model.Writers

namespace Flac.C08
open Flac

/-- the writer's invariant against the total input so far -/
def Inv (F : Nat) (inp : List α) (w : Wr α) : Prop :=
  inp = w.blocks.flatten ++ w.buf ∧ (∀ b ∈ w.blocks, b.length = F) ∧ w.buf.length < F

theorem splitFull_spec (F : Nat) (hF : 0 < F) (fuel : Nat) (l : List α) (hf : l.length ≤ fuel) :
    l = (splitFull F fuel l).1.flatten ++ (splitFull F fuel l).2
    ∧ (∀ b ∈ (splitFull F fuel l).1, b.length = F) ∧ (splitFull F fuel l).2.length < F := by
  induction fuel generalizing l with
  | zero =>
    have : l = [] := List.length_eq_zero_iff.mp (by omega)
    subst this; simp [splitFull, hF]
  | succ n ih =>
    unfold splitFull
    by_cases h : F ≤ l.length
    · simp only [h, if_true]
      obtain ⟨e1, e2, e3⟩ := ih (l.drop F) (by simp; omega)
      refine ⟨?_, ?_, e3⟩
      · simp only [List.flatten_cons, List.append_assoc]
        rw [← e1, List.take_append_drop]
      · intro b hb
        simp only [List.mem_cons] at hb
        rcases hb with rfl | hb
        · simp; omega
        · exact e2 b hb
    · simp only [h, if_false]
      exact ⟨by simp, by simp, by simpa using h⟩

/-- blocks of length `F` followed by a remainder shorter than `F` determine each other -/
theorem decomposition_unique (F : Nat) (hF : 0 < F) (B1 B2 : List (List α)) (r1 r2 : List α)
    (h : B1.flatten ++ r1 = B2.flatten ++ r2) (h1 : ∀ b ∈ B1, b.length = F) (h2 : ∀ b ∈ B2, b.length = F)
    (l1 : r1.length < F) (l2 : r2.length < F) : B1 = B2 ∧ r1 = r2 := by
  induction B1 generalizing B2 with
  | nil =>
    cases B2 with
    | nil => simpa using h
    | cons b bs =>
      exfalso
      have hb := h2 b (by simp)
      have := congrArg List.length h
      simp at this; omega
  | cons a as ih =>
    cases B2 with
    | nil =>
      exfalso
      have ha := h1 a (by simp)
      have := congrArg List.length h
      simp at this; omega
    | cons b bs =>
      have ha := h1 a (by simp)
      have hb := h2 b (by simp)
      simp only [List.flatten_cons, List.append_assoc] at h
      have hab : a = b ∧ as.flatten ++ r1 = bs.flatten ++ r2 :=
        List.append_inj h (by rw [ha, hb])
      obtain ⟨e1, e2⟩ := ih bs hab.2 (fun x hx => h1 x (by simp [hx])) (fun x hx => h2 x (by simp [hx]))
      exact ⟨by rw [hab.1, e1], e2⟩

/-- one `write` call keeps the invariant for the extended input -/
theorem write_inv (F : Nat) (hF : 0 < F) (inp xs : List α) (w : Wr α) (h : Inv F inp w) :
    Inv F (inp ++ xs) (w.write F xs) := by
  obtain ⟨e, hb, _⟩ := h
  obtain ⟨s1, s2, s3⟩ := splitFull_spec F hF (w.buf ++ xs).length (w.buf ++ xs) (Nat.le_refl _)
  refine ⟨?_, ?_, s3⟩
  · simp only [Wr.write, List.flatten_append, List.append_assoc]
    rw [← s1, e, List.append_assoc]
  · intro b hbm
    simp only [Wr.write, List.mem_append] at hbm
    rcases hbm with h1 | h1
    · exact hb b h1
    · exact s2 b h1

theorem writes_inv (F : Nat) (hF : 0 < F) (ws : List (List α)) (inp : List α) (w : Wr α) (h : Inv F inp w) :
    Inv F (inp ++ ws.flatten) (ws.foldl (Wr.write F) w) := by
  induction ws generalizing inp w with
  | nil => simpa using h
  | cons x xs ih =>
    simp only [List.foldl_cons, List.flatten_cons]
    rw [← List.append_assoc]
    exact ih (inp ++ x) (w.write F x) (write_inv F hF inp x w h)

/-- **writer_chunking_indep** — for EVERY partition of the input into write calls (including calls
    that end mid-sample or mid-PCM-frame) the blocks handed to the encoder and the carry-over are
    those of a single call with the concatenated input -/
theorem writer_chunking_indep (F : Nat) (hF : 0 < F) (ws : List (List α)) :
    (ws.foldl (Wr.write F) Wr.init).blocks = ((Wr.init : Wr α).write F ws.flatten).blocks
    ∧ (ws.foldl (Wr.write F) Wr.init).buf = ((Wr.init : Wr α).write F ws.flatten).buf := by
  have hinit : Inv F ([] : List α) Wr.init := ⟨by simp [Wr.init], by simp [Wr.init], by simpa [Wr.init] using hF⟩
  have h1 := writes_inv F hF ws [] Wr.init hinit
  have h2 := write_inv F hF [] ws.flatten Wr.init hinit
  simp only [List.nil_append] at h1 h2
  exact decomposition_unique F hF _ _ _ _ (h1.1.symm.trans h2.1) h1.2.1 h2.2.1 h1.2.2 h2.2.2

/-- hence the complete block list after `finalize` is independent of the chunking too -/
theorem finalize_chunking_indep (F q : Nat) (hF : 0 < F) (ws : List (List α)) :
    (ws.foldl (Wr.write F) Wr.init).finalize q = ((Wr.init : Wr α).write F ws.flatten).finalize q := by
  obtain ⟨h1, h2⟩ := writer_chunking_indep F hF ws
  simp only [Wr.finalize, h1, h2]

/-- **partial_pcm_frame_dropped**: what is encoded in total is the input truncated to whole PCM
    frames (`q` units), provided a block is a whole number of PCM frames (`q ∣ F`); a trailing
    partial PCM frame is dropped, and nothing at all is encoded for it (no empty block). -/
theorem partial_pcm_frame_dropped (F q : Nat) (hF : 0 < F) (hq : 0 < q) (hdiv : q ∣ F) (inp : List α) (w : Wr α)
    (h : Inv F inp w) :
    (w.finalize q).flatten = inp.take (inp.length - inp.length % q) ∧ (∀ b ∈ w.finalize q, b ≠ []) := by
  obtain ⟨e, hb, hl⟩ := h
  have hBlen : w.blocks.flatten.length % q = 0 := by
    have : ∀ B : List (List α), (∀ b ∈ B, b.length = F) → B.flatten.length % q = 0 := by
      intro B hB
      induction B with
      | nil => simp
      | cons b bs ih =>
        obtain ⟨k, hk⟩ := hdiv
        simp only [List.flatten_cons, List.length_append, hB b (by simp)]
        have := ih (fun x hx => hB x (by simp [hx]))
        rw [hk, Nat.add_mod, this, Nat.mul_mod_right]; simp
    exact this w.blocks hb
  have hmod : inp.length % q = w.buf.length % q := by
    rw [e, List.length_append, Nat.add_mod, hBlen]; simp
  have hnonempty : ∀ b ∈ w.blocks, b ≠ [] := by
    intro b hbm hnil; have := hb b hbm; rw [hnil] at this; simp at this; omega
  have hmle : w.buf.length % q ≤ w.buf.length := Nat.mod_le _ _
  have htake : inp.take (inp.length - inp.length % q)
      = w.blocks.flatten ++ w.buf.take (w.buf.length - w.buf.length % q) := by
    rw [hmod, e, List.length_append, List.take_append]
    have h1 : w.blocks.flatten.length + w.buf.length - w.buf.length % q - w.blocks.flatten.length
        = w.buf.length - w.buf.length % q := by omega
    rw [h1, List.take_of_length_le (by omega)]
  unfold Wr.finalize
  by_cases ht : (w.buf.take (w.buf.length - w.buf.length % q)).isEmpty
  · simp only [ht, if_true]
    have : w.buf.take (w.buf.length - w.buf.length % q) = [] := by simpa using ht
    exact ⟨by rw [htake, this]; simp, hnonempty⟩
  · have ht' : (w.buf.take (w.buf.length - w.buf.length % q)).isEmpty = false := by simpa using ht
    simp only [ht', Bool.false_eq_true, if_false]
    refine ⟨by rw [htake]; simp, ?_⟩
    intro b hbm
    simp only [List.mem_append, List.mem_singleton] at hbm
    rcases hbm with h1 | h1
    · exact hnonempty b h1
    · rw [h1]; intro hnil; rw [hnil] at ht; simp at ht

/-- non-vacuity: three calls that split a 7-sample stereo input at odd places, block of 2 PCM
    frames: two full blocks, then a final block of one PCM frame, the 7th sample dropped -/
example : ([[1], [2, 3, 4, 5], [6, 7]].foldl (Wr.write 4) (Wr.init : Wr Nat)).finalize 2 = [[1, 2, 3, 4], [5, 6]] := by decide

end Flac.C08
