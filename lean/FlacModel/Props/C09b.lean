/-
  Props/C09b.lean — C09, last clause: when a seek table was written, regenerating one from the finished file with the
  same interval (`generate_seektable`) gives the same defined points.
-/
import FlacModel.Props.C09

namespace Flac.C09
open Flac

/-- `generate_seektable` on the finished file: one point per frame actually found (samples before it, bytes from the first
    frame, its block size), the interval filter, the cap of a SEEKTABLE block -/
def regenerate (iv : Interval) (rate : Nat) (fs : List (Nat × Nat)) : List SeekPt :=
  ((iv.filter rate (truePoints 0 0 fs)).take maxPoints).map toSeekPt

/-- the frame lengths of a stream of `total` samples cut into blocks of `bs` (what the writers produce) -/
def blocked (total bs : Nat) : Nat → Nat → List Nat
  | 0, _ => []
  | fuel+1, off => if off < total then min bs (total - off) :: blocked total bs fuel (off + bs) else []

/-- what the interval filters look at -/
def key (p : EncPoint) : Nat × Nat := (p.sample, p.len)

/-- the placeholder points computed from the declared total cover the same sample ranges as the frames later written -/
theorem placeholders_match (total bs : Nat) (fuel off b : Nat) (fs : List (Nat × Nat))
    (h : fs.map (·.1) = blocked total bs fuel off) :
    (truePoints off b fs).map key = (placeholders total bs fuel off).map key := by
  induction fuel generalizing off b fs with
  | zero =>
    simp only [blocked, List.map_eq_nil_iff] at h
    subst h; rfl
  | succ fuel ih =>
    simp only [blocked] at h
    simp only [placeholders]
    by_cases hlt : off < total
    · simp only [hlt, if_true] at h ⊢
      cases fs with
      | nil => simp at h
      | cons f r =>
        simp only [List.map_cons, List.cons.injEq] at h
        obtain ⟨hf, hr⟩ := h
        have hlen : Gen.encPlaceholderLen bs (total - off) = min bs (total - off) := rfl
        simp only [truePoints, List.map_cons, key, hf, hlen, List.cons.injEq, true_and]
        by_cases hfull : bs ≤ total - off
        · rw [Nat.min_eq_left hfull]
          exact ih (off + bs) (b + f.2) r hr
        · have hr' : r = [] := by
            have : blocked total bs fuel (off + bs) = [] := by
              cases fuel with
              | zero => rfl
              | succ k => simp only [blocked]; rw [if_neg (by omega)]
            rw [this] at hr; simpa using hr
          subst hr'
          have : placeholders total bs fuel (off + bs) = [] := by
            cases fuel with
            | zero => rfl
            | succ k => simp only [placeholders]; rw [if_neg (by omega)]
          rw [this]; rfl
    · simp only [hlt, if_false, List.map_eq_nil_iff] at h ⊢
      subst h; rfl

theorem secondsFilter_key (nth : Nat) (off : Nat) (ps qs : List EncPoint) (h : ps.map key = qs.map key) :
    (secondsFilter nth off ps).length = (secondsFilter nth off qs).length := by
  induction ps generalizing off qs with
  | nil =>
    have : qs = [] := by simpa using h.symm
    subst this; rfl
  | cons p ps ih =>
    cases qs with
    | nil => simp at h
    | cons q qs =>
      simp only [List.map_cons, List.cons.injEq, key, Prod.mk.injEq] at h
      obtain ⟨⟨h1, h2⟩, h3⟩ := h
      simp only [secondsFilter, h1, h2]
      split
      · simp only [List.length_cons]; rw [ih _ qs h3]
      · exact ih _ qs h3

theorem stepBy_length {α β : Type} (n k : Nat) (xs : List α) (ys : List β) (h : xs.length = ys.length) :
    (stepBy n k xs).length = (stepBy n k ys).length := by
  induction xs generalizing k ys with
  | nil =>
    have : ys = [] := List.length_eq_zero_iff.mp (by simpa using h.symm)
    subst this; rfl
  | cons x xs ih =>
    cases ys with
    | nil => simp at h
    | cons y ys =>
      have h' : xs.length = ys.length := by simpa using h
      cases k with
      | zero => simp only [stepBy, List.length_cons]; rw [ih _ ys h']
      | succ k => simp only [stepBy]; exact ih _ ys h'

theorem filter_length_key (iv : Interval) (rate : Nat) (ps qs : List EncPoint) (h : ps.map key = qs.map key) :
    (iv.filter rate ps).length = (iv.filter rate qs).length := by
  cases iv with
  | seconds s => exact secondsFilter_key _ _ ps qs h
  | frames n =>
    exact stepBy_length n 0 ps qs (by simpa using congrArg List.length h)

/-- **The table reserved from the declared total has exactly one slot per point the finished stream yields** (up to the cap):
    nothing is cut off and no placeholder is left over. -/
theorem reserved_slots_exact (iv : Interval) (rate total bs fuel : Nat) (fs : List (Nat × Nat))
    (h : fs.map (·.1) = blocked total bs fuel 0) :
    (iv.filter rate (placeholders total bs fuel 0)).length = (iv.filter rate (record Recorder.init fs).points).length := by
  rw [(seekpoints_invariant fs).1]
  exact (filter_length_key iv rate _ _ (placeholders_match total bs fuel 0 0 fs h)).symm

/-- **Declared total**: the table written at finalize into the slots reserved up front is the regenerated table. -/
theorem regenerated_equals_written_declared (iv : Interval) (rate total bs fuel : Nat) (fs : List (Nat × Nat))
    (h : fs.map (·.1) = blocked total bs fuel 0) (padding : Option Nat) :
    (finalizeLayout (some iv) rate (record Recorder.init fs).points
        (some (min maxPoints (iv.filter rate (placeholders total bs fuel 0)).length)) padding).1 = some (regenerate iv rate fs) := by
  have hl := reserved_slots_exact iv rate total bs fuel fs h
  simp only [finalizeLayout, regenerate, Option.some.injEq]
  rw [hl, ← (seekpoints_invariant fs).1]
  generalize iv.filter rate (record Recorder.init fs).points = xs
  rw [List.take_append_of_le_length (by simp; exact Nat.min_le_right _ _), ← List.map_take]
  congr 1
  rw [List.take_eq_take_iff]
  simp [Nat.min_comm]

/-- **Total discovered at finalize**: the table carved out of the padding (when it fits) is the regenerated table. -/
theorem regenerated_equals_written_padding (iv : Interval) (rate : Nat) (fs : List (Nat × Nat)) (pad : Nat) (t : List SeekPt)
    (h : (finalizeLayout (some iv) rate (record Recorder.init fs).points none (some pad)).1 = some t) :
    t = regenerate iv rate fs := by
  simp only [finalizeLayout] at h
  split at h
  · simp only [Option.some.injEq] at h
    rw [← h, regenerate, (seekpoints_invariant fs).1]
  · cases h

/-- every regenerated point is a defined point -/
theorem regenerate_defined (iv : Interval) (rate : Nat) (fs : List (Nat × Nat)) :
    ∀ p ∈ regenerate iv rate fs, ∃ s b l, p = .defined s b l := by
  intro p hp
  simp only [regenerate, List.mem_map] at hp
  obtain ⟨q, _, rfl⟩ := hp
  exact ⟨_, _, _, rfl⟩

/-- non-vacuity: 37 samples in blocks of 16, a point every second frame; two slots are reserved and both are filled -/
example : blocked 37 16 38 0 = [16, 16, 5] := by decide
example : (finalizeLayout (some (.frames 2)) 100 (record Recorder.init [(16, 20), (16, 21), (5, 9)]).points
    (some (min maxPoints ((Interval.frames 2).filter 100 (placeholders 37 16 38 0)).length)) (some 0)).1
    = some [.defined 0 0 16, .defined 32 41 5] := by decide

end Flac.C09
