/-
  Props/C05c.lean — C05, the truncation clause, for the readers' frame loop with a DECLARED total: a stream cut at any
  byte inside a frame delivers exactly the samples of the frames that are complete before the cut - a whole-frame prefix of
  the original audio - and then ends in an error (end of data), never in a clean end of stream and never with other samples.
  (The undeclared-total case is C14.interrupted_decodes_complete_frames.)
-/
import FlacModel.Props.C05b
import FlacModel.Props.C14
import FlacModel.Proofs.DecodeFacts

namespace Flac.C05
open Flac Gen

/-- block sizes that the decoder's accounting accepts while `remaining` samples are still expected: none is empty or longer
    than what remains, and a block of 14 samples or fewer is only accepted as the last one -/
def blocksFit : List Nat → Nat → Prop
  | [], _ => True
  | b :: rest, remaining => 0 < b ∧ b ≤ remaining ∧ (b = remaining ∨ 14 < b) ∧ blocksFit rest (remaining - b)

theorem declared_total_truncated (p : Profile) (si : SInfo) (total : Nat)
    (fs : List (List Nat × Decoded))
    (hdec : ∀ fd ∈ fs, decodeFrame p (some si) fd.1 = .ok fd.2 ∧ fd.2.used = fd.1.length)
    (part x : List Nat) (dcut : Decoded) (hp : part ≠ []) (hx : x ≠ [])
    (hcut : decodeFrame p (some si) (part ++ x) = .ok dcut) (hcutu : dcut.used = (part ++ x).length)
    (fuel cur : Nat) (acc : List (List (List Int))) (hfuel : fs.length + 1 < fuel + 1)
    (hcur : cur ≤ total) (htot : total ≠ 0)
    (hblocks : blocksFit (fs.map (·.2.hdr.blockSize) ++ [dcut.hdr.blockSize]) (total - cur)) :
    decodeLoop p si total fuel ((fs.map (·.1)).flatten ++ part) cur acc = (acc.reverse ++ fs.map (·.2.channels), some .eof) := by
  have hne : (total != 0) = true := by simpa using htot
  induction fs generalizing fuel cur acc with
  | nil =>
    cases fuel with
    | zero => simp at hfuel
    | succ fuel =>
      simp only [List.map_nil, List.nil_append, blocksFit] at hblocks
      obtain ⟨b0, b1, b2, _⟩ := hblocks
      simp only [List.map_nil, List.flatten_nil, List.nil_append, List.append_nil, decodeLoop, hne, if_true]
      have c1 : (decide (total < cur) && (p == Profile.debug)) = false := by
        have : decide (total < cur) = false := by simp; omega
        simp [this]
      have c2 : (total == cur) = false := by simp; omega
      simp only [c1, c2, Bool.false_eq_true, if_false]
      rcases Flac.decodeFrame_cut p (some si) part x dcut hcut hcutu hx with he | ⟨⟨hv, hh⟩, hd⟩
      · simp [he]
      · -- the header fits in the part: it is the header of the whole frame
        obtain ⟨n, hn⟩ := Flac.C14.decodeFrame_header p (some si) (part ++ x) dcut hcut
        have hext := Flac.parseHeaderBytes_ext (some si) part hv hh x
        rw [hn] at hext
        have hv' : hv = (dcut.hdr, n, true) := (Except.ok.inj hext).symm
        subst hv'
        have hck := Flac.decodeFrame_check p (some si) (part ++ x) dcut hcut
        simp only [hh, hck, Bool.not_true, Bool.false_eq_true, if_false]
        have c3 : (Gen.decOvershootIsError && decide (total ≥ cur) && decide (dcut.hdr.blockSize > total - cur)) = false := by
          have : decide (dcut.hdr.blockSize > total - cur) = false := by simp; omega
          simp [this]
        have c4 : (!(dcut.hdr.blockSize == (if total ≥ cur then total - cur else 18446744073709551616 - (cur - total))
            || decide (dcut.hdr.blockSize > 14))) = false := by
          have hge : total ≥ cur := hcur
          simp only [hge, if_true]
          rcases b2 with h | h
          · simp [h]
          · have : decide (dcut.hdr.blockSize > 14) = true := by simp; omega
            simp [this]
        simp only [c3, c4, Bool.false_eq_true, if_false, hd]
  | cons fd fs ih =>
    cases fuel with
    | zero => simp at hfuel
    | succ fuel =>
      obtain ⟨f, d⟩ := fd
      obtain ⟨hd, hu⟩ := hdec (f, d) (by simp)
      simp only [List.map_cons, List.cons_append, blocksFit] at hblocks
      obtain ⟨b0, b1, b2, b3⟩ := hblocks
      have hl := Flac.C14.loc_of_decodes p si f d hd hu
      obtain ⟨hn, hh⟩ := hl.hdr ((fs.map (·.1)).flatten ++ part)
      have hck := Flac.decodeFrame_check p (some si) f d hd
      simp only [List.map_cons, List.flatten_cons, List.append_assoc, decodeLoop, hne, if_true]
      have c1 : (decide (total < cur) && (p == Profile.debug)) = false := by
        have : decide (total < cur) = false := by simp; omega
        simp [this]
      have c2 : (total == cur) = false := by
        -- at least the cut frame is still to come, and it is not empty
        simp; omega
      simp only [c1, c2, Bool.false_eq_true, if_false, hh, hck]
      have c3 : (Gen.decOvershootIsError && decide (total ≥ cur) && decide (d.hdr.blockSize > total - cur)) = false := by
        have : decide (d.hdr.blockSize > total - cur) = false := by simp; omega
        simp [this]
      have c4 : (!(d.hdr.blockSize == (if total ≥ cur then total - cur else 18446744073709551616 - (cur - total))
          || decide (d.hdr.blockSize > 14))) = false := by
        have hge : total ≥ cur := hcur
        simp only [hge, if_true]
        rcases b2 with h | h
        · simp [h]
        · have : decide (d.hdr.blockSize > 14) = true := by simp; omega
          simp [this]
      simp only [Bool.not_true, c3, c4, Bool.false_eq_true, if_false, hl.dec]
      have hdrop : (f ++ ((fs.map (·.1)).flatten ++ part)).drop d.used = (fs.map (·.1)).flatten ++ part := by
        rw [hl.used]; simp
      rw [hdrop]
      have e : total - (cur + d.hdr.blockSize) = total - cur - d.hdr.blockSize := by omega
      rw [ih (fun x hx => hdec x (by simp [hx])) fuel (cur + d.hdr.blockSize) (d.channels :: acc) (by simp at hfuel ⊢; omega)
        (by omega) (by rw [e]; exact b3)]
      simp

end Flac.C05
