/-
  Props/C19c.lean — C19, the constant-block clause end to end for the FIXED candidate: a block of n ≥ 2 equal non-zero samples is
  written by `encode_fixed_subframe` as order 1 with an all-zero residual (C19b), `write_residuals` turns every partition of it into
  the zero-width escape whatever coding method and partition order its search picks, no partitioning has more than `MAX_PARTITIONS`
  parts (C15b), so the candidate's size is bounded independently of the block length, and so is what `encode_subframe` keeps.
-/
import FlacModel.Props.C19b
import FlacModel.Props.C15b

namespace Flac.C19
open Flac Flac.Gen

theorem sliceBy_zeros (sizes : List Nat) (m : Nat) : ∀ s ∈ sliceBy sizes (List.replicate m 0), s.all (· == 0) = true := by
  induction sizes generalizing m with
  | nil => intro s hs; simp [sliceBy] at hs
  | cons k ks ih =>
    intro s hs
    simp only [sliceBy, List.mem_cons] at hs
    rcases hs with rfl | hs
    · simp only [List.take_replicate, List.all_eq_true, List.mem_replicate]
      intro x hx; simp [hx.2]
    · rw [List.drop_replicate] at hs
      exact ih _ s hs

theorem sliceBy_length (sizes : List Nat) (l : List Int) : (sliceBy sizes l).length = sizes.length := by
  induction sizes generalizing l with
  | nil => rfl
  | cons k ks ih => simp [sliceBy, ih]

/-- every partition `write_residuals` makes of an all-zero residual is the zero-width escape, and there is one per slice -/
theorem encResidual_zero (coded : List Int → Partition) (method po bs order m : Nat) (r : Residual)
    (h : encResidual coded method po bs order (List.replicate m 0) = some r) :
    zeroParts r ∧ r.method = method ∧ r.parts.length = 2 ^ po := by
  unfold encResidual at h
  cases hl : encLayout bs order po with
  | none => rw [hl] at h; cases h
  | some sizes =>
    rw [hl] at h
    simp only [Option.some.injEq] at h
    subst h
    refine ⟨?_, rfl, ?_⟩
    · intro pt hpt
      simp only [List.mem_map] at hpt
      obtain ⟨s, hs, rfl⟩ := hpt
      have hz := sliceBy_zeros sizes m s hs
      have hflag : encZeroPartitionIsConstant = true := rfl
      exact ⟨s.length, by simp [encPartition, hflag, hz]⟩
    · simp only [List.length_map, sliceBy_length]
      unfold encLayout at hl
      split at hl
      · rename_i hacc
        simp only [Option.some.injEq] at hl
        subst hl
        simpa [encPartitionAccept] using hacc
      · cases hl

/-- **The FIXED candidate of a constant block is small, whatever the block length** — with nothing assumed about the encoder's choices:
    for every sample value `v ≠ 0`, every length `n + 2`, every wasted-bit count, coding method, candidate partition order and Rice
    search, the subframe `encode_fixed_subframe` + `write_residuals` produce is at most 8 + wasted + 4 warm-up samples + 646 bits. -/
theorem constant_block_fixed_small (v : Int) (hv : v ≠ 0) (n bps w method tz maxPo po : Nat) (coded : List Int → Partition)
    (hm : method ≤ 1) (hpo : po ∈ C15.candidateOrders tz maxPo) (res : Residual)
    (hres : encResidual coded method po (n + 2) (fixedPick (List.replicate (n + 2) v)).1 (fixedPick (List.replicate (n + 2) v)).2 = some res) :
    (writeSubframe bps { wasted := w, body := .fixed (fixedPick (List.replicate (n + 2) v)).1 [v] res }).length
      ≤ 8 + w + 4 * (bps - w) + (6 + encMaxPartitions * 10) := by
  rw [constant_block_fixed_zero v hv n] at hres ⊢
  obtain ⟨hz, hmeth, hlen⟩ := encResidual_zero coded method po (n + 2) 1 (n + 1) res hres
  exact fixed_zero_candidate_bits bps w 1 [v] res (by omega) rfl (by omega) hz (by rw [hlen]; exact C15.candidates_fit tz maxPo po hpo)

/-- … and so is the subframe `encode_subframe` keeps, whatever the LPC candidate costs -/
theorem constant_block_chosen_small (v : Int) (hv : v ≠ 0) (n bps w method tz maxPo po : Nat) (coded : List Int → Partition)
    (hm : method ≤ 1) (hpo : po ∈ C15.candidateOrders tz maxPo) (res : Residual)
    (hres : encResidual coded method po (n + 2) (fixedPick (List.replicate (n + 2) v)).1 (fixedPick (List.replicate (n + 2) v)).2 = some res)
    (lpcBits hdr blk : Nat) :
    chosenBits (some (encPickCandidate (writeSubframe bps { wasted := w, body := .fixed (fixedPick (List.replicate (n + 2) v)).1 [v] res }).length lpcBits)) hdr blk bps
      ≤ 8 + w + 4 * (bps - w) + (6 + encMaxPartitions * 10) + hdr := by
  have h1 := constant_block_fixed_small v hv n bps w method tz maxPo po coded hm hpo res hres
  have h2 := constant_block_small_partial (writeSubframe bps { wasted := w, body := .fixed (fixedPick (List.replicate (n + 2) v)).1 [v] res }).length lpcBits hdr blk bps
  omega

/-- non-vacuity: 4096 samples of value 7, partition order 6 -/
example : (encResidual (fun rs => .rice 0 rs) 0 2 8 1 (List.replicate 7 0)).map (·.parts) = some [.zero 1, .zero 2, .zero 2, .zero 2] := by decide

end Flac.C19
