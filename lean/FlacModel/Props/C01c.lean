/-
  Props/C01c.lean — C01 for whole streams: the frame loop of the file readers (`Decoder::read_frame` driven to the
  end) returns exactly the samples of every frame of the stream, in order, and then a clean end of stream -
  for a declared total (where the loop stops at the total and ignores what follows) as for an undeclared one.
-/
import FlacModel.Props.C01b
import FlacModel.Props.C14

namespace Flac.C01
open Flac Gen

/-- block sizes a stream of the given remaining length may consist of: every block but the last is longer than 14
    samples (the decoder's short-block rule), none is empty, and they add up to the remainder -/
def blocksOk : List Nat → Nat → Prop
  | [], remaining => remaining = 0
  | b :: rest, remaining => 0 < b ∧ b ≤ remaining ∧ (b = remaining ∨ 14 < b) ∧ blocksOk rest (remaining - b)

/-- **Declared total.**  Any frames that each decode on their own (using all their bytes), whose block sizes add up to the
    declared total, are delivered by the frame loop exactly, in order, followed by a clean end of stream - whatever bytes
    follow the last frame. -/
theorem declared_total_decodes_all (p : Profile) (si : SInfo) (total : Nat)
    (fs : List (List Nat × Decoded))
    (hdec : ∀ fd ∈ fs, decodeFrame p (some si) fd.1 = .ok fd.2 ∧ fd.2.used = fd.1.length)
    (rest : List Nat) (fuel cur : Nat) (acc : List (List (List Int))) (hfuel : fs.length < fuel)
    (hcur : cur ≤ total) (htot : total ≠ 0)
    (hblocks : blocksOk (fs.map (·.2.hdr.blockSize)) (total - cur)) :
    decodeLoop p si total fuel ((fs.map (·.1)).flatten ++ rest) cur acc = (acc.reverse ++ fs.map (·.2.channels), none) := by
  have hne : (total != 0) = true := by simpa using htot
  induction fs generalizing fuel cur acc with
  | nil =>
    cases fuel with
    | zero => omega
    | succ fuel =>
      simp only [List.map_nil, blocksOk] at hblocks
      have : total = cur := by omega
      subst this
      simp [decodeLoop, hne]
  | cons fd fs ih =>
    cases fuel with
    | zero => simp at hfuel
    | succ fuel =>
      obtain ⟨f, d⟩ := fd
      obtain ⟨hd, hu⟩ := hdec (f, d) (by simp)
      simp only [List.map_cons, blocksOk] at hblocks
      obtain ⟨b0, b1, b2, b3⟩ := hblocks
      have hl := Flac.C14.loc_of_decodes p si f d hd hu
      obtain ⟨hn, hh⟩ := hl.hdr ((fs.map (·.1)).flatten ++ rest)
      have hck := decodeFrame_check p (some si) f d hd
      simp only [List.map_cons, List.flatten_cons, List.append_assoc, decodeLoop, hne, if_true]
      have c1 : (decide (total < cur) && (p == Profile.debug)) = false := by
        have : decide (total < cur) = false := by simp; omega
        simp [this]
      have c2 : (total == cur) = false := by simp; omega
      simp only [c1, c2, Bool.false_eq_true, if_false, hh, hck]
      have c3 : (Gen.decOvershootIsError && decide (total ≥ cur) && decide (d.hdr.blockSize > total - cur)) = false := by
        have : decide (d.hdr.blockSize > total - cur) = false := by simp; omega
        simp [this]
      have c4 : (!(d.hdr.blockSize == (if total ≥ cur then total - cur else 18446744073709551616 - (cur - total))
          || decide (d.hdr.blockSize > 14))) = false := by
        have hge : total ≥ cur := hcur
        simp only [hge, if_true]
        rcases b2 with h | h
        · simp [h]
        · have : decide (d.hdr.blockSize > 14) = true := by simp; omega
          simp [this]
      simp only [Bool.not_true, c3, c4, Bool.false_eq_true, if_false, hl.dec]
      have hdrop : (f ++ ((fs.map (·.1)).flatten ++ rest)).drop d.used = (fs.map (·.1)).flatten ++ rest := by
        rw [hl.used]; simp
      rw [hdrop]
      have e : total - (cur + d.hdr.blockSize) = total - cur - d.hdr.blockSize := by omega
      rw [ih (fun x hx => hdec x (by simp [hx])) fuel (cur + d.hdr.blockSize) (d.channels :: acc) (by simp at hfuel; omega)
        (by omega) (by rw [e]; exact b3)]
      simp

/-- **Whole stream, frame by frame** (declared total): a stream made of well-formed frames - each with whatever
    subframe kinds, predictors and partitioning the encoder chose - whose block sizes add up to the declared total is
    decoded by the frame loop to exactly the samples those frames carry. -/
theorem stream_of_frames_lossless (p : Profile) (si : SInfo) (total : Nat) (htot : total ≠ 0)
    (items : List (Frame × List (List Int) × List (List Int))) (rest : List Nat)
    (h : ∀ it ∈ items, FrameWf (some si) it.1
      ∧ subsDecode p it.1.hdr.assign it.1.hdr.blockSize it.1.hdr.bps it.1.subs it.2.1 0
      ∧ recorrelate p it.1.hdr.assign it.1.hdr.bps it.2.1 = .ok it.2.2)
    (hblocks : blocksOk (items.map (·.1.hdr.blockSize)) total) :
    decodeLoop p si total (items.length + 1) ((items.map (·.1.serialize)).flatten ++ rest) 0 []
      = (items.map (·.2.2), none) := by
  have e1 : (items.map fun it => (it.1.serialize, ({ hdr := it.1.hdr, channels := it.2.2, used := it.1.serialize.length } : Decoded))).map
      (·.2.hdr.blockSize) = items.map (·.1.hdr.blockSize) := by
    rw [List.map_map]; rfl
  have e2 : (items.map fun it => (it.1.serialize, ({ hdr := it.1.hdr, channels := it.2.2, used := it.1.serialize.length } : Decoded))).map
      (·.1) = items.map (·.1.serialize) := by
    rw [List.map_map]; rfl
  have e3 : (items.map fun it => (it.1.serialize, ({ hdr := it.1.hdr, channels := it.2.2, used := it.1.serialize.length } : Decoded))).map
      (·.2.channels) = items.map (·.2.2) := by
    rw [List.map_map]; rfl
  have key := declared_total_decodes_all p si total
    (items.map fun it => (it.1.serialize, ({ hdr := it.1.hdr, channels := it.2.2, used := it.1.serialize.length } : Decoded)))
    (by
      intro fd hfd
      obtain ⟨it, hit, rfl⟩ := List.mem_map.mp hfd
      obtain ⟨w, hx, hr⟩ := h it hit
      exact ⟨frame_roundtrip p (some si) it.1 it.2.1 it.2.2 w hx hr, rfl⟩)
    rest (items.length + 1) 0 [] (by simp) (by omega) htot
    (by rw [e1, Nat.sub_zero]; exact hblocks)
  rw [e2, e3] at key
  simpa using key

end Flac.C01
