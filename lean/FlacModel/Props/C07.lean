/-
  Props/C07.lean — C07: readers deliver the stream exactly once, in order, however it is consumed.
  State machines: `Model/Readers.lean` (`Rd` = byte/sample/iterator readers over their unit type,
  `ChanRd` = per-channel reader).  All theorems are by induction over arbitrary operation lists.
-/
import FlacModel.Model.Readers

namespace Flac.C07
open Flac

/-! ### valid streams: STREAMINFO's total is unknown or equals the sum of the frame lengths, every
    frame is non-empty and only the last one may be 14 samples or shorter -/

def nonFinalLong : List FrameInfo → Prop
  | [] => True
  | [_] => True
  | f :: g :: r => 14 < f.len ∧ nonFinalLong (g :: r)

def lens (fs : List FrameInfo) : Nat := (fs.map (·.len)).sum

/-- invariant tying the decoder's `current_sample` to the frames still to be read -/
def Good (s : Stream) (d : Dec) : Prop :=
  (∀ f ∈ d.rest, 0 < f.len) ∧
  match s.total with
  | none => True
  | some t => d.cur + lens d.rest = t ∧ nonFinalLong d.rest

theorem nonFinalLong_tail (f : FrameInfo) (fs : List FrameInfo) (h : nonFinalLong (f :: fs)) : nonFinalLong fs := by
  cases fs with
  | nil => trivial
  | cons g r => exact h.2

/-- on a valid stream `read_frame` yields exactly the next frame, or end-of-stream when none is
    left, never an error, and keeps the invariant -/
theorem readFrame_good (s : Stream) (d : Dec) (h : Good s d) :
    (d.rest = [] ∧ d.readFrame s = .ok (none, d)) ∨
    (∃ f fs, d.rest = f :: fs ∧ d.readFrame s = .ok (some f, { rest := fs, cur := d.cur + f.len })
      ∧ Good s { rest := fs, cur := d.cur + f.len }) := by
  obtain ⟨hpos, ht⟩ := h
  unfold Dec.readFrame
  cases htot : s.total with
  | none =>
    cases hr : d.rest with
    | nil => left; simp
    | cons f fs =>
      right; refine ⟨f, fs, rfl, by simp, ?_⟩
      refine ⟨fun g hg => hpos g (by simp [hr, hg]), ?_⟩
      simp [htot]
  | some t =>
    rw [htot] at ht
    obtain ⟨hsum, hlong⟩ := ht
    cases hr : d.rest with
    | nil =>
      left
      rw [hr] at hsum
      simp only [lens, List.map_nil, List.sum_nil, Nat.add_zero] at hsum
      simp [hsum]
    | cons f fs =>
      right
      rw [hr] at hsum hlong
      have hf : 0 < f.len := hpos f (by simp [hr])
      simp only [lens, List.map_cons, List.sum_cons] at hsum
      have hnot : ¬ t ≤ d.cur := by omega
      refine ⟨f, fs, rfl, ?_, ?_⟩
      · simp only [hnot, if_false]
        have hc : (f.len == t - d.cur || decide (f.len > 14)) = true := by
          cases fs with
          | nil =>
            simp only [List.map_nil, List.sum_nil, Nat.add_zero] at hsum
            have : f.len = t - d.cur := by omega
            simp [this]
          | cons g r =>
            have : 14 < f.len := hlong.1
            simp [this]
        -- the frame never overshoots the declared total on a valid stream
        have hov : (Gen.decOvershootIsError && decide (f.len > t - d.cur)) = false := by
          have : ¬ f.len > t - d.cur := by omega
          simp [this]
        simp [hc, hov]
      · refine ⟨fun g hg => hpos g (by simp [hr, hg]), ?_⟩
        simp only [htot]
        refine ⟨?_, nonFinalLong_tail f fs hlong⟩
        simp only [lens]; omega

/-! ### byte / sample / iterator readers -/

/-- what a reader has still to deliver: its buffer followed by the encoding of the unread frames -/
def remaining (enc : FrameInfo → List α) (r : Rd α) : List α := r.buf ++ r.dec.rest.flatMap enc

inductive Op | read (n : Nat) | fill | consume (k : Nat)

/-- one operation: the data that left the reader for good, and the new state.
    (`fill` only exposes the buffer; data leaves through `consume`, clamped to what is available) -/
def step (s : Stream) (enc : FrameInfo → List α) (r : Rd α) : Op → Res (List α × Rd α)
  | .read n => r.read s enc n
  | .fill => match r.fill s enc with
             | .error e => .error e
             | .ok (_, r') => .ok ([], r')
  | .consume k => .ok (r.buf.take k, r.consume k)

theorem refill_good (s : Stream) (enc : FrameInfo → List α) (r : Rd α) (h : Good s r.dec) :
    ∃ r', r.refill s enc = .ok r' ∧ Good s r'.dec ∧ remaining enc r' = remaining enc r
      ∧ (r'.buf = [] → r'.dec.rest = [] ∨ ∃ f, f ∈ r.dec.rest ∧ enc f = [])
      ∧ (∀ f ∈ r'.dec.rest, f ∈ r.dec.rest) := by
  unfold Rd.refill
  cases hb : r.buf.isEmpty with
  | false =>
    refine ⟨r, by simp, h, rfl, ?_, fun f hf => hf⟩
    intro he; simp [he] at hb
  | true =>
    have hbuf : r.buf = [] := by simpa using hb
    rcases readFrame_good s r.dec h with ⟨hr, hrf⟩ | ⟨f, fs, hr, hrf, hg⟩
    · refine ⟨{ dec := r.dec, buf := [] }, by simp [hrf], h, ?_, fun _ => Or.inl hr, fun f hf => hf⟩
      simp [remaining, hbuf]
    · refine ⟨{ dec := { rest := fs, cur := r.dec.cur + f.len }, buf := enc f }, by simp [hrf], hg, ?_, ?_, ?_⟩
      · simp [remaining, hbuf, hr]
      · intro he; right; exact ⟨f, by simp [hr], he⟩
      · intro g hg'; simp [hr]; right; exact hg'

/-- **one step**: never an error on a valid stream; output followed by what remains afterwards is
    exactly what remained before -/
theorem step_exact (s : Stream) (enc : FrameInfo → List α) (r : Rd α) (op : Op) (h : Good s r.dec) :
    ∃ out r', step s enc r op = .ok (out, r') ∧ Good s r'.dec ∧ out ++ remaining enc r' = remaining enc r := by
  cases op with
  | read n =>
    obtain ⟨r1, h1, hg, hrem, _, _⟩ := refill_good s enc r h
    refine ⟨r1.buf.take n, { r1 with buf := r1.buf.drop n }, by simp [step, Rd.read, h1], hg, ?_⟩
    rw [← hrem]; simp [remaining, ← List.append_assoc]
  | fill =>
    obtain ⟨r1, h1, hg, hrem, _, _⟩ := refill_good s enc r h
    exact ⟨[], r1, by simp [step, Rd.fill, h1], hg, by simpa using hrem⟩
  | consume k =>
    exact ⟨r.buf.take k, r.consume k, rfl, h, by simp [remaining, Rd.consume, ← List.append_assoc]⟩

/-- run an operation list, concatenating everything delivered -/
def run (s : Stream) (enc : FrameInfo → List α) : Rd α → List Op → Res (List α × Rd α)
  | r, [] => .ok ([], r)
  | r, op :: ops =>
    match step s enc r op with
    | .error e => .error e
    | .ok (o1, r1) =>
      match run s enc r1 ops with
      | .error e => .error e
      | .ok (o2, r2) => .ok (o1 ++ o2, r2)

/-- **reader_exactly_once** — for EVERY operation history on a valid stream: no error, and the
    concatenation of everything delivered, followed by what the reader still holds, is the whole
    decoded stream: nothing lost, nothing duplicated, nothing reordered. -/
theorem reader_exactly_once (s : Stream) (enc : FrameInfo → List α) (r : Rd α) (ops : List Op) (h : Good s r.dec) :
    ∃ out r', run s enc r ops = .ok (out, r') ∧ Good s r'.dec ∧ out ++ remaining enc r' = remaining enc r := by
  induction ops generalizing r with
  | nil => exact ⟨[], r, rfl, h, by simp⟩
  | cons op ops ih =>
    obtain ⟨o1, r1, h1, hg1, he1⟩ := step_exact s enc r op h
    obtain ⟨o2, r2, h2, hg2, he2⟩ := ih r1 hg1
    refine ⟨o1 ++ o2, r2, by simp [run, h1, h2], hg2, ?_⟩
    rw [List.append_assoc, he2, he1]

/-- corollary for a freshly opened reader: delivered data is a prefix of the full stream -/
theorem fresh_reader_prefix (s : Stream) (enc : FrameInfo → List α) (ops : List Op)
    (h : Good s { rest := s.frames, cur := 0 }) :
    ∃ out r', run s enc { dec := { rest := s.frames, cur := 0 }, buf := [] } ops = .ok (out, r')
      ∧ out ++ remaining enc r' = s.frames.flatMap enc := by
  obtain ⟨out, r', h1, _, h3⟩ := reader_exactly_once s enc { dec := { rest := s.frames, cur := 0 }, buf := [] } ops h
  exact ⟨out, r', h1, by simpa [remaining] using h3⟩

/-- **eos_idempotent**: once nothing remains, every read and fill returns the end-of-stream value
    (empty) again and again, and nothing remains afterwards either -/
theorem eos_idempotent (s : Stream) (enc : FrameInfo → List α) (r : Rd α) (h : Good s r.dec)
    (hempty : remaining enc r = []) (n : Nat) :
    ∃ r', r.read s enc n = .ok ([], r') ∧ (∃ r'', r.fill s enc = .ok ([], r'')) ∧ remaining enc r' = [] ∧ Good s r'.dec := by
  obtain ⟨r1, h1, hg, hrem, _, _⟩ := refill_good s enc r h
  have hr1 : remaining enc r1 = [] := by rw [hrem, hempty]
  have hb : r1.buf = [] := by
    have := List.append_eq_nil_iff.mp hr1; exact this.1
  refine ⟨{ r1 with buf := r1.buf.drop n }, by simp [Rd.read, h1, hb], ⟨r1, by simp [Rd.fill, h1, hb]⟩, ?_, hg⟩
  simp only [remaining, hb, List.drop_nil, List.nil_append]
  have := List.append_eq_nil_iff.mp hr1; exact this.2

/-- conversely, end-of-stream is only signalled when nothing remains (every frame encodes to at
    least one unit): an empty `read(n>0)` means the whole stream has been delivered -/
theorem eos_only_at_end (s : Stream) (enc : FrameInfo → List α) (r : Rd α) (h : Good s r.dec)
    (henc : ∀ f ∈ r.dec.rest, enc f ≠ []) (n : Nat) (hn : 0 < n) (r' : Rd α)
    (hread : r.read s enc n = .ok ([], r')) : remaining enc r = [] := by
  obtain ⟨r1, h1, hg, hrem, hcase, _⟩ := refill_good s enc r h
  simp only [Rd.read, h1] at hread
  simp only [Except.ok.injEq, Prod.mk.injEq] at hread
  have hb : r1.buf = [] := by
    have := hread.1
    cases hbuf : r1.buf with
    | nil => rfl
    | cons x xs => rw [hbuf] at this; cases n with
      | zero => omega
      | succ m => simp at this
  rcases hcase hb with hrest | ⟨f, hf, he⟩
  · rw [← hrem]; simp [remaining, hb, hrest]
  · exact absurd he (henc f hf)

/-! ### byte serialisation = sample serialisation; channel reader = de-interleaving -/

/-- **byte_eq_serialised_samples**: the byte reader's stream is the sample reader's stream
    serialised at `ceil(depth/8)` bytes per sample in the chosen byte order -/
theorem byte_eq_serialised_samples (bps : Nat) (be : Bool) (fs : List FrameInfo) :
    fs.flatMap (frameBytes bps be) = (fs.flatMap frameSamples).flatMap (sampleBytes (bytesPerSample bps) be) := by
  induction fs with
  | nil => rfl
  | cons f fs ih => simp [frameBytes, ih, List.flatMap_append]

/-! ### per-channel reader -/

/-- **chan_eos_idempotent**: once the channel reader has signalled the end (no frames left, nothing
    buffered) every further `fill_buf` returns empty slices again — the previous frame is never
    handed out a second time -/
theorem chan_eos_idempotent (s : Stream) (r : ChanRd) (h : Good s r.dec) (hrest : r.dec.rest = [])
    (hc : ¬ r.consumed < r.pcmFrames) :
    ∃ r', r.fill s = .ok (List.replicate s.ch [], r') ∧ r'.dec.rest = [] ∧ ¬ r'.consumed < r'.pcmFrames ∧ Good s r'.dec := by
  rcases readFrame_good s r.dec h with ⟨_, hrf⟩ | ⟨f, fs, hr, _, _⟩
  · refine ⟨{ dec := r.dec, frame := [], consumed := 0 }, by simp [ChanRd.fill, hc, hrf], hrest, by simp [ChanRd.pcmFrames], h⟩
  · rw [hrest] at hr; cases hr

/-! #### the channel reader delivers every channel exactly once -/

/-- frames are rectangular: every channel has the frame's length -/
def Rect (f : FrameInfo) : Prop := ∀ c ∈ f.chans, c.length = f.len

/-- what channel `c` has still to deliver: the unconsumed part of the current frame, then the unread frames -/
def chanRemaining (c : Nat) (r : ChanRd) : List Int :=
  (r.frame.getD c []).drop r.consumed ++ r.dec.rest.flatMap (fun f => f.chans.getD c [])

inductive ChanOp | fill | consume (k : Nat)

/-- one operation; data leaves the reader through `consume` (what channel `c` loses is returned) -/
def chanStep (s : Stream) (c : Nat) (r : ChanRd) : ChanOp → Res (List Int × ChanRd)
  | .fill => match r.fill s with
             | .error e => .error e
             | .ok (_, r') => .ok ([], r')
  | .consume k => .ok (((r.frame.getD c []).drop r.consumed).take k, r.consume k)

/-- the current frame is rectangular (all channels as long as the first) -/
def FrameRect (r : ChanRd) : Prop := ∀ ch ∈ r.frame, ch.length = r.pcmFrames

theorem getD_len_le (frame : List (List Int)) (n : Nat) (h : ∀ ch ∈ frame, ch.length = n) (c : Nat) :
    (frame.getD c []).length ≤ n := by
  rw [List.getD_eq_getElem?_getD]
  cases hc : frame[c]? with
  | none => simp
  | some x =>
    have := List.mem_of_getElem? hc
    simp [h x this]

theorem headD_map_drop (frame : List (List Int)) (k : Nat) :
    ((frame.map (·.drop k)).headD []).length = (frame.headD []).length - k := by
  cases frame with
  | nil => simp
  | cons x xs => simp

theorem chanFill_exact (s : Stream) (r : ChanRd) (h : Good s r.dec) (hr : FrameRect r)
    (hrest : ∀ f ∈ r.dec.rest, Rect f) :
    ∃ b r', r.fill s = .ok (b, r') ∧ Good s r'.dec ∧ FrameRect r' ∧ (∀ f ∈ r'.dec.rest, Rect f)
      ∧ (∀ c, chanRemaining c r' = chanRemaining c r)
      ∧ (b.headD []).length = r'.pcmFrames - r'.consumed
      ∧ (∀ f ∈ r'.dec.rest, f ∈ r.dec.rest)
      ∧ (r'.frame = r.frame ∨ r'.frame = [] ∨ ∃ f ∈ r.dec.rest, r'.frame = f.chans)
      ∧ (r'.pcmFrames - r'.consumed = 0 → r'.dec.rest = []) := by
  unfold ChanRd.fill
  by_cases hc : r.consumed < r.pcmFrames
  · rw [if_pos hc]
    refine ⟨_, r, rfl, h, hr, hrest, fun _ => rfl, ?_, fun f hf => hf, Or.inl rfl, fun h0 => by omega⟩
    simp only [headD_map_drop, ChanRd.pcmFrames]
  · rw [if_neg hc]
    have hdone : ∀ c, (r.frame.getD c []).drop r.consumed = [] := by
      intro c
      apply List.drop_eq_nil_of_le
      have := getD_len_le r.frame r.pcmFrames hr c
      omega
    rcases readFrame_good s r.dec h with ⟨hr0, hrf⟩ | ⟨f, fs, hr0, hrf, hg⟩
    · refine ⟨_, { dec := r.dec, frame := [], consumed := 0 }, by rw [hrf], h, ?_, hrest, ?_, ?_, fun f hf => hf, Or.inr (Or.inl rfl), fun _ => hr0⟩
      · intro ch hch; simp at hch
      · intro c; unfold chanRemaining; dsimp only; rw [hdone c, hr0]; simp
      · simp [ChanRd.pcmFrames]
        cases s.ch <;> simp [List.replicate_succ]
    · have hf := hrest f (by rw [hr0]; simp)
      have hfpos : 0 < f.len := h.1 f (by rw [hr0]; simp)
      refine ⟨_, { dec := { rest := fs, cur := r.dec.cur + f.len }, frame := f.chans, consumed := 0 }, by rw [hrf], hg, ?_, ?_, ?_, ?_, ?_,
        Or.inr (Or.inr ⟨f, by rw [hr0]; simp, rfl⟩), ?_⟩
      · intro ch hch
        have := hf ch hch
        simp only [ChanRd.pcmFrames]
        rw [this]; rfl
      · intro g hg'; exact hrest g (by rw [hr0]; simp [hg'])
      · intro c; unfold chanRemaining; dsimp only; rw [hdone c, hr0]; simp
      · simp [ChanRd.pcmFrames]
      · intro g hg'; rw [hr0]; simp [hg']
      · intro h0
        simp only [ChanRd.pcmFrames, Nat.sub_zero] at h0
        have : f.len = 0 := h0
        omega

/-- **one step of the channel reader**: never an error on a valid stream; for EVERY channel, what left the reader
    followed by what remains is what remained before -/
theorem chanStep_exact (s : Stream) (c : Nat) (r : ChanRd) (op : ChanOp) (h : Good s r.dec) (hr : FrameRect r)
    (hrest : ∀ f ∈ r.dec.rest, Rect f) :
    ∃ out r', chanStep s c r op = .ok (out, r') ∧ Good s r'.dec ∧ FrameRect r' ∧ (∀ f ∈ r'.dec.rest, Rect f)
      ∧ out ++ chanRemaining c r' = chanRemaining c r := by
  cases op with
  | fill =>
    obtain ⟨b, r1, h1, hg, hr1, hrest1, hrem, _⟩ := chanFill_exact s r h hr hrest
    exact ⟨[], r1, by simp [chanStep, h1], hg, hr1, hrest1, by simpa using hrem c⟩
  | consume k =>
    refine ⟨_, r.consume k, rfl, h, ?_, hrest, ?_⟩
    · intro ch hch; exact hr ch hch
    · simp only [chanRemaining, ChanRd.consume, ← List.append_assoc]
      congr 1
      rw [← List.drop_drop, List.take_append_drop]

def chanRun (s : Stream) (c : Nat) : ChanRd → List ChanOp → Res (List Int × ChanRd)
  | r, [] => .ok ([], r)
  | r, op :: ops =>
    match chanStep s c r op with
    | .error e => .error e
    | .ok (o1, r1) =>
      match chanRun s c r1 ops with
      | .error e => .error e
      | .ok (o2, r2) => .ok (o1 ++ o2, r2)

/-- **chan_reader_exactly_once** - for EVERY history of `fill_buf`/`consume` calls on a valid stream of rectangular
    frames and EVERY channel: no error, and the samples of that channel that left the reader, followed by what it still
    holds, are the channel's whole decoded stream (the de-interleaved samples): nothing lost, duplicated or reordered. -/
theorem chan_reader_exactly_once (s : Stream) (c : Nat) (r : ChanRd) (ops : List ChanOp) (h : Good s r.dec) (hr : FrameRect r)
    (hrest : ∀ f ∈ r.dec.rest, Rect f) :
    ∃ out r', chanRun s c r ops = .ok (out, r') ∧ out ++ chanRemaining c r' = chanRemaining c r := by
  induction ops generalizing r with
  | nil => exact ⟨[], r, rfl, by simp⟩
  | cons op ops ih =>
    obtain ⟨o1, r1, h1, hg1, hr1, hrest1, he1⟩ := chanStep_exact s c r op h hr hrest
    obtain ⟨o2, r2, h2, he2⟩ := ih r1 hg1 hr1 hrest1
    refine ⟨o1 ++ o2, r2, by simp [chanRun, h1, h2], ?_⟩
    rw [List.append_assoc, he2, he1]

/-- a freshly opened channel reader: what channel `c` delivers is a prefix of that channel of the whole stream -/
theorem fresh_chan_reader_prefix (s : Stream) (c : Nat) (ops : List ChanOp)
    (h : Good s { rest := s.frames, cur := 0 }) (hrect : ∀ f ∈ s.frames, Rect f) :
    ∃ out r', chanRun s c { dec := { rest := s.frames, cur := 0 }, frame := [], consumed := 0 } ops = .ok (out, r')
      ∧ out ++ chanRemaining c r' = s.frames.flatMap (fun f => f.chans.getD c []) := by
  obtain ⟨out, r', h1, h2⟩ := chan_reader_exactly_once s c { dec := { rest := s.frames, cur := 0 }, frame := [], consumed := 0 } ops h
    (by intro ch hch; simp at hch) hrect
  exact ⟨out, r', h1, by simpa [chanRemaining] using h2⟩

/-- non-vacuity: a two-frame stream with a declared total of 20 = 16 + 4 is `Good` -/
example : Good { ch := 1, bps := 16, total := some 20, table := none,
                 frames := [{ off := 0, chans := [List.replicate 16 1] }, { off := 30, chans := [List.replicate 4 2] }] }
               { rest := [{ off := 0, chans := [List.replicate 16 1] }, { off := 30, chans := [List.replicate 4 2] }], cur := 0 } := by
  refine ⟨?_, ?_⟩
  · intro f hf; simp at hf; rcases hf with rfl | rfl <;> decide
  · simp only [lens, nonFinalLong]; refine ⟨by decide, ?_, trivial⟩; decide

end Flac.C07
