/-
  Props/C13b.lean — the checksummed write path of the encoder (C13, "short writes" clause): whatever the
  underlying stream does on each call (fail, interrupt, accept 1 … all bytes), the checksum a `CrcWriter`
  carries is the checksum of exactly the bytes that reached the stream, so a frame whose writes all
  succeeded is on the stream complete, followed by the checksum of what precedes it — i.e. valid.
-/
import FlacModel.Model.CrcIo
import FlacModel.Props.C13
import FlacModel.Proofs.CrcSelf

namespace Flac.C13
open Flac.Io Flac.Gen

/-- the generated rule: of the offered bytes, exactly the accepted ones are folded -/
theorem folded_accepted (l n : Nat) : crcWriterFolded l n = n := rfl
theorem folded_delivered (l n : Nat) : crcReaderFolded l n = n := rfl

/-- `write_all` through the `CrcWriter`, for every schedule: the stream grows by the part of the input that is
    not left over, the checksum advances over exactly that part, and success means nothing is left -/
theorem cwWriteAll_spec {α : Type} (upd : α → Nat → α) (ev : Nat → Ev) (fuel : Nat) (w : CW α) (bs : List Nat) :
    ∀ w' rest ok, cwWriteAll upd ev fuel w bs = (w', rest, ok) →
      (∃ written, w'.inner.data = w.inner.data ++ written ∧ written ++ rest = bs ∧ w'.sum = written.foldl upd w.sum)
        ∧ (ok = true → rest = []) := by
  induction fuel generalizing w bs with
  | zero =>
    intro w' rest ok h
    simp only [cwWriteAll] at h
    cases h
    exact ⟨⟨[], by simp, by simp, rfl⟩, by intro h; simpa using h⟩
  | succ fuel ih =>
    intro w' rest ok h
    simp only [cwWriteAll] at h
    split at h
    · rename_i he
      cases h
      have : bs = [] := by simpa using he
      subst this
      exact ⟨⟨[], by simp, by simp, rfl⟩, fun _ => rfl⟩
    · cases hev : ev w.inner.calls with
      | fail =>
        simp only [cwWrite, sinkWrite, hev] at h
        cases h
        exact ⟨⟨[], by simp, by simp, rfl⟩, by intro h; cases h⟩
      | intr =>
        simp only [cwWrite, sinkWrite, hev] at h
        obtain ⟨⟨wr, h1, h2, h4⟩, h3⟩ := ih _ _ _ _ _ h
        exact ⟨⟨wr, by simpa using h1, h2, by simpa using h4⟩, h3⟩
      | take k =>
        simp only [cwWrite, sinkWrite, hev] at h
        have e : bs.take (k + 1) = bs.take (min (k + 1) bs.length) := by
          rw [List.take_eq_take_iff]; omega
        split at h
        · cases h
          rename_i hz
          simp only [beq_iff_eq] at hz
          have : bs.length = 0 := by omega
          have : bs = [] := List.length_eq_zero_iff.mp this
          subst this
          exact ⟨⟨[], by simp, by simp, by simp⟩, by intro h; cases h⟩
        · obtain ⟨⟨wr, h1, h2, h4⟩, h3⟩ := ih _ _ _ _ _ h
          refine ⟨⟨bs.take (k + 1) ++ wr, by simpa [List.append_assoc] using h1, ?_, ?_⟩, h3⟩
          · rw [List.append_assoc, h2, e, List.take_append_drop]
          · rw [h4, List.foldl_append, folded_accepted, e]

/-- the invariant of a `CrcWriter` created on a stream that held `s0`: its checksum is the checksum of everything that
    reached the stream since -/
def CwInv {α : Type} (upd : α → Nat → α) (init : α) (s0 : List Nat) (w : CW α) : Prop :=
  ∃ d, w.inner.data = s0 ++ d ∧ w.sum = d.foldl upd init

/-- **The checksum follows the stream, not the caller**: after any number of pieces, under any schedule and whether or
    not the writes succeeded, the carried checksum is that of the bytes delivered; on success those are all the pieces. -/
theorem cwChunks_spec {α : Type} (upd : α → Nat → α) (init : α) (ev : Nat → Ev) (fuel : Nat) (s0 : List Nat)
    (chunks : List (List Nat)) (w : CW α) (h : CwInv upd init s0 w) :
    ∀ w' ok, cwWriteChunks upd ev fuel w chunks = (w', ok) →
      CwInv upd init s0 w' ∧ (ok = true → w'.inner.data = w.inner.data ++ chunks.flatten) := by
  induction chunks generalizing w with
  | nil => intro w' ok hc; simp only [cwWriteChunks] at hc; cases hc; exact ⟨h, by simp⟩
  | cons c r ih =>
    intro w' ok hc
    simp only [cwWriteChunks] at hc
    cases hr : cwWriteAll upd ev fuel w c with
    | mk w1 p =>
      obtain ⟨rest, ok1⟩ := p
      rw [hr] at hc
      obtain ⟨⟨wr, h1, h2, h4⟩, h3⟩ := cwWriteAll_spec upd ev fuel w c w1 rest ok1 hr
      obtain ⟨d, hd, hs⟩ := h
      have hinv1 : CwInv upd init s0 w1 := ⟨d ++ wr, by rw [h1, hd, List.append_assoc], by rw [h4, hs, List.foldl_append]⟩
      cases ok1 with
      | false => dsimp only at hc; cases hc; exact ⟨hinv1, by intro h; cases h⟩
      | true =>
        dsimp only at hc
        have := h3 rfl
        subst this
        simp only [List.append_nil] at h2
        subst h2
        obtain ⟨hi, hk⟩ := ih w1 hinv1 w' ok hc
        exact ⟨hi, fun hok => by rw [hk hok, h1]; simp⟩

/-- **A frame reported written is on the stream whole, with the checksum of its own bytes** — for every behaviour of
    the stream, short writes included. -/
theorem frame_ok_delivers {α : Type} (upd : α → Nat → α) (init : α) (fin : α → List Nat) (ev : Nat → Ev) (fuel : Nat)
    (s s' : Sink) (chunks : List (List Nat)) (h : cwFrame upd init fin ev fuel s chunks = (s', true)) :
    s'.data = s.data ++ chunks.flatten ++ fin (chunks.flatten.foldl upd init) := by
  simp only [cwFrame] at h
  cases hc : cwWriteChunks upd ev fuel { inner := s, sum := init } chunks with
  | mk w ok =>
    rw [hc] at h
    obtain ⟨⟨d, hd, hs⟩, hk⟩ := cwChunks_spec upd init ev fuel s.data chunks { inner := s, sum := init } ⟨[], by simp, rfl⟩ w ok hc
    cases ok with
    | false => simp at h
    | true =>
      dsimp only at h
      have hdata := hk rfl
      dsimp only at hdata
      have hde : d = chunks.flatten := by
        rw [hd] at hdata; exact List.append_cancel_left hdata
      cases hw : sinkWriteAll ev fuel w.inner (fin w.sum) with
      | mk s1 p =>
        obtain ⟨rest, ok2⟩ := p
        rw [hw] at h
        dsimp only at h
        cases h
        obtain ⟨⟨wr, h1, h2⟩, h3⟩ := sinkWriteAll_spec ev fuel w.inner (fin w.sum) s' rest true hw
        have := h3 rfl
        subst this
        simp only [List.append_nil] at h2
        subst h2
        rw [h1, hdata, hs, hde]

/-- a frame that failed left on the stream a prefix of what a successful one would have left -/
theorem frame_failed_prefix {α : Type} (upd : α → Nat → α) (init : α) (fin : α → List Nat) (ev : Nat → Ev) (fuel : Nat)
    (s s' : Sink) (chunks : List (List Nat)) (ok : Bool) (h : cwFrame upd init fin ev fuel s chunks = (s', ok)) :
    ∃ d, s'.data = s.data ++ d := by
  simp only [cwFrame] at h
  cases hc : cwWriteChunks upd ev fuel { inner := s, sum := init } chunks with
  | mk w okc =>
    rw [hc] at h
    obtain ⟨⟨d, hd, _⟩, _⟩ := cwChunks_spec upd init ev fuel s.data chunks { inner := s, sum := init } ⟨[], by simp, rfl⟩ w okc hc
    cases okc with
    | false => dsimp only at h; cases h; exact ⟨d, hd⟩
    | true =>
      dsimp only at h
      cases hw : sinkWriteAll ev fuel w.inner (fin w.sum) with
      | mk s1 p =>
        obtain ⟨rest, ok2⟩ := p
        rw [hw] at h
        dsimp only at h
        cases h
        obtain ⟨⟨wr, h1, _⟩, _⟩ := sinkWriteAll_spec ev fuel w.inner (fin w.sum) s' rest ok hw
        exact ⟨d ++ wr, by rw [h1, hd, List.append_assoc]⟩

/-- a run of frames: success means all of them arrived, one after the other, each with its checksum -/
theorem frames_ok_deliver {α : Type} (upd : α → Nat → α) (init : α) (fin : α → List Nat) (ev : Nat → Ev) (fuel : Nat)
    (frames : List (List (List Nat))) (s s' : Sink) (h : cwFrames upd init fin ev fuel s frames = (s', true)) :
    s'.data = s.data ++ (frames.map fun f => f.flatten ++ fin (f.flatten.foldl upd init)).flatten := by
  induction frames generalizing s with
  | nil => simp only [cwFrames] at h; cases h; simp
  | cons f r ih =>
    simp only [cwFrames] at h
    cases hf : cwFrame upd init fin ev fuel s f with
    | mk s1 ok =>
      rw [hf] at h
      cases ok with
      | false => simp at h
      | true =>
        dsimp only at h
        rw [ih s1 h, frame_ok_delivers upd init fin ev fuel s s1 f hf]
        simp [List.append_assoc]

/-- the two big-endian bytes of a CRC-16 -/
def crc16Bytes (c : Nat) : List Nat := [c / 256, c % 256]

/-- **With the crate's CRC-16**: every frame reported written, under every schedule, is on the stream as bytes whose
    CRC-16 over the whole frame is zero — the test every FLAC decoder applies. -/
theorem frame_ok_crc16_valid (ev : Nat → Ev) (fuel : Nat) (s s' : Sink) (chunks : List (List Nat))
    (h : cwFrame crc16Update 0 crc16Bytes ev fuel s chunks = (s', true)) :
    ∃ frame, s'.data = s.data ++ frame ∧ frame = chunks.flatten ++ crc16Bytes (crc16 chunks.flatten) ∧ crc16 frame = 0 := by
  refine ⟨_, ?_, rfl, crc16_self _⟩
  rw [frame_ok_delivers _ _ _ ev fuel s s' chunks h, List.append_assoc]
  rfl

/-- the frame header's CRC-8 is written the same way (`FrameHeader::write`) -/
theorem header_ok_crc8_valid (ev : Nat → Ev) (fuel : Nat) (s s' : Sink) (chunks : List (List Nat))
    (h : cwFrame crc8Update 0 (fun c => [c]) ev fuel s chunks = (s', true)) :
    ∃ hdr, s'.data = s.data ++ hdr ∧ crc8 hdr = 0 := by
  refine ⟨_, ?_, crc8_self chunks.flatten⟩
  rw [frame_ok_delivers _ _ _ ev fuel s s' chunks h, List.append_assoc]
  rfl

/-- **`CrcReader`**: whatever sizes the wrapped reader delivers its bytes in, the checksum is that of the bytes delivered, in order -/
theorem reads_checksum {α : Type} (upd : α → Nat → α) (sum : α) (hist : List (Nat × List Nat))
    (hfit : ∀ p ∈ hist, p.2.length ≤ p.1) :
    crReads upd sum hist = (hist.map (·.2)).flatten.foldl upd sum := by
  induction hist generalizing sum with
  | nil => rfl
  | cons p r ih =>
    obtain ⟨want, got⟩ := p
    simp only [crReads, List.map_cons, List.flatten_cons, List.foldl_append]
    rw [ih _ (fun q hq => hfit q (by simp [hq]))]
    congr 1
    simp only [crRead, folded_delivered]
    rw [List.take_append_of_le_length (Nat.le_refl _), List.take_length]

/-- non-vacuity: a sink that takes one byte per call, interrupted now and then, still ends with a valid frame -/
example : (cwFrame crc16Update 0 crc16Bytes (fun n => if n % 3 == 1 then .intr else .take 0) 60 { data := [7] } [[255, 248, 1], [2, 3]]).2 = true := by decide
example : crc16 ((cwFrame crc16Update 0 crc16Bytes (fun n => if n % 3 == 1 then .intr else .take 0) 60 { data := [] } [[255, 248, 1], [2, 3]]).1.data) = 0 := by decide

end Flac.C13
