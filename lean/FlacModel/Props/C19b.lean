/-
  Props/C19b.lean — C19, the constant-block clause: for a block whose samples are all equal and non-zero (an all-zero channel takes the
  `all_0` shortcut), `encode_fixed_subframe` picks order 1 and its residuals are all zero — so the FIXED candidate is the one whose
  size `C19.constant_block_small` bounds independently of the block length.
-/
import FlacModel.Model.FixedPick
import FlacModel.Props.C19

namespace Flac.C19
open Flac Flac.Gen

theorem fixedDiff_self (v : Int) : encFixedDiff v v = some 0 := by
  simp [encFixedDiff, checkedSubS, fitsS]

/-- one difference round over a constant signal gives zeros, one shorter -/
theorem encDiff_const (v : Int) (n : Nat) : encDiff (List.replicate (n + 1) v) = some (List.replicate n 0) := by
  induction n with
  | zero => rfl
  | succ n ih =>
    have e : List.replicate (n + 1 + 1) v = v :: v :: List.replicate n v := by simp [List.replicate_succ]
    rw [e]
    simp only [encDiff, fixedDiff_self]
    have e2 : v :: List.replicate n v = List.replicate (n + 1) v := by simp [List.replicate_succ]
    rw [e2, ih]
    simp [List.replicate_succ]

theorem absSumTail_zeros (m k : Nat) : absSumTail m (List.replicate k 0) = 0 := by
  unfold absSumTail
  have : ∀ l : List Int, (∀ x ∈ l, x = 0) → (l.map Int.natAbs).sum = 0 := by
    intro l hl
    induction l with
    | nil => rfl
    | cons a t ih =>
      simp only [List.map_cons, List.sum_cons, hl a (by simp), Int.natAbs_zero, Nat.zero_add]
      exact ih (fun x hx => hl x (by simp [hx]))
  apply this
  intro x hx
  have := List.mem_of_mem_drop hx
  exact (List.mem_replicate.mp this).2

theorem argminFirst_second (k0 : Nat) (rest : List Nat) (h0 : 0 < k0) : argminFirst (k0 :: 0 :: rest) = 1 := by
  have hnot : ((0 :: rest).all (k0 ≤ ·)) = false := by
    simp only [List.all_cons]
    have : decide (k0 ≤ 0) = false := by simp; omega
    rw [this, Bool.false_and]
  have hz : argminFirst (0 :: rest) = 0 := by
    cases rest with
    | nil => rfl
    | cons a t =>
      simp only [argminFirst]
      have : ((a :: t).all (0 ≤ ·)) = true := by simp
      simp
  simp only [argminFirst, hnot, Bool.false_eq_true, if_false, hz]

/-- **A constant non-zero block is written by `encode_fixed_subframe` as FIXED order 1 with all-zero residuals**, whatever its length (≥ 2). -/
theorem constant_block_fixed_zero (v : Int) (hv : v ≠ 0) (n : Nat) :
    fixedPick (List.replicate (n + 2) v) = (1, List.replicate (n + 1) 0) := by
  have hc : fixedCandidates (List.replicate (n + 2) v)
      = List.replicate (n + 2) v :: List.replicate (n + 1) 0 :: fixedOrders 3 (List.replicate (n + 1) 0) := by
    have e : List.replicate (n + 2) v = v :: List.replicate (n + 1) v := by simp [List.replicate_succ]
    simp only [fixedCandidates, fixedOrders]
    rw [e]
    simp only []
    have e' : v :: List.replicate (n + 1) v = List.replicate (n + 1 + 1) v := by simp [List.replicate_succ]
    rw [e', encDiff_const v (n + 1)]
    simp [List.replicate_succ]
  unfold fixedPick
  simp only [hc]
  -- the last candidate is non-empty: either the zeros of order 1 or a later (non-empty by construction) signal
  have hlast : 1 ≤ (((List.replicate (n + 2) v :: List.replicate (n + 1) 0 :: fixedOrders 3 (List.replicate (n + 1) 0)).getLast?).getD []).length := by
    have hne : ∀ k prev, ∀ d ∈ fixedOrders k prev, 1 ≤ d.length := by
      intro k
      induction k with
      | zero => intro prev d hd; simp [fixedOrders] at hd
      | succ k ih =>
        intro prev d hd
        cases prev with
        | nil => simp [fixedOrders] at hd
        | cons a t =>
          simp only [fixedOrders] at hd
          cases hdiff : encDiff (a :: t) with
          | none => rw [hdiff] at hd; simp at hd
          | some dd =>
            rw [hdiff] at hd
            by_cases hem : dd.isEmpty
            · simp [hem] at hd
            · simp only [hem, Bool.false_eq_true, if_false, List.mem_cons] at hd
              rcases hd with rfl | hd
              · cases d with
                | nil => simp at hem
                | cons _ _ => simp
              · exact ih dd d hd
    cases hfo : fixedOrders 3 (List.replicate (n + 1) 0) with
    | nil => simp [List.getLast?]
    | cons a t =>
      have hmem : ((List.replicate (n + 2) v :: List.replicate (n + 1) 0 :: a :: t).getLast?).getD [] ∈ fixedOrders 3 (List.replicate (n + 1) 0) := by
        rw [hfo]
        have : (List.replicate (n + 2) v :: List.replicate (n + 1) 0 :: a :: t).getLast? = (a :: t).getLast? := by
          simp [List.getLast?_cons_cons]
        rw [this]
        cases hl : (a :: t).getLast? with
        | none => simp at hl
        | some x => simp only [Option.getD_some]; exact List.mem_of_getLast? hl
      exact hne 3 _ _ hmem
  generalize (((List.replicate (n + 2) v :: List.replicate (n + 1) 0 :: fixedOrders 3 (List.replicate (n + 1) 0)).getLast?).getD []).length = m at hlast
  simp only [List.map_cons, absSumTail_zeros]
  have hk0 : 0 < absSumTail m (List.replicate (n + 2) v) := by
    unfold absSumTail
    have hlen : (List.replicate (n + 2) v).length - m < (List.replicate (n + 2) v).length := by simp; omega
    have hdrop : (List.replicate (n + 2) v).drop ((List.replicate (n + 2) v).length - m) = List.replicate (min m (n + 2)) v := by
      simp [List.drop_replicate]; omega
    rw [hdrop]
    have hpos : 0 < min m (n + 2) := by omega
    obtain ⟨j, hj⟩ : ∃ j, min m (n + 2) = j + 1 := ⟨min m (n + 2) - 1, by omega⟩
    rw [hj, List.replicate_succ, List.map_cons, List.sum_cons]
    have : 0 < v.natAbs := Int.natAbs_pos.mpr hv
    omega
  rw [argminFirst_second _ _ hk0]
  simp

/-- non-vacuity / sanity on concrete blocks -/
example : fixedPick [5, 5, 5, 5, 5, 5] = (1, [0, 0, 0, 0, 0]) := by decide
example : fixedPick [1, 2, 3, 4, 5, 6] = (2, [0, 0, 0, 0]) := by decide

end Flac.C19
