/-
  Props/C13.lean — success is only reported when the output really reached the underlying stream.
-/
import FlacModel.Model.Io

namespace Flac.C13
open Flac.Io Flac.Gen

/-- `write_all`: the sink grows by exactly the part of the input that is not left over; success
    means nothing is left -/
theorem sinkWriteAll_spec (ev : Nat → Ev) (fuel : Nat) (s : Sink) (bs : List Nat) :
    ∀ s' rest ok, sinkWriteAll ev fuel s bs = (s', rest, ok) →
      (∃ written, s'.data = s.data ++ written ∧ written ++ rest = bs) ∧ (ok = true → rest = []) := by
  induction fuel generalizing s bs with
  | zero =>
    intro s' rest ok h
    simp only [sinkWriteAll] at h
    cases h
    exact ⟨⟨[], by simp, by simp⟩, by intro h; simpa using h⟩
  | succ fuel ih =>
    intro s' rest ok h
    simp only [sinkWriteAll] at h
    split at h
    · rename_i he
      cases h
      have : bs = [] := by simpa using he
      subst this
      exact ⟨⟨[], by simp, by simp⟩, fun _ => rfl⟩
    · cases hev : ev s.calls with
      | fail =>
        simp only [sinkWrite, hev] at h
        cases h
        exact ⟨⟨[], by simp, by simp⟩, by intro h; cases h⟩
      | intr =>
        simp only [sinkWrite, hev] at h
        obtain ⟨⟨wr, h1, h2⟩, h3⟩ := ih _ _ _ _ _ h
        exact ⟨⟨wr, by simpa using h1, h2⟩, h3⟩
      | take k =>
        simp only [sinkWrite, hev] at h
        split at h
        · cases h
          exact ⟨⟨bs.take (k + 1), rfl, by
            rename_i hz
            simp only [beq_iff_eq] at hz
            have : bs.length = 0 := by omega
            have : bs = [] := List.length_eq_zero_iff.mp this
            subst this; simp⟩, by intro h; cases h⟩
        · obtain ⟨⟨wr, h1, h2⟩, h3⟩ := ih _ _ _ _ _ h
          refine ⟨⟨bs.take (k + 1) ++ wr, by simpa [List.append_assoc] using h1, ?_⟩, h3⟩
          have e : bs.take (k + 1) = bs.take (min (k + 1) bs.length) := by
            rw [List.take_eq_take_iff]; omega
          rw [List.append_assoc, h2, e, List.take_append_drop]

/-- the buffered writer's invariant: sink contents followed by the buffer = everything accepted -/
def Inv (s0 : List Nat) (acc : List Nat) (w : BW) : Prop := w.inner.data ++ w.buf = s0 ++ acc

theorem flushBuf_spec (ev : Nat → Ev) (fuel : Nat) (w : BW) (s0 acc : List Nat) (h : Inv s0 acc w) :
    Inv s0 acc (flushBuf ev fuel w).1 ∧ ((flushBuf ev fuel w).2 = true → (flushBuf ev fuel w).1.buf = []) := by
  unfold flushBuf
  cases hr : sinkWriteAll ev fuel w.inner w.buf with
  | mk s' p =>
    obtain ⟨rest, ok⟩ := p
    obtain ⟨⟨wr, h1, h2⟩, h3⟩ := sinkWriteAll_spec ev fuel w.inner w.buf s' rest ok hr
    refine ⟨?_, h3⟩
    simp only [Inv] at h ⊢
    rw [h1, List.append_assoc, h2, h]

theorem bwWriteAll_spec (ev : Nat → Ev) (fuel : Nat) (w : BW) (bs : List Nat) (s0 acc : List Nat) (h : Inv s0 acc w) :
    ((bwWriteAll ev fuel w bs).2 = true → Inv s0 (acc ++ bs) (bwWriteAll ev fuel w bs).1)
      ∧ ((bwWriteAll ev fuel w bs).2 = false → ∃ acc', Inv s0 acc' (bwWriteAll ev fuel w bs).1) := by
  unfold bwWriteAll
  split
  · refine ⟨fun _ => ?_, fun hc => (by cases hc)⟩
    simp only [Inv] at h ⊢
    rw [← List.append_assoc, h, List.append_assoc]
  · obtain ⟨f1, f2⟩ := flushBuf_spec ev fuel w s0 acc h
    cases hf : flushBuf ev fuel w with
    | mk w' ok =>
      rw [hf] at f1 f2
      cases ok with
      | false => exact ⟨fun hc => (by cases hc), fun _ => ⟨acc, f1⟩⟩
      | true =>
        dsimp only
        have hb : w'.buf = [] := f2 rfl
        split
        · refine ⟨fun _ => ?_, fun hc => (by cases hc)⟩
          simp only [Inv] at f1 ⊢
          rw [← List.append_assoc, f1, List.append_assoc]
        · cases hr : sinkWriteAll ev fuel w'.inner bs with
          | mk s' p =>
            obtain ⟨rest, ok2⟩ := p
            obtain ⟨⟨wr, h1, h2⟩, h3⟩ := sinkWriteAll_spec ev fuel w'.inner bs s' rest ok2 hr
            dsimp only
            simp only [Inv, hb, List.append_nil] at f1 ⊢
            constructor
            · intro hok
              have := h3 hok
              subst this
              simp only [List.append_nil] at h2
              subst h2
              rw [h1, f1, List.append_assoc]
            · intro _
              exact ⟨acc ++ wr, by rw [h1, f1, List.append_assoc]⟩

theorem chunks_spec (ev : Nat → Ev) (fuel : Nat) (chunks : List (List Nat)) (w : BW) (s0 acc : List Nat) (h : Inv s0 acc w) :
    ((bwWriteChunks ev fuel w chunks).2 = true → Inv s0 (acc ++ chunks.flatten) (bwWriteChunks ev fuel w chunks).1) := by
  induction chunks generalizing w acc with
  | nil => intro _; simpa [bwWriteChunks] using h
  | cons c r ih =>
    simp only [bwWriteChunks]
    obtain ⟨s1, _⟩ := bwWriteAll_spec ev fuel w c s0 acc h
    cases hw : bwWriteAll ev fuel w c with
    | mk w' ok =>
      rw [hw] at s1
      cases ok with
      | false => intro hc; cases hc
      | true =>
        dsimp only
        intro hok
        have := ih w' (acc ++ c) (s1 rfl) hok
        simpa [List.append_assoc] using this

/-- **The in-place metadata write delivers or fails.**  For EVERY failure schedule of the underlying
    stream (any call failing, interrupted or short), every buffer capacity and every way the
    serialiser splits its output into writes: if the in-place write reports success, the stream holds
    exactly the old contents followed by every byte of the new blocks. -/
theorem inplace_ok_delivers (ev : Nat → Ev) (fuel : Nat) (sink : Sink) (cap : Nat) (chunks : List (List Nat)) (s' : Sink)
    (h : writeInPlaceImpl ev fuel sink cap chunks = (s', true)) : s'.data = sink.data ++ chunks.flatten := by
  have hflag : metaUpdateFlushes = true := rfl
  unfold writeInPlaceImpl writeInPlace at h
  have hinv0 : Inv sink.data [] { inner := sink, cap := cap } := by simp [Inv]
  have hc := chunks_spec ev fuel chunks { inner := sink, cap := cap } sink.data [] hinv0
  cases hw : bwWriteChunks ev fuel { inner := sink, cap := cap } chunks with
  | mk w ok =>
    rw [hw] at h hc
    cases ok with
    | false => simp at h
    | true =>
      dsimp only at h
      rw [hflag] at h
      simp only [↓reduceIte] at h
      have hinv := hc rfl
      simp only [List.nil_append] at hinv
      unfold bwFlush at h
      obtain ⟨f1, f2⟩ := flushBuf_spec ev fuel w sink.data chunks.flatten hinv
      cases hf : flushBuf ev fuel w with
      | mk w' okf =>
        rw [hf] at h f1 f2
        cases okf with
        | false => simp at h
        | true =>
          dsimp only at h
          have hb := f2 rfl
          cases hs : sinkFlush ev w'.inner with
          | mk s2 ok2 =>
            rw [hs] at h
            simp only [Prod.mk.injEq] at h
            obtain ⟨h1, h2⟩ := h
            subst h1
            unfold Inv at f1
            rw [hb, List.append_nil] at f1
            -- the flush call does not change the data
            unfold sinkFlush at hs
            split at hs <;> (cases hs; exact f1)

/-- the original shape (writer dropped, no checked flush) does NOT have the property: one failing
    write is enough to report success with nothing delivered -/
theorem dropped_writer_loses_data :
    ∃ ev fuel sink cap chunks s', writeInPlace false ev fuel sink cap chunks = (s', true) ∧ s'.data ≠ sink.data ++ chunks.flatten := by
  refine ⟨fun _ => .fail, 5, {}, 8, [[1, 2, 3]], _, rfl, ?_⟩
  decide

/-- **Direct writes** (`write_blocks`, the encoder's frames and header rewrite go through `?` on every
    write): success means every byte arrived, for every failure schedule. -/
theorem direct_ok_delivers (ev : Nat → Ev) (fuel : Nat) (chunks : List (List Nat)) (s s' : Sink)
    (h : writeDirect ev fuel s chunks = (s', true)) : s'.data = s.data ++ chunks.flatten := by
  induction chunks generalizing s with
  | nil => simp only [writeDirect] at h; cases h; simp
  | cons c r ih =>
    simp only [writeDirect] at h
    cases hr : sinkWriteAll ev fuel s c with
    | mk s1 p =>
      obtain ⟨rest, ok⟩ := p
      rw [hr] at h
      obtain ⟨⟨wr, h1, h2⟩, h3⟩ := sinkWriteAll_spec ev fuel s c s1 rest ok hr
      cases ok with
      | false => simp at h
      | true =>
        dsimp only at h
        have := h3 rfl
        subst this
        simp only [List.append_nil] at h2
        subst h2
        rw [ih s1 h, h1]
        simp

/-- non-vacuity: with a cooperative stream the in-place write succeeds -/
example : (writeInPlaceImpl (fun _ => .take 3) 50 { data := [9] } 4 [[1, 2, 3], [4, 5, 6, 7, 8, 9]]).2 = true := by decide

end Flac.C13
