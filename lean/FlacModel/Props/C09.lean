/-
  Props/C09.lean — C09: STREAMINFO and SEEKTABLE written at finalize describe the stream truthfully.
  Model: `Model/Finalize.lean`.
-/
import FlacModel.Model.Finalize

namespace Flac.C09
open Flac

/-- run the recorder over frames given as (length in samples, size in bytes) -/
def record (r : Recorder) (fs : List (Nat × Nat)) : Recorder := fs.foldl (fun r f => r.encode f.1 f.2) r

/-- prefix sums: the point list a truthful recorder must produce, starting at (s0, b0) -/
def truePoints : Nat → Nat → List (Nat × Nat) → List EncPoint
  | _, _, [] => []
  | s, b, f :: fs => { sample := s, byte := b, len := f.1 } :: truePoints (s + f.1) (b + f.2) fs

theorem record_points (r : Recorder) (fs : List (Nat × Nat)) :
    (record r fs).points = r.points ++ truePoints r.samplesWritten r.count fs
    ∧ (record r fs).samplesWritten = r.samplesWritten + (fs.map (·.1)).sum
    ∧ (record r fs).count = r.count + (fs.map (·.2)).sum := by
  induction fs generalizing r with
  | nil => simp [record, truePoints]
  | cons f fs ih =>
    have h := ih (r.encode f.1 f.2)
    simp only [record, List.foldl_cons] at h ⊢
    obtain ⟨h1, h2, h3⟩ := h
    refine ⟨?_, ?_, ?_⟩
    · rw [h1]; simp [Recorder.encode, truePoints]
    · rw [h2]; simp [Recorder.encode]; omega
    · rw [h3]; simp [Recorder.encode]; omega

/-- **seekpoints_invariant**: after encoding any sequence of frames, point `i` carries the number of
    samples in frames `0..i−1`, the number of bytes in frames `0..i−1` (offset from the first frame)
    and the length of frame `i`; `samples_written` is the total -/
theorem seekpoints_invariant (fs : List (Nat × Nat)) :
    (record Recorder.init fs).points = truePoints 0 0 fs
    ∧ (record Recorder.init fs).samplesWritten = (fs.map (·.1)).sum := by
  obtain ⟨h1, h2, _⟩ := record_points Recorder.init fs
  exact ⟨by simpa [Recorder.init] using h1, by simpa [Recorder.init] using h2⟩

/-- every point of the true list names a real frame: the frames before it hold exactly `sample`
    samples and `byte` bytes -/
theorem truePoints_truthful (s b : Nat) (fs : List (Nat × Nat)) (p : EncPoint) (hp : p ∈ truePoints s b fs) :
    ∃ pre f post, fs = pre ++ f :: post ∧ p.sample = s + (pre.map (·.1)).sum ∧ p.byte = b + (pre.map (·.2)).sum ∧ p.len = f.1 := by
  induction fs generalizing s b with
  | nil => simp [truePoints] at hp
  | cons f fs ih =>
    simp only [truePoints, List.mem_cons] at hp
    rcases hp with rfl | hp
    · exact ⟨[], f, fs, by simp, by simp, by simp, rfl⟩
    · obtain ⟨pre, g, post, e1, e2, e3, e4⟩ := ih _ _ hp
      refine ⟨f :: pre, g, post, by simp [e1], ?_, ?_, e4⟩
      · simp [e2]; omega
      · simp [e3]; omega

/-! ### the interval filters only select, never alter or reorder -/

theorem secondsFilter_sublist (nth off : Nat) (pts : List EncPoint) : (secondsFilter nth off pts).Sublist pts := by
  induction pts generalizing off with
  | nil => simp [secondsFilter]
  | cons p ps ih =>
    unfold secondsFilter
    split
    · exact (ih _).cons₂ p
    · exact (ih _).cons p

theorem stepBy_sublist (n k : Nat) (xs : List α) : (stepBy n k xs).Sublist xs := by
  induction xs generalizing k with
  | nil => simp [stepBy]
  | cons x xs ih =>
    cases k with
    | zero => simp only [stepBy]; exact (ih _).cons₂ x
    | succ k => simp only [stepBy]; exact (ih _).cons x

theorem filter_sublist (iv : Interval) (rate : Nat) (pts : List EncPoint) : (iv.filter rate pts).Sublist pts := by
  cases iv with
  | seconds s => exact secondsFilter_sublist _ _ _
  | frames n => exact stepBy_sublist _ _ _

/-- **defined seek points are truthful**: every point that `finalize` can write for a stream of
    frames `fs` names the first sample, the byte offset from the first frame and the length of an
    actual frame (this is C06's hypothesis `TableTruthful` for files written by the crate) -/
theorem written_points_truthful (iv : Interval) (rate : Nat) (fs : List (Nat × Nat)) (p : EncPoint)
    (hp : p ∈ iv.filter rate (record Recorder.init fs).points) :
    ∃ pre f post, fs = pre ++ f :: post ∧ p.sample = (pre.map (·.1)).sum ∧ p.byte = (pre.map (·.2)).sum ∧ p.len = f.1 := by
  rw [(seekpoints_invariant fs).1] at hp
  have hm : p ∈ truePoints 0 0 fs := (filter_sublist iv rate _).subset hp
  obtain ⟨pre, f, post, e1, e2, e3, e4⟩ := truePoints_truthful 0 0 fs p hm
  exact ⟨pre, f, post, e1, by omega, by omega, e4⟩

/-- sample offsets of the recorded points are strictly ascending when every frame is non-empty -/
theorem truePoints_sorted (s b : Nat) (fs : List (Nat × Nat)) (hpos : ∀ f ∈ fs, 0 < f.1) :
    (truePoints s b fs).Pairwise (fun p q => p.sample < q.sample) ∧ ∀ p ∈ truePoints s b fs, s ≤ p.sample := by
  induction fs generalizing s b with
  | nil => simp [truePoints]
  | cons f fs ih =>
    obtain ⟨h1, h2⟩ := ih (s + f.1) (b + f.2) (fun g hg => hpos g (by simp [hg]))
    have hf := hpos f (by simp)
    refine ⟨?_, ?_⟩
    · simp only [truePoints, List.pairwise_cons]
      exact ⟨fun q hq => by have := h2 q hq; simp; omega, h1⟩
    · intro p hp
      simp only [truePoints, List.mem_cons] at hp
      rcases hp with rfl | hp
      · simp
      · have := h2 p hp; omega

/-- **points_sorted_placeholders_last**: the table written at finalize is strictly ascending in its
    defined points and placeholders only follow them -/
theorem points_sorted (iv : Interval) (rate : Nat) (fs : List (Nat × Nat)) (hpos : ∀ f ∈ fs, 0 < f.1) :
    (iv.filter rate (record Recorder.init fs).points).Pairwise (fun p q => p.sample < q.sample) := by
  rw [(seekpoints_invariant fs).1]
  exact (truePoints_sorted 0 0 fs hpos).1.sublist (filter_sublist iv rate _)

/-- **finalize_preserves_metadata_len**: in every layout case the SEEKTABLE + first PADDING occupy
    exactly as many bytes after `finalize` as before, so the header rewrite covers exactly the
    region written up front and cannot reach the first frame -/
theorem finalize_preserves_metadata_len (iv : Option Interval) (rate : Nat) (pts : List EncPoint)
    (tablePoints : Option Nat) (padding : Option Nat) :
    layoutBytes (finalizeLayout iv rate pts tablePoints padding).1 (finalizeLayout iv rate pts tablePoints padding).2
      = layoutBytes (tablePoints.map (fun n => List.replicate n SeekPt.placeholder)) padding := by
  cases iv with
  | none => cases tablePoints <;> cases padding <;> simp [finalizeLayout, layoutBytes]
  | some iv =>
    cases tablePoints with
    | some n =>
      cases padding <;> simp [finalizeLayout, layoutBytes, List.length_take]
    | none =>
      cases padding with
      | none => simp [finalizeLayout, layoutBytes]
      | some pad =>
        simp only [finalizeLayout]
        split
        · rename_i h
          simp only [layoutBytes, List.length_map, Option.map_none]
          omega
        · simp [layoutBytes]

/-- **frame_size_extrema**: the recorded minimum / maximum frame sizes are attained by some frame
    and bound every frame size in (0, 2²⁴−1) -/
theorem frame_size_extrema (r : Recorder) (fs : List (Nat × Nat))
    (hr : r.minFrame ≤ r.maxFrame ∧ (r.minFrame = 0 ↔ r.maxFrame = 0)) :
    (∀ f ∈ fs, 0 < f.2 → f.2 < maxFrameSize → (record r fs).minFrame ≤ f.2 ∧ f.2 ≤ (record r fs).maxFrame ∧ 0 < (record r fs).minFrame)
    ∧ ((record r fs).minFrame ≤ (record r fs).maxFrame ∧ ((record r fs).minFrame = 0 ↔ (record r fs).maxFrame = 0))
    ∧ (0 < r.minFrame → (record r fs).minFrame ≤ r.minFrame ∧ r.maxFrame ≤ (record r fs).maxFrame ∧ 0 < (record r fs).minFrame) := by
  induction fs generalizing r with
  | nil =>
    simp only [record, List.foldl_nil]
    exact ⟨fun f hf => by simp at hf, hr, fun h => ⟨Nat.le_refl _, Nat.le_refl _, h⟩⟩
  | cons f fs ih =>
    have hr' : (r.encode f.1 f.2).minFrame ≤ (r.encode f.1 f.2).maxFrame
        ∧ ((r.encode f.1 f.2).minFrame = 0 ↔ (r.encode f.1 f.2).maxFrame = 0) := by
      simp only [Recorder.encode]
      split
      · split <;> split <;> omega
      · exact hr
    obtain ⟨i1, i2, i3⟩ := ih (r.encode f.1 f.2) hr'
    have hrec : record r (f :: fs) = record (r.encode f.1 f.2) fs := by simp [record]
    rw [hrec]
    refine ⟨?_, i2, ?_⟩
    · intro g hg hg0 hgm
      simp only [List.mem_cons] at hg
      rcases hg with rfl | hg
      · have hmin : 0 < (r.encode g.1 g.2).minFrame ∧ (r.encode g.1 g.2).minFrame ≤ g.2 ∧ g.2 ≤ (r.encode g.1 g.2).maxFrame := by
          simp only [Recorder.encode, hg0, hgm, and_self, if_true]
          split <;> split <;> omega
        obtain ⟨j1, j2, j3⟩ := i3 hmin.1
        omega
      · exact i1 g hg hg0 hgm
    · intro h0
      have hmin : 0 < (r.encode f.1 f.2).minFrame ∧ (r.encode f.1 f.2).minFrame ≤ r.minFrame ∧ r.maxFrame ≤ (r.encode f.1 f.2).maxFrame := by
        simp only [Recorder.encode]
        split
        · split <;> split <;> omega
        · omega
      obtain ⟨j1, j2, j3⟩ := i3 hmin.1
      omega

/-- non-vacuity: three frames of 16, 16 and 5 samples in 16-byte frames, a point every frame -/
example : (Interval.frames 1).filter 100 (record Recorder.init [(16, 16), (16, 16), (5, 16)]).points
    = [⟨0, 0, 16⟩, ⟨16, 16, 16⟩, ⟨32, 32, 5⟩] := by decide

end Flac.C09
