/-
  Proofs/Dot.lean — the prediction sum Σ xᵢ·cᵢ of 32-bit samples and ≤ 16-bit coefficients over
  at most 32 taps never leaves the i64 range, so the i64 accumulation (wrapping or not) is exact.
-/
import FlacModel.Model.Decode
import FlacModel.Proofs.Machine

namespace Flac

theorem natAbs_dot_le (xs cs : List Int) (A B : Nat) (hx : ∀ x ∈ xs, x.natAbs ≤ A) (hc : ∀ c ∈ cs, c.natAbs ≤ B) :
    (dot xs cs).natAbs ≤ cs.length * (A * B) := by
  induction xs generalizing cs with
  | nil => cases cs <;> simp [dot]
  | cons x xs ih =>
    cases cs with
    | nil => simp [dot]
    | cons c cs =>
      simp only [dot, List.length_cons]
      have h1 : (x * c).natAbs ≤ A * B := by
        rw [Int.natAbs_mul]
        exact Nat.mul_le_mul (hx x (by simp)) (hc c (by simp))
      have h2 := ih cs (fun y hy => hx y (by simp [hy])) (fun d hd => hc d (by simp [hd]))
      have h3 := Int.natAbs_add_le (x * c) (dot xs cs)
      rw [Nat.succ_mul]
      omega

theorem wrapS64_of_fits (x : Int) (h : fitsS 64 x = true) : wrapS 64 x = x := by
  rw [fitsS64_iff] at h
  simp only [wrapS]
  have hp : (2 : Int) ^ 64 = 18446744073709551616 := by decide
  simp only [hp]
  split <;> omega

/-- samples within 32 bits, coefficients within 16 bits, at most 32 taps ⇒ the sum fits i64 -/
theorem dot_fits64 (xs cs : List Int) (hx : ∀ x ∈ xs, fitsS 32 x = true) (hc : ∀ c ∈ cs, fitsS 16 c = true)
    (hl : cs.length ≤ 32) : fitsS 64 (dot xs cs) = true := by
  have hx' : ∀ x ∈ xs, x.natAbs ≤ 2147483648 := by
    intro x h; have := (fitsS32_iff x).mp (hx x h); omega
  have hc' : ∀ c ∈ cs, c.natAbs ≤ 32768 := by
    intro c h; have := hc c h; simp [fitsS] at this; omega
  have hb := natAbs_dot_le xs cs 2147483648 32768 hx' hc'
  rw [fitsS64_iff]
  have : cs.length * (2147483648 * 32768) ≤ 32 * (2147483648 * 32768) := Nat.mul_le_mul_right _ hl
  omega

end Flac
