/-
  Proofs/Layout.lean — arithmetic of `rchunks`-style partition slicing (decode.rs `read_block`,
  encode.rs `best_partitions`) against the RFC 9639 partition layout.
-/
import FlacModel.Model.Decode

namespace Flac

theorem rchunk_length (n c : Nat) : (rchunkSizes n c).length = (if n % c = 0 then 0 else 1) + n / c := by
  unfold rchunkSizes; split <;> simp <;> omega

/-- slicing `c·k − order` residuals into pieces of `c` gives exactly `k` pieces only if the first
    piece is non-empty and shorter than `c`, i.e. `order < c` -/
theorem rchunk_count_order (c k order : Nat) (hc : 0 < c) (hk : 0 < k)
    (hlen : (rchunkSizes (c * k - order) c).length = k) : order < c := by
  rw [rchunk_length] at hlen
  by_cases ho : order < c
  · exact ho
  · exfalso
    have hoc : c ≤ order := by omega
    have hsub : c * (k - 1) = c * k - c := by rw [Nat.mul_sub, Nat.mul_one]
    have hn : c * k - order ≤ c * (k - 1) := by omega
    have hdm := Nat.div_add_mod (c * k - order) c
    have hr := Nat.mod_lt (c * k - order) hc
    by_cases hz : (c * k - order) % c = 0
    · simp only [hz, if_true, Nat.zero_add] at hlen
      rw [hlen, hz] at hdm
      have hck : c ≤ c * k := Nat.le_mul_of_pos_right c hk
      omega
    · simp only [hz, if_false] at hlen
      have hq : (c * k - order) / c = k - 1 := by omega
      rw [hq, hsub] at hdm
      have hck : c ≤ c * k := Nat.le_mul_of_pos_right c hk
      omega

/-- the RFC layout written as `rchunks`: for `order < c` slicing `c·n − order` into pieces of `c`
    gives a first piece of `c − order` followed by `n − 1` full pieces -/
theorem rchunk_rfc (c n order : Nat) (hc : order < c) (hn : 1 ≤ n) :
    rchunkSizes (c * n - order) c = (c - order) :: List.replicate (n - 1) c := by
  have hcpos : 0 < c := by omega
  have hsplit : c * n = c * (n - 1) + c := by
    have : n = (n - 1) + 1 := by omega
    conv => lhs; rw [this, Nat.mul_add, Nat.mul_one]
  unfold rchunkSizes
  by_cases ho : order = 0
  · subst ho
    have h0 : (c * n - 0) % c = 0 := by simp
    have hd : (c * n - 0) / c = n := by simp [Nat.mul_div_cancel_left n hcpos]
    rw [h0, hd]
    have : n = (n - 1) + 1 := by omega
    simp only [if_true, List.nil_append, Nat.sub_zero]
    conv => lhs; rw [this, List.replicate_succ]
  · have e : c * n - order = (c - order) + (n - 1) * c := by
      rw [hsplit, Nat.mul_comm c (n - 1)]; omega
    have hmod : (c * n - order) % c = c - order := by
      rw [e, Nat.add_mul_mod_self_right]; exact Nat.mod_eq_of_lt (by omega)
    have hdivv : (c * n - order) / c = n - 1 := by
      rw [e, Nat.add_mul_div_right _ _ hcpos, Nat.div_eq_of_lt (by omega)]; omega
    rw [hmod, hdivv]
    have : ¬ c - order = 0 := by omega
    simp [this]

theorem div_mul_of_mod_zero (bs k : Nat) (h : bs % k = 0) : bs = bs / k * k := by
  have := Nat.div_add_mod bs k; rw [h] at this; rw [Nat.mul_comm] at this; omega

end Flac
