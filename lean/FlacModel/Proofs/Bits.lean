/-
  Proofs/Bits.lean — length lemmas for the bit-level writers of Model/Basic.lean / Model/Frame.lean.
-/
import FlacModel.Model.Frame

namespace Flac

theorem natToBitsAux_length (n v : Nat) (acc : Bits) : (natToBitsAux n v acc).length = n + acc.length := by
  induction n generalizing v acc with
  | zero => simp [natToBitsAux]
  | succ n ih => simp [natToBitsAux, ih]; omega

@[simp] theorem natToBits_length (n v : Nat) : (natToBits n v).length = n := by
  simp [natToBits, natToBitsAux_length]

@[simp] theorem intToBits_length (n : Nat) (v : Int) : (intToBits n v).length = n := by
  simp [intToBits]

theorem numberTail_length (n v : Nat) : (numberTail n v).length = 8 * n := by
  induction n with
  | zero => simp [numberTail]
  | succ n ih => simp [numberTail, ih]; omega

theorem writeNumber_length_le (v n : Nat) (hn : n ≤ 7) : (writeNumber v n).length ≤ 56 := by
  unfold writeNumber
  split
  · simp
  · simp [writeUnary0, numberTail_length]; omega

end Flac
