/-
  Proofs/CueCodec.lean — the CUESHEET reader inverts the CUESHEET writer (pieces).
-/
import FlacModel.Proofs.Bytes

namespace Flac
open Flac.Gen

theorem digit_ne_dash {b : Nat} (h : isDigit b = true) : (b != 45) = true := by
  simp [isDigit] at h; simp; omega

theorem alpha_ne_dash {b : Nat} (h : isAlpha b = true) : (b != 45) = true := by
  simp [isAlpha] at h; simp; omega

theorem alnum_ne_dash {b : Nat} (h : isAlnum b = true) : (b != 45) = true := by
  simp only [isAlnum, Bool.or_eq_true] at h
  rcases h with h | h
  · exact digit_ne_dash h
  · exact alpha_ne_dash h

theorem isrc_exact : cueIsrcExact = true := rfl

theorem isrcPattern_parts {s : List Nat} (h : isrcPattern s = true) :
    s.length = 12 ∧ (s.take 2).all isAlpha = true ∧ ((s.drop 2).take 3).all isAlnum = true
      ∧ ((s.drop 5).take 2).all isDigit = true ∧ (s.drop 7).all isDigit = true := by
  simp only [isrcPattern, isrc_exact, Bool.not_true, Bool.false_or, Bool.and_eq_true, decide_eq_true_eq, beq_iff_eq] at h
  obtain ⟨⟨⟨⟨⟨_, h2⟩, h3⟩, h4⟩, h5⟩, h6⟩ := h
  exact ⟨h6, h2, h3, h4, h5⟩

theorem isrcPattern_no_dash {s : List Nat} (h : isrcPattern s = true) : s.filter (· != 45) = s := by
  obtain ⟨_, h2, h3, h4, h5⟩ := isrcPattern_parts h
  have e : s = s.take 2 ++ ((s.drop 2).take 3 ++ ((s.drop 5).take 2 ++ s.drop 7)) := by
    have a1 : (s.drop 5).take 2 ++ s.drop 7 = s.drop 5 := by
      have := List.take_append_drop 2 (s.drop 5); simpa using this
    have a2 : (s.drop 2).take 3 ++ s.drop 5 = s.drop 2 := by
      have := List.take_append_drop 3 (s.drop 2); simpa using this
    rw [a1, a2, List.take_append_drop]
  apply List.filter_eq_self.mpr
  intro x hx
  rw [e] at hx
  simp only [List.mem_append] at hx
  rw [List.all_eq_true] at h2 h3 h4 h5
  rcases hx with hx | hx | hx | hx
  · exact alpha_ne_dash (h2 x hx)
  · exact alnum_ne_dash (h3 x hx)
  · exact digit_ne_dash (h4 x hx)
  · exact digit_ne_dash (h5 x hx)

theorem isrcPattern_not_zero {s : List Nat} (h : isrcPattern s = true) : s.all (· == 0) = false := by
  obtain ⟨hl, h2, _⟩ := isrcPattern_parts h
  match s, hl with
  | x :: r, _ =>
    simp only [List.take_succ_cons, List.all_cons, Bool.and_eq_true] at h2
    have : isAlpha x = true := h2.1
    simp only [isAlpha, Bool.or_eq_true, Bool.and_eq_true, decide_eq_true_eq] at this
    simp only [List.all_cons, Bool.and_eq_false_iff, beq_eq_false_iff_ne]
    left; omega

theorem padTo_self (n : Nat) (s : List Nat) (h : s.length = n) : padTo n s = s := by
  subst h; simp [padTo]

theorem readIsrc_pad (s : List Nat) (h : isrcOk s = true) : readIsrc (padTo 12 s) = .ok s := by
  simp only [isrcOk, Bool.or_eq_true, List.isEmpty_iff] at h
  rcases h with h | h
  · subst h
    simp [readIsrc, padTo]
  · have hl := (isrcPattern_parts h).1
    rw [padTo_self 12 s hl]
    simp only [readIsrc, isrcPattern_not_zero h, Bool.false_eq_true, ↓reduceIte, isrcFromStr, isrcPattern_no_dash h, h]

theorem padTo_length (n : Nat) (s : List Nat) : (padTo n s).length = n := by
  simp [padTo]; omega

theorem flags_na (na pe : Bool) : (flagsByte na pe / 128 == 1) = na := by
  cases na <;> cases pe <;> decide

theorem flags_pe (na pe : Bool) : (flagsByte na pe / 64 % 2 == 1) = pe := by
  cases na <;> cases pe <;> decide

def indexOk (cdda : Bool) (i : CIndex) : Bool :=
  decide (i.offset ≤ u64Max) && decide (i.number ≤ 255) && (!cdda || i.offset % cueSector == 0)

theorem indexBytes_length (i : CIndex) : (indexBytes i).length = 12 := by simp [indexBytes]

theorem readIndexes_roundtrip (cdda : Bool) (pts : List CIndex) (hw : pts.all (indexOk cdda) = true) (rest : List Nat) :
    readIndexes cdda pts.length (pts.flatMap indexBytes ++ rest) = .ok (pts, rest) := by
  induction pts with
  | nil => simp [readIndexes]
  | cons i r ih =>
    simp only [List.all_cons, Bool.and_eq_true] at hw
    have hi := hw.1
    simp only [indexOk, Bool.and_eq_true, decide_eq_true_eq, Bool.or_eq_true, Bool.not_eq_true', beq_iff_eq, u64Max] at hi
    have e : (i :: r).flatMap indexBytes ++ rest = beBytes 8 i.offset ++ ([i.number] ++ ([0, 0, 0] ++ (r.flatMap indexBytes ++ rest))) := by
      simp [List.flatMap_cons, indexBytes]
    rw [e]
    simp only [List.length_cons, readIndexes]
    rw [takeBytes_append' 8 _ _ (by simp)]
    have hoff : i.offset < 256 ^ 8 := by
      have := of_decide_eq_true hi.1.1
      omega
    simp only [beNat_beBytes 8 i.offset hoff]
    have hc : (cdda && i.offset % cueSector != 0) = false := by
      rcases hi.2 with h | h
      · simp [h]
      · simp [h]
    simp only [hc, Bool.false_eq_true, ↓reduceIte]
    rw [takeBytes_append' 1 [i.number] _ rfl]
    dsimp only
    rw [takeBytes_append' 3 [0, 0, 0] _ rfl]
    simp only [ih hw.2, List.headD_cons]


theorem trackOk_parts {cdda : Bool} {t : CTrack} (h : trackOk cdda t = true) :
    1 ≤ t.number ∧ t.number ≤ 255 ∧ t.offset ≤ u64Max ∧ isrcOk t.isrc = true
      ∧ indexVecOk (if cdda then cueCddaIndexMax else cueNonCddaIndexMax) t.points = true
      ∧ t.points.all (indexOk cdda) = true ∧ (cdda = false ∨ t.offset % cueSector = 0) := by
  simp only [trackOk, Bool.and_eq_true, decide_eq_true_eq, Bool.or_eq_true, Bool.not_eq_true', beq_iff_eq] at h
  obtain ⟨⟨⟨⟨⟨⟨h1, h2⟩, h3⟩, h4⟩, h5⟩, h6⟩, h7⟩ := h
  refine ⟨h1, h2, h3, h4, h5, ?_, h7⟩
  rw [List.all_eq_true] at h6 ⊢
  intro i hi
  have := h6 i hi
  simp only [Bool.and_eq_true, decide_eq_true_eq, Bool.or_eq_true, Bool.not_eq_true', beq_iff_eq] at this
  simp only [indexOk, Bool.and_eq_true, decide_eq_true_eq, Bool.or_eq_true, Bool.not_eq_true', beq_iff_eq]
  exact this

theorem indexVecOk_len {max : Nat} {pts : List CIndex} (h : indexVecOk max pts = true) : pts.length ≤ max := by
  simp only [indexVecOk, Bool.and_eq_true, decide_eq_true_eq] at h
  exact h.1.1

theorem readTrack_roundtrip (cdda : Bool) (t : CTrack) (hw : trackOk cdda t = true) (hn : t.points.length ≤ 255) (rest : List Nat) :
    readTrack cdda (trackBytes t ++ rest) = .ok (t, rest) := by
  obtain ⟨h1, h2, h3, h4, h5, h6, h7⟩ := trackOk_parts hw
  have e : trackBytes t ++ rest = beBytes 8 t.offset ++ ([t.number] ++ (padTo 12 t.isrc ++ ([flagsByte t.nonAudio t.preEmph]
      ++ (List.replicate 13 0 ++ ([t.points.length] ++ (t.points.flatMap indexBytes ++ rest)))))) := by
    simp [trackBytes]
  rw [e]
  simp only [readTrack]
  rw [takeBytes_append' 8 _ _ (by simp)]
  have hoff : t.offset < 256 ^ 8 := by simp only [u64Max] at h3; omega
  simp only [beNat_beBytes 8 t.offset hoff]
  have hc : (cdda && t.offset % cueSector != 0) = false := by
    rcases h7 with h | h <;> simp [h]
  simp only [hc, Bool.false_eq_true, ↓reduceIte]
  rw [takeBytes_append' 1 [t.number] _ rfl]
  dsimp only
  have hz : (t.number == 0) = false := by simp; omega
  simp only [List.headD_cons, hz, Bool.false_eq_true, ↓reduceIte]
  rw [takeBytes_append' 12 _ _ (padTo_length 12 _)]
  dsimp only
  rw [readIsrc_pad _ h4]
  dsimp only
  rw [takeBytes_append' 1 [flagsByte t.nonAudio t.preEmph] _ rfl]
  dsimp only
  rw [takeBytes_append' 13 _ _ (by simp)]
  dsimp only
  rw [takeBytes_append' 1 [t.points.length] _ rfl]
  dsimp only
  simp only [List.headD_cons, readIndexes_roundtrip cdda t.points h6 rest, h5, Bool.not_true, Bool.false_eq_true, ↓reduceIte,
    flags_na, flags_pe]

theorem trackBytes_append_flat (ts : List CTrack) : True := trivial

theorem readTracks_roundtrip (cdda : Bool) (ts : List CTrack) (hw : ts.all (trackOk cdda) = true)
    (hn : ∀ t ∈ ts, t.points.length ≤ 255) (rest : List Nat) :
    readTracks cdda ts.length (ts.flatMap trackBytes ++ rest) = .ok (ts, rest) := by
  induction ts with
  | nil => simp [readTracks]
  | cons t r ih =>
    simp only [List.all_cons, Bool.and_eq_true] at hw
    simp only [List.length_cons, readTracks, List.flatMap_cons, List.append_assoc]
    rw [readTrack_roundtrip cdda t hw.1 (hn t (by simp))]
    dsimp only
    rw [ih hw.2 (fun x hx => hn x (by simp [hx]))]

theorem readLead_roundtrip (cdda : Bool) (l : CLead) (ho : l.offset ≤ u64Max) (hi : isrcOk l.isrc = true)
    (hs : cdda = false ∨ l.offset % cueSector = 0) (rest : List Nat) :
    readLead cdda (leadBytes cdda l ++ rest) = .ok (l, rest) := by
  have e : leadBytes cdda l ++ rest = beBytes 8 l.offset ++ ([if cdda then cueLeadOutCdda else cueLeadOutNonCdda] ++ (padTo 12 l.isrc
      ++ ([flagsByte l.nonAudio l.preEmph] ++ (List.replicate 13 0 ++ ([0] ++ rest))))) := by
    simp [leadBytes]
  rw [e]
  simp only [readLead]
  rw [takeBytes_append' 8 _ _ (by simp)]
  have hoff : l.offset < 256 ^ 8 := by simp only [u64Max] at ho; omega
  simp only [beNat_beBytes 8 l.offset hoff]
  have hc : (cdda && l.offset % cueSector != 0) = false := by
    rcases hs with h | h <;> simp [h]
  simp only [hc, Bool.false_eq_true, ↓reduceIte]
  rw [takeBytes_append' 1 [if cdda then cueLeadOutCdda else cueLeadOutNonCdda] _ rfl]
  dsimp only
  simp only [List.headD_cons, bne_self_eq_false, Bool.false_eq_true, ↓reduceIte]
  rw [takeBytes_append' 12 _ _ (padTo_length 12 _)]
  dsimp only
  rw [readIsrc_pad _ hi]
  dsimp only
  rw [takeBytes_append' 1 [flagsByte l.nonAudio l.preEmph] _ rfl]
  dsimp only
  rw [takeBytes_append' 13 _ _ (by simp)]
  dsimp only
  rw [takeBytes_append' 1 [0] _ rfl]
  dsimp only
  simp [flags_na, flags_pe]

/-! ### catalog field -/

theorem dropWhile_replicate_zero (k : Nat) (l : List Nat) :
    (List.replicate k 0 ++ l).dropWhile (· == 0) = l.dropWhile (· == 0) := by
  induction k with
  | zero => simp
  | succ k ih => simp [List.replicate_succ, List.dropWhile_cons, ih]

theorem trimNulls_pad (cat : List Nat) (hd : cat.all isDigit = true) (k : Nat) : trimNulls (cat ++ List.replicate k 0) = cat := by
  unfold trimNulls
  rw [List.reverse_append, List.reverse_replicate, dropWhile_replicate_zero]
  have : cat.reverse.dropWhile (· == 0) = cat.reverse := by
    cases hc : cat.reverse with
    | nil => rfl
    | cons x r =>
      have hx : x ∈ cat := by
        have : x ∈ cat.reverse := by rw [hc]; simp
        simpa using this
      rw [List.all_eq_true] at hd
      have := hd x hx
      simp only [isDigit, Bool.and_eq_true, decide_eq_true_eq] at this
      have hne : (x == 0) = false := by simp; omega
      simp [List.dropWhile_cons, hne]
  rw [this, List.reverse_reverse]

theorem readCatalog_pad (cdda : Bool) (cat : List Nat) (hd : cat.all isDigit = true) (hl : cat.length ≤ cueCatalogLen)
    (hc : cdda = true → cat.isEmpty = true ∨ cat.length = 13) :
    readCatalog cdda (padTo cueCatalogLen cat) = .ok cat := by
  have e : padTo cueCatalogLen cat = cat ++ List.replicate (cueCatalogLen - cat.length) 0 := by
    simp [padTo, List.take_of_length_le hl]
  rw [e]
  simp only [readCatalog, trimNulls_pad cat hd, hd, Bool.not_true, Bool.false_eq_true, ↓reduceIte]
  cases cdda with
  | false => simp
  | true =>
    rcases hc rfl with h | h
    · simp [h]
    · simp [h]


theorem wf_parts {c : Cue} (h : c.wf = true) :
    c.catalog.all isDigit = true
      ∧ (if c.cdda then (c.catalog.isEmpty || c.catalog.length == 13) && decide (c.leadIn ≤ u64Max) else c.leadIn == 0) = true
      ∧ c.tracks.length ≤ (if c.cdda then cueCddaTrackMax else cueNonCddaTrackMax)
      ∧ trackChain none c.tracks = true ∧ c.tracks.all (trackOk c.cdda) = true
      ∧ c.lead.offset ≤ u64Max ∧ isrcOk c.lead.isrc = true ∧ (c.cdda = false ∨ c.lead.offset % cueSector = 0) := by
  simp only [Cue.wf, Bool.and_eq_true, decide_eq_true_eq, Bool.or_eq_true, Bool.not_eq_true', beq_iff_eq] at h
  obtain ⟨⟨⟨⟨⟨⟨⟨h1, h2⟩, h3⟩, h4⟩, h5⟩, h6⟩, h7⟩, h8⟩ := h
  exact ⟨h1, h2, h3, h4, h5, h6, h7, h8⟩

theorem cue_roundtrip (c : Cue) (hw : c.wf = true) (bs : List Nat) (h : cueBytes c = .ok bs) (rest : List Nat) :
    parseCue (bs ++ rest) = .ok (c, rest) := by
  obtain ⟨w1, w2, w3, w4, w5, w6, w7, w8⟩ := wf_parts hw
  simp only [cueBytes] at h
  split at h
  · cases h
  rename_i g1
  split at h
  · cases h
  rename_i g2
  split at h
  · cases h
  rename_i g3
  have h := (Except.ok.inj h).symm
  -- facts
  have hpts : ∀ t ∈ c.tracks, t.points.length ≤ 255 := by
    intro t ht
    simp only [List.any_eq_true, decide_eq_true_eq, not_exists, not_and, Nat.not_lt] at g3
    exact g3 t ht
  have hcnt : c.tracks.length + 1 ≤ 255 := by omega
  have hcatlen : c.catalog.length ≤ cueCatalogLen := by
    cases hc : c.cdda with
    | true =>
      simp only [hc, ↓reduceIte, Bool.and_eq_true, Bool.or_eq_true, List.isEmpty_iff, beq_iff_eq] at w2
      have : cueCatalogLen = 128 := rfl
      rcases w2.1 with h0 | h0
      · simp [h0]
      · omega
    | false =>
      have hk : cueCatalogChecked = true := rfl
      simp only [hc, Bool.not_false, hk, Bool.true_and, decide_eq_true_eq, Nat.not_lt] at g1
      exact g1
  have e : bs ++ rest = padTo cueCatalogLen c.catalog ++ (beBytes 8 (if c.cdda then c.leadIn else 0) ++ ([if c.cdda then 128 else 0]
      ++ (List.replicate 258 0 ++ ([c.tracks.length + 1] ++ (c.tracks.flatMap trackBytes ++ (leadBytes c.cdda c.lead ++ rest)))))) := by
    rw [h]; simp only [List.append_assoc]
  rw [e]
  simp only [parseCue]
  rw [takeBytes_append' cueCatalogLen _ _ (padTo_length _ _)]
  dsimp only
  rw [takeBytes_append' 8 _ _ (by simp)]
  dsimp only
  rw [takeBytes_append' 1 [if c.cdda then 128 else 0] _ rfl]
  dsimp only
  rw [takeBytes_append' 258 _ _ (List.length_replicate ..)]
  dsimp only
  rw [takeBytes_append' 1 [c.tracks.length + 1] _ rfl]
  dsimp only
  have hfl : ((if c.cdda = true then 128 else 0) / 128 == 1) = c.cdda := by
    cases c.cdda <;> decide
  simp only [List.headD_cons, hfl]
  have hcat : readCatalog c.cdda (padTo cueCatalogLen c.catalog) = .ok c.catalog := by
    apply readCatalog_pad c.cdda c.catalog w1 hcatlen
    intro hc
    simp only [hc, ↓reduceIte, Bool.and_eq_true, Bool.or_eq_true, beq_iff_eq] at w2
    exact w2.1
  rw [hcat]
  dsimp only
  have hz : (c.tracks.length + 1 == 0) = false := by simp
  have hlim : (c.cdda && decide (c.tracks.length > cueCddaReadTrackLimit)) = false := by
    cases hc : c.cdda with
    | false => simp
    | true =>
      simp only [hc, ↓reduceIte] at w3
      have : cueCddaTrackMax = 99 := rfl
      have : cueCddaReadTrackLimit = 99 := rfl
      simp; omega
  simp only [hz, Nat.add_sub_cancel]
  rw [readTracks_roundtrip c.cdda c.tracks w5 hpts]
  dsimp only
  have hchain : (!(decide (c.tracks.length ≤ if c.cdda = true then cueCddaTrackMax else cueNonCddaTrackMax) && trackChain none c.tracks)) = false := by
    simp [w3, w4]
  simp only [hchain, Bool.false_eq_true, ↓reduceIte]
  rw [readLead_roundtrip c.cdda c.lead w6 w7 w8]
  dsimp only
  have hli : (if c.cdda = true then beNat (beBytes 8 (if c.cdda = true then c.leadIn else 0)) else 0) = c.leadIn := by
    cases hc : c.cdda with
    | true =>
      simp only [hc, ↓reduceIte, Bool.and_eq_true, decide_eq_true_eq] at w2
      have : c.leadIn < 256 ^ 8 := by have := w2.2; simp only [u64Max] at this; omega
      simp only [↓reduceIte, beNat_beBytes 8 c.leadIn this]
    | false =>
      simp only [hc, Bool.false_eq_true, ↓reduceIte, beq_iff_eq] at w2
      simp only [Bool.false_eq_true, ↓reduceIte, w2]
  rw [hli]
  simp only [hlim, Bool.or_self, Bool.false_eq_true, ↓reduceIte]

end Flac
