/-
  Proofs/Sync.lean — bit/byte arithmetic of the MSB-first readers (`bitsToNat ∘ natToBits`, append) and the
  consequence used by C16: whatever `decodeFrame` accepts starts with the bytes `FF F8|F9`.
-/
import FlacModel.Model.Decode
import FlacModel.Proofs.Bits

namespace Flac
theorem natToBitsAux_acc (n v : Nat) (acc : Bits) : natToBitsAux n v acc = natToBitsAux n v [] ++ acc := by
  induction n generalizing v acc with
  | zero => simp [natToBitsAux]
  | succ n ih =>
    simp only [natToBitsAux]
    rw [ih (v / 2) ((v % 2 == 1) :: acc), ih (v / 2) [v % 2 == 1]]
    simp

theorem natToBits_succ (n v : Nat) : natToBits (n + 1) v = natToBits n (v / 2) ++ [v % 2 == 1] := by
  simp only [natToBits, natToBitsAux]
  exact natToBitsAux_acc n (v / 2) _

theorem bitsToNat_snoc (x : Bits) (b : Bool) : bitsToNat (x ++ [b]) = 2 * bitsToNat x + (if b then 1 else 0) := by
  simp [bitsToNat, List.foldl_append]

theorem foldl_bits (y : Bits) (acc : Nat) :
    y.foldl (fun a x => 2 * a + (if x then 1 else 0)) acc = acc * 2 ^ y.length + bitsToNat y := by
  induction y generalizing acc with
  | nil => simp [bitsToNat]
  | cons b y ih =>
    simp only [List.foldl_cons, bitsToNat, List.length_cons]
    rw [ih, ih (2 * 0 + _)]
    simp only [Nat.pow_succ]
    generalize 2 ^ y.length = k
    have e1 : 2 * acc * k = acc * (k * 2) := by rw [Nat.mul_comm 2 acc, Nat.mul_assoc, Nat.mul_comm 2 k]
    cases b
    · simp [e1]
    · simp only [if_true, Nat.mul_zero, Nat.zero_add, Nat.add_mul, Nat.one_mul, e1]; omega


theorem bitsToNat_append (x y : Bits) : bitsToNat (x ++ y) = bitsToNat x * 2 ^ y.length + bitsToNat y := by
  simp only [bitsToNat, List.foldl_append]
  exact foldl_bits y _

theorem bitsToNat_natToBits (n v : Nat) : bitsToNat (natToBits n v) = v % 2 ^ n := by
  induction n generalizing v with
  | zero => simp [natToBits, natToBitsAux, bitsToNat, Nat.mod_one]
  | succ n ih =>
    rw [natToBits_succ, bitsToNat_snoc, ih, Nat.pow_succ, Nat.mul_comm (2 ^ n) 2, Nat.mod_mul]
    have : v % 2 = 0 ∨ v % 2 = 1 := by omega
    rcases this with h | h <;> simp [h] <;> omega

theorem splitExact_exact (x y : Bits) : splitExact x.length (x ++ y) = some (x, y) := by
  induction x with
  | nil => simp [splitExact]
  | cons a x ih => simp [splitExact, ih]

/-- a byte list (bytes below 256) whose first 15 bits are the sync code starts `FF F8|F9` -/
theorem sync_shape (f : List Nat) (hf : ∀ x ∈ f, x < 256) (r : Bits)
    (h : readU 15 (bytesToBits f) = .ok (32764, r)) :
    ∃ b t, f = 255 :: b :: t ∧ b / 2 = 124 := by
  match f, hf with
  | [], _ => simp [bytesToBits, readU, takeBits, splitExact] at h
  | [a], _ =>
    simp [bytesToBits, byteToBits, natToBits, natToBitsAux, readU, takeBits, splitExact] at h
  | a :: b :: t, hf =>
    have ha : a < 256 := hf a (by simp)
    have hb : b < 256 := hf b (by simp)
    have e : bytesToBits (a :: b :: t) = (natToBits 8 a ++ natToBits 7 (b / 2)) ++ ((b % 2 == 1) :: bytesToBits t) := by
      simp only [bytesToBits, List.flatMap_cons, byteToBits]
      rw [natToBits_succ 7 b]; simp
    have l : (natToBits 8 a ++ natToBits 7 (b / 2)).length = 15 := by simp
    rw [e] at h
    simp only [readU, takeBits] at h
    rw [← l, splitExact_exact] at h
    have h' := (Prod.mk.inj (Except.ok.inj h)).1
    rw [bitsToNat_append, bitsToNat_natToBits, bitsToNat_natToBits, natToBits_length] at h'
    refine ⟨b, t, ?_, ?_⟩
    · congr 1; omega
    · omega


theorem readHeaderFields_sync (si : Option SInfo) (bits : Bits) (v : Header × Bits)
    (h : readHeaderFields si bits = .ok v) : ∃ r, readU 15 bits = .ok (32764, r) := by
  unfold readHeaderFields at h
  simp only [bind, P.bind] at h
  cases hr : readU 15 bits with
  | error e => rw [hr] at h; cases h
  | ok x =>
    obtain ⟨s, r⟩ := x
    rw [hr] at h; dsimp only at h
    by_cases hs : s = 32764
    · exact ⟨r, by rw [hs]⟩
    · have : (s != Gen.syncCode15) = true := by simp [Gen.syncCode15, hs]
      rw [if_pos this] at h
      cases h

theorem decodeFrame_sync (p : Profile) (si : Option SInfo) (f : List Nat) (hf : ∀ x ∈ f, x < 256) (d : Decoded)
    (h : decodeFrame p si f = .ok d) : ∃ b t, f = 255 :: b :: t ∧ b / 2 = 124 := by
  unfold decodeFrame at h
  cases h1 : readHeaderFields si (bytesToBits f) with
  | error e => rw [h1] at h; cases h
  | ok v1 =>
    obtain ⟨r, hr⟩ := readHeaderFields_sync si _ v1 h1
    exact sync_shape f hf r hr

end Flac
