/-
  Proofs/Bytes.lean — byte-level codec lemmas shared by the metadata theorems: big/little endian
  integers, `takeBytes` on appended input.
-/
import FlacModel.Model.Blocks

namespace Flac

theorem beNat_append (l : List Nat) (x : Nat) : beNat (l ++ [x]) = beNat l * 256 + x := by
  simp [beNat, List.foldl_append]

@[simp] theorem beBytes_length (n v : Nat) : (beBytes n v).length = n := by
  induction n generalizing v with
  | zero => rfl
  | succ n ih => simp [beBytes, ih]

theorem beNat_beBytes (n v : Nat) (h : v < 256 ^ n) : beNat (beBytes n v) = v := by
  induction n generalizing v with
  | zero => simp [beBytes, beNat] at *; omega
  | succ n ih =>
    simp only [beBytes, beNat_append]
    rw [ih (v / 256) (by rw [Nat.pow_succ] at h; omega)]
    omega

theorem beBytes_lt (n v : Nat) : ∀ x ∈ beBytes n v, x < 256 := by
  induction n generalizing v with
  | zero => simp [beBytes]
  | succ n ih =>
    intro x hx
    simp only [beBytes, List.mem_append, List.mem_singleton] at hx
    rcases hx with hx | hx
    · exact ih _ x hx
    · omega

@[simp] theorem leBytes_length (n v : Nat) : (leBytes n v).length = n := by
  induction n generalizing v with
  | zero => rfl
  | succ n ih => simp [leBytes, ih]

theorem leNat_leBytes (n v : Nat) (h : v < 256 ^ n) : leNat (leBytes n v) = v := by
  induction n generalizing v with
  | zero => simp [leBytes, leNat] at *; omega
  | succ n ih =>
    simp only [leBytes, leNat]
    rw [ih (v / 256) (by rw [Nat.pow_succ] at h; omega)]
    omega

theorem drop_append_len {α} (a b : List α) (n : Nat) (h : a.length = n) : (a ++ b).drop n = b := by
  subst h; simp

theorem take_append_len {α} (a b : List α) (n : Nat) (h : a.length = n) : (a ++ b).take n = a := by
  subst h; simp

theorem drop2_append_len {α} (a b c : List α) (n : Nat) (h : a.length + b.length = n) : (a ++ (b ++ c)).drop n = c := by
  rw [← List.append_assoc]; exact drop_append_len _ _ _ (by simp [h])

theorem takeBytes_append (xs r : List Nat) : takeBytes xs.length (xs ++ r) = .ok (xs, r) := by
  simp [takeBytes]

theorem takeBytes_append' (n : Nat) (xs r : List Nat) (h : xs.length = n) : takeBytes n (xs ++ r) = .ok (xs, r) := by
  subst h; exact takeBytes_append xs r

theorem takeBytes_ok {n : Nat} {b x r : List Nat} (h : takeBytes n b = .ok (x, r)) : b = x ++ r ∧ x.length = n := by
  unfold takeBytes at h
  split at h
  · cases h
  · cases h
    constructor
    · exact (List.take_append_drop n b).symm
    · simp; omega

end Flac
