/-
  Proofs/FileHead.lean — the metadata section `write_blocks` emits (model `writeBlocks`), as the file readers' model reads
  it (`parseFileHead`: "fLaC" tag, raw block walk, STREAMINFO).
-/
import FlacModel.Props.C11
import FlacModel.Model.FileDecode

namespace Flac
open Gen

theorem block_type_lt (b : Block) : b.type < 128 := by cases b <;> simp [Block.type]

/-- one written block, as the file reader's block walker sees it -/
theorem raw_block (last : Bool) (b : Block) (x bs : List Nat) (hb : b.body = .ok bs) (hx : writeBlock last b = .ok x)
    (r : List Nat) : ∃ rest, x ++ r = ((if last then 128 else 0) + b.type) :: (beBytes 3 bs.length ++ (bs ++ r)) ∧ bs.length < 256 ^ 3
      ∧ x.length = 4 + bs.length ∧ rest = bs ++ r := by
  unfold writeBlock at hx
  rw [hb] at hx; dsimp only at hx
  by_cases hl : bs.length > maxBlockSize
  · rw [if_pos hl] at hx; cases hx
  · rw [if_neg hl] at hx
    have hx := (Except.ok.inj hx).symm
    have hm : maxBlockSize = 2 ^ 24 - 1 := rfl
    refine ⟨bs ++ r, by rw [hx]; simp, by omega, by rw [hx]; simp [beBytes_length]; omega, rfl⟩

theorem beBytes3 (n : Nat) : ∃ a b c, beBytes 3 n = [a, b, c] := by
  simp [beBytes]

/-- the raw view of a block -/
def rawOf (last : Bool) (b : Block) (bs : List Nat) : RawBlock := { last := last, type := b.type, body := bs }

theorem readRaw_one (fuel : Nat) (last : Bool) (b : Block) (x bs : List Nat) (hb : b.body = .ok bs) (hx : writeBlock last b = .ok x)
    (r : List Nat) (used : Nat) :
    readRawBlocks (fuel + 1) (x ++ r) used =
      if last then .ok ([rawOf true b bs], used + x.length)
      else match readRawBlocks fuel r (used + x.length) with
        | .error e => .error e
        | .ok (bl, u) => .ok (rawOf false b bs :: bl, u) := by
  obtain ⟨_, e, hlt, hlen, _⟩ := raw_block last b x bs hb hx r
  obtain ⟨a1, a2, a3, e3⟩ := beBytes3 bs.length
  have hn : beNat [a1, a2, a3] = bs.length := by rw [← e3]; exact beNat_beBytes 3 _ hlt
  rw [e, e3]
  have ht := block_type_lt b
  simp only [List.cons_append, List.nil_append, readRawBlocks, hn]
  have h1 : ¬ (bs ++ r).length < bs.length := by simp
  have h2 : (bs ++ r).take bs.length = bs := by simp
  have h3 : (bs ++ r).drop bs.length = r := by simp
  simp only [h1, if_false, h2, h3]
  have hu : used + 4 + bs.length = used + x.length := by omega
  cases last with
  | true =>
    have d1 : ((128 + b.type) / 128 == 1) = true := by simp; omega
    have d2 : (128 + b.type) % 128 = b.type := by omega
    simp only [if_true, d1, d2, hu, rawOf]
  | false =>
    have d1 : ((0 + b.type) / 128 == 1) = false := by simp; omega
    have d2 : (0 + b.type) % 128 = b.type := by omega
    simp only [Bool.false_eq_true, if_false, d1, d2, hu, rawOf]
    cases readRawBlocks fuel r (used + x.length) <;> rfl

/-- the blocks after STREAMINFO, as raw blocks -/
theorem readRaw_rest (bs : List Block) (hne : bs ≠ []) (s : Seen) (y : List Nat) (h : writeRest s bs = .ok y)
    (tail : List Nat) (fuel : Nat) (hf : bs.length ≤ fuel) (used : Nat) :
    ∃ raws, readRawBlocks fuel (y ++ tail) used = .ok (raws, used + y.length) := by
  induction bs generalizing s y fuel used with
  | nil => exact absurd rfl hne
  | cons b r ih =>
    cases fuel with
    | zero => simp at hf
    | succ fuel =>
      simp only [writeRest] at h
      cases hc : checkUnique s b with
      | error e => rw [hc] at h; cases h
      | ok s' =>
        rw [hc] at h; dsimp only at h
        cases hx : writeBlock r.isEmpty b with
        | error e => rw [hx] at h; cases h
        | ok x =>
          rw [hx] at h; dsimp only at h
          cases hy : writeRest s' r with
          | error e => rw [hy] at h; cases h
          | ok y' =>
            rw [hy] at h
            have h := (Except.ok.inj h).symm
            subst h
            have hb : ∃ bsb, b.body = .ok bsb := by
              unfold writeBlock at hx
              cases hbb : b.body with
              | error e => rw [hbb] at hx; cases hx
              | ok v => exact ⟨v, rfl⟩
            obtain ⟨bsb, hbb⟩ := hb
            rw [List.append_assoc, readRaw_one fuel r.isEmpty b x bsb hbb hx (y' ++ tail) used]
            cases r with
            | nil =>
              simp only [writeRest] at hy
              have hy := (Except.ok.inj hy).symm
              subst hy
              exact ⟨[rawOf true b bsb], by simp⟩
            | cons b2 r2 =>
              simp only [List.isEmpty_cons, Bool.false_eq_true, if_false]
              obtain ⟨raws, hr⟩ := ih (by simp) s' y' hy fuel (by simp at hf ⊢; omega) (used + x.length)
              rw [hr]
              refine ⟨rawOf false b bsb :: raws, ?_⟩
              simp [Nat.add_assoc]

/-- **The metadata section round-trips into the file reader**: what `write_blocks` emits for a list headed by a
    well-formed STREAMINFO is read back by the file readers as that STREAMINFO, with the audio starting right behind it. -/
theorem file_head_roundtrip (si : Streaminfo) (rest : List Block) (hw : C11.streaminfoWf si = true) (out : List Nat)
    (h : writeBlocks (.streaminfo si :: rest) = .ok out) (tail : List Nat) :
    ∃ hd, parseFileHead (out ++ tail) = .ok hd ∧ hd.si = si ∧ hd.framesStart = out.length := by
  unfold writeBlocks at h
  dsimp only at h
  cases hx : writeBlock rest.isEmpty (.streaminfo si) with
  | error e => rw [hx] at h; cases h
  | ok x =>
    rw [hx] at h; dsimp only at h
    cases hy : writeRest {} rest with
    | error e => rw [hy] at h; cases h
    | ok y =>
      rw [hy] at h
      have h := (Except.ok.inj h).symm
      subst h
      have hb : ∃ bsb, (Block.streaminfo si).body = .ok bsb := by
        unfold writeBlock at hx
        cases hbb : (Block.streaminfo si).body with
        | error e => rw [hbb] at hx; cases hx
        | ok v => exact ⟨v, rfl⟩
      obtain ⟨bsb, hbb⟩ := hb
      have hps := C11.streaminfo_roundtrip si hw bsb hbb
      unfold parseFileHead
      have e : [0x66, 0x4C, 0x61, 0x43] ++ x ++ y ++ tail = [0x66, 0x4C, 0x61, 0x43] ++ (x ++ (y ++ tail)) := by simp
      rw [e]
      have t1 : (([0x66, 0x4C, 0x61, 0x43] ++ (x ++ (y ++ tail))).take 4 != [0x66, 0x4C, 0x61, 0x43]) = false := by simp
      have t2 : ([0x66, 0x4C, 0x61, 0x43] ++ (x ++ (y ++ tail))).drop 4 = x ++ (y ++ tail) := by simp
      simp only [t1, Bool.false_eq_true, if_false, t2]
      have hfuel : ([0x66, 0x4C, 0x61, 0x43] ++ (x ++ (y ++ tail))).length + 1 = (x ++ (y ++ tail)).length + 4 + 1 := by
        simp
      rw [hfuel, readRaw_one _ rest.isEmpty (.streaminfo si) x bsb hbb hx (y ++ tail) 4]
      cases rest with
      | nil =>
        simp only [writeRest] at hy
        have hy := (Except.ok.inj hy).symm
        subst hy
        simp only [List.isEmpty_nil, if_true, rawOf, Block.type, bne_self_eq_false, Bool.false_eq_true, if_false, hps]
        exact ⟨_, rfl, rfl, by simp; omega⟩
      | cons b2 r2 =>
        simp only [List.isEmpty_cons, Bool.false_eq_true, if_false]
        have hlen := C11.writeRest_length _ _ _ hy
        obtain ⟨raws, hr⟩ := readRaw_rest (b2 :: r2) (by simp) ({} : Seen) y hy tail ((x ++ (y ++ tail)).length + 4)
          (by simp at hlen ⊢; omega) (4 + x.length)
        rw [hr]
        simp only [rawOf, Block.type, bne_self_eq_false, Bool.false_eq_true, if_false, hps]
        exact ⟨_, rfl, rfl, by simp; omega⟩


end Flac
