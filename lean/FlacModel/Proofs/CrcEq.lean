/-
  Proofs/CrcEq.lean — the table-driven checksums of crc.rs (tables and update expressions regenerated into
  Gen/Crc.lean) compute the bit-serial LFSR of the specification (Spec/Rfc.lean) on EVERY message:
  the LFSR step is linear over xor, so eight steps from any state split into "eight steps of the state"
  xor "the table entry of the byte".
-/
import FlacModel.Spec.Rfc
import FlacModel.Proofs.Bits

namespace Flac.CrcEq
open Flac Gen

/-- one step with a zero input bit, written with the shift and the feedback separated -/
def step0 (w poly c : Nat) : Nat := (c * 2) % 2 ^ w ^^^ (c / 2 ^ (w - 1) % 2) * poly

theorem xor4 (a b c d : Nat) : (a ^^^ b) ^^^ (c ^^^ d) = (a ^^^ c) ^^^ (b ^^^ d) := by
  rw [Nat.xor_assoc, Nat.xor_assoc, ← Nat.xor_assoc b c d, Nat.xor_comm b c, Nat.xor_assoc c b d]

theorem mul2_xor (x y : Nat) : (x ^^^ y) * 2 = x * 2 ^^^ y * 2 := by
  have := @Nat.shiftLeft_xor_distrib 1 x y
  simpa [Nat.shiftLeft_eq] using this

theorem bit_mul_xor (a b poly : Nat) (ha : a < 2) (hb : b < 2) : (a ^^^ b) * poly = a * poly ^^^ b * poly := by
  have ha' : a = 0 ∨ a = 1 := by omega
  have hb' : b = 0 ∨ b = 1 := by omega
  rcases ha' with rfl | rfl <;> rcases hb' with rfl | rfl <;> simp

/-- **linearity** of the zero-input step -/
theorem step0_xor (w poly x y : Nat) (hw : 0 < w) (hx : x < 2 ^ w) (hy : y < 2 ^ w) :
    step0 w poly (x ^^^ y) = step0 w poly x ^^^ step0 w poly y := by
  have hp : 2 ^ w = 2 ^ (w - 1) * 2 := by rw [← Nat.pow_succ]; congr 1; omega
  have hk : 0 < 2 ^ (w - 1) := Nat.pow_pos (by decide)
  have dx : x / 2 ^ (w - 1) < 2 := by rw [Nat.div_lt_iff_lt_mul hk]; omega
  have dy : y / 2 ^ (w - 1) < 2 := by rw [Nat.div_lt_iff_lt_mul hk]; omega
  unfold step0
  rw [mul2_xor, Nat.xor_mod_two_pow, Nat.xor_div_two_pow, Nat.mod_eq_of_lt dx, Nat.mod_eq_of_lt dy]
  have : (x / 2 ^ (w - 1) ^^^ y / 2 ^ (w - 1)) % 2 = x / 2 ^ (w - 1) ^^^ y / 2 ^ (w - 1) :=
    Nat.mod_eq_of_lt (Nat.xor_lt_two_pow (n := 1) dx dy)
  rw [this, bit_mul_xor _ _ poly dx dy, xor4]

theorem step0_lt (w poly c : Nat) (hp : poly < 2 ^ w) : step0 w poly c < 2 ^ w := by
  unfold step0
  have hk : 0 < 2 ^ w := Nat.pow_pos (by decide)
  apply Nat.xor_lt_two_pow (Nat.mod_lt _ hk)
  have : c / 2 ^ (w - 1) % 2 < 2 := Nat.mod_lt _ (by decide)
  have h' : c / 2 ^ (w - 1) % 2 = 0 ∨ c / 2 ^ (w - 1) % 2 = 1 := by omega
  rcases h' with h | h <;> rw [h] <;> simp <;> omega

/-- the input bit enters by xor into the top bit of the state -/
theorem crcStep_eq (w poly c : Nat) (bit : Bool) (hw : 0 < w) (hc : c < 2 ^ w) :
    Spec.crcStep w poly c bit = step0 w poly (c ^^^ (if bit then 2 ^ (w - 1) else 0)) := by
  have hp : 2 ^ w = 2 ^ (w - 1) * 2 := by rw [← Nat.pow_succ]; congr 1; omega
  have hk : 0 < 2 ^ (w - 1) := Nat.pow_pos (by decide)
  have dc : c / 2 ^ (w - 1) < 2 := by rw [Nat.div_lt_iff_lt_mul hk]; omega
  have h' : c / 2 ^ (w - 1) % 2 = 0 ∨ c / 2 ^ (w - 1) % 2 = 1 := by omega
  cases bit with
  | false =>
    simp only [Bool.false_eq_true, if_false, Nat.xor_zero, Spec.crcStep, step0]
    rcases h' with h | h
    · simp [h]
    · simp [h]
  | true =>
    have hm : 2 ^ (w - 1) < 2 ^ w := by omega
    rw [if_pos rfl, step0_xor w poly c (2 ^ (w - 1)) hw hc hm]
    have e : step0 w poly (2 ^ (w - 1)) = poly := by
      unfold step0
      rw [← hp, Nat.mod_self, Nat.div_self hk]; simp
    rw [e]
    simp only [Spec.crcStep, step0]
    rcases h' with h | h
    · simp [h]
    · simp only [h, Nat.one_mul]
      rw [Nat.xor_assoc, Nat.xor_self, Nat.xor_zero]
      simp

/-- `n` zero-input steps -/
def zeroRun (w poly : Nat) : Nat → Nat → Nat
  | 0, d => d
  | n + 1, d => zeroRun w poly n (step0 w poly d)

/-- running any input from `c ^^^ d` = running it from `c`, xor the zero-input run of `d` -/
theorem fold_xor (w poly : Nat) (hw : 0 < w) (hp : poly < 2 ^ w) (bits : Bits) (c d : Nat) (hc : c < 2 ^ w) (hd : d < 2 ^ w) :
    bits.foldl (Spec.crcStep w poly) (c ^^^ d) = bits.foldl (Spec.crcStep w poly) c ^^^ zeroRun w poly bits.length d := by
  induction bits generalizing c d with
  | nil => simp [zeroRun]
  | cons b bits ih =>
    have hm : (if b then 2 ^ (w - 1) else 0) < 2 ^ w := by
      have : 2 ^ (w - 1) < 2 ^ w := Nat.pow_lt_pow_right (by decide) (by omega)
      split <;> omega
    have hcd : c ^^^ d < 2 ^ w := Nat.xor_lt_two_pow hc hd
    have hcm : c ^^^ (if b then 2 ^ (w - 1) else 0) < 2 ^ w := Nat.xor_lt_two_pow hc hm
    have e : Spec.crcStep w poly (c ^^^ d) b = Spec.crcStep w poly c b ^^^ step0 w poly d := by
      rw [crcStep_eq w poly _ b hw hcd, crcStep_eq w poly c b hw hc]
      rw [Nat.xor_assoc, Nat.xor_comm d, ← Nat.xor_assoc, step0_xor w poly _ d hw hcm hd]
    simp only [List.foldl_cons, List.length_cons, zeroRun]
    rw [e]
    have h1 : Spec.crcStep w poly c b < 2 ^ w := by
      rw [crcStep_eq w poly c b hw hc]; exact step0_lt w poly _ hp
    exact ih _ _ h1 (step0_lt w poly d hp)


theorem zeroRun_lt (w poly : Nat) (hp : poly < 2 ^ w) (n d : Nat) (hd : d < 2 ^ w) : zeroRun w poly n d < 2 ^ w := by
  induction n generalizing d with
  | zero => exact hd
  | succ n ih => exact ih _ (step0_lt w poly d hp)

theorem zeroRun_xor (w poly : Nat) (hw : 0 < w) (hp : poly < 2 ^ w) (n x y : Nat) (hx : x < 2 ^ w) (hy : y < 2 ^ w) :
    zeroRun w poly n (x ^^^ y) = zeroRun w poly n x ^^^ zeroRun w poly n y := by
  induction n generalizing x y with
  | zero => rfl
  | succ n ih =>
    simp only [zeroRun]
    rw [step0_xor w poly x y hw hx hy]
    exact ih _ _ (step0_lt w poly x hp) (step0_lt w poly y hp)

theorem two_pow_add_eq_xor_of_lt {b i : Nat} (b_lt : b < 2 ^ i) (a : Nat) : 2 ^ i * a + b = 2 ^ i * a ^^^ b := by
  apply Nat.eq_of_testBit_eq
  intro j
  simp only [Nat.testBit_two_pow_mul_add _ b_lt, Nat.testBit_xor, Nat.testBit_two_pow_mul]
  by_cases j_lt : j < i
  · simp [Nat.not_le_of_lt, j_lt]
  · have i_le : i ≤ j := Nat.le_of_not_lt j_lt
    have hb : b.testBit j = false :=
      Nat.testBit_lt_two_pow (Nat.lt_of_lt_of_le b_lt (Nat.pow_le_pow_right (by decide) i_le))
    simp [j_lt, i_le, hb]

theorem mul256_xor (x y : Nat) : 2 ^ 8 * (x ^^^ y) = 2 ^ 8 * x ^^^ 2 ^ 8 * y := by
  have := @Nat.shiftLeft_xor_distrib 8 x y
  simp only [Nat.shiftLeft_eq] at this
  rw [Nat.mul_comm, this, Nat.mul_comm x, Nat.mul_comm y]

/-! ### the tables (regenerated from crc.rs) against the bit-serial steps: 256 entries each -/

theorem t16_entry : ∀ i : Fin 256, crc16Table.getD i.val 0 = Spec.crcBits 16 0x8005 (natToBits 8 i.val) := by decide +kernel
theorem t8_entry : ∀ i : Fin 256, crc8Table.getD i.val 0 = Spec.crcBits 8 0x07 (natToBits 8 i.val) := by decide +kernel
theorem zero16_hi : ∀ hi : Fin 256, zeroRun 16 0x8005 8 (2 ^ 8 * hi.val) = crc16Table.getD hi.val 0 := by decide +kernel
theorem zero16_lo : ∀ lo : Fin 256, zeroRun 16 0x8005 8 lo.val = lo.val * 256 := by decide +kernel
theorem zero8 : ∀ c : Fin 256, zeroRun 8 0x07 8 c.val = crc8Table.getD c.val 0 := by decide +kernel

theorem zero16 (c : Nat) (hc : c < 65536) : zeroRun 16 0x8005 8 c = crc16Table.getD (c / 256) 0 ^^^ (c % 256 * 256) := by
  have e : c = 2 ^ 8 * (c / 256) ^^^ c % 256 := by
    rw [← two_pow_add_eq_xor_of_lt (i := 8) (by omega) (c / 256)]; omega
  have h1 : 2 ^ 8 * (c / 256) < 2 ^ 16 := by omega
  have h2 : c % 256 < 2 ^ 16 := by omega
  conv => lhs; rw [e]
  rw [zeroRun_xor 16 0x8005 (by decide) (by decide) 8 _ _ h1 h2]
  rw [zero16_hi ⟨c / 256, by omega⟩, zero16_lo ⟨c % 256, by omega⟩]

theorem t16_lin (x y : Nat) (hx : x < 256) (hy : y < 256) :
    crc16Table.getD (x ^^^ y) 0 = crc16Table.getD x 0 ^^^ crc16Table.getD y 0 := by
  have hxy : x ^^^ y < 256 := Nat.xor_lt_two_pow (n := 8) hx hy
  rw [← zero16_hi ⟨x ^^^ y, hxy⟩, ← zero16_hi ⟨x, hx⟩, ← zero16_hi ⟨y, hy⟩]
  simp only
  rw [mul256_xor, zeroRun_xor 16 0x8005 (by decide) (by decide) 8 _ _ (by omega) (by omega)]

theorem t8_lin (x y : Nat) (hx : x < 256) (hy : y < 256) :
    crc8Table.getD (x ^^^ y) 0 = crc8Table.getD x 0 ^^^ crc8Table.getD y 0 := by
  have hxy : x ^^^ y < 256 := Nat.xor_lt_two_pow (n := 8) hx hy
  rw [← zero8 ⟨x ^^^ y, hxy⟩, ← zero8 ⟨x, hx⟩, ← zero8 ⟨y, hy⟩]
  exact zeroRun_xor 8 0x07 (by decide) (by decide) 8 x y hx hy

/-! ### one byte from any state -/

theorem byte16 (c b : Nat) (hc : c < 65536) (hb : b < 256) :
    (natToBits 8 b).foldl (Spec.crcStep 16 0x8005) c = crc16Update c b := by
  have h := fold_xor 16 0x8005 (by decide) (by decide) (natToBits 8 b) 0 c (by decide) hc
  rw [Nat.zero_xor, natToBits_length] at h
  rw [h]
  have e0 : (natToBits 8 b).foldl (Spec.crcStep 16 0x8005) 0 = crc16Table.getD b 0 := (t16_entry ⟨b, hb⟩).symm
  rw [e0, zero16 c hc]
  have hu : crc16Update c b = crc16Table.getD (c / 256 ^^^ b) 0 ^^^ (c % 256 * 256) := by
    unfold crc16Update
    have a : c / 2 ^ 8 % 256 = c / 256 := by omega
    have d : c * 2 ^ 8 % 65536 = c % 256 * 256 := by omega
    rw [a, d]; rfl
  rw [hu, t16_lin _ _ (by omega) hb]
  rw [Nat.xor_comm (crc16Table.getD (c / 256) 0) (crc16Table.getD b 0), Nat.xor_assoc]

theorem byte8 (c b : Nat) (hc : c < 256) (hb : b < 256) :
    (natToBits 8 b).foldl (Spec.crcStep 8 0x07) c = crc8Update c b := by
  have h := fold_xor 8 0x07 (by decide) (by decide) (natToBits 8 b) 0 c (by decide) hc
  rw [Nat.zero_xor, natToBits_length] at h
  rw [h]
  have e0 : (natToBits 8 b).foldl (Spec.crcStep 8 0x07) 0 = crc8Table.getD b 0 := (t8_entry ⟨b, hb⟩).symm
  rw [e0, zero8 ⟨c, hc⟩]
  have hu : crc8Update c b = crc8Table.getD (c ^^^ b) 0 := rfl
  rw [hu, t8_lin c b hc hb, Nat.xor_comm]

/-! ### every message -/

theorem crc16Update_lt' (c b : Nat) (hc : c < 65536) (hb : b < 256) : crc16Update c b < 65536 := by
  rw [← byte16 c b hc hb]
  have := Flac.CrcEq.step0_lt 16 0x8005 0 (by decide)
  clear this
  have : ∀ (bits : Bits) (c : Nat), c < 2 ^ 16 → bits.foldl (Spec.crcStep 16 0x8005) c < 2 ^ 16 := by
    intro bits
    induction bits with
    | nil => intro c h; exact h
    | cons x xs ih =>
      intro c h
      exact ih _ (by rw [crcStep_eq 16 0x8005 c x (by decide) h]; exact step0_lt 16 0x8005 _ (by decide))
  exact this _ c hc

theorem crc8Update_lt' (c b : Nat) (hc : c < 256) (hb : b < 256) : crc8Update c b < 256 := by
  rw [← byte8 c b hc hb]
  have : ∀ (bits : Bits) (c : Nat), c < 2 ^ 8 → bits.foldl (Spec.crcStep 8 0x07) c < 2 ^ 8 := by
    intro bits
    induction bits with
    | nil => intro c h; exact h
    | cons x xs ih =>
      intro c h
      exact ih _ (by rw [crcStep_eq 8 0x07 c x (by decide) h]; exact step0_lt 8 0x07 _ (by decide))
  exact this _ c hc

theorem fold16 (bs : List Nat) (hb : ∀ x ∈ bs, x < 256) (c : Nat) (hc : c < 65536) :
    (bytesToBits bs).foldl (Spec.crcStep 16 0x8005) c = bs.foldl crc16Update c := by
  induction bs generalizing c with
  | nil => rfl
  | cons x xs ih =>
    have hx := hb x (by simp)
    simp only [bytesToBits, List.flatMap_cons, List.foldl_append, List.foldl_cons, byteToBits] at ih ⊢
    rw [byte16 c x hc hx]
    exact ih (fun y hy => hb y (by simp [hy])) _ (crc16Update_lt' c x hc hx)

theorem fold8 (bs : List Nat) (hb : ∀ x ∈ bs, x < 256) (c : Nat) (hc : c < 256) :
    (bytesToBits bs).foldl (Spec.crcStep 8 0x07) c = bs.foldl crc8Update c := by
  induction bs generalizing c with
  | nil => rfl
  | cons x xs ih =>
    have hx := hb x (by simp)
    simp only [bytesToBits, List.flatMap_cons, List.foldl_append, List.foldl_cons, byteToBits] at ih ⊢
    rw [byte8 c x hc hx]
    exact ih (fun y hy => hb y (by simp [hy])) _ (crc8Update_lt' c x hc hx)

/-- **CRC-16 of crc.rs = the specification's CRC-16, on every message** -/
theorem crc16_eq_spec (bs : List Nat) (hb : ∀ x ∈ bs, x < 256) : crc16 bs = Spec.crc16 bs := by
  simp only [crc16, Spec.crc16, Spec.crcBits]
  exact (fold16 bs hb 0 (by decide)).symm

/-- **CRC-8 of crc.rs = the specification's CRC-8, on every message** -/
theorem crc8_eq_spec (bs : List Nat) (hb : ∀ x ∈ bs, x < 256) : crc8 bs = Spec.crc8 bs := by
  simp only [crc8, Spec.crc8, Spec.crcBits]
  exact (fold8 bs hb 0 (by decide)).symm

end Flac.CrcEq
