/-
  Proofs/CrcSelf.lean — a message followed by its own checksum has remainder 0, and the checksums stay in range.
  Only `Model/Crc.lean` and the regenerated tables are needed (kept apart from the frame codec so that the
  I/O properties can use it without importing the decoder).
-/
import FlacModel.Model.Crc

namespace Flac
open Flac.Gen

/-! ### checksums: a message followed by its own CRC has remainder 0 -/

theorem crc8Table_zero : crc8Table.getD 0 0 = 0 := by decide
theorem crc16Table_zero : crc16Table.getD 0 0 = 0 := by decide

theorem xor_self' (x : Nat) : Nat.xor x x = 0 := Nat.xor_self x
theorem zero_xor' (x : Nat) : Nat.xor 0 x = x := Nat.zero_xor x

theorem crc8_self (bs : List Nat) : crc8 (bs ++ [crc8 bs]) = 0 := by
  simp only [crc8, List.foldl_append, List.foldl_cons, List.foldl_nil, crc8Update, xor_self']
  exact crc8Table_zero

theorem crc16Table_lt : crc16Table.all (· < 65536) = true := by decide +kernel

theorem crc16Table_getD_lt (i : Nat) : crc16Table.getD i 0 < 65536 := by
  rw [List.getD_eq_getElem?_getD]
  by_cases h : i < crc16Table.length
  · rw [List.getElem?_eq_getElem h]
    have := List.all_eq_true.mp crc16Table_lt _ (List.getElem_mem h)
    simpa using this
  · rw [List.getElem?_eq_none (by omega)]; decide

theorem crc16Update_lt (c b : Nat) : crc16Update c b < 65536 := by
  unfold crc16Update
  exact Nat.xor_lt_two_pow (n := 16) (crc16Table_getD_lt _) (Nat.mod_lt _ (by decide))

theorem crc16_lt (bs : List Nat) : crc16 bs < 65536 := by
  have : ∀ init, init < 65536 → List.foldl crc16Update init bs < 65536 := by
    induction bs with
    | nil => intro i hi; exact hi
    | cons x xs ih => intro i _; exact ih _ (crc16Update_lt _ _)
  exact this 0 (by decide)

theorem crc16_self (bs : List Nat) : crc16 (bs ++ [crc16 bs / 256, crc16 bs % 256]) = 0 := by
  have hc := crc16_lt bs
  simp only [crc16, List.foldl_append, List.foldl_cons, List.foldl_nil] at hc ⊢
  generalize List.foldl crc16Update 0 bs = c at hc ⊢
  have s1 : crc16Update c (c / 256) = c % 256 * 256 := by
    unfold crc16Update
    have : c / 2 ^ 8 % 256 = c / 256 := by omega
    rw [this, xor_self', crc16Table_zero, zero_xor']; omega
  rw [s1]
  unfold crc16Update
  have : c % 256 * 256 / 2 ^ 8 % 256 = c % 256 := by omega
  rw [this, xor_self', crc16Table_zero, zero_xor']; omega


theorem crc8Table_lt : crc8Table.all (· < 256) = true := by decide +kernel

theorem crc8Update_lt (c b : Nat) : crc8Update c b < 256 := by
  unfold crc8Update
  rw [List.getD_eq_getElem?_getD]
  by_cases h : Nat.xor c b < crc8Table.length
  · rw [List.getElem?_eq_getElem h]
    have := List.all_eq_true.mp crc8Table_lt _ (List.getElem_mem h)
    simpa using this
  · rw [List.getElem?_eq_none (by omega)]; decide

theorem crc8_lt (bs : List Nat) : crc8 bs < 256 := by
  have : ∀ init, init < 256 → List.foldl crc8Update init bs < 256 := by
    induction bs with
    | nil => intro i hi; exact hi
    | cons x xs ih => intro i _; exact ih _ (crc8Update_lt _ _)
  exact this 0 (by decide)


end Flac
