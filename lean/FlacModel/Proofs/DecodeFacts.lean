/-
  Proofs/DecodeFacts.lean — decoder-side facts shared by several property files (kept apart from the encoder-side files so
  that properties about the decoder alone do not import the encoder kernels).
-/
import FlacModel.Model.Decode
import FlacModel.Proofs.Machine

namespace Flac
open Gen

/-- shifting the wasted bits back in is exact whenever the result fits 32 bits -/
theorem decWastedShl32_ok (p : Profile) (y : Int) (w : Nat) (hw : w < 32) (hx : fitsS 32 (y * 2 ^ w) = true) :
    decWastedShl32 p y w = .ok (y * 2 ^ w) := by
  simp only [decWastedShl32, shlS_ok p 32 _ _ w hw]
  rw [wrapS32_of_fits _ hx]

theorem mapM'_wasted (p : Profile) (w : Nat) (hw : w < 32) (ys : List Int) (hy : ∀ y ∈ ys, fitsS 32 (y * 2 ^ w) = true) :
    mapM' (wastedShl p 32 w) ys = .ok (ys.map (· * 2 ^ w)) := by
  induction ys with
  | nil => simp [mapM']
  | cons y ys ih =>
    simp only [mapM', wastedShl, if_true]
    rw [decWastedShl32_ok p y w hw (hy y (by simp))]; dsimp only
    have := ih (fun z hz => hy z (by simp [hz]))
    rw [this]
    simp

theorem fixedCoeffs_ok (o : Nat) : (∀ c ∈ fixedCoeffs.getD o [], fitsS 16 c = true) ∧ (fixedCoeffs.getD o []).length ≤ 32
    ∧ (o ≤ 4 → (fixedCoeffs.getD o []).length = o) := by
  match o with
  | 0 | 1 | 2 | 3 | 4 => decide
  | n + 5 => simp [fixedCoeffs]

/-- an accepted frame passed the STREAMINFO consistency checks -/
theorem decodeFrame_check (p : Profile) (si : Option SInfo) (bytes : List Nat) (d : Decoded)
    (h : decodeFrame p si bytes = .ok d) : checkStreaminfo si d.hdr = .ok () := by
  unfold decodeFrame at h
  cases g1 : readHeaderFields si (bytesToBits bytes) with
  | error e => rw [g1] at h; cases h
  | ok v1 =>
    obtain ⟨hd, rest⟩ := v1
    rw [g1] at h; dsimp only at h
    cases g2 : checkStreaminfo si hd with
    | error e => rw [g2] at h; cases h
    | ok u =>
      cases u
      rw [g2] at h; dsimp only at h
      split at h
      · cases h
      · split at h
        · cases h
        · split at h
          · cases h
          · split at h
            · cases h
            · split at h
              · cases h
              · split at h
                · cases h
                · simp only [Except.ok.injEq] at h
                  rw [← h]; exact g2

end Flac
