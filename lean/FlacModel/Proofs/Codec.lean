/-
  Proofs/Codec.lean — the frame format is a bijection on well-formed frames:
  every reader of Model/Frame.lean inverts the writer next to it (`read (write x ++ rest) = (x, rest)`),
  up to `decodeFrame p si f.serialize`.
-/
import FlacModel.Model.Decode
import FlacModel.Proofs.Sync
import FlacModel.Proofs.Local
import FlacModel.Proofs.CrcSelf

namespace Flac
open Flac.Gen

/-! ### primitives -/

theorem readU_natToBits (n v : Nat) (r : Bits) : readU n (natToBits n v ++ r) = .ok (v % 2 ^ n, r) := by
  have := splitExact_exact (natToBits n v) r
  rw [natToBits_length] at this
  simp only [readU, takeBits, this, bitsToNat_natToBits]

theorem readU_natToBits_lt (n v : Nat) (r : Bits) (h : v < 2 ^ n) : readU n (natToBits n v ++ r) = .ok (v, r) := by
  rw [readU_natToBits, Nat.mod_eq_of_lt h]

theorem readBit_cons (b : Bool) (r : Bits) : readBit (b :: r) = .ok (b, r) := rfl

theorem readUnary1_write (n : Nat) (r : Bits) : readUnary1 (writeUnary1 n ++ r) = .ok (n, r) := by
  induction n with
  | zero => simp [writeUnary1, readUnary1]
  | succ n ih =>
    simp only [writeUnary1, List.replicate_succ, List.cons_append, readUnary1] at ih ⊢
    rw [ih]

theorem readUnary0_write (n : Nat) (r : Bits) : readUnary0 (writeUnary0 n ++ r) = .ok (n, r) := by
  induction n with
  | zero => simp [writeUnary0, readUnary0]
  | succ n ih =>
    simp only [writeUnary0, List.replicate_succ, List.cons_append, readUnary0] at ih ⊢
    rw [ih]

theorem natToBits_msb (m u : Nat) : natToBits (m + 1) u = (u / 2 ^ m % 2 == 1) :: natToBits m u := by
  induction m generalizing u with
  | zero => simp [natToBits, natToBitsAux]
  | succ m ih =>
    rw [natToBits_succ (m + 1) u, ih (u / 2), natToBits_succ m u, Nat.div_div_eq_div_mul, Nat.pow_succ, Nat.mul_comm 2 (2 ^ m)]
    rfl

/-- two's complement: the value of `m+1` bits whose unsigned reading is `u` -/
theorem bitsToInt_natToBits (m u : Nat) (hu : u < 2 ^ (m + 1)) :
    bitsToInt (natToBits (m + 1) u) = if u < 2 ^ m then (u : Int) else (u : Int) - 2 ^ (m + 1) := by
  rw [natToBits_msb]
  simp only [bitsToInt, natToBits_length, bitsToNat_natToBits]
  have hk : 0 < 2 ^ m := Nat.pow_pos (by decide)
  rw [Nat.pow_succ] at hu
  by_cases h : u < 2 ^ m
  · rw [Nat.div_eq_of_lt h, Nat.mod_eq_of_lt h]; simp [h]
  · have h1 : u / 2 ^ m = 1 := by
      apply Nat.div_eq_of_lt_le <;> omega
    have h2 : u % 2 ^ m = u - 2 ^ m := by
      rw [Nat.mod_eq_sub_mod (by omega), Nat.mod_eq_of_lt (by omega)]
    rw [h1, h2]
    simp only [h, if_false]
    have : ((2 : Int) ^ (m + 1)) = 2 ^ m * 2 := by rw [Int.pow_succ]
    rw [this]
    have h3 : ((u - 2 ^ m : Nat) : Int) = (u : Int) - ((2 ^ m : Nat) : Int) := by omega
    simp [h3]
    omega

theorem readS_intToBits (m : Nat) (v : Int) (r : Bits) (h : fitsS (m + 1) v = true) :
    readS (m + 1) (intToBits (m + 1) v ++ r) = .ok (v, r) := by
  have := splitExact_exact (intToBits (m + 1) v) r
  simp only [intToBits, natToBits_length] at this
  simp only [readS, takeBits, intToBits, this]
  simp only [fitsS, Nat.add_sub_cancel, Bool.and_eq_true, decide_eq_true_eq] at h
  obtain ⟨h1, h2⟩ := h
  have hK : (0 : Int) < 2 ^ m := Int.pow_pos (by decide)
  have e2 : ((2 : Int) ^ (m + 1)) = 2 ^ m * 2 := by rw [Int.pow_succ]
  have hn : ((2 ^ m : Nat) : Int) = (2 : Int) ^ m := by simp
  have hn1 : ((2 ^ (m + 1) : Nat) : Int) = (2 : Int) ^ m * 2 := by simp [Nat.pow_succ]
  by_cases hv : 0 ≤ v
  · have e : v % 2 ^ (m + 1) = v := Int.emod_eq_of_lt hv (by rw [e2]; omega)
    rw [e]
    have hu : v.toNat < 2 ^ (m + 1) := by
      have : (v.toNat : Int) < ((2 ^ (m + 1) : Nat) : Int) := by rw [hn1]; omega
      exact Int.ofNat_lt.mp this
    rw [bitsToInt_natToBits m v.toNat hu]
    have hlt : v.toNat < 2 ^ m := by
      have : (v.toNat : Int) < ((2 ^ m : Nat) : Int) := by rw [hn]; omega
      exact Int.ofNat_lt.mp this
    simp only [hlt, if_true]
    congr 2; omega
  · have e : v % 2 ^ (m + 1) = v + 2 ^ (m + 1) := by
      rw [← Int.add_mul_emod_self_left v (2 ^ (m + 1)) 1, Int.mul_one]
      exact Int.emod_eq_of_lt (by rw [e2]; omega) (by rw [e2]; omega)
    rw [e]
    have hu : (v + 2 ^ (m + 1)).toNat < 2 ^ (m + 1) := by
      have : ((v + 2 ^ (m + 1)).toNat : Int) < ((2 ^ (m + 1) : Nat) : Int) := by rw [hn1, e2]; omega
      exact Int.ofNat_lt.mp this
    rw [bitsToInt_natToBits m _ hu]
    have hge : ¬ (v + 2 ^ (m + 1)).toNat < 2 ^ m := by
      intro hc
      have : ((v + 2 ^ (m + 1)).toNat : Int) < ((2 ^ m : Nat) : Int) := Int.ofNat_lt.mpr hc
      rw [hn, e2] at this; omega
    simp only [hge, if_false]
    congr 2
    rw [e2] at *; omega


theorem readS_intToBits' (n : Nat) (hn : 0 < n) (v : Int) (r : Bits) (h : fitsS n v = true) :
    readS n (intToBits n v ++ r) = .ok (v, r) := by
  cases n with
  | zero => omega
  | succ m => exact readS_intToBits m v r h

/-- `readN` inverts a `flatMap` of an item writer that the item reader inverts -/
theorem readN_flatMap {α : Type} (p : P α) (w : α → Bits) (xs : List α) (r : Bits)
    (h : ∀ x ∈ xs, ∀ r', p (w x ++ r') = .ok (x, r')) :
    readN p xs.length (xs.flatMap w ++ r) = .ok (xs, r) := by
  induction xs with
  | nil => simp [readN]
  | cons x xs ih =>
    simp only [List.flatMap_cons, List.append_assoc, List.length_cons, readN]
    rw [h x (by simp)]; dsimp only
    rw [ih (fun y hy => h y (by simp [hy]))]

/-! ### residuals -/

/-- the residuals a Rice code of the format can carry: the folded value fits 32 bits (the decoder accepts the most
    negative 32-bit value too; the RFC forbids it and the encoder never produces it) -/
def resOk (r : Int) : Prop := -2147483648 ≤ r ∧ r < 2147483648

theorem join_split' (n m : Nat) (hn : n < 4294967296) :
    (n / m % 4294967296 * m) % 4294967296 + n % m = n := by
  have h1 : n / m % 4294967296 = n / m :=
    Nat.mod_eq_of_lt (Nat.lt_of_le_of_lt (Nat.div_le_self _ _) hn)
  have h2 : n / m * m ≤ n := Nat.div_mul_le_self _ _
  rw [h1, Nat.mod_eq_of_lt (Nat.lt_of_le_of_lt h2 hn)]
  exact Nat.div_add_mod' _ _

/-- Rice fold/unfold for every residual a 32-bit folded value can carry, the most negative value included -/
theorem fold_unfold' (k : Nat) (r : Int) (h0 : -2147483648 ≤ r) (h1 : r < 2147483648) :
    unfoldRice k (foldRice r / 2 ^ k) (foldRice r % 2 ^ k) = r := by
  have hfold : foldRice r < 4294967296 := by
    unfold foldRice; split <;> omega
  have hv : ((foldRice r : Nat) : Int) = if r < 0 then (-r - 1) * 2 + 1 else r * 2 := by
    unfold foldRice; split <;> omega
  unfold unfoldRice
  rw [join_split' _ _ hfold]
  generalize foldRice r = n at *
  by_cases hodd : n % 2 = 1
  · have : (n % 2 == 1) = true := by simp [hodd]
    simp only [this, if_true]
    split at hv <;> omega
  · have : (n % 2 == 1) = false := by simp [hodd]
    simp only [this]
    split at hv <;> simp <;> omega

theorem foldRice_lt (r : Int) (h : resOk r) : foldRice r < 4294967296 := by
  unfold foldRice resOk at *; split <;> omega

theorem readRiceOne_write (k : Nat) (r : Int) (rest : Bits) (h : resOk r) :
    readRiceOne k (writeRiceOne k r ++ rest) = .ok (r, rest) := by
  have hk : 0 < 2 ^ k := Nat.pow_pos (by decide)
  simp only [readRiceOne, writeRiceOne, List.append_assoc]
  rw [readUnary1_write]; dsimp only
  rw [readU_natToBits_lt _ _ _ (Nat.mod_lt _ hk)]; dsimp only
  have hov : decRiceOverflow (foldRice r / 2 ^ k) k = false := by
    simp only [decRiceOverflow, decide_eq_false_iff_not, Nat.not_lt]
    apply Nat.div_le_div_right
    have := foldRice_lt r h; omega
  rw [hov]
  simp only [Bool.false_eq_true, if_false]
  rw [fold_unfold' k r h.1 h.2]

/-- a partition of `n` residuals is well-formed for a `pbits`-bit parameter field -/
def partWf (pbits n : Nat) : Partition → Prop
  | .rice k rs => k < 2 ^ pbits - 1 ∧ rs.length = n ∧ ∀ r ∈ rs, resOk r
  | .escaped w rs => 0 < w ∧ w < 32 ∧ rs.length = n ∧ ∀ r ∈ rs, fitsS w r = true
  | .zero m => m = n

theorem readPartition_write (pbits n : Nat) (hp : 0 < pbits) (pt : Partition) (rest : Bits) (h : partWf pbits n pt) :
    readPartition pbits n (writePartition pbits pt ++ rest) = .ok (pt, rest) := by
  have h2 : 2 ≤ 2 ^ pbits := by
    cases pbits with
    | zero => omega
    | succ q => rw [Nat.pow_succ]; have := Nat.pow_pos (n := q) (show 0 < 2 by decide); omega
  cases pt with
  | rice k rs =>
    obtain ⟨h1, hl, hr⟩ := h
    simp only [readPartition, writePartition, List.append_assoc]
    rw [readU_natToBits_lt _ _ _ (by omega)]; dsimp only
    have : (k == 2 ^ pbits - 1) = false := by simp; omega
    rw [this]
    simp only [Bool.false_eq_true, if_false]
    rw [← hl, readN_flatMap (readRiceOne k) (writeRiceOne k) rs rest (fun x hx r' => readRiceOne_write k x r' (hr x hx))]
  | escaped w rs =>
    obtain ⟨h0, h1, hl, hr⟩ := h
    simp only [readPartition, writePartition, List.append_assoc]
    rw [readU_natToBits_lt _ _ _ (by omega)]; dsimp only
    simp only [beq_self_eq_true, if_true]
    rw [readU_natToBits_lt 5 w _ (by omega)]; dsimp only
    have : (w == 0) = false := by simp; omega
    rw [this]
    simp only [Bool.false_eq_true, if_false]
    rw [← hl, readN_flatMap (readS w) (intToBits w) rs rest (fun x hx r' => readS_intToBits' w h0 x r' (hr x hx))]
  | zero m =>
    simp only [partWf] at h
    subst h
    simp only [readPartition, writePartition, List.append_assoc]
    rw [readU_natToBits_lt _ _ _ (by omega)]; dsimp only
    simp only [beq_self_eq_true, if_true]
    rw [readU_natToBits_lt 5 0 _ (by omega)]; dsimp only
    simp

def partsWf (pbits : Nat) : List Nat → List Partition → Prop
  | [], [] => True
  | n :: ns, pt :: pts => partWf pbits n pt ∧ partsWf pbits ns pts
  | _, _ => False

theorem readPartitions_write (pbits : Nat) (hp : 0 < pbits) (ns : List Nat) (pts : List Partition) (rest : Bits)
    (h : partsWf pbits ns pts) :
    readPartitions pbits ns (pts.flatMap (writePartition pbits) ++ rest) = .ok (pts, rest) := by
  induction ns generalizing pts with
  | nil =>
    cases pts with
    | nil => simp [readPartitions]
    | cons _ _ => simp [partsWf] at h
  | cons n ns ih =>
    cases pts with
    | nil => simp [partsWf] at h
    | cons pt pts =>
      obtain ⟨h1, h2⟩ := h
      simp only [readPartitions, List.flatMap_cons, List.append_assoc]
      rw [readPartition_write pbits n hp pt _ h1]; dsimp only
      rw [ih pts h2]

/-- a residual block is well-formed for `bs` samples behind `order` warm-up samples under a layout rule -/
def resWf (layout : Layout) (bs order : Nat) (r : Residual) : Prop :=
  r.method < 2 ∧ r.order < 16 ∧ ∃ sizes, layout bs order r.order = .ok sizes ∧ partsWf (4 + r.method) sizes r.parts

theorem readResidual_write (layout : Layout) (bs order : Nat) (r : Residual) (rest : Bits) (h : resWf layout bs order r) :
    readResidual layout bs order (writeResidual r ++ rest) = .ok (r, rest) := by
  obtain ⟨hm, ho, sizes, hl, hp⟩ := h
  simp only [readResidual, writeResidual, List.append_assoc]
  rw [readU_natToBits_lt 2 _ _ (by omega)]; dsimp only
  have : ¬ r.method ≥ 2 := by omega
  simp only [this, if_false]
  rw [readU_natToBits_lt 4 _ _ (by omega)]; dsimp only
  rw [hl]; dsimp only
  rw [readPartitions_write _ (by omega) sizes r.parts rest hp]


/-! ### subframes -/

theorem and_dec_true {p q : Prop} [Decidable p] [Decidable q] (hp : p) (hq : q) : (decide p && decide q) = true := by simp [hp, hq]
theorem and_dec_false_r {p q : Prop} [Decidable p] [Decidable q] (hq : ¬ q) : (decide p && decide q) = false := by simp [hq]


/-- the subframe type codes the format defines -/
def tyOk (ty : Nat) : Prop := ty = 0 ∨ ty = 1 ∨ (8 ≤ ty ∧ ty ≤ 12) ∨ (32 ≤ ty ∧ ty ≤ 63)

theorem readSubHeader_write (ty wasted : Nat) (rest : Bits) (h : tyOk ty) :
    readSubHeader (writeSubHeader ty wasted ++ rest) = .ok ((ty, wasted), rest) := by
  have hty : ty < 2 ^ 6 := by unfold tyOk at h; omega
  have hok : (!(ty == subTypeConstant || ty == subTypeVerbatim
           || (subTypeFixedLo ≤ ty && ty ≤ subTypeFixedHi) || (subTypeLpcLo ≤ ty && ty ≤ subTypeLpcHi))) = false := by
    simp only [subTypeConstant, subTypeVerbatim, subTypeFixedLo, subTypeFixedHi, subTypeLpcLo, subTypeLpcHi]
    unfold tyOk at h
    rcases h with h | h | h | h <;> simp [h]
  simp only [readSubHeader, writeSubHeader, List.append_assoc, List.cons_append, List.nil_append, readBit]
  simp only [Bool.false_eq_true, if_false]
  rw [readU_natToBits_lt 6 ty _ hty]; dsimp only
  rw [hok]
  simp only [Bool.false_eq_true, if_false]
  by_cases hw : wasted = 0
  · subst hw
    simp [readBit]
  · have : (wasted == 0) = false := by simpa using hw
    simp only [this, Bool.false_eq_true, if_false, List.cons_append, List.nil_append, List.append_assoc, readBit, Bool.not_true]
    rw [readUnary1_write]; dsimp only
    have : wasted - 1 + 1 = wasted := by omega
    rw [this]

def allFit (n : Nat) (xs : List Int) : Prop := ∀ x ∈ xs, fitsS n x = true

/-- a subframe of `bs` samples at depth `bps` is well-formed -/
def subWf (layout : Layout) (bs bps : Nat) (s : Subframe) : Prop :=
  s.wasted < bps ∧
  match s.body with
  | .constant v => fitsS (bps - s.wasted) v = true
  | .verbatim xs => xs.length = bs ∧ allFit (bps - s.wasted) xs
  | .fixed o warm res => o ≤ 4 ∧ o ≤ bs ∧ warm.length = o ∧ allFit (bps - s.wasted) warm ∧ resWf layout bs o res
  | .lpc o warm prec shift coefs res =>
      1 ≤ o ∧ o ≤ 32 ∧ o ≤ bs ∧ warm.length = o ∧ allFit (bps - s.wasted) warm ∧ 1 ≤ prec ∧ prec ≤ 15 ∧ shift ≤ 15
        ∧ coefs.length = o ∧ allFit prec coefs ∧ resWf layout bs o res

theorem readSubframe_write (layout : Layout) (cw : Bool) (bs bps : Nat) (s : Subframe) (rest : Bits)
    (h : subWf layout bs bps s) :
    readSubframe layout cw bs bps (writeSubframe bps s ++ rest) = .ok (s, rest) := by
  obtain ⟨wasted, body⟩ := s
  obtain ⟨hw, hb⟩ := h
  dsimp only at hw hb
  have hnw : ¬ bps ≤ wasted := by omega
  have hd : 0 < bps - wasted := by omega
  cases body with
  | constant v =>
    dsimp only at hb
    simp only [readSubframe, writeSubframe, List.append_assoc]
    rw [readSubHeader_write subTypeConstant _ _ (Or.inl rfl)]; dsimp only
    simp only [hnw, if_false, beq_self_eq_true, if_true]
    rw [readS_intToBits' _ hd v rest hb]
  | verbatim xs =>
    obtain ⟨hl, hf⟩ := hb
    simp only [readSubframe, writeSubframe, List.append_assoc]
    rw [readSubHeader_write subTypeVerbatim _ _ (Or.inr (Or.inl rfl))]; dsimp only
    have : (subTypeVerbatim == subTypeConstant) = false := by decide
    simp only [hnw, if_false, this, Bool.false_eq_true, beq_self_eq_true, if_true]
    rw [← hl, readN_flatMap (readS (bps - wasted)) (intToBits (bps - wasted)) xs rest
      (fun x hx r' => readS_intToBits' _ hd x r' (hf x hx))]
  | fixed o warm res =>
    obtain ⟨ho, hob, hl, hf, hr⟩ := hb
    simp only [readSubframe, writeSubframe, List.append_assoc]
    rw [readSubHeader_write (subTypeFixedBase + o) _ _ (by unfold tyOk subTypeFixedBase; omega)]; dsimp only
    have t1 : (subTypeFixedBase + o == subTypeConstant) = false := beq_false_of_ne (by simp only [subTypeFixedBase, subTypeConstant]; omega)
    have t2 : (subTypeFixedBase + o == subTypeVerbatim) = false := beq_false_of_ne (by simp only [subTypeFixedBase, subTypeVerbatim]; omega)
    have t3 : (decide (subTypeFixedLo ≤ subTypeFixedBase + o) && decide (subTypeFixedBase + o ≤ subTypeFixedHi)) = true := by
      exact and_dec_true (by simp only [subTypeFixedBase, subTypeFixedLo]; omega) (by simp only [subTypeFixedBase, subTypeFixedHi]; omega)
    have t4 : subTypeFixedBase + o - subTypeFixedBase = o := by omega
    have t5 : (cw && decide (o > bs)) = false := by
      have : decide (o > bs) = false := by simp; omega
      simp [this]
    simp only [hnw, if_false, t1, t2, t3, t4, t5, Bool.false_eq_true, if_true]
    rw [← hl, readN_flatMap (readS (bps - wasted)) (intToBits (bps - wasted)) warm _
      (fun x hx r' => readS_intToBits' _ hd x r' (hf x hx))]; dsimp only
    rw [hl, readResidual_write layout bs o res rest hr]
  | lpc o warm prec shift coefs res =>
    obtain ⟨ho1, ho, hob, hl, hf, hp1, hp, hs, hcl, hcf, hr⟩ := hb
    simp only [readSubframe, writeSubframe, List.append_assoc]
    rw [readSubHeader_write (subTypeLpcBase + o) _ _ (by unfold tyOk subTypeLpcBase; omega)]; dsimp only
    have t1 : (subTypeLpcBase + o == subTypeConstant) = false := beq_false_of_ne (by simp only [subTypeLpcBase, subTypeConstant]; omega)
    have t2 : (subTypeLpcBase + o == subTypeVerbatim) = false := beq_false_of_ne (by simp only [subTypeLpcBase, subTypeVerbatim]; omega)
    have t3 : (decide (subTypeFixedLo ≤ subTypeLpcBase + o) && decide (subTypeLpcBase + o ≤ subTypeFixedHi)) = false := by
      exact and_dec_false_r (by simp only [subTypeLpcBase, subTypeFixedHi]; omega)
    have t4 : subTypeLpcBase + o - subTypeLpcBase = o := by omega
    have t5 : (cw && decide (o > bs)) = false := by
      have : decide (o > bs) = false := by simp; omega
      simp [this]
    simp only [hnw, if_false, t1, t2, t3, t4, t5, Bool.false_eq_true]
    rw [← hl, readN_flatMap (readS (bps - wasted)) (intToBits (bps - wasted)) warm _
      (fun x hx r' => readS_intToBits' _ hd x r' (hf x hx))]; dsimp only
    rw [readU_natToBits_lt 4 (prec - 1) _ (by omega)]; dsimp only
    have t6 : (prec - 1 == 15) = false := by simp; omega
    have t7 : prec - 1 + 1 = prec := by omega
    simp only [t6, t7, Bool.false_eq_true, if_false]
    rw [readS_intToBits' 5 (by decide) (shift : Int) _ (by simp [fitsS]; omega)]; dsimp only
    have t8 : ¬ ((shift : Int) < 0) := by omega
    simp only [t8, if_false]
    rw [hl, ← hcl, readN_flatMap (readS prec) (intToBits prec) coefs _
      (fun x hx r' => readS_intToBits' _ (by omega) x r' (hcf x hx))]; dsimp only
    rw [hcl, readResidual_write layout bs o res rest hr]
    simp


/-- every subframe of the list is well-formed at the depth its position gives it -/
def subsWf (layout : Layout) (a : Assign) (bs bps : Nat) : List Subframe → Nat → Prop
  | [], _ => True
  | s :: ss, i => subWf layout bs (subBps a bps i) s ∧ subsWf layout a bs bps ss (i + 1)

/-- the samples each subframe expands to -/
def subsDecode (p : Profile) (a : Assign) (bs bps : Nat) : List Subframe → List (List Int) → Nat → Prop
  | [], [], _ => True
  | s :: ss, xs :: xss, i => decodeSub p (subWidth a bps i) bs s = .ok xs ∧ subsDecode p a bs bps ss xss (i + 1)
  | _, _, _ => False

/-- the structural parser inverts the subframe writer -/
theorem readSubframes_write (layout : Layout) (cw : Bool) (a : Assign) (bs bps : Nat) (ss : List Subframe) (i : Nat) (rest : Bits)
    (h : subsWf layout a bs bps ss i) :
    readSubframes layout cw a bs bps ss.length i (writeSubframes a bps ss i ++ rest) = .ok (ss, rest) := by
  induction ss generalizing i with
  | nil => simp [readSubframes, writeSubframes]
  | cons s ss ih =>
    simp only [List.length_cons, readSubframes, writeSubframes, List.append_assoc]
    rw [readSubframe_write layout cw bs _ s _ h.1]; dsimp only
    rw [ih (i + 1) h.2]

/-- the streaming decoder reads each subframe back and expands it at once -/
theorem decSubframes_write (p : Profile) (a : Assign) (bs bps : Nat) (ss : List Subframe) (xss : List (List Int)) (i : Nat) (rest : Bits)
    (h : subsWf decLayout a bs bps ss i) (hx : subsDecode p a bs bps ss xss i) :
    decSubframes p a bs bps ss.length i (writeSubframes a bps ss i ++ rest) = .ok (xss, rest) := by
  induction ss generalizing i xss with
  | nil =>
    cases xss with
    | nil => simp [decSubframes, writeSubframes]
    | cons _ _ => simp [subsDecode] at hx
  | cons s ss ih =>
    cases xss with
    | nil => simp [subsDecode] at hx
    | cons xs xss =>
      simp only [List.length_cons, decSubframes, writeSubframes, List.append_assoc]
      rw [readSubframe_write decLayout true bs _ s _ h.1]; dsimp only
      rw [hx.1]; dsimp only
      rw [ih xss (i + 1) h.2 hx.2]


/-! ### frame header -/

theorem readU2_tag (r : Bits) : readU 2 (true :: false :: r) = .ok (2, r) := by
  simp [readU, takeBits, splitExact, bitsToNat]

theorem tail_arith (acc d r K : Nat) : (acc * 64 + d) * K + r = acc * (K * 64) + (r + K * d) := by
  rw [Nat.add_mul, Nat.mul_assoc, Nat.mul_comm 64 K, Nat.mul_comm K d]; omega

theorem readNumberTail_write (m acc v : Nat) (rest : Bits) :
    readNumberTail m acc (numberTail m v ++ rest) = .ok (acc * 64 ^ m + v % 64 ^ m, rest) := by
  induction m generalizing acc with
  | zero => simp [readNumberTail, numberTail, Nat.mod_one]
  | succ m ih =>
    simp only [readNumberTail, numberTail, List.append_assoc, List.cons_append, List.nil_append]
    rw [readU2_tag]; dsimp only
    simp only [bne_self_eq_false, Bool.false_eq_true, if_false]
    rw [readU_natToBits_lt 6 _ _ (Nat.mod_lt _ (by decide))]; dsimp only
    rw [ih]
    congr 2
    have e : v % 64 ^ (m + 1) = v % 64 ^ m + 64 ^ m * (v / 64 ^ m % 64) := by rw [Nat.pow_succ, Nat.mod_mul]
    rw [e, Nat.pow_succ]
    exact tail_arith _ _ _ _

/-- the coded number `v` fits the `n`-byte form -/
def numWf (v n : Nat) : Prop := (n = 1 ∧ v < 128) ∨ (2 ≤ n ∧ n ≤ 7 ∧ v / 64 ^ (n - 1) < 2 ^ (7 - n))

theorem readNumber_write (v n : Nat) (rest : Bits) (h : numWf v n) :
    readNumber (writeNumber v n ++ rest) = .ok ((v, n), rest) := by
  rcases h with ⟨h1, h2⟩ | ⟨h1, h2, h3⟩
  · subst h1
    simp only [readNumber, writeNumber, Nat.le_refl, if_true, List.cons_append, List.nil_append, readUnary0]
    simp only [beq_self_eq_true, if_true]
    rw [readU_natToBits_lt 7 v _ h2]
  · have hn : ¬ n ≤ 1 := by omega
    simp only [readNumber, writeNumber, hn, if_false, List.append_assoc]
    rw [readUnary0_write]; dsimp only
    have t1 : (n == 0) = false := beq_false_of_ne (by omega)
    have t2 : (n == 1 || decide (n > 7)) = false := by
      have : (n == 1) = false := beq_false_of_ne (by omega)
      have : decide (n > 7) = false := by simp; omega
      simp [*]
    simp only [t1, t2, Bool.false_eq_true, if_false]
    rw [readU_natToBits_lt _ _ _ h3]; dsimp only
    rw [readNumberTail_write]; dsimp only
    rw [Nat.div_add_mod']


def assignOfCode (c : Nat) : Assign :=
  if chanCodeLeftSide.contains c then .leftSide
  else if chanCodeSideRight.contains c then .sideRight
  else if chanCodeMidSide.contains c then .midSide
  else .indep ((lookup chanCodeIndependent c).getD 0)

def assignOk : Assign → Prop
  | .indep n => 1 ≤ n ∧ n ≤ 8
  | _ => True

theorem assign_code (a : Assign) (h : assignOk a) :
    chanCode a < 2 ^ 4 ∧ chanCodeInvalid.contains (chanCode a) = false ∧ assignOfCode (chanCode a) = a := by
  cases a with
  | indep n =>
    obtain ⟨h1, h2⟩ := h
    have : n = 1 ∨ n = 2 ∨ n = 3 ∨ n = 4 ∨ n = 5 ∨ n = 6 ∨ n = 7 ∨ n = 8 := by omega
    rcases this with h | h | h | h | h | h | h | h <;> subst h <;> decide
  | leftSide => decide
  | sideRight => decide
  | midSide => decide

/-- a frame header is well-formed: its codes are legal and its decoded fields are the ones the codes denote -/
structure HeaderWf (si : Option SInfo) (h : Header) : Prop where
  bsCode : h.bsCode < 2 ^ 4
  bsValid : blockSizeCodeInvalid.contains h.bsCode = false
  rateCode : h.rateCode < 2 ^ 4
  rateValid : sampleRateCodeInvalid.contains h.rateCode = false
  rateSubset : (sampleRateCodeStreaminfo.contains h.rateCode && si.isNone) = false
  assign : assignOk h.assign
  bpsCode : h.bpsCode < 2 ^ 3
  bpsValid : bpsCodeInvalid.contains h.bpsCode = false
  bpsSubset : (bpsCodeStreaminfo.contains h.bpsCode && si.isNone) = false
  bps : h.bps = if bpsCodeStreaminfo.contains h.bpsCode then (si.map (·.bps)).getD 0 else (lookup bpsCodeFixed h.bpsCode).getD 0
  number : numWf h.number h.numberBytes
  blockSize :
    if blockSizeCodeU8.contains h.bsCode then 1 ≤ h.blockSize ∧ h.blockSize ≤ 256
    else if blockSizeCodeU16.contains h.bsCode then 1 ≤ h.blockSize ∧ h.blockSize ≤ 65535
    else h.blockSize = (lookup blockSizeCodeFixed h.bsCode).getD 0
  rate :
    if sampleRateCodeStreaminfo.contains h.rateCode then h.rate = (si.map (·.rate)).getD 0
    else if sampleRateCodeKHz.contains h.rateCode then h.rate % sampleRateKHzMul = 0 ∧ h.rate / sampleRateKHzMul < 2 ^ sampleRateKHzBits
    else if sampleRateCodeHz.contains h.rateCode then h.rate % sampleRateHzMul = 0 ∧ h.rate / sampleRateHzMul < 2 ^ sampleRateHzBits
    else if sampleRateCodeDHz.contains h.rateCode then h.rate % sampleRateDHzMul = 0 ∧ h.rate / sampleRateDHzMul < 2 ^ sampleRateDHzBits
    else h.rate = (lookup sampleRateCodeFixed h.rateCode).getD 0
  hcrc : h.hcrc < 2 ^ 8

theorem bind_ok {α β : Type} {p : P α} {f : α → P β} {b b' : Bits} {a : α} (h : p b = .ok (a, b')) :
    P.bind p f b = f a b' := by simp [P.bind, h]

theorem pure_apply {α : Type} (a : α) (b : Bits) : (pure a : P α) b = .ok (a, b) := rfl

theorem blockSize_field (c bs : Nat) (r : Bits)
    (w : if blockSizeCodeU8.contains c then 1 ≤ bs ∧ bs ≤ 256
         else if blockSizeCodeU16.contains c then 1 ≤ bs ∧ bs ≤ 65535
         else bs = (lookup blockSizeCodeFixed c).getD 0) :
    (if blockSizeCodeU8.contains c = true then (readU 8).bind fun v => pure (v + 1)
     else if blockSizeCodeU16.contains c = true then
       (readU 16).bind fun v => if v + 1 > 65535 then P.fail (Fail.err "InvalidBlockSize") else pure (v + 1)
     else (pure ((lookup blockSizeCodeFixed c).getD 0) : P Nat))
      ((if blockSizeCodeU8.contains c = true then natToBits 8 (bs - 1)
        else if blockSizeCodeU16.contains c = true then natToBits 16 (bs - 1) else []) ++ r) = .ok (bs, r) := by
  by_cases h8 : blockSizeCodeU8.contains c = true
  · simp only [h8, if_true] at w ⊢
    rw [bind_ok (readU_natToBits_lt 8 _ _ (by omega)), pure_apply]
    congr 2; omega
  · simp only [h8, Bool.false_eq_true, if_false] at w ⊢
    by_cases h16 : blockSizeCodeU16.contains c = true
    · simp only [h16, if_true] at w ⊢
      rw [bind_ok (readU_natToBits_lt 16 _ _ (by omega))]
      have : ¬ (bs - 1 + 1 > 65535) := by omega
      simp only [this, if_false]
      rw [pure_apply]
      congr 2; omega
    · simp only [h16, Bool.false_eq_true, if_false] at w ⊢
      rw [List.nil_append, pure_apply, w]

theorem rate_field (si : Option SInfo) (c rate : Nat) (r : Bits)
    (w : if sampleRateCodeStreaminfo.contains c then rate = (si.map (·.rate)).getD 0
      else if sampleRateCodeKHz.contains c then rate % sampleRateKHzMul = 0 ∧ rate / sampleRateKHzMul < 2 ^ sampleRateKHzBits
      else if sampleRateCodeHz.contains c then rate % sampleRateHzMul = 0 ∧ rate / sampleRateHzMul < 2 ^ sampleRateHzBits
      else if sampleRateCodeDHz.contains c then rate % sampleRateDHzMul = 0 ∧ rate / sampleRateDHzMul < 2 ^ sampleRateDHzBits
      else rate = (lookup sampleRateCodeFixed c).getD 0) :
    (if sampleRateCodeStreaminfo.contains c = true then (pure ((Option.map (fun x => x.rate) si).getD 0) : P Nat)
     else if sampleRateCodeKHz.contains c = true then (readU sampleRateKHzBits).bind fun v => pure (v * sampleRateKHzMul)
     else if sampleRateCodeHz.contains c = true then (readU sampleRateHzBits).bind fun v => pure (v * sampleRateHzMul)
     else if sampleRateCodeDHz.contains c = true then (readU sampleRateDHzBits).bind fun v => pure (v * sampleRateDHzMul)
     else pure ((lookup sampleRateCodeFixed c).getD 0))
      ((if sampleRateCodeKHz.contains c = true then natToBits sampleRateKHzBits (rate / sampleRateKHzMul)
        else if sampleRateCodeHz.contains c = true then natToBits sampleRateHzBits (rate / sampleRateHzMul)
        else if sampleRateCodeDHz.contains c = true then natToBits sampleRateDHzBits (rate / sampleRateDHzMul)
        else []) ++ r) = .ok (rate, r) := by
  by_cases hs : sampleRateCodeStreaminfo.contains c = true
  · have hc : c = 0 := by simpa [sampleRateCodeStreaminfo] using hs
    subst hc
    simp only [hs, if_true] at w ⊢
    have k1 : sampleRateCodeKHz.contains 0 = false := by decide
    have k2 : sampleRateCodeHz.contains 0 = false := by decide
    have k3 : sampleRateCodeDHz.contains 0 = false := by decide
    simp only [k1, k2, k3, Bool.false_eq_true, if_false, List.nil_append]
    rw [pure_apply, w]
  · simp only [hs, Bool.false_eq_true, if_false] at w ⊢
    by_cases h1 : sampleRateCodeKHz.contains c = true
    · simp only [h1, if_true] at w ⊢
      rw [bind_ok (readU_natToBits_lt _ _ _ w.2), pure_apply]
      congr 2; exact Nat.div_mul_cancel (Nat.dvd_of_mod_eq_zero w.1)
    · simp only [h1, Bool.false_eq_true, if_false] at w ⊢
      by_cases h2 : sampleRateCodeHz.contains c = true
      · simp only [h2, if_true] at w ⊢
        rw [bind_ok (readU_natToBits_lt _ _ _ w.2), pure_apply]
        congr 2; exact Nat.div_mul_cancel (Nat.dvd_of_mod_eq_zero w.1)
      · simp only [h2, Bool.false_eq_true, if_false] at w ⊢
        by_cases h3 : sampleRateCodeDHz.contains c = true
        · simp only [h3, if_true] at w ⊢
          rw [bind_ok (readU_natToBits_lt _ _ _ w.2), pure_apply]
          congr 2; exact Nat.div_mul_cancel (Nat.dvd_of_mod_eq_zero w.1)
        · simp only [h3, Bool.false_eq_true, if_false] at w ⊢
          rw [List.nil_append, pure_apply, w]

theorem readHeaderFields_write (si : Option SInfo) (h : Header) (rest : Bits) (w : HeaderWf si h) :
    readHeaderFields si (writeHeaderFields h ++ natToBits 8 h.hcrc ++ rest) = .ok (h, rest) := by
  obtain ⟨a1, a2, a3⟩ := assign_code h.assign w.assign
  unfold readHeaderFields writeHeaderFields
  simp only [bind, List.append_assoc]
  rw [bind_ok (readU_natToBits_lt 15 _ _ (by decide))]
  simp only [bne_self_eq_false, Bool.false_eq_true, if_false, List.cons_append, List.nil_append]
  rw [bind_ok (readBit_cons _ _), bind_ok (readU_natToBits_lt 4 _ _ w.bsCode)]
  simp only [w.bsValid, Bool.false_eq_true, if_false]
  rw [bind_ok (readU_natToBits_lt 4 _ _ w.rateCode)]
  simp only [w.rateValid, w.rateSubset, Bool.false_eq_true, if_false]
  rw [bind_ok (readU_natToBits_lt 4 _ _ a1)]
  simp only [a2, Bool.false_eq_true, if_false]
  rw [bind_ok (readU_natToBits_lt 3 _ _ w.bpsCode)]
  simp only [w.bpsValid, w.bpsSubset, Bool.false_eq_true, if_false]
  rw [bind_ok (readBit_cons _ _), bind_ok (readNumber_write _ _ _ w.number)]
  rw [bind_ok (blockSize_field h.bsCode h.blockSize _ w.blockSize), bind_ok (rate_field si h.rateCode h.rate _ w.rate),
    bind_ok (readU_natToBits_lt 8 _ _ w.hcrc), pure_apply]
  have a3' := a3
  unfold assignOfCode at a3'
  rw [a3', ← w.bps]

/-! ### bits ↔ bytes -/

theorem natToBits8_bitsToNat (b0 b1 b2 b3 b4 b5 b6 b7 : Bool) :
    natToBits 8 (bitsToNat [b0, b1, b2, b3, b4, b5, b6, b7]) = [b0, b1, b2, b3, b4, b5, b6, b7] := by
  cases b0 <;> cases b1 <;> cases b2 <;> cases b3 <;> cases b4 <;> cases b5 <;> cases b6 <;> cases b7 <;> rfl

theorem bytesToBits_bitsToBytes (x : Bits) (h : x.length % 8 = 0) : bytesToBits (bitsToBytes x) = x := by
  match x, h with
  | [], _ => rfl
  | [_], h => simp at h
  | [_, _], h => simp at h
  | [_, _, _], h => simp at h
  | [_, _, _, _], h => simp at h
  | [_, _, _, _, _], h => simp at h
  | [_, _, _, _, _, _], h => simp at h
  | [_, _, _, _, _, _, _], h => simp at h
  | b0 :: b1 :: b2 :: b3 :: b4 :: b5 :: b6 :: b7 :: rest, h =>
    have hr : rest.length % 8 = 0 := by simp only [List.length_cons] at h; omega
    have ih := bytesToBits_bitsToBytes rest hr
    simp only [bitsToBytes, bytesToBits, List.flatMap_cons, byteToBits] at ih ⊢
    rw [natToBits8_bitsToNat, ih]
    rfl

theorem bitsToBytes_length (x : Bits) (h : x.length % 8 = 0) : 8 * (bitsToBytes x).length = x.length := by
  have := congrArg List.length (bytesToBits_bitsToBytes x h)
  rwa [bytesToBits_length] at this

theorem writeNumber_length (v n : Nat) (h : numWf v n) : (writeNumber v n).length = 8 * n := by
  rcases h with ⟨h1, _⟩ | ⟨h1, h2, _⟩
  · subst h1; simp [writeNumber]
  · have : ¬ n ≤ 1 := by omega
    simp only [writeNumber, this, if_false, List.length_append, writeUnary0, List.length_replicate, List.length_cons,
      List.length_nil, natToBits_length, numberTail_length]
    omega

theorem writeHeaderFields_len8 (si : Option SInfo) (h : Header) (w : HeaderWf si h) : (writeHeaderFields h).length % 8 = 0 := by
  simp only [writeHeaderFields, List.length_append, natToBits_length, List.length_cons, List.length_nil,
    writeNumber_length _ _ w.number]
  have e1 : (if blockSizeCodeU8.contains h.bsCode = true then natToBits 8 (h.blockSize - 1)
        else if blockSizeCodeU16.contains h.bsCode = true then natToBits 16 (h.blockSize - 1) else []).length % 8 = 0 := by
    split
    · simp
    · split <;> simp
  have e2 : (if sampleRateCodeKHz.contains h.rateCode = true then natToBits sampleRateKHzBits (h.rate / sampleRateKHzMul)
        else if sampleRateCodeHz.contains h.rateCode = true then natToBits sampleRateHzBits (h.rate / sampleRateHzMul)
        else if sampleRateCodeDHz.contains h.rateCode = true then natToBits sampleRateDHzBits (h.rate / sampleRateDHzMul)
        else []).length % 8 = 0 := by
    split
    · simp [sampleRateKHzBits]
    · split
      · simp [sampleRateHzBits]
      · split <;> simp [sampleRateDHzBits]
  omega


/-- a frame is well-formed against the STREAMINFO context `si` -/
structure FrameWf (si : Option SInfo) (f : Frame) : Prop where
  hdr : HeaderWf si f.hdr
  hcrc : f.hdr.hcrc = crc8 (bitsToBytes (writeHeaderFields f.hdr))
  check : checkStreaminfo si f.hdr = .ok ()
  bps : f.hdr.bps ≤ 32
  count : f.subs.length = f.hdr.assign.count
  subs : subsWf decLayout f.hdr.assign f.hdr.blockSize f.hdr.bps f.subs 0
  padLt : f.padding.length < 8
  aligned : ((writeSubframes f.hdr.assign f.hdr.bps f.subs 0).length + f.padding.length) % 8 = 0

theorem take_len_append {α : Type} (a b : List α) (n : Nat) (h : n = a.length) : (a ++ b).take n = a := by
  subst h; simp

/-- **The frame format round-trips.**  For every well-formed frame, whatever its subframes expand to and
    whatever channel reconstruction makes of that is exactly what the streaming decoder returns for the
    serialized bytes, using all of them. -/
theorem decodeFrame_serialize (p : Profile) (si : Option SInfo) (f : Frame) (xss out : List (List Int))
    (w : FrameWf si f)
    (hx : subsDecode p f.hdr.assign f.hdr.blockSize f.hdr.bps f.subs xss 0)
    (hr : recorrelate p f.hdr.assign f.hdr.bps xss = .ok out) :
    decodeFrame p si f.serialize = .ok { hdr := f.hdr, channels := out, used := f.serialize.length } := by
  have hl8 := writeHeaderFields_len8 si f.hdr w.hdr
  have hal := w.aligned
  have hsb : (writeSubframes f.hdr.assign f.hdr.bps f.subs 0 ++ f.padding).length % 8 = 0 := by
    rw [List.length_append]; exact hal
  have hbl := bitsToBytes_length _ hl8
  have hsl := bitsToBytes_length _ hsb
  -- the serialized bits
  have ebits : bytesToBits f.serialize =
      writeHeaderFields f.hdr ++ natToBits 8 f.hdr.hcrc ++
        (writeSubframes f.hdr.assign f.hdr.bps f.subs 0 ++
          (f.padding ++ (natToBits 8 (crc16 (bitsToBytes (writeHeaderFields f.hdr) ++ [crc8 (bitsToBytes (writeHeaderFields f.hdr))] ++
              bitsToBytes (writeSubframes f.hdr.assign f.hdr.bps f.subs 0 ++ f.padding)) / 256) ++
            natToBits 8 (crc16 (bitsToBytes (writeHeaderFields f.hdr) ++ [crc8 (bitsToBytes (writeHeaderFields f.hdr))] ++
              bitsToBytes (writeSubframes f.hdr.assign f.hdr.bps f.subs 0 ++ f.padding)) % 256)))) := by
    simp only [Frame.serialize, Frame.serializeWith, bytesToBits_append, bytesToBits_bitsToBytes _ hl8,
      bytesToBits_bitsToBytes _ hsb, w.hcrc]
    simp [bytesToBits, byteToBits]
  generalize hc16 : crc16 (bitsToBytes (writeHeaderFields f.hdr) ++ [crc8 (bitsToBytes (writeHeaderFields f.hdr))] ++
              bitsToBytes (writeSubframes f.hdr.assign f.hdr.bps f.subs 0 ++ f.padding)) = c16 at ebits
  have eser : f.serialize = (bitsToBytes (writeHeaderFields f.hdr) ++ [crc8 (bitsToBytes (writeHeaderFields f.hdr))]) ++
      (bitsToBytes (writeSubframes f.hdr.assign f.hdr.bps f.subs 0 ++ f.padding) ++ [c16 / 256, c16 % 256]) := by
    have hc16' := hc16
    simp only [List.append_assoc] at hc16'
    simp only [Frame.serialize, Frame.serializeWith, List.append_assoc, hc16']
  have elen : f.serialize.length = (bitsToBytes (writeHeaderFields f.hdr)).length + 1 +
      ((bitsToBytes (writeSubframes f.hdr.assign f.hdr.bps f.subs 0 ++ f.padding)).length + 2) := by
    rw [eser]; simp; omega
  unfold decodeFrame
  rw [ebits, readHeaderFields_write si f.hdr _ w.hdr]; dsimp only
  rw [w.check]; dsimp only
  -- header CRC
  have hk : f.serialize.length - (writeSubframes f.hdr.assign f.hdr.bps f.subs 0 ++
          (f.padding ++ (natToBits 8 (c16 / 256) ++ natToBits 8 (c16 % 256)))).length / 8
        = (bitsToBytes (writeHeaderFields f.hdr)).length + 1 := by
    rw [elen]
    simp only [List.length_append, natToBits_length] at hsl ⊢
    omega
  rw [hk]
  have htake : f.serialize.take ((bitsToBytes (writeHeaderFields f.hdr)).length + 1) =
      bitsToBytes (writeHeaderFields f.hdr) ++ [crc8 (bitsToBytes (writeHeaderFields f.hdr))] := by
    rw [eser]; exact take_len_append _ _ _ (by simp)
  rw [htake, crc8_self]
  have hv8 : (!crc8Valid 0) = false := by decide
  have hb32 : ¬ f.hdr.bps > 32 := by have := w.bps; omega
  simp only [hv8, Bool.false_eq_true, if_false, hb32]
  -- subframes
  rw [← w.count, decSubframes_write p f.hdr.assign f.hdr.blockSize f.hdr.bps f.subs xss 0 _ w.subs hx]; dsimp only
  rw [hr]; dsimp only
  -- footer
  have hpl : (f.padding ++ (natToBits 8 (c16 / 256) ++ natToBits 8 (c16 % 256))).length % 8 = f.padding.length := by
    simp only [List.length_append, natToBits_length]
    have := w.padLt; omega
  rw [hpl]
  have hdrop : (f.padding ++ (natToBits 8 (c16 / 256) ++ natToBits 8 (c16 % 256))).drop f.padding.length =
      natToBits 8 (c16 / 256) ++ natToBits 8 (c16 % 256) := by simp
  rw [hdrop]
  have h16 : readU 16 (natToBits 8 (c16 / 256) ++ natToBits 8 (c16 % 256)) =
      .ok (bitsToNat (natToBits 8 (c16 / 256) ++ natToBits 8 (c16 % 256)), []) := by
    have := splitExact_exact (natToBits 8 (c16 / 256) ++ natToBits 8 (c16 % 256)) []
    simp only [List.length_append, natToBits_length, List.append_nil] at this
    simp only [readU, takeBits, this]
  rw [h16]; dsimp only
  simp only [List.length_nil, Nat.zero_div, Nat.sub_zero, List.take_length]
  have hz : crc16 f.serialize = 0 := by
    have := crc16_self (bitsToBytes (writeHeaderFields f.hdr) ++ [crc8 (bitsToBytes (writeHeaderFields f.hdr))] ++
              bitsToBytes (writeSubframes f.hdr.assign f.hdr.bps f.subs 0 ++ f.padding))
    rw [hc16] at this
    rw [eser]
    simpa [List.append_assoc] using this
  rw [hz]
  have hv16 : (!crc16Valid 0) = false := by decide
  simp only [hv16, Bool.false_eq_true, if_false]


/-- the 16 footer bits read back as the checksum they were written from -/
theorem readU16_crc (c : Nat) (hc : c < 65536) (r : Bits) :
    readU 16 (natToBits 8 (c / 256) ++ (natToBits 8 (c % 256) ++ r)) = .ok (c, r) := by
  have h1 : natToBits 16 c = natToBits 8 (c / 256) ++ natToBits 8 (c % 256) := by
    have a : natToBits 16 c = natToBits 8 (c / 256) ++ natToBits 8 c := by
      simp [natToBits, natToBitsAux, Nat.div_div_eq_div_mul]
    have b : natToBits 8 c = natToBits 8 (c % 256) := by
      have e0 : c % 256 % 2 = c % 2 := by omega
      have e1 : c % 256 / 2 % 2 = c / 2 % 2 := by omega
      have e2 : c % 256 / 4 % 2 = c / 4 % 2 := by omega
      have e3 : c % 256 / 8 % 2 = c / 8 % 2 := by omega
      have e4 : c % 256 / 16 % 2 = c / 16 % 2 := by omega
      have e5 : c % 256 / 32 % 2 = c / 32 % 2 := by omega
      have e6 : c % 256 / 64 % 2 = c / 64 % 2 := by omega
      have e7 : c % 256 / 128 % 2 = c / 128 % 2 := by omega
      simp [natToBits, natToBitsAux, Nat.div_div_eq_div_mul, e0, e1, e2, e3, e4, e5, e6, e7]
    rw [a, b]
  rw [← List.append_assoc, ← h1]
  exact readU_natToBits_lt 16 c r hc

theorem crc16_lt' (bs : List Nat) : crc16 bs < 65536 := crc16_lt bs

/-- **The structural parser inverts the serializer** (any layout rule the subframes are well-formed for, with or without
    the warm-up guard and CRC-8 enforcement): the parsed frame is the frame that was written (its footer field holding the
    checksum), all bytes are used and both checksum verdicts are positive. -/
theorem parseFrame_serialize (L : Layout) (cw enforce : Bool) (si : Option SInfo) (f : Frame) (w : FrameWf si f)
    (hs : subsWf L f.hdr.assign f.hdr.blockSize f.hdr.bps f.subs 0) :
    parseFrame L cw si f.serialize enforce = .ok
      { frame := { f with footer := crc16 (bitsToBytes (writeHeaderFields f.hdr) ++ [crc8 (bitsToBytes (writeHeaderFields f.hdr))] ++
            bitsToBytes (writeSubframes f.hdr.assign f.hdr.bps f.subs 0 ++ f.padding)) },
        used := f.serialize.length, hdrUsed := (bitsToBytes (writeHeaderFields f.hdr)).length + 1,
        crc8ok := true, crc16ok := true } := by
  have hl8 := writeHeaderFields_len8 si f.hdr w.hdr
  have hal := w.aligned
  have hsb : (writeSubframes f.hdr.assign f.hdr.bps f.subs 0 ++ f.padding).length % 8 = 0 := by
    rw [List.length_append]; exact hal
  have hbl := bitsToBytes_length _ hl8
  have hsl := bitsToBytes_length _ hsb
  have ebits : bytesToBits f.serialize =
      writeHeaderFields f.hdr ++ natToBits 8 f.hdr.hcrc ++
        (writeSubframes f.hdr.assign f.hdr.bps f.subs 0 ++
          (f.padding ++ (natToBits 8 (crc16 (bitsToBytes (writeHeaderFields f.hdr) ++ [crc8 (bitsToBytes (writeHeaderFields f.hdr))] ++
              bitsToBytes (writeSubframes f.hdr.assign f.hdr.bps f.subs 0 ++ f.padding)) / 256) ++
            natToBits 8 (crc16 (bitsToBytes (writeHeaderFields f.hdr) ++ [crc8 (bitsToBytes (writeHeaderFields f.hdr))] ++
              bitsToBytes (writeSubframes f.hdr.assign f.hdr.bps f.subs 0 ++ f.padding)) % 256)))) := by
    simp only [Frame.serialize, Frame.serializeWith, bytesToBits_append, bytesToBits_bitsToBytes _ hl8,
      bytesToBits_bitsToBytes _ hsb, w.hcrc]
    simp [bytesToBits, byteToBits]
  have hclt := crc16_lt' (bitsToBytes (writeHeaderFields f.hdr) ++ [crc8 (bitsToBytes (writeHeaderFields f.hdr))] ++
              bitsToBytes (writeSubframes f.hdr.assign f.hdr.bps f.subs 0 ++ f.padding))
  generalize hc16 : crc16 (bitsToBytes (writeHeaderFields f.hdr) ++ [crc8 (bitsToBytes (writeHeaderFields f.hdr))] ++
              bitsToBytes (writeSubframes f.hdr.assign f.hdr.bps f.subs 0 ++ f.padding)) = c16 at ebits hclt ⊢
  have eser : f.serialize = (bitsToBytes (writeHeaderFields f.hdr) ++ [crc8 (bitsToBytes (writeHeaderFields f.hdr))]) ++
      (bitsToBytes (writeSubframes f.hdr.assign f.hdr.bps f.subs 0 ++ f.padding) ++ [c16 / 256, c16 % 256]) := by
    have hc16' := hc16
    simp only [List.append_assoc] at hc16'
    simp only [Frame.serialize, Frame.serializeWith, List.append_assoc, hc16']
  have elen : f.serialize.length = (bitsToBytes (writeHeaderFields f.hdr)).length + 1 +
      ((bitsToBytes (writeSubframes f.hdr.assign f.hdr.bps f.subs 0 ++ f.padding)).length + 2) := by
    rw [eser]; simp; omega
  unfold parseFrame
  rw [ebits, readHeaderFields_write si f.hdr _ w.hdr]; dsimp only
  rw [w.check]; dsimp only
  have hk : f.serialize.length - (writeSubframes f.hdr.assign f.hdr.bps f.subs 0 ++
          (f.padding ++ (natToBits 8 (c16 / 256) ++ natToBits 8 (c16 % 256)))).length / 8
        = (bitsToBytes (writeHeaderFields f.hdr)).length + 1 := by
    rw [elen]
    simp only [List.length_append, natToBits_length] at hsl ⊢
    omega
  rw [hk]
  have htake : f.serialize.take ((bitsToBytes (writeHeaderFields f.hdr)).length + 1) =
      bitsToBytes (writeHeaderFields f.hdr) ++ [crc8 (bitsToBytes (writeHeaderFields f.hdr))] := by
    rw [eser]; exact take_len_append _ _ _ (by simp)
  rw [htake, crc8_self]
  have hv8 : crc8Valid 0 = true := by decide
  simp only [hv8, Bool.not_true, Bool.and_false, Bool.false_eq_true, if_false]
  rw [← w.count, readSubframes_write L cw f.hdr.assign f.hdr.blockSize f.hdr.bps f.subs 0 _ hs]; dsimp only
  have hpl : (f.padding ++ (natToBits 8 (c16 / 256) ++ natToBits 8 (c16 % 256))).length % 8 = f.padding.length := by
    simp only [List.length_append, natToBits_length]
    have := w.padLt; omega
  rw [hpl]
  have hdrop : (f.padding ++ (natToBits 8 (c16 / 256) ++ natToBits 8 (c16 % 256))).drop f.padding.length =
      natToBits 8 (c16 / 256) ++ (natToBits 8 (c16 % 256) ++ []) := by simp
  have htk : (f.padding ++ (natToBits 8 (c16 / 256) ++ natToBits 8 (c16 % 256))).take f.padding.length = f.padding := by simp
  rw [hdrop, htk, readU16_crc c16 hclt []]; dsimp only
  simp only [List.length_nil, Nat.zero_div, Nat.sub_zero, List.take_length]
  have hz : crc16 f.serialize = 0 := by
    have := crc16_self (bitsToBytes (writeHeaderFields f.hdr) ++ [crc8 (bitsToBytes (writeHeaderFields f.hdr))] ++
              bitsToBytes (writeSubframes f.hdr.assign f.hdr.bps f.subs 0 ++ f.padding))
    rw [hc16] at this
    rw [eser]
    simpa [List.append_assoc] using this
  rw [hz]
  have hv16 : crc16Valid 0 = true := by decide
  rw [hv16]

/-! ### the serialized bytes are bytes -/

theorem bitsToNat_lt' (x : Bits) : bitsToNat x < 2 ^ x.length := by
  induction x with
  | nil => simp [bitsToNat]
  | cons b y ih =>
    have e : bitsToNat (b :: y) = (if b then 1 else 0) * 2 ^ y.length + bitsToNat y := by
      simp only [bitsToNat, List.foldl_cons]
      rw [foldl_bits]; simp [bitsToNat]
    rw [e, List.length_cons, Nat.pow_succ]
    cases b <;> simp <;> omega

theorem bitsToNat_lt8 (x : Bits) (h : x.length = 8) : bitsToNat x < 256 := by
  have := bitsToNat_lt' x
  rw [h] at this
  exact this

theorem bitsToBytes_lt (x : Bits) : ∀ b ∈ bitsToBytes x, b < 256 := by
  match x with
  | [] => simp [bitsToBytes]
  | [a0] => intro b hb; simp only [bitsToBytes, List.mem_singleton] at hb; subst hb; exact bitsToNat_lt8 _ (by simp)
  | [a0, a1] => intro b hb; simp only [bitsToBytes, List.mem_singleton] at hb; subst hb; exact bitsToNat_lt8 _ (by simp)
  | [a0, a1, a2] => intro b hb; simp only [bitsToBytes, List.mem_singleton] at hb; subst hb; exact bitsToNat_lt8 _ (by simp)
  | [a0, a1, a2, a3] => intro b hb; simp only [bitsToBytes, List.mem_singleton] at hb; subst hb; exact bitsToNat_lt8 _ (by simp)
  | [a0, a1, a2, a3, a4] => intro b hb; simp only [bitsToBytes, List.mem_singleton] at hb; subst hb; exact bitsToNat_lt8 _ (by simp)
  | [a0, a1, a2, a3, a4, a5] => intro b hb; simp only [bitsToBytes, List.mem_singleton] at hb; subst hb; exact bitsToNat_lt8 _ (by simp)
  | [a0, a1, a2, a3, a4, a5, a6] => intro b hb; simp only [bitsToBytes, List.mem_singleton] at hb; subst hb; exact bitsToNat_lt8 _ (by simp)
  | b0 :: b1 :: b2 :: b3 :: b4 :: b5 :: b6 :: b7 :: rest =>
    intro b hb
    simp only [bitsToBytes, List.mem_cons] at hb
    rcases hb with hb | hb
    · subst hb; exact bitsToNat_lt8 _ (by simp)
    · exact bitsToBytes_lt rest b hb

theorem serialize_bytes_lt (f : Frame) : ∀ x ∈ f.serialize, x < 256 := by
  intro x hx
  simp only [Frame.serialize, Frame.serializeWith, List.mem_append, List.mem_cons, List.mem_singleton, List.not_mem_nil, or_false] at hx
  rcases hx with ((hx | hx) | hx) | hx
  · exact bitsToBytes_lt _ x hx
  · subst hx; exact crc8_lt _
  · exact bitsToBytes_lt _ x hx
  · rcases hx with hx | hx
    · subst hx; have := crc16_lt (bitsToBytes (writeHeaderFields f.hdr) ++ [crc8 (bitsToBytes (writeHeaderFields f.hdr))] ++
        bitsToBytes (writeSubframes f.hdr.assign f.hdr.bps f.subs 0 ++ f.padding)); omega
    · subst hx; omega

end Flac
