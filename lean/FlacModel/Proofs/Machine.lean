/-
  Proofs/Machine.lean — helper lemmas about the machine-integer operations of Model/Machine.lean.
-/
import FlacModel.Model.Machine

namespace Flac

theorem fitsS32_iff (x : Int) : fitsS 32 x = true ↔ (-2147483648 ≤ x ∧ x < 2147483648) := by
  simp [fitsS]

theorem fitsS31_iff (x : Int) : fitsS 31 x = true ↔ (-1073741824 ≤ x ∧ x < 1073741824) := by
  simp [fitsS]

theorem fitsS64_iff (x : Int) : fitsS 64 x = true ↔ (-9223372036854775808 ≤ x ∧ x < 9223372036854775808) := by
  simp [fitsS]

theorem fitsU32_iff (x : Int) : fitsU 32 x = true ↔ (0 ≤ x ∧ x < 4294967296) := by
  simp [fitsU]

/-- an arithmetic result that fits is returned exactly, in both profiles -/
theorem resS_eq (p : Profile) (w : Nat) (s : String) (v v' : Int) (hv : v = v') (h : fitsS w v' = true) :
    resS p w s v = .ok v' := by
  subst hv; simp [resS, h]

theorem resU_eq (p : Profile) (w : Nat) (s : String) (v v' : Int) (hv : v = v') (h : fitsU w v' = true) :
    resU p w s v = .ok v' := by
  subst hv; simp [resU, h]

theorem remS_two_nonneg (a : Int) (h : 0 ≤ a) : remS a 2 = a % 2 := by
  unfold remS; exact Int.tmod_eq_emod_of_nonneg h

theorem wrapS32_of_fits (x : Int) (h : fitsS 32 x = true) : wrapS 32 x = x := by
  rw [fitsS32_iff] at h
  simp only [wrapS]
  have hm : x % (2 : Int) ^ 32 = if x < 0 then x + 4294967296 else x := by split <;> omega
  rw [hm]; split <;> split <;> omega

theorem shiftGuard (k w : Nat) (h : k < w) :
    (decide ((0 : Int) ≤ (k : Int)) && decide ((k : Int) < ((w : Nat) : Int))) = true := by
  simp; omega

theorem shrX_ok (p : Profile) (w : Nat) (s : String) (a : Int) (k : Nat) (h : k < w) :
    shrX p w s a k = .ok (a / 2 ^ k) := by
  have hg : (decide ((0 : Int) ≤ (k : Int)) && decide ((k : Int) < (w : Int))) = true := by
    simp; omega
  simp only [shrX, hg, if_true, Int.toNat_natCast]

theorem shlS_ok (p : Profile) (w : Nat) (s : String) (a : Int) (k : Nat) (h : k < w) :
    shlS p w s a k = .ok (wrapS w (a * 2 ^ k)) := by
  have hg : (decide ((0 : Int) ≤ (k : Int)) && decide ((k : Int) < (w : Int))) = true := by
    simp; omega
  simp only [shlS, hg, if_true, Int.toNat_natCast]

theorem shlU_ok (p : Profile) (w : Nat) (s : String) (a : Int) (k : Nat) (h : k < w) :
    shlU p w s a k = .ok (wrapU w (a * 2 ^ k)) := by
  have hg : (decide ((0 : Int) ≤ (k : Int)) && decide ((k : Int) < (w : Int))) = true := by
    simp; omega
  simp only [shlU, hg, if_true, Int.toNat_natCast]

theorem wrapS32_spec (x : Int) :
    (∃ k : Int, wrapS 32 x = x + k * 4294967296) ∧ -2147483648 ≤ wrapS 32 x ∧ wrapS 32 x < 2147483648 := by
  simp only [wrapS]
  have h : (2 : Int) ^ 32 = 4294967296 := by decide
  simp only [h]
  split
  · exact ⟨⟨-(x / 4294967296), by omega⟩, by omega, by omega⟩
  · exact ⟨⟨-(x / 4294967296) - 1, by omega⟩, by omega, by omega⟩


theorem wrapS64_of_fits' (x : Int) (h : fitsS 64 x = true) : castS 64 x = x := by
  rw [fitsS64_iff] at h
  simp only [castS, wrapS]
  have hp : (2 : Int) ^ 64 = 18446744073709551616 := by decide
  simp only [hp]
  split <;> omega

@[simp] theorem Except_bind_ok {ε α β : Type} (a : α) (f : α → Except ε β) : (Except.ok a >>= f) = f a := rfl

end Flac
