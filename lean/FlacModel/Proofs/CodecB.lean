/-
  Proofs/CodecB.lean — the executable test `frameWfB` (Model/FrameWf.lean) is sound for the propositional
  well-formedness `FrameWf` that the round-trip theorem assumes.
-/
import FlacModel.Model.FrameWf
import FlacModel.Proofs.Codec

namespace Flac
open Gen

theorem partWfB_sound (pbits n : Nat) (pt : Partition) (h : partWfB pbits n pt = true) : partWf pbits n pt := by
  cases pt with
  | rice k rs =>
    simp only [partWfB, Bool.and_eq_true, decide_eq_true_eq, beq_iff_eq, List.all_eq_true] at h
    refine ⟨h.1.1, h.1.2, fun r hr => ?_⟩
    have := h.2 r hr
    simp only [resOkB, Bool.and_eq_true, decide_eq_true_eq] at this
    exact this
  | escaped w rs =>
    simp only [partWfB, Bool.and_eq_true, decide_eq_true_eq, beq_iff_eq, List.all_eq_true] at h
    exact ⟨h.1.1.1, h.1.1.2, h.1.2, h.2⟩
  | zero m =>
    simp only [partWfB, beq_iff_eq] at h
    exact h

theorem partsWfB_sound (pbits : Nat) (ns : List Nat) (pts : List Partition) (h : partsWfB pbits ns pts = true) :
    partsWf pbits ns pts := by
  induction ns generalizing pts with
  | nil =>
    cases pts with
    | nil => trivial
    | cons _ _ => simp [partsWfB] at h
  | cons n ns ih =>
    cases pts with
    | nil => simp [partsWfB] at h
    | cons pt pts =>
      simp only [partsWfB, Bool.and_eq_true] at h
      exact ⟨partWfB_sound _ _ _ h.1, ih pts h.2⟩

theorem resWfB_sound (layout : Layout) (bs order : Nat) (r : Residual) (h : resWfB layout bs order r = true) :
    resWf layout bs order r := by
  simp only [resWfB, Bool.and_eq_true, decide_eq_true_eq] at h
  obtain ⟨⟨h1, h2⟩, h3⟩ := h
  cases hl : layout bs order r.order with
  | error e => rw [hl] at h3; simp [layoutPartsB] at h3
  | ok sizes =>
    rw [hl] at h3
    exact ⟨h1, h2, sizes, hl, partsWfB_sound _ _ _ h3⟩

theorem subWfB_sound (layout : Layout) (bs bps : Nat) (s : Subframe) (h : subWfB layout bs bps s = true) :
    subWf layout bs bps s := by
  obtain ⟨wasted, body⟩ := s
  simp only [subWfB, Bool.and_eq_true, decide_eq_true_eq] at h
  refine ⟨h.1, ?_⟩
  have hb := h.2
  cases body with
  | constant v => exact hb
  | verbatim xs =>
    simp only [bodyWfB, Bool.and_eq_true, beq_iff_eq, List.all_eq_true] at hb
    exact ⟨hb.1, hb.2⟩
  | fixed o warm res =>
    simp only [bodyWfB, Bool.and_eq_true, beq_iff_eq, List.all_eq_true, decide_eq_true_eq] at hb
    obtain ⟨⟨⟨⟨a, b⟩, c⟩, d⟩, e⟩ := hb
    exact ⟨a, b, c, d, resWfB_sound _ _ _ _ e⟩
  | lpc o warm prec shift coefs res =>
    simp only [bodyWfB, Bool.and_eq_true, beq_iff_eq, List.all_eq_true, decide_eq_true_eq] at hb
    obtain ⟨⟨⟨⟨⟨⟨⟨⟨⟨⟨a, b⟩, c⟩, d⟩, e⟩, f⟩, g⟩, i⟩, j⟩, k⟩, l⟩ := hb
    exact ⟨a, b, c, d, e, f, g, i, j, k, resWfB_sound _ _ _ _ l⟩

theorem subsWfB_sound (layout : Layout) (a : Assign) (bs bps : Nat) (ss : List Subframe) (i : Nat)
    (h : subsWfB layout a bs bps ss i = true) : subsWf layout a bs bps ss i := by
  induction ss generalizing i with
  | nil => trivial
  | cons s ss ih =>
    simp only [subsWfB, Bool.and_eq_true] at h
    exact ⟨subWfB_sound _ _ _ _ h.1, ih (i + 1) h.2⟩

theorem numWfB_sound (v n : Nat) (h : numWfB v n = true) : numWf v n := by
  simp only [numWfB, Bool.or_eq_true, Bool.and_eq_true, beq_iff_eq, decide_eq_true_eq] at h
  rcases h with ⟨a, b⟩ | ⟨⟨a, b⟩, c⟩
  · exact Or.inl ⟨a, b⟩
  · exact Or.inr ⟨a, b, c⟩

theorem assignOkB_sound (a : Assign) (h : assignOkB a = true) : assignOk a := by
  cases a with
  | indep n => simp only [assignOkB, Bool.and_eq_true, decide_eq_true_eq] at h; exact h
  | leftSide => trivial
  | sideRight => trivial
  | midSide => trivial

theorem headerWfB_sound (si : Option SInfo) (h : Header) (w : headerWfB si h = true) : HeaderWf si h := by
  simp only [headerWfB, Bool.and_eq_true, decide_eq_true_eq, Bool.not_eq_true', beq_iff_eq] at w
  obtain ⟨⟨⟨⟨⟨⟨⟨⟨⟨⟨⟨⟨⟨a1, a2⟩, a3⟩, a4⟩, a5⟩, a6⟩, a7⟩, a8⟩, a9⟩, a10⟩, a11⟩, a12⟩, a13⟩, a14⟩ := w
  refine { bsCode := a1, bsValid := a2, rateCode := a3, rateValid := a4, rateSubset := a5, assign := assignOkB_sound _ a6,
           bpsCode := a7, bpsValid := a8, bpsSubset := a9, bps := a10, number := numWfB_sound _ _ a11,
           blockSize := ?_, rate := ?_, hcrc := a14 }
  · unfold blockSizeOkB at a12
    split at a12
    · rename_i c; simp only [c, if_true]; simpa using a12
    · rename_i c
      simp only [c, Bool.false_eq_true, if_false]
      split at a12
      · rename_i c2; simp only [c2, if_true]; simpa using a12
      · rename_i c2; simp only [c2, Bool.false_eq_true, if_false]; simpa using a12
  · unfold rateOkB at a13
    split at a13
    · rename_i c; simp only [c, if_true]; simpa using a13
    · rename_i c
      simp only [c, Bool.false_eq_true, if_false]
      split at a13
      · rename_i c2; simp only [c2, if_true]; simpa using a13
      · rename_i c2
        simp only [c2, Bool.false_eq_true, if_false]
        split at a13
        · rename_i c3; simp only [c3, if_true]; simpa using a13
        · rename_i c3
          simp only [c3, Bool.false_eq_true, if_false]
          split at a13
          · rename_i c4; simp only [c4, if_true]; simpa using a13
          · rename_i c4; simp only [c4, Bool.false_eq_true, if_false]; simpa using a13

/-- **Soundness of the executable test.** -/
theorem frameWfB_sound (si : Option SInfo) (f : Frame) (w : frameWfB si f = true) : FrameWf si f := by
  simp only [frameWfB, Bool.and_eq_true, decide_eq_true_eq, beq_iff_eq] at w
  obtain ⟨⟨⟨⟨⟨⟨⟨a1, a2⟩, a3⟩, a4⟩, a5⟩, a6⟩, a7⟩, a8⟩ := w
  refine { hdr := headerWfB_sound _ _ a1, hcrc := a2, check := ?_, bps := a4, count := a5,
           subs := subsWfB_sound _ _ _ _ _ _ a6, padLt := a7, aligned := a8 }
  cases hc : checkStreaminfo si f.hdr with
  | error e => rw [hc] at a3; simp [checkOkB] at a3
  | ok u => cases u; rfl

end Flac
