/-
  Proofs/CodecConv.lean — the converse of Proofs/Codec.lean: whatever a reader of Model/Frame.lean accepts
  is the output of the writer next to it on a well-formed value, followed by the unread rest
  (`read b = ok (x, r) → b = write x ++ r ∧ wf x`), up to: every frame the structural parser accepts with
  valid checksums is the serialization of a well-formed frame.
-/
import FlacModel.Proofs.Codec
import FlacModel.Proofs.CodecB

namespace Flac
open Flac.Gen

/-! ### primitives -/

theorem splitExact_sound (n : Nat) (b t r : Bits) (h : splitExact n b = some (t, r)) : b = t ++ r ∧ t.length = n := by
  induction n generalizing b t r with
  | zero => simp only [splitExact, Option.some.injEq, Prod.mk.injEq] at h; obtain ⟨rfl, rfl⟩ := h; simp
  | succ n ih =>
    cases b with
    | nil => simp [splitExact] at h
    | cons x b =>
      simp only [splitExact] at h
      cases hs : splitExact n b with
      | none => rw [hs] at h; cases h
      | some v =>
        obtain ⟨t', r'⟩ := v
        rw [hs] at h
        simp only [Option.some.injEq, Prod.mk.injEq] at h
        obtain ⟨rfl, rfl⟩ := h
        obtain ⟨e, l⟩ := ih b t' r' hs
        exact ⟨by rw [e]; rfl, by simp [l]⟩

theorem natToBits_add_mul (n u c : Nat) : natToBits n (u + c * 2 ^ n) = natToBits n u := by
  induction n generalizing u c with
  | zero => simp [natToBits, natToBitsAux]
  | succ n ih =>
    rw [natToBits_succ, natToBits_succ]
    have e1 : (u + c * 2 ^ (n + 1)) / 2 = u / 2 + c * 2 ^ n := by
      rw [Nat.pow_succ, ← Nat.mul_assoc]; omega
    have e2 : (u + c * 2 ^ (n + 1)) % 2 = u % 2 := by
      rw [Nat.pow_succ, ← Nat.mul_assoc]; omega
    rw [e1, e2, ih]

theorem bitsToNat_cons (b : Bool) (y : Bits) : bitsToNat (b :: y) = (if b then 1 else 0) * 2 ^ y.length + bitsToNat y := by
  simp only [bitsToNat, List.foldl_cons]
  rw [foldl_bits]; simp [bitsToNat]

theorem natToBits_bitsToNat (t : Bits) : natToBits t.length (bitsToNat t) = t := by
  induction t with
  | nil => rfl
  | cons b y ih =>
    rw [List.length_cons, natToBits_msb, bitsToNat_cons]
    have hlt := bitsToNat_lt' y
    have hk : 0 < 2 ^ y.length := Nat.pow_pos (by decide)
    congr 1
    · cases b
      · simp only [Bool.false_eq_true, if_false, Nat.zero_mul, Nat.zero_add]
        rw [Nat.div_eq_of_lt hlt]; rfl
      · simp only [if_true, Nat.one_mul]
        rw [Nat.add_div_left _ hk, Nat.div_eq_of_lt hlt]; rfl
    · rw [Nat.add_comm, natToBits_add_mul, ih]

theorem readU_sound (n : Nat) (b : Bits) (v : Nat) (r : Bits) (h : readU n b = .ok (v, r)) :
    b = natToBits n v ++ r ∧ v < 2 ^ n := by
  simp only [readU, takeBits] at h
  cases hs : splitExact n b with
  | none => rw [hs] at h; cases h
  | some w =>
    obtain ⟨t, r'⟩ := w
    rw [hs] at h
    simp only [Except.ok.injEq, Prod.mk.injEq] at h
    obtain ⟨rfl, rfl⟩ := h
    obtain ⟨e, l⟩ := splitExact_sound n b t r' hs
    have := natToBits_bitsToNat t
    rw [l] at this
    have hlt := bitsToNat_lt' t
    rw [l] at hlt
    exact ⟨by rw [this]; exact e, hlt⟩

theorem readBit_sound (b : Bits) (x : Bool) (r : Bits) (h : readBit b = .ok (x, r)) : b = x :: r := by
  cases b with
  | nil => cases h
  | cons y b' => simp only [readBit, Except.ok.injEq, Prod.mk.injEq] at h; obtain ⟨rfl, rfl⟩ := h; rfl

theorem readUnary1_sound (b : Bits) (n : Nat) (r : Bits) (h : readUnary1 b = .ok (n, r)) : b = writeUnary1 n ++ r := by
  induction b generalizing n with
  | nil => cases h
  | cons x b ih =>
    cases x with
    | true =>
      simp only [readUnary1, Except.ok.injEq, Prod.mk.injEq] at h
      obtain ⟨rfl, rfl⟩ := h
      simp [writeUnary1]
    | false =>
      simp only [readUnary1] at h
      cases hr : readUnary1 b with
      | error e => rw [hr] at h; cases h
      | ok w =>
        obtain ⟨m, r'⟩ := w
        rw [hr] at h
        simp only [Except.ok.injEq, Prod.mk.injEq] at h
        obtain ⟨rfl, rfl⟩ := h
        rw [ih m hr]
        simp [writeUnary1, List.replicate_succ]

theorem readUnary0_sound (b : Bits) (n : Nat) (r : Bits) (h : readUnary0 b = .ok (n, r)) : b = writeUnary0 n ++ r := by
  induction b generalizing n with
  | nil => cases h
  | cons x b ih =>
    cases x with
    | false =>
      simp only [readUnary0, Except.ok.injEq, Prod.mk.injEq] at h
      obtain ⟨rfl, rfl⟩ := h
      simp [writeUnary0]
    | true =>
      simp only [readUnary0] at h
      cases hr : readUnary0 b with
      | error e => rw [hr] at h; cases h
      | ok w =>
        obtain ⟨m, r'⟩ := w
        rw [hr] at h
        simp only [Except.ok.injEq, Prod.mk.injEq] at h
        obtain ⟨rfl, rfl⟩ := h
        rw [ih m hr]
        simp [writeUnary0, List.replicate_succ]


theorem readS_sound (m : Nat) (b : Bits) (v : Int) (r : Bits) (h : readS (m + 1) b = .ok (v, r)) :
    b = intToBits (m + 1) v ++ r ∧ fitsS (m + 1) v = true := by
  simp only [readS, takeBits] at h
  cases hs : splitExact (m + 1) b with
  | none => rw [hs] at h; cases h
  | some w =>
    obtain ⟨t, r'⟩ := w
    rw [hs] at h
    simp only [Except.ok.injEq, Prod.mk.injEq] at h
    obtain ⟨rfl, rfl⟩ := h
    obtain ⟨e, l⟩ := splitExact_sound (m + 1) b t r' hs
    cases t with
    | nil => simp at l
    | cons s rest =>
      have lr : rest.length = m := by simpa using l
      have hlt := bitsToNat_lt' rest
      rw [lr] at hlt
      have hK : (0 : Int) < 2 ^ m := Int.pow_pos (by decide)
      have e2 : ((2 : Int) ^ (m + 1)) = 2 ^ m * 2 := by rw [Int.pow_succ]
      have hn : ((2 ^ m : Nat) : Int) = (2 : Int) ^ m := by simp
      have hu : ((bitsToNat rest : Nat) : Int) < (2 : Int) ^ m := by rw [← hn]; exact Int.ofNat_lt.mpr hlt
      have key := natToBits_bitsToNat (s :: rest)
      rw [List.length_cons, lr, bitsToNat_cons, lr] at key
      refine ⟨?_, ?_⟩
      · rw [e]
        congr 1
        simp only [intToBits, bitsToInt, lr]
        rw [← key]
        congr 1
        cases s
        · simp only [Bool.false_eq_true, if_false, Nat.zero_mul, Nat.zero_add]
          rw [Int.emod_eq_of_lt (by omega) (by rw [e2]; omega)]
          simp
        · simp only [if_true, Nat.one_mul]
          have : ((bitsToNat rest : Int) - 2 ^ m) % 2 ^ (m + 1) = (bitsToNat rest : Int) + 2 ^ m := by
            rw [← Int.add_mul_emod_self_left _ (2 ^ (m + 1)) 1, Int.mul_one]
            rw [Int.emod_eq_of_lt (by rw [e2]; omega) (by rw [e2]; omega), e2]; omega
          rw [this]
          have e3 : ((bitsToNat rest : Int) + 2 ^ m) = ((2 ^ m + bitsToNat rest : Nat) : Int) := by
            rw [Int.natCast_add, hn]; omega
          rw [e3, Int.toNat_natCast]
      · simp only [fitsS, Nat.add_sub_cancel, Bool.and_eq_true, decide_eq_true_eq, bitsToInt, lr]
        cases s <;> simp <;> omega

theorem readS_sound' (n : Nat) (hn : 0 < n) (b : Bits) (v : Int) (r : Bits) (h : readS n b = .ok (v, r)) :
    b = intToBits n v ++ r ∧ fitsS n v = true := by
  cases n with
  | zero => omega
  | succ m => exact readS_sound m b v r h

theorem readN_sound {α : Type} (p : P α) (w : α → Bits) (q : α → Prop)
    (hp : ∀ b x r, p b = .ok (x, r) → b = w x ++ r ∧ q x)
    (n : Nat) (b : Bits) (xs : List α) (r : Bits) (h : readN p n b = .ok (xs, r)) :
    b = xs.flatMap w ++ r ∧ xs.length = n ∧ ∀ x ∈ xs, q x := by
  induction n generalizing b xs with
  | zero =>
    simp only [readN, Except.ok.injEq, Prod.mk.injEq] at h
    obtain ⟨rfl, rfl⟩ := h
    simp
  | succ n ih =>
    simp only [readN] at h
    cases h1 : p b with
    | error e => rw [h1] at h; cases h
    | ok v1 =>
      obtain ⟨x, b1⟩ := v1
      rw [h1] at h; dsimp only at h
      cases h2 : readN p n b1 with
      | error e => rw [h2] at h; cases h
      | ok v2 =>
        obtain ⟨xs', b2⟩ := v2
        rw [h2] at h
        simp only [Except.ok.injEq, Prod.mk.injEq] at h
        obtain ⟨rfl, rfl⟩ := h
        obtain ⟨e1, q1⟩ := hp b x b1 h1
        obtain ⟨e2, l2, q2⟩ := ih b1 xs' h2
        refine ⟨by rw [e1, e2]; simp, by simp [l2], ?_⟩
        intro y hy
        simp only [List.mem_cons] at hy
        rcases hy with rfl | hy
        · exact q1
        · exact q2 y hy


/-! ### residuals -/

theorem rice_limit (k msb lsb : Nat) (hk : k ≤ 32) (hl : lsb < 2 ^ k) (ho : ¬ msb > 4294967295 / 2 ^ k) :
    msb * 2 ^ k + lsb < 4294967296 := by
  have hp : 0 < 2 ^ k := Nat.pow_pos (by decide)
  have e : (4294967296 : Nat) = 2 ^ (32 - k) * 2 ^ k := by
    rw [← Nat.pow_add, Nat.sub_add_cancel hk]
  have hq : 4294967295 / 2 ^ k = 2 ^ (32 - k) - 1 := by
    have h1 : (4294967295 : Nat) = (2 ^ (32 - k) - 1) * 2 ^ k + (2 ^ k - 1) := by
      have : 0 < 2 ^ (32 - k) := Nat.pow_pos (by decide)
      rw [Nat.sub_mul, Nat.one_mul, ← e]
      have : 2 ^ k ≤ 4294967296 := by rw [e]; exact Nat.le_mul_of_pos_left _ this
      omega
    rw [h1, Nat.add_comm, Nat.add_mul_div_right _ _ hp, Nat.div_eq_of_lt (by omega)]
    omega
  rw [hq] at ho
  have h2 : msb + 1 ≤ 2 ^ (32 - k) := by
    have : 0 < 2 ^ (32 - k) := Nat.pow_pos (by decide)
    omega
  have h3 := Nat.mul_le_mul_right (2 ^ k) h2
  rw [← e, Nat.add_mul, Nat.one_mul] at h3
  omega

theorem fold_of_unfold (k msb lsb : Nat) (h : msb * 2 ^ k + lsb < 4294967296) :
    foldRice (unfoldRice k msb lsb) = msb * 2 ^ k + lsb ∧ resOk (unfoldRice k msb lsb) := by
  have hp : 0 < 2 ^ k := Nat.pow_pos (by decide)
  have hm : msb ≤ msb * 2 ^ k := Nat.le_mul_of_pos_right _ hp
  have e1 : msb % 4294967296 = msb := Nat.mod_eq_of_lt (by omega)
  have e2 : msb * 2 ^ k % 4294967296 = msb * 2 ^ k := Nat.mod_eq_of_lt (by omega)
  unfold unfoldRice
  rw [e1, e2]
  generalize msb * 2 ^ k + lsb = u at h
  by_cases hodd : u % 2 = 1
  · have : (u % 2 == 1) = true := by simp [hodd]
    simp only [this, if_true]
    refine ⟨?_, ?_⟩
    · unfold foldRice
      have : (-((u / 2 : Nat) : Int) - 1 < 0) := by omega
      simp only [this, if_true]
      omega
    · unfold resOk; omega
  · have : (u % 2 == 1) = false := by simp [hodd]
    simp only [this, Bool.false_eq_true, if_false]
    refine ⟨?_, ?_⟩
    · unfold foldRice
      have : ¬ (((u / 2 : Nat) : Int) < 0) := by omega
      simp only [this, if_false]
      omega
    · unfold resOk; omega

theorem readRiceOne_sound (k : Nat) (hk : k ≤ 32) (b : Bits) (r : Int) (rest : Bits) (h : readRiceOne k b = .ok (r, rest)) :
    b = writeRiceOne k r ++ rest ∧ resOk r := by
  simp only [readRiceOne] at h
  cases h1 : readUnary1 b with
  | error e => rw [h1] at h; cases h
  | ok v1 =>
    obtain ⟨msb, b1⟩ := v1
    rw [h1] at h; dsimp only at h
    cases h2 : readU k b1 with
    | error e => rw [h2] at h; cases h
    | ok v2 =>
      obtain ⟨lsb, b2⟩ := v2
      rw [h2] at h; dsimp only at h
      by_cases ho : decRiceOverflow msb k = true
      · rw [if_pos ho] at h; cases h
      · rw [if_neg ho] at h
        simp only [Except.ok.injEq, Prod.mk.injEq] at h
        obtain ⟨rfl, rfl⟩ := h
        obtain ⟨e2, hl⟩ := readU_sound k b1 lsb b2 h2
        have e1 := readUnary1_sound b msb b1 h1
        have ho' : ¬ msb > 4294967295 / 2 ^ k := by simpa [decRiceOverflow] using ho
        have hlim := rice_limit k msb lsb hk hl ho'
        obtain ⟨hf, hr⟩ := fold_of_unfold k msb lsb hlim
        have hp : 0 < 2 ^ k := Nat.pow_pos (by decide)
        refine ⟨?_, hr⟩
        simp only [writeRiceOne, hf]
        have d1 : (msb * 2 ^ k + lsb) / 2 ^ k = msb := by
          rw [Nat.add_comm, Nat.add_mul_div_right _ _ hp, Nat.div_eq_of_lt hl]; omega
        have d2 : (msb * 2 ^ k + lsb) % 2 ^ k = lsb := by
          rw [Nat.add_comm, Nat.add_mul_mod_self_right, Nat.mod_eq_of_lt hl]
        rw [d1, d2, e1, e2]; simp

theorem readPartition_sound (pbits n : Nat) (hp : pbits ≤ 5) (b : Bits) (pt : Partition) (rest : Bits)
    (h : readPartition pbits n b = .ok (pt, rest)) :
    b = writePartition pbits pt ++ rest ∧ partWf pbits n pt := by
  have h32 : 2 ^ pbits ≤ 32 := by
    have : 2 ^ pbits ≤ 2 ^ 5 := Nat.pow_le_pow_right (by decide) hp
    omega
  simp only [readPartition] at h
  cases h1 : readU pbits b with
  | error e => rw [h1] at h; cases h
  | ok v1 =>
    obtain ⟨k, b1⟩ := v1
    rw [h1] at h; dsimp only at h
    obtain ⟨e1, hk⟩ := readU_sound pbits b k b1 h1
    by_cases hesc : (k == 2 ^ pbits - 1) = true
    · rw [if_pos hesc] at h
      have hk' : k = 2 ^ pbits - 1 := by simpa using hesc
      cases h2 : readU 5 b1 with
      | error e => rw [h2] at h; cases h
      | ok v2 =>
        obtain ⟨w, b2⟩ := v2
        rw [h2] at h; dsimp only at h
        obtain ⟨e2, hw⟩ := readU_sound 5 b1 w b2 h2
        by_cases hw0 : (w == 0) = true
        · rw [if_pos hw0] at h
          simp only [Except.ok.injEq, Prod.mk.injEq] at h
          obtain ⟨rfl, rfl⟩ := h
          have : w = 0 := by simpa using hw0
          subst this
          exact ⟨by rw [e1, e2, hk']; simp [writePartition], rfl⟩
        · rw [if_neg hw0] at h
          have hw0' : 0 < w := by
            have : w ≠ 0 := by simpa using hw0
            omega
          cases h3 : readN (readS w) n b2 with
          | error e => rw [h3] at h; cases h
          | ok v3 =>
            obtain ⟨rs, b3⟩ := v3
            rw [h3] at h
            simp only [Except.ok.injEq, Prod.mk.injEq] at h
            obtain ⟨rfl, rfl⟩ := h
            obtain ⟨e3, l3, q3⟩ := readN_sound (readS w) (intToBits w) (fun x => fitsS w x = true)
              (fun b x r hx => readS_sound' w hw0' b x r hx) n b2 rs b3 h3
            exact ⟨by rw [e1, e2, e3, hk']; simp [writePartition], hw0', by omega, l3, q3⟩
    · rw [if_neg hesc] at h
      have hk' : k ≠ 2 ^ pbits - 1 := by simpa using hesc
      cases h3 : readN (readRiceOne k) n b1 with
      | error e => rw [h3] at h; cases h
      | ok v3 =>
        obtain ⟨rs, b3⟩ := v3
        rw [h3] at h
        simp only [Except.ok.injEq, Prod.mk.injEq] at h
        obtain ⟨rfl, rfl⟩ := h
        obtain ⟨e3, l3, q3⟩ := readN_sound (readRiceOne k) (writeRiceOne k) resOk
          (fun b x r hx => readRiceOne_sound k (by omega) b x r hx) n b1 rs b3 h3
        exact ⟨by rw [e1, e3]; simp [writePartition], by omega, l3, q3⟩

theorem readPartitions_sound (pbits : Nat) (hp : pbits ≤ 5) (ns : List Nat) (b : Bits) (pts : List Partition) (rest : Bits)
    (h : readPartitions pbits ns b = .ok (pts, rest)) :
    b = pts.flatMap (writePartition pbits) ++ rest ∧ partsWf pbits ns pts := by
  induction ns generalizing b pts with
  | nil =>
    simp only [readPartitions, Except.ok.injEq, Prod.mk.injEq] at h
    obtain ⟨rfl, rfl⟩ := h
    exact ⟨by simp, trivial⟩
  | cons n ns ih =>
    simp only [readPartitions] at h
    cases h1 : readPartition pbits n b with
    | error e => rw [h1] at h; cases h
    | ok v1 =>
      obtain ⟨pt, b1⟩ := v1
      rw [h1] at h; dsimp only at h
      cases h2 : readPartitions pbits ns b1 with
      | error e => rw [h2] at h; cases h
      | ok v2 =>
        obtain ⟨ps, b2⟩ := v2
        rw [h2] at h
        simp only [Except.ok.injEq, Prod.mk.injEq] at h
        obtain ⟨rfl, rfl⟩ := h
        obtain ⟨e1, w1⟩ := readPartition_sound pbits n hp b pt b1 h1
        obtain ⟨e2, w2⟩ := ih b1 ps h2
        exact ⟨by rw [e1, e2]; simp, w1, w2⟩

theorem readResidual_sound (layout : Layout) (bs order : Nat) (b : Bits) (res : Residual) (rest : Bits)
    (h : readResidual layout bs order b = .ok (res, rest)) :
    b = writeResidual res ++ rest ∧ resWf layout bs order res := by
  simp only [readResidual] at h
  cases h1 : readU 2 b with
  | error e => rw [h1] at h; cases h
  | ok v1 =>
    obtain ⟨method, b1⟩ := v1
    rw [h1] at h; dsimp only at h
    obtain ⟨e1, _⟩ := readU_sound 2 b method b1 h1
    by_cases hm : method ≥ 2
    · rw [if_pos hm] at h; cases h
    · rw [if_neg hm] at h
      cases h2 : readU 4 b1 with
      | error e => rw [h2] at h; cases h
      | ok v2 =>
        obtain ⟨po, b2⟩ := v2
        rw [h2] at h; dsimp only at h
        obtain ⟨e2, hpo⟩ := readU_sound 4 b1 po b2 h2
        cases h3 : layout bs order po with
        | error e => rw [h3] at h; cases h
        | ok sizes =>
          rw [h3] at h; dsimp only at h
          cases h4 : readPartitions (4 + method) sizes b2 with
          | error e => rw [h4] at h; cases h
          | ok v4 =>
            obtain ⟨ps, b3⟩ := v4
            rw [h4] at h
            simp only [Except.ok.injEq, Prod.mk.injEq] at h
            obtain ⟨rfl, rfl⟩ := h
            obtain ⟨e4, w4⟩ := readPartitions_sound (4 + method) (by omega) sizes b2 ps b3 h4
            refine ⟨by rw [e1, e2, e4]; simp [writeResidual], by dsimp only; omega, by dsimp only; omega, sizes, h3, w4⟩


/-! ### subframes -/

theorem readSubHeader_sound (b : Bits) (ty wasted : Nat) (r : Bits) (h : readSubHeader b = .ok ((ty, wasted), r)) :
    b = writeSubHeader ty wasted ++ r ∧ tyOk ty := by
  simp only [readSubHeader] at h
  cases h1 : readBit b with
  | error e => rw [h1] at h; cases h
  | ok v1 =>
    obtain ⟨pad, b1⟩ := v1
    rw [h1] at h; dsimp only at h
    have e1 := readBit_sound b pad b1 h1
    cases pad with
    | true => simp at h
    | false =>
      simp only [Bool.false_eq_true, if_false] at h
      cases h2 : readU 6 b1 with
      | error e => rw [h2] at h; cases h
      | ok v2 =>
        obtain ⟨t, b2⟩ := v2
        rw [h2] at h; dsimp only at h
        obtain ⟨e2, ht⟩ := readU_sound 6 b1 t b2 h2
        by_cases hbad : (!(t == subTypeConstant || t == subTypeVerbatim
           || (subTypeFixedLo ≤ t && t ≤ subTypeFixedHi) || (subTypeLpcLo ≤ t && t ≤ subTypeLpcHi))) = true
        · rw [if_pos hbad] at h; cases h
        · rw [if_neg hbad] at h
          have hok : tyOk t := by
            cases hb : (t == subTypeConstant || t == subTypeVerbatim
               || (subTypeFixedLo ≤ t && t ≤ subTypeFixedHi) || (subTypeLpcLo ≤ t && t ≤ subTypeLpcHi)) with
            | false => rw [hb] at hbad; simp at hbad
            | true =>
              simp only [subTypeConstant, subTypeVerbatim, subTypeFixedLo, subTypeFixedHi, subTypeLpcLo, subTypeLpcHi,
                Bool.or_eq_true, Bool.and_eq_true, decide_eq_true_eq, beq_iff_eq] at hb
              unfold tyOk
              rcases hb with ((h | h) | ⟨h1, h2⟩) | ⟨h1, h2⟩
              · omega
              · omega
              · have := of_decide_eq_true h1; have := of_decide_eq_true h2; omega
              · have := of_decide_eq_true h1; have := of_decide_eq_true h2; omega
          cases h3 : readBit b2 with
          | error e => rw [h3] at h; cases h
          | ok v3 =>
            obtain ⟨hasW, b3⟩ := v3
            rw [h3] at h; dsimp only at h
            have e3 := readBit_sound b2 hasW b3 h3
            cases hasW with
            | false =>
              simp only [Bool.not_false, if_true, Except.ok.injEq, Prod.mk.injEq] at h
              obtain ⟨⟨rfl, rfl⟩, rfl⟩ := h
              exact ⟨by rw [e1, e2, e3]; simp [writeSubHeader], hok⟩
            | true =>
              simp only [Bool.not_true, Bool.false_eq_true, if_false] at h
              cases h4 : readUnary1 b3 with
              | error e => rw [h4] at h; cases h
              | ok v4 =>
                obtain ⟨u, b4⟩ := v4
                rw [h4] at h
                simp only [Except.ok.injEq, Prod.mk.injEq] at h
                obtain ⟨⟨rfl, rfl⟩, rfl⟩ := h
                have e4 := readUnary1_sound b3 u b4 h4
                exact ⟨by rw [e1, e2, e3, e4]; simp [writeSubHeader], hok⟩


/-- a layout rule only yields partition sizes for predictor orders that fit the block -/
def LayoutFits (layout : Layout) : Prop := ∀ bs o po sizes, layout bs o po = .ok sizes → o ≤ bs

theorem resWf_order (layout : Layout) (hl : LayoutFits layout) (bs o : Nat) (res : Residual) (h : resWf layout bs o res) : o ≤ bs := by
  obtain ⟨_, _, sizes, hs, _⟩ := h
  exact hl bs o res.order sizes hs

theorem readSubframe_sound (layout : Layout) (hl : LayoutFits layout) (cw : Bool) (bs bps : Nat) (b : Bits) (s : Subframe) (rest : Bits)
    (h : readSubframe layout cw bs bps b = .ok (s, rest)) :
    b = writeSubframe bps s ++ rest ∧ subWf layout bs bps s := by
  simp only [readSubframe] at h
  cases h1 : readSubHeader b with
  | error e => rw [h1] at h; cases h
  | ok v1 =>
    obtain ⟨⟨ty, wasted⟩, b1⟩ := v1
    rw [h1] at h; dsimp only at h
    obtain ⟨e1, hty⟩ := readSubHeader_sound b ty wasted b1 h1
    by_cases hw : bps ≤ wasted
    · rw [if_pos hw] at h; cases h
    · rw [if_neg hw] at h
      have hd : 0 < bps - wasted := by omega
      have hwl : wasted < bps := by omega
      by_cases c1 : (ty == subTypeConstant) = true
      · rw [if_pos c1] at h
        have : ty = subTypeConstant := by simpa using c1
        subst this
        cases h2 : readS (bps - wasted) b1 with
        | error e => rw [h2] at h; cases h
        | ok v2 =>
          obtain ⟨v, b2⟩ := v2
          rw [h2] at h
          simp only [Except.ok.injEq, Prod.mk.injEq] at h
          obtain ⟨rfl, rfl⟩ := h
          obtain ⟨e2, f2⟩ := readS_sound' _ hd b1 v b2 h2
          exact ⟨by rw [e1, e2]; simp [writeSubframe], hwl, f2⟩
      · rw [if_neg c1] at h
        by_cases c2 : (ty == subTypeVerbatim) = true
        · rw [if_pos c2] at h
          have : ty = subTypeVerbatim := by simpa using c2
          subst this
          cases h2 : readN (readS (bps - wasted)) bs b1 with
          | error e => rw [h2] at h; cases h
          | ok v2 =>
            obtain ⟨xs, b2⟩ := v2
            rw [h2] at h
            simp only [Except.ok.injEq, Prod.mk.injEq] at h
            obtain ⟨rfl, rfl⟩ := h
            obtain ⟨e2, l2, f2⟩ := readN_sound (readS (bps - wasted)) (intToBits (bps - wasted)) (fun x => fitsS (bps - wasted) x = true)
              (fun b x r hx => readS_sound' _ hd b x r hx) bs b1 xs b2 h2
            exact ⟨by rw [e1, e2]; simp [writeSubframe], hwl, l2, f2⟩
        · rw [if_neg c2] at h
          have n1 : ty ≠ 0 := by simpa [subTypeConstant] using c1
          have n2 : ty ≠ 1 := by simpa [subTypeVerbatim] using c2
          by_cases c3 : (decide (subTypeFixedLo ≤ ty) && decide (ty ≤ subTypeFixedHi)) = true
          · rw [if_pos c3] at h
            have c3' := Bool.and_eq_true_iff.mp c3
            have f1 : 8 ≤ ty := by have := of_decide_eq_true c3'.1; simpa [subTypeFixedLo] using this
            have f2 : ty ≤ 12 := by have := of_decide_eq_true c3'.2; simpa [subTypeFixedHi] using this
            have eo : subTypeFixedBase + (ty - subTypeFixedBase) = ty := by simp only [subTypeFixedBase]; omega
            have ho4 : ty - subTypeFixedBase ≤ 4 := by simp only [subTypeFixedBase]; omega
            by_cases c4 : (cw && decide (ty - subTypeFixedBase > bs)) = true
            · rw [if_pos c4] at h; cases h
            · rw [if_neg c4] at h
              cases h2 : readN (readS (bps - wasted)) (ty - subTypeFixedBase) b1 with
              | error e => rw [h2] at h; cases h
              | ok v2 =>
                obtain ⟨warm, b2⟩ := v2
                rw [h2] at h; dsimp only at h
                cases h3 : readResidual layout bs (ty - subTypeFixedBase) b2 with
                | error e => rw [h3] at h; cases h
                | ok v3 =>
                  obtain ⟨res, b3⟩ := v3
                  rw [h3] at h
                  simp only [Except.ok.injEq, Prod.mk.injEq] at h
                  obtain ⟨rfl, rfl⟩ := h
                  obtain ⟨e2, l2, q2⟩ := readN_sound (readS (bps - wasted)) (intToBits (bps - wasted)) (fun x => fitsS (bps - wasted) x = true)
                    (fun b x r hx => readS_sound' _ hd b x r hx) _ b1 warm b2 h2
                  obtain ⟨e3, w3⟩ := readResidual_sound layout bs _ b2 res b3 h3
                  refine ⟨?_, hwl, ho4, resWf_order layout hl bs _ res w3, l2, q2, w3⟩
                  rw [e1, e2, e3]; simp only [writeSubframe, eo]; simp
          · rw [if_neg c3] at h
            have f3 : 32 ≤ ty ∧ ty ≤ 63 := by
              unfold tyOk at hty
              rcases hty with h0 | h0 | h0 | h0
              · omega
              · omega
              · exfalso; apply c3
                exact and_dec_true (by simp only [subTypeFixedLo]; omega) (by simp only [subTypeFixedHi]; omega)
              · exact h0
            have eo : subTypeLpcBase + (ty - subTypeLpcBase) = ty := by simp only [subTypeLpcBase]; omega
            have ho1 : 1 ≤ ty - subTypeLpcBase := by simp only [subTypeLpcBase]; omega
            have ho32 : ty - subTypeLpcBase ≤ 32 := by simp only [subTypeLpcBase]; omega
            by_cases c4 : (cw && decide (ty - subTypeLpcBase > bs)) = true
            · rw [if_pos c4] at h; cases h
            · rw [if_neg c4] at h
              cases h2 : readN (readS (bps - wasted)) (ty - subTypeLpcBase) b1 with
              | error e => rw [h2] at h; cases h
              | ok v2 =>
                obtain ⟨warm, b2⟩ := v2
                rw [h2] at h; dsimp only at h
                cases h3 : readU 4 b2 with
                | error e => rw [h3] at h; cases h
                | ok v3 =>
                  obtain ⟨pm1, b3⟩ := v3
                  rw [h3] at h; dsimp only at h
                  obtain ⟨e3, hpm⟩ := readU_sound 4 b2 pm1 b3 h3
                  by_cases c5 : (pm1 == 15) = true
                  · rw [if_pos c5] at h; cases h
                  · rw [if_neg c5] at h
                    have hp15 : pm1 ≠ 15 := by simpa using c5
                    cases h4 : readS 5 b3 with
                    | error e => rw [h4] at h; cases h
                    | ok v4 =>
                      obtain ⟨shift, b4⟩ := v4
                      rw [h4] at h; dsimp only at h
                      obtain ⟨e4, f4⟩ := readS_sound' 5 (by decide) b3 shift b4 h4
                      by_cases c6 : shift < 0
                      · rw [if_pos c6] at h; cases h
                      · rw [if_neg c6] at h
                        cases h5 : readN (readS (pm1 + 1)) (ty - subTypeLpcBase) b4 with
                        | error e => rw [h5] at h; cases h
                        | ok v5 =>
                          obtain ⟨coefs, b5⟩ := v5
                          rw [h5] at h; dsimp only at h
                          cases h6 : readResidual layout bs (ty - subTypeLpcBase) b5 with
                          | error e => rw [h6] at h; cases h
                          | ok v6 =>
                            obtain ⟨res, b6⟩ := v6
                            rw [h6] at h
                            simp only [Except.ok.injEq, Prod.mk.injEq] at h
                            obtain ⟨rfl, rfl⟩ := h
                            obtain ⟨e2, l2, q2⟩ := readN_sound (readS (bps - wasted)) (intToBits (bps - wasted)) (fun x => fitsS (bps - wasted) x = true)
                              (fun b x r hx => readS_sound' _ hd b x r hx) _ b1 warm b2 h2
                            obtain ⟨e5, l5, q5⟩ := readN_sound (readS (pm1 + 1)) (intToBits (pm1 + 1)) (fun x => fitsS (pm1 + 1) x = true)
                              (fun b x r hx => readS_sound' _ (by omega) b x r hx) _ b4 coefs b5 h5
                            obtain ⟨e6, w6⟩ := readResidual_sound layout bs _ b5 res b6 h6
                            have hsh : ((shift.toNat : Nat) : Int) = shift := Int.toNat_of_nonneg (by omega)
                            have hs15 : shift.toNat ≤ 15 := by
                              simp only [fitsS, Bool.and_eq_true, decide_eq_true_eq] at f4
                              omega
                            refine ⟨?_, hwl, ho1, ho32, resWf_order layout hl bs _ res w6, l2, q2, by omega, by omega, hs15, l5, q5, w6⟩
                            rw [e1, e2, e3, e4, e5, e6]
                            simp only [writeSubframe, eo, hsh, Nat.add_sub_cancel]
                            simp

theorem readSubframes_sound (layout : Layout) (hl : LayoutFits layout) (cw : Bool) (a : Assign) (bs bps : Nat) (n i : Nat) (b : Bits)
    (ss : List Subframe) (rest : Bits) (h : readSubframes layout cw a bs bps n i b = .ok (ss, rest)) :
    b = writeSubframes a bps ss i ++ rest ∧ ss.length = n ∧ subsWf layout a bs bps ss i := by
  induction n generalizing i b ss with
  | zero =>
    simp only [readSubframes, Except.ok.injEq, Prod.mk.injEq] at h
    obtain ⟨rfl, rfl⟩ := h
    exact ⟨by simp [writeSubframes], rfl, trivial⟩
  | succ n ih =>
    simp only [readSubframes] at h
    cases h1 : readSubframe layout cw bs (subBps a bps i) b with
    | error e => rw [h1] at h; cases h
    | ok v1 =>
      obtain ⟨s, b1⟩ := v1
      rw [h1] at h; dsimp only at h
      cases h2 : readSubframes layout cw a bs bps n (i + 1) b1 with
      | error e => rw [h2] at h; cases h
      | ok v2 =>
        obtain ⟨ss', b2⟩ := v2
        rw [h2] at h
        simp only [Except.ok.injEq, Prod.mk.injEq] at h
        obtain ⟨rfl, rfl⟩ := h
        obtain ⟨e1, w1⟩ := readSubframe_sound layout hl cw bs _ b s b1 h1
        obtain ⟨e2, l2, w2⟩ := ih (i + 1) b1 ss' h2
        exact ⟨by rw [e1, e2]; simp [writeSubframes], by simp [l2], w1, w2⟩


/-! ### frame header -/

theorem readNumberTail_sound (m acc : Nat) (b : Bits) (x : Nat) (r : Bits) (h : readNumberTail m acc b = .ok (x, r)) :
    b = numberTail m x ++ r ∧ x / 64 ^ m = acc := by
  induction m generalizing acc b with
  | zero =>
    simp only [readNumberTail, Except.ok.injEq, Prod.mk.injEq] at h
    obtain ⟨rfl, rfl⟩ := h
    simp [numberTail]
  | succ m ih =>
    simp only [readNumberTail] at h
    cases h1 : readU 2 b with
    | error e => rw [h1] at h; cases h
    | ok v1 =>
      obtain ⟨t, b1⟩ := v1
      rw [h1] at h; dsimp only at h
      obtain ⟨e1, _⟩ := readU_sound 2 b t b1 h1
      by_cases ht : (t != 2) = true
      · rw [if_pos ht] at h; cases h
      · rw [if_neg ht] at h
        have ht' : t = 2 := by simpa using ht
        subst ht'
        cases h2 : readU 6 b1 with
        | error e => rw [h2] at h; cases h
        | ok v2 =>
          obtain ⟨d, b2⟩ := v2
          rw [h2] at h; dsimp only at h
          obtain ⟨e2, hd⟩ := readU_sound 6 b1 d b2 h2
          obtain ⟨e3, q3⟩ := ih (acc * 64 + d) b2 h
          have hp : 0 < 64 ^ m := Nat.pow_pos (by decide)
          refine ⟨?_, ?_⟩
          · rw [e1, e2, e3]
            simp only [numberTail, q3]
            have : (acc * 64 + d) % 64 = d := by omega
            rw [this]
            have : natToBits 2 2 = [true, false] := by decide
            rw [this]; simp
          · rw [Nat.pow_succ, ← Nat.div_div_eq_div_mul, q3]; omega

theorem readNumber_sound (b : Bits) (v n : Nat) (r : Bits) (h : readNumber b = .ok ((v, n), r)) :
    b = writeNumber v n ++ r ∧ numWf v n := by
  simp only [readNumber] at h
  cases h1 : readUnary0 b with
  | error e => rw [h1] at h; cases h
  | ok v1 =>
    obtain ⟨k, b1⟩ := v1
    rw [h1] at h; dsimp only at h
    have e1 := readUnary0_sound b k b1 h1
    by_cases c0 : (k == 0) = true
    · rw [if_pos c0] at h
      have : k = 0 := by simpa using c0
      subst this
      cases h2 : readU 7 b1 with
      | error e => rw [h2] at h; cases h
      | ok v2 =>
        obtain ⟨x, b2⟩ := v2
        rw [h2] at h
        simp only [Except.ok.injEq, Prod.mk.injEq] at h
        obtain ⟨⟨rfl, rfl⟩, rfl⟩ := h
        obtain ⟨e2, hx⟩ := readU_sound 7 b1 x b2 h2
        exact ⟨by rw [e1, e2]; simp [writeNumber, writeUnary0], Or.inl ⟨rfl, hx⟩⟩
    · rw [if_neg c0] at h
      by_cases c1 : (k == 1 || decide (k > 7)) = true
      · rw [if_pos c1] at h; cases h
      · rw [if_neg c1] at h
        have hk0 : k ≠ 0 := by simpa using c0
        have hk : k ≠ 1 ∧ ¬ k > 7 := by
          simp only [Bool.or_eq_true, beq_iff_eq, decide_eq_true_eq, not_or] at c1
          exact c1
        cases h2 : readU (7 - k) b1 with
        | error e => rw [h2] at h; cases h
        | ok v2 =>
          obtain ⟨v0, b2⟩ := v2
          rw [h2] at h; dsimp only at h
          obtain ⟨e2, hv0⟩ := readU_sound (7 - k) b1 v0 b2 h2
          cases h3 : readNumberTail (k - 1) v0 b2 with
          | error e => rw [h3] at h; cases h
          | ok v3 =>
            obtain ⟨x, b3⟩ := v3
            rw [h3] at h
            simp only [Except.ok.injEq, Prod.mk.injEq] at h
            obtain ⟨⟨rfl, rfl⟩, rfl⟩ := h
            obtain ⟨e3, q3⟩ := readNumberTail_sound (k - 1) v0 b2 x b3 h3
            have hn : ¬ k ≤ 1 := by omega
            refine ⟨?_, Or.inr ⟨by omega, by omega, by rw [q3]; exact hv0⟩⟩
            rw [e1, e2, e3]
            simp only [writeNumber, hn, if_false, q3]
            simp


theorem bind_inv {α β : Type} {p : P α} {f : α → P β} {b : Bits} {y : β × Bits} (h : P.bind p f b = .ok y) :
    ∃ a b', p b = .ok (a, b') ∧ f a b' = .ok y := by
  simp only [P.bind] at h
  cases hp : p b with
  | error e => rw [hp] at h; cases h
  | ok v => obtain ⟨a, b'⟩ := v; rw [hp] at h; exact ⟨a, b', rfl, h⟩

theorem ite_fail_inv {α : Type} {c : Prop} [Decidable c] {e : Fail} {k : P α} {b : Bits} {y : α × Bits}
    (h : (if c then (P.fail e : P α) else k) b = .ok y) : ¬ c ∧ k b = .ok y := by
  by_cases hc : c
  · rw [if_pos hc] at h; cases h
  · rw [if_neg hc] at h; exact ⟨hc, h⟩

theorem pure_inv {α : Type} {a : α} {b : Bits} {y : α × Bits} (h : (pure a : P α) b = .ok y) : y = (a, b) := by
  cases h; rfl

theorem assign_of_code : ∀ c : Fin 16, chanCodeInvalid.contains c.val = false →
    assignOkB (assignOfCode c.val) = true ∧ chanCode (assignOfCode c.val) = c.val := by decide

theorem blockSize_field_sound (c : Nat) (b : Bits) (bs : Nat) (r : Bits)
    (h : (if blockSizeCodeU8.contains c = true then (readU 8).bind fun v => pure (v + 1)
     else if blockSizeCodeU16.contains c = true then
       (readU 16).bind fun v => if v + 1 > 65535 then P.fail (Fail.err "InvalidBlockSize") else pure (v + 1)
     else (pure ((lookup blockSizeCodeFixed c).getD 0) : P Nat)) b = .ok (bs, r)) :
    b = (if blockSizeCodeU8.contains c = true then natToBits 8 (bs - 1)
        else if blockSizeCodeU16.contains c = true then natToBits 16 (bs - 1) else []) ++ r
    ∧ (if blockSizeCodeU8.contains c then 1 ≤ bs ∧ bs ≤ 256
         else if blockSizeCodeU16.contains c then 1 ≤ bs ∧ bs ≤ 65535
         else bs = (lookup blockSizeCodeFixed c).getD 0) := by
  cases h8 : blockSizeCodeU8.contains c
  · simp only [h8, Bool.false_eq_true, if_false] at h ⊢
    cases h16 : blockSizeCodeU16.contains c
    · simp only [h16, Bool.false_eq_true, if_false] at h ⊢
      have := pure_inv h
      simp only [Prod.mk.injEq] at this
      obtain ⟨rfl, rfl⟩ := this
      simp
    · simp only [h16, if_true] at h ⊢
      obtain ⟨v, b1, h1, h2⟩ := bind_inv h
      obtain ⟨hv, h3⟩ := ite_fail_inv h2
      have := pure_inv h3
      simp only [Prod.mk.injEq] at this
      obtain ⟨rfl, rfl⟩ := this
      obtain ⟨e1, _⟩ := readU_sound 16 b v _ h1
      exact ⟨by rw [e1]; simp, by omega, by omega⟩
  · simp only [h8, if_true] at h ⊢
    obtain ⟨v, b1, h1, h2⟩ := bind_inv h
    have := pure_inv h2
    simp only [Prod.mk.injEq] at this
    obtain ⟨rfl, rfl⟩ := this
    obtain ⟨e1, hv⟩ := readU_sound 8 b v _ h1
    exact ⟨by rw [e1]; simp, by omega, by omega⟩

theorem rate_field_sound (si : Option SInfo) (c : Nat) (b : Bits) (rate : Nat) (r : Bits)
    (h : (if sampleRateCodeStreaminfo.contains c = true then (pure ((Option.map (fun x => x.rate) si).getD 0) : P Nat)
     else if sampleRateCodeKHz.contains c = true then (readU sampleRateKHzBits).bind fun v => pure (v * sampleRateKHzMul)
     else if sampleRateCodeHz.contains c = true then (readU sampleRateHzBits).bind fun v => pure (v * sampleRateHzMul)
     else if sampleRateCodeDHz.contains c = true then (readU sampleRateDHzBits).bind fun v => pure (v * sampleRateDHzMul)
     else pure ((lookup sampleRateCodeFixed c).getD 0)) b = .ok (rate, r)) :
    b = (if sampleRateCodeKHz.contains c = true then natToBits sampleRateKHzBits (rate / sampleRateKHzMul)
        else if sampleRateCodeHz.contains c = true then natToBits sampleRateHzBits (rate / sampleRateHzMul)
        else if sampleRateCodeDHz.contains c = true then natToBits sampleRateDHzBits (rate / sampleRateDHzMul)
        else []) ++ r
    ∧ (if sampleRateCodeStreaminfo.contains c then rate = (si.map (·.rate)).getD 0
      else if sampleRateCodeKHz.contains c then rate % sampleRateKHzMul = 0 ∧ rate / sampleRateKHzMul < 2 ^ sampleRateKHzBits
      else if sampleRateCodeHz.contains c then rate % sampleRateHzMul = 0 ∧ rate / sampleRateHzMul < 2 ^ sampleRateHzBits
      else if sampleRateCodeDHz.contains c then rate % sampleRateDHzMul = 0 ∧ rate / sampleRateDHzMul < 2 ^ sampleRateDHzBits
      else rate = (lookup sampleRateCodeFixed c).getD 0) := by
  cases hs : sampleRateCodeStreaminfo.contains c
  · simp only [hs, Bool.false_eq_true, if_false] at h ⊢
    cases h1 : sampleRateCodeKHz.contains c
    · simp only [h1, Bool.false_eq_true, if_false] at h ⊢
      cases h2 : sampleRateCodeHz.contains c
      · simp only [h2, Bool.false_eq_true, if_false] at h ⊢
        cases h3 : sampleRateCodeDHz.contains c
        · simp only [h3, Bool.false_eq_true, if_false] at h ⊢
          have := pure_inv h
          simp only [Prod.mk.injEq] at this
          obtain ⟨rfl, rfl⟩ := this
          simp
        · simp only [h3, if_true] at h ⊢
          obtain ⟨v, b1, g1, g2⟩ := bind_inv h
          have := pure_inv g2
          simp only [Prod.mk.injEq] at this
          obtain ⟨rfl, rfl⟩ := this
          obtain ⟨e1, hv⟩ := readU_sound _ b v _ g1
          have hm : 0 < sampleRateDHzMul := by decide
          exact ⟨by rw [e1, Nat.mul_div_cancel _ hm], Nat.mul_mod_left _ _, by rw [Nat.mul_div_cancel _ hm]; exact hv⟩
      · simp only [h2, if_true] at h ⊢
        obtain ⟨v, b1, g1, g2⟩ := bind_inv h
        have := pure_inv g2
        simp only [Prod.mk.injEq] at this
        obtain ⟨rfl, rfl⟩ := this
        obtain ⟨e1, hv⟩ := readU_sound _ b v _ g1
        have hm : 0 < sampleRateHzMul := by decide
        exact ⟨by rw [e1, Nat.mul_div_cancel _ hm], Nat.mul_mod_left _ _, by rw [Nat.mul_div_cancel _ hm]; exact hv⟩
    · simp only [h1, if_true] at h ⊢
      obtain ⟨v, b1, g1, g2⟩ := bind_inv h
      have := pure_inv g2
      simp only [Prod.mk.injEq] at this
      obtain ⟨rfl, rfl⟩ := this
      obtain ⟨e1, hv⟩ := readU_sound _ b v _ g1
      have hm : 0 < sampleRateKHzMul := by decide
      exact ⟨by rw [e1, Nat.mul_div_cancel _ hm], Nat.mul_mod_left _ _, by rw [Nat.mul_div_cancel _ hm]; exact hv⟩
  · have hc : c = 0 := by simpa [sampleRateCodeStreaminfo] using hs
    subst hc
    simp only [hs, if_true] at h ⊢
    have := pure_inv h
    simp only [Prod.mk.injEq] at this
    obtain ⟨rfl, rfl⟩ := this
    have k1 : sampleRateCodeKHz.contains 0 = false := by decide
    have k2 : sampleRateCodeHz.contains 0 = false := by decide
    have k3 : sampleRateCodeDHz.contains 0 = false := by decide
    refine ⟨?_, rfl⟩
    simp only [k1, k2, k3, Bool.false_eq_true, if_false, List.nil_append]


theorem readHeaderFields_sound (si : Option SInfo) (b : Bits) (h : Header) (r : Bits)
    (hr : readHeaderFields si b = .ok (h, r)) :
    b = writeHeaderFields h ++ natToBits 8 h.hcrc ++ r ∧ HeaderWf si h := by
  unfold readHeaderFields at hr
  simp only [bind] at hr
  obtain ⟨sync, b1, g1, hr⟩ := bind_inv hr
  obtain ⟨hsync, hr⟩ := ite_fail_inv hr
  obtain ⟨blocking, b2, g2, hr⟩ := bind_inv hr
  obtain ⟨bsCode, b3, g3, hr⟩ := bind_inv hr
  obtain ⟨hbsv, hr⟩ := ite_fail_inv hr
  obtain ⟨rateCode, b4, g4, hr⟩ := bind_inv hr
  obtain ⟨hrv, hr⟩ := ite_fail_inv hr
  obtain ⟨hrs, hr⟩ := ite_fail_inv hr
  obtain ⟨cc, b5, g5, hr⟩ := bind_inv hr
  obtain ⟨hcv, hr⟩ := ite_fail_inv hr
  obtain ⟨bpsCode, b6, g6, hr⟩ := bind_inv hr
  obtain ⟨hbv, hr⟩ := ite_fail_inv hr
  obtain ⟨hbs, hr⟩ := ite_fail_inv hr
  obtain ⟨reserved2, b7, g7, hr⟩ := bind_inv hr
  obtain ⟨num, b8, g8, hr⟩ := bind_inv hr
  obtain ⟨number, numberBytes⟩ := num
  obtain ⟨blockSize, b9, g9, hr⟩ := bind_inv hr
  obtain ⟨rate, b10, g10, hr⟩ := bind_inv hr
  obtain ⟨c8, b11, g11, hr⟩ := bind_inv hr
  have hfin := pure_inv hr
  simp only [Prod.mk.injEq] at hfin
  obtain ⟨rfl, rfl⟩ := hfin
  obtain ⟨e1, _⟩ := readU_sound 15 b sync b1 g1
  have hs : sync = syncCode15 := by simpa using hsync
  have e2 := readBit_sound b1 blocking b2 g2
  obtain ⟨e3, q3⟩ := readU_sound 4 b2 bsCode b3 g3
  obtain ⟨e4, q4⟩ := readU_sound 4 b3 rateCode b4 g4
  obtain ⟨e5, q5⟩ := readU_sound 4 b4 cc b5 g5
  obtain ⟨e6, q6⟩ := readU_sound 3 b5 bpsCode b6 g6
  have e7 := readBit_sound b6 reserved2 b7 g7
  obtain ⟨e8, q8⟩ := readNumber_sound b7 number numberBytes b8 g8
  obtain ⟨e9, q9⟩ := blockSize_field_sound bsCode b8 blockSize b9 g9
  obtain ⟨e10, q10⟩ := rate_field_sound si rateCode b9 rate b10 g10
  obtain ⟨e11, q11⟩ := readU_sound 8 b10 c8 _ g11
  have hcv' : chanCodeInvalid.contains cc = false := by simpa using hcv
  obtain ⟨a1, a2⟩ := assign_of_code ⟨cc, q5⟩ hcv'
  have a1' := assignOkB_sound _ a1
  simp only [assignOfCode] at a1' a2
  refine ⟨?_, ?_⟩
  · rw [e1, e2, e3, e4, e5, e6, e7, e8, e9, e10, e11, hs]
    simp only [writeHeaderFields, a2, List.append_assoc, List.cons_append, List.nil_append]
  · exact {
      bsCode := q3, bsValid := by simpa using hbsv, rateCode := q4, rateValid := by simpa using hrv,
      rateSubset := Bool.eq_false_iff.mpr hrs, assign := a1', bpsCode := q6, bpsValid := by simpa using hbv,
      bpsSubset := Bool.eq_false_iff.mpr hbs, bps := rfl, number := q8, blockSize := q9, rate := q10, hcrc := q11 }


/-! ### bits ↔ bytes, converse direction -/

theorem bitsToBytes_append (x y : Bits) (h : x.length % 8 = 0) : bitsToBytes (x ++ y) = bitsToBytes x ++ bitsToBytes y := by
  match x, h with
  | [], _ => simp [bitsToBytes]
  | [_], h => simp at h
  | [_, _], h => simp at h
  | [_, _, _], h => simp at h
  | [_, _, _, _], h => simp at h
  | [_, _, _, _, _], h => simp at h
  | [_, _, _, _, _, _], h => simp at h
  | [_, _, _, _, _, _, _], h => simp at h
  | b0 :: b1 :: b2 :: b3 :: b4 :: b5 :: b6 :: b7 :: rest, h =>
    have hr : rest.length % 8 = 0 := by simp only [List.length_cons] at h; omega
    have ih := bitsToBytes_append rest y hr
    simp only [List.cons_append, bitsToBytes, ih]

theorem bitsToBytes_byte (c : Nat) (h : c < 256) (rest : Bits) : bitsToBytes (natToBits 8 c ++ rest) = c :: bitsToBytes rest := by
  have e : natToBits 8 c = [c / 128 % 2 == 1, c / 64 % 2 == 1, c / 32 % 2 == 1, c / 16 % 2 == 1, c / 8 % 2 == 1, c / 4 % 2 == 1,
      c / 2 % 2 == 1, c % 2 == 1] := by
    simp [natToBits, natToBitsAux, Nat.div_div_eq_div_mul]
  have v := bitsToNat_natToBits 8 c
  rw [e] at v
  rw [e]
  simp only [List.cons_append, List.nil_append, bitsToBytes, v]
  congr 1
  exact Nat.mod_eq_of_lt h

theorem bitsToBytes_bytesToBits (bs : List Nat) (h : ∀ x ∈ bs, x < 256) : bitsToBytes (bytesToBits bs) = bs := by
  induction bs with
  | nil => rfl
  | cons x bs ih =>
    have : bytesToBits (x :: bs) = natToBits 8 x ++ bytesToBits bs := by simp [bytesToBits, byteToBits]
    rw [this, bitsToBytes_byte x (h x (by simp)), ih (fun y hy => h y (by simp [hy]))]

theorem bitsToBytes_u16 (c : Nat) (h : c < 65536) : bitsToBytes (natToBits 16 c) = [c / 256, c % 256] := by
  have e : natToBits 16 c = natToBits 8 (c / 256) ++ (natToBits 8 (c % 256) ++ []) := by
    have h1 : natToBits 16 c = natToBits 8 (c / 256) ++ natToBits 8 c := by
      simp [natToBits, natToBitsAux, Nat.div_div_eq_div_mul]
    have h2 : natToBits 8 c = natToBits 8 (c % 256) := by
      have := natToBits_add_mul 8 (c % 256) (c / 256)
      rw [← this]; congr 1; omega
    rw [h1, h2]; simp
  rw [e, bitsToBytes_byte _ (by omega), bitsToBytes_byte _ (by omega)]
  rfl

/-- the first `k` bytes carry the first `8k` bits -/
theorem bytesToBits_take (bytes : List Nat) (x y : Bits) (k : Nat) (h : bytesToBits bytes = x ++ y) (hx : x.length = 8 * k) :
    bytesToBits (bytes.take k) = x ∧ bytesToBits (bytes.drop k) = y := by
  have hk : k ≤ bytes.length := by
    have := congrArg List.length h
    rw [bytesToBits_length, List.length_append] at this; omega
  have hsplit : bytesToBits bytes = bytesToBits (bytes.take k) ++ bytesToBits (bytes.drop k) := by
    rw [← bytesToBits_append, List.take_append_drop]
  rw [hsplit] at h
  have hl : (bytesToBits (bytes.take k)).length = x.length := by
    rw [bytesToBits_length, List.length_take, hx]; omega
  exact List.append_inj h hl

/-! ### checksums, converse direction: remainder 0 pins the stored checksum -/

theorem crc8Table_zero_only : ∀ i : Fin 256, crc8Table.getD i.val 0 = 0 → i.val = 0 := by decide +kernel
theorem crc16Table_low_zero_only : ∀ i : Fin 256, crc16Table.getD i.val 0 % 256 = 0 → i.val = 0 := by decide +kernel

theorem xor_lt_256 (a b : Nat) (ha : a < 256) (hb : b < 256) : Nat.xor a b < 256 :=
  Nat.xor_lt_two_pow (n := 8) ha hb

theorem xor_eq_zero' (a b : Nat) (h : Nat.xor a b = 0) : a = b := by
  have h' : a ^^^ b = 0 := h
  have : a ^^^ (a ^^^ b) = b := by rw [← Nat.xor_assoc, Nat.xor_self, Nat.zero_xor]
  rw [h', Nat.xor_zero] at this
  exact this

theorem crc8_pins (bs : List Nat) (c : Nat) (hc : c < 256) (h : crc8 (bs ++ [c]) = 0) : c = crc8 bs := by
  simp only [crc8, List.foldl_append, List.foldl_cons, List.foldl_nil, crc8Update] at h
  have hl := crc8_lt bs
  simp only [crc8] at hl
  have := crc8Table_zero_only ⟨_, xor_lt_256 _ _ hl hc⟩ h
  exact (xor_eq_zero' _ _ this).symm


theorem xor_eq_zero'' (a b : Nat) (h : a ^^^ b = 0) : a = b := xor_eq_zero' a b h

theorem crc16Update_eq (c b : Nat) (hc : c < 65536) :
    crc16Update c b = crc16Table.getD (c / 256 ^^^ b) 0 ^^^ (c % 256 * 256) := by
  unfold crc16Update
  have a : c / 2 ^ 8 % 256 = c / 256 := by omega
  have d : c * 2 ^ 8 % 65536 = c % 256 * 256 := by omega
  rw [a, d]; rfl

theorem xor_low (a b : Nat) (hb : b % 256 = 0) : (a ^^^ b) % 256 = a % 256 := by
  have := Nat.xor_mod_two_pow (a := a) (b := b) (n := 8)
  have e : (2 : Nat) ^ 8 = 256 := by decide
  rw [e] at this
  rw [this, hb, Nat.xor_zero]

theorem crc16_pins (bs : List Nat) (hi lo : Nat) (hh : hi < 256) (hl : lo < 256) (h : crc16 (bs ++ [hi, lo]) = 0) :
    hi = crc16 bs / 256 ∧ lo = crc16 bs % 256 := by
  have hc := crc16_lt bs
  simp only [crc16, List.foldl_append, List.foldl_cons, List.foldl_nil] at hc h ⊢
  generalize List.foldl crc16Update 0 bs = c at hc h ⊢
  have e1 := crc16Update_eq c hi hc
  have hc1lt : crc16Update c hi < 65536 := crc16Update_lt _ _
  generalize crc16Update c hi = c1 at h e1 hc1lt
  rw [crc16Update_eq c1 lo hc1lt] at h
  have h2 := xor_eq_zero'' _ _ h
  have j2lt : c1 / 256 ^^^ lo < 256 := Nat.xor_lt_two_pow (n := 8) (by omega) hl
  have j2z := crc16Table_low_zero_only ⟨_, j2lt⟩ (by rw [h2]; omega)
  simp only at j2z
  rw [j2z, crc16Table_zero] at h2
  have c1low : c1 % 256 = 0 := by omega
  have m : c1 % 256 = crc16Table.getD (c / 256 ^^^ hi) 0 % 256 := by
    rw [e1, xor_low _ _ (by omega)]
  have j1lt : c / 256 ^^^ hi < 256 := Nat.xor_lt_two_pow (n := 8) (by omega) hh
  have j1z := crc16Table_low_zero_only ⟨_, j1lt⟩ (by rw [← m]; exact c1low)
  simp only at j1z
  have hhi : c / 256 = hi := xor_eq_zero'' _ _ j1z
  rw [j1z, crc16Table_zero, Nat.zero_xor] at e1
  have : c1 / 256 = c % 256 := by omega
  rw [this] at j2z
  have hlo : c % 256 = lo := xor_eq_zero'' _ _ j2z
  exact ⟨hhi.symm, hlo.symm⟩

end Flac
