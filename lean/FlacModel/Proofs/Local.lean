/-
  Proofs/Local.lean — the frame parsers read strictly left to right.

  `Local p`: (ext) a successful read is unchanged by appending more input; (pre) cutting input off a
  successful read either changes nothing (the cut part was not needed) or fails with end-of-data —
  never with another error and never with another value.  Both are closed under sequencing, so they
  lift from the primitive bit readers to the whole frame parser.  C14 (interrupted encodes) and the
  frame-locality facts used by C05/C16 rest on this.
-/
import FlacModel.Model.Decode
import FlacModel.Proofs.Bits

namespace Flac

structure Local {α : Type} (p : P α) : Prop where
  ext : ∀ b a r x, p b = .ok (a, r) → p (b ++ x) = .ok (a, r ++ x)
  pre : ∀ b x a r, p (b ++ x) = .ok (a, r) → (∃ r', p b = .ok (a, r') ∧ r = r' ++ x) ∨ p b = .error .eof
  suf : ∀ b a r, p b = .ok (a, r) → ∃ t, b = t ++ r

theorem local_pure {α} (a : α) : Local (pure a : P α) := by
  constructor
  · intro b a' r x h; cases h; rfl
  · intro b x a' r h; cases h; exact Or.inl ⟨b, rfl, rfl⟩
  · intro b a' r h; cases h; exact ⟨[], rfl⟩

theorem local_fail {α} (e : Fail) : Local (P.fail e : P α) := by
  constructor
  · intro b a r x h; cases h
  · intro b x a r h; cases h
  · intro b a r h; cases h

theorem local_bind {α β} {p : P α} {f : α → P β} (hp : Local p) (hf : ∀ a, Local (f a)) : Local (p >>= f) := by
  constructor
  · intro b c r x h
    simp only [bind, P.bind] at h ⊢
    cases hpb : p b with
    | error e => rw [hpb] at h; cases h
    | ok v =>
      obtain ⟨a, r1⟩ := v
      rw [hpb] at h
      rw [hp.ext b a r1 x hpb]
      exact (hf a).ext r1 c r x h
  · intro b x c r h
    simp only [bind, P.bind] at h ⊢
    cases hpb : p (b ++ x) with
    | error e => rw [hpb] at h; cases h
    | ok v =>
      obtain ⟨a, r1⟩ := v
      rw [hpb] at h
      rcases hp.pre b x a r1 hpb with ⟨r1', h1, rfl⟩ | h1
      · rw [h1]
        exact (hf a).pre r1' x c r h
      · right; rw [h1]
  · intro b c r h
    simp only [bind, P.bind] at h
    cases hpb : p b with
    | error e => rw [hpb] at h; cases h
    | ok v =>
      obtain ⟨a, r1⟩ := v
      rw [hpb] at h
      obtain ⟨t1, e1⟩ := hp.suf b a r1 hpb
      obtain ⟨t2, e2⟩ := (hf a).suf r1 c r h
      exact ⟨t1 ++ t2, by rw [e1, e2, List.append_assoc]⟩

theorem local_ite {α} {c : Prop} [Decidable c] {p q : P α} (hp : Local p) (hq : Local q) : Local (if c then p else q) := by
  split <;> assumption

theorem local_readBit : Local readBit := by
  constructor
  · intro b a r x h
    cases b with
    | nil => cases h
    | cons y t => simp only [readBit] at h; cases h; rfl
  · intro b x a r h
    cases b with
    | nil => right; rfl
    | cons y t => simp only [List.cons_append, readBit] at h; cases h; exact Or.inl ⟨t, rfl, rfl⟩
  · intro b a r h
    cases b with
    | nil => cases h
    | cons y t => simp only [readBit] at h; cases h; exact ⟨[_], rfl⟩

theorem splitExact_append (n : Nat) (b t r x : Bits) (h : splitExact n b = some (t, r)) : splitExact n (b ++ x) = some (t, r ++ x) := by
  induction n generalizing b t r with
  | zero => simp only [splitExact] at h ⊢; cases h; rfl
  | succ n ih =>
    cases b with
    | nil => simp [splitExact] at h
    | cons y b' =>
      simp only [splitExact, List.cons_append] at h ⊢
      cases hs : splitExact n b' with
      | none => rw [hs] at h; cases h
      | some v =>
        obtain ⟨t', r'⟩ := v
        rw [hs] at h
        cases h
        rw [ih b' t' r hs]

theorem splitExact_prefix (n : Nat) (b x t r : Bits) (h : splitExact n (b ++ x) = some (t, r)) :
    (∃ r', splitExact n b = some (t, r') ∧ r = r' ++ x) ∨ splitExact n b = none := by
  induction n generalizing b t r with
  | zero => simp only [splitExact] at h ⊢; cases h; exact Or.inl ⟨b, rfl, rfl⟩
  | succ n ih =>
    cases b with
    | nil => right; rfl
    | cons y b' =>
      simp only [splitExact, List.cons_append] at h ⊢
      cases hs : splitExact n (b' ++ x) with
      | none => rw [hs] at h; cases h
      | some v =>
        obtain ⟨t', r'⟩ := v
        rw [hs] at h
        cases h
        rcases ih b' t' r hs with ⟨r'', h1, rfl⟩ | h1
        · left; exact ⟨r'', by rw [h1], rfl⟩
        · right; rw [h1]

theorem splitExact_suffix (n : Nat) (b t r : Bits) (h : splitExact n b = some (t, r)) : b = t ++ r := by
  induction n generalizing b t r with
  | zero => simp only [splitExact] at h; cases h; rfl
  | succ n ih =>
    cases b with
    | nil => simp [splitExact] at h
    | cons y b' =>
      simp only [splitExact] at h
      cases hs : splitExact n b' with
      | none => rw [hs] at h; cases h
      | some v =>
        obtain ⟨t', r'⟩ := v
        rw [hs] at h
        cases h
        rw [ih b' t' r hs]; rfl

theorem local_takeBits (n : Nat) : Local (takeBits n) := by
  constructor
  · intro b a r x h
    simp only [takeBits] at h ⊢
    cases hs : splitExact n b with
    | none => rw [hs] at h; cases h
    | some v =>
      obtain ⟨t, r'⟩ := v
      rw [hs] at h; cases h
      rw [splitExact_append n b a r x hs]
  · intro b x a r h
    simp only [takeBits] at h ⊢
    cases hs : splitExact n (b ++ x) with
    | none => rw [hs] at h; cases h
    | some v =>
      obtain ⟨t, r'⟩ := v
      rw [hs] at h; cases h
      rcases splitExact_prefix n b x a r hs with ⟨r'', h1, rfl⟩ | h1
      · left; exact ⟨r'', by rw [h1], rfl⟩
      · right; rw [h1]
  · intro b a r h
    simp only [takeBits] at h
    cases hs : splitExact n b with
    | none => rw [hs] at h; cases h
    | some v =>
      obtain ⟨t, r'⟩ := v
      rw [hs] at h; cases h
      exact ⟨a, splitExact_suffix n b a r hs⟩

/-- post-processing the value of a local parser keeps it local (`q` given by its two equations) -/
theorem local_map {α β} {p : P α} (hp : Local p) (g : α → β) (q : P β)
    (hok : ∀ b y r, p b = .ok (y, r) → q b = .ok (g y, r)) (herr : ∀ b e, p b = .error e → q b = .error e) : Local q := by
  constructor
  · intro b a r x h
    cases hpb : p b with
    | error e => rw [herr b e hpb] at h; cases h
    | ok v =>
      obtain ⟨y, r1⟩ := v
      rw [hok b y r1 hpb] at h
      have hext := hp.ext b y r1 x hpb
      cases h
      exact hok _ _ _ hext
  · intro b x a r h
    cases hpb : p (b ++ x) with
    | error e => rw [herr _ e hpb] at h; cases h
    | ok v =>
      obtain ⟨y, r1⟩ := v
      rw [hok _ y r1 hpb] at h
      have hpre := hp.pre b x y r1 hpb
      cases h
      rcases hpre with ⟨r', h1, rfl⟩ | h1
      · left; exact ⟨r', hok _ _ _ h1, rfl⟩
      · right; exact herr _ _ h1
  · intro b a r h
    cases hpb : p b with
    | error e => rw [herr b e hpb] at h; cases h
    | ok v =>
      obtain ⟨y, r1⟩ := v
      rw [hok b y r1 hpb] at h
      have hs := hp.suf b y r1 hpb
      cases h
      exact hs

theorem local_readU (n : Nat) : Local (readU n) :=
  local_map (local_takeBits n) bitsToNat _ (by intro b y r h; simp only [readU, h]) (by intro b e h; simp only [readU, h])
theorem local_readS (n : Nat) : Local (readS n) :=
  local_map (local_takeBits n) bitsToInt _ (by intro b y r h; simp only [readS, h]) (by intro b e h; simp only [readS, h])
theorem local_skipBits (n : Nat) : Local (skipBits n) :=
  local_map (local_takeBits n) (fun _ => ()) _ (by intro b y r h; simp only [skipBits, h]) (by intro b e h; simp only [skipBits, h])

theorem local_readUnary1 : Local readUnary1 := by
  constructor
  · intro b
    induction b with
    | nil => intro a r x h; cases h
    | cons y t ih =>
      intro a r x h
      cases y with
      | true => simp only [readUnary1] at h; cases h; rfl
      | false =>
        simp only [readUnary1, List.cons_append] at h ⊢
        cases hr : readUnary1 t with
        | error e => rw [hr] at h; cases h
        | ok v =>
          obtain ⟨n, r'⟩ := v
          rw [hr] at h; cases h
          rw [ih _ _ x hr]
  · intro b
    induction b with
    | nil => intro x a r h; right; rfl
    | cons y t ih =>
      intro x a r h
      cases y with
      | true => simp only [List.cons_append, readUnary1] at h; cases h; exact Or.inl ⟨t, rfl, rfl⟩
      | false =>
        simp only [readUnary1, List.cons_append] at h ⊢
        cases hr : readUnary1 (t ++ x) with
        | error e => rw [hr] at h; cases h
        | ok v =>
          obtain ⟨n, r'⟩ := v
          rw [hr] at h; cases h
          rcases ih x n r hr with ⟨r'', h1, rfl⟩ | h1
          · left; exact ⟨r'', by rw [h1], rfl⟩
          · right; rw [h1]

  · intro b
    induction b with
    | nil => intro a r h; cases h
    | cons y t ih =>
      intro a r h
      cases y with
      | true => simp only [readUnary1] at h; cases h; exact ⟨[true], rfl⟩
      | false =>
        simp only [readUnary1] at h
        cases hr : readUnary1 t with
        | error e => rw [hr] at h; cases h
        | ok v =>
          obtain ⟨n, r'⟩ := v
          rw [hr] at h
          obtain ⟨t', e⟩ := ih n r' hr
          cases h
          exact ⟨false :: t', by rw [e]; rfl⟩

theorem local_readUnary0 : Local readUnary0 := by
  constructor
  · intro b
    induction b with
    | nil => intro a r x h; cases h
    | cons y t ih =>
      intro a r x h
      cases y with
      | false => simp only [readUnary0] at h; cases h; rfl
      | true =>
        simp only [readUnary0, List.cons_append] at h ⊢
        cases hr : readUnary0 t with
        | error e => rw [hr] at h; cases h
        | ok v =>
          obtain ⟨n, r'⟩ := v
          rw [hr] at h; cases h
          rw [ih _ _ x hr]
  · intro b
    induction b with
    | nil => intro x a r h; right; rfl
    | cons y t ih =>
      intro x a r h
      cases y with
      | false => simp only [List.cons_append, readUnary0] at h; cases h; exact Or.inl ⟨t, rfl, rfl⟩
      | true =>
        simp only [readUnary0, List.cons_append] at h ⊢
        cases hr : readUnary0 (t ++ x) with
        | error e => rw [hr] at h; cases h
        | ok v =>
          obtain ⟨n, r'⟩ := v
          rw [hr] at h; cases h
          rcases ih x n r hr with ⟨r'', h1, rfl⟩ | h1
          · left; exact ⟨r'', by rw [h1], rfl⟩
          · right; rw [h1]

  · intro b
    induction b with
    | nil => intro a r h; cases h
    | cons y t ih =>
      intro a r h
      cases y with
      | false => simp only [readUnary0] at h; cases h; exact ⟨[false], rfl⟩
      | true =>
        simp only [readUnary0] at h
        cases hr : readUnary0 t with
        | error e => rw [hr] at h; cases h
        | ok v =>
          obtain ⟨n, r'⟩ := v
          rw [hr] at h
          obtain ⟨t', e⟩ := ih n r' hr
          cases h
          exact ⟨true :: t', by rw [e]; rfl⟩

theorem local_readN {α} {p : P α} (hp : Local p) (n : Nat) : Local (readN p n) := by
  induction n with
  | zero =>
    constructor
    · intro b a r x h; simp only [readN] at h ⊢; cases h; rfl
    · intro b x a r h; simp only [readN] at h ⊢; cases h; exact Or.inl ⟨b, rfl, rfl⟩
    · intro b a r h; simp only [readN] at h; cases h; exact ⟨[], rfl⟩
  | succ n ih =>
    constructor
    · intro b a r x h
      simp only [readN] at h ⊢
      cases h1 : p b with
      | error e => rw [h1] at h; cases h
      | ok v =>
        obtain ⟨y, b1⟩ := v
        rw [h1] at h; dsimp only at h
        rw [hp.ext b y b1 x h1]; dsimp only
        cases h2 : readN p n b1 with
        | error e => rw [h2] at h; cases h
        | ok w =>
          obtain ⟨ys, b2⟩ := w
          rw [h2] at h; cases h
          rw [ih.ext b1 _ _ x h2]
    · intro b x a r h
      simp only [readN] at h ⊢
      cases h1 : p (b ++ x) with
      | error e => rw [h1] at h; cases h
      | ok v =>
        obtain ⟨y, b1⟩ := v
        rw [h1] at h; dsimp only at h
        rcases hp.pre b x y b1 h1 with ⟨b1', g1, rfl⟩ | g1
        · rw [g1]; dsimp only
          cases h2 : readN p n (b1' ++ x) with
          | error e => rw [h2] at h; cases h
          | ok w =>
            obtain ⟨ys, b2⟩ := w
            rw [h2] at h; cases h
            rcases ih.pre b1' x _ _ h2 with ⟨b2', g2, rfl⟩ | g2
            · left; exact ⟨b2', by rw [g2], rfl⟩
            · right; rw [g2]
        · right; rw [g1]
    · intro b a r h
      simp only [readN] at h
      cases h1 : p b with
      | error e => rw [h1] at h; cases h
      | ok v =>
        obtain ⟨y, b1⟩ := v
        rw [h1] at h; dsimp only at h
        cases h2 : readN p n b1 with
        | error e => rw [h2] at h; cases h
        | ok w =>
          obtain ⟨ys, b2⟩ := w
          rw [h2] at h
          obtain ⟨t1, e1⟩ := hp.suf b y b1 h1
          obtain ⟨t2, e2⟩ := ih.suf b1 ys b2 h2
          cases h
          exact ⟨t1 ++ t2, by rw [e1, e2, List.append_assoc]⟩


/-! ### frame parsers as sequenced local readers -/
open Flac.Gen

/-- a computation that does not look at the input -/
def liftRes {γ : Type} (g : Res γ) : P γ := fun b => match g with | .ok c => .ok (c, b) | .error e => .error e

theorem local_liftRes {γ} (g : Res γ) : Local (liftRes g) := by
  cases g with
  | error e =>
    constructor
    · intro b a r x h; cases h
    · intro b x a r h; cases h
    · intro b a r h; cases h
  | ok c =>
    constructor
    · intro b a r x h; simp only [liftRes] at h ⊢; cases h; rfl
    · intro b x a r h; simp only [liftRes] at h ⊢; cases h; exact Or.inl ⟨b, rfl, rfl⟩
    · intro b a r h; simp only [liftRes] at h; cases h; exact ⟨[], rfl⟩

/-- unfold the monad operations wherever they have become applied to an input -/
macro "punf" : tactic => `(tactic| (try dsimp only) <;> (try simp only [bind, P.bind, pure, P.pure, P.fail, liftRes]))

theorem readRiceOne_eq (k : Nat) : readRiceOne k =
    (readUnary1 >>= fun msb => readU k >>= fun lsb =>
      if decRiceOverflow msb k then P.fail (.err "ResidualOverflow") else pure (unfoldRice k msb lsb)) := by
  funext b
  simp only [readRiceOne, bind, P.bind]
  cases readUnary1 b with
  | error e => rfl
  | ok v =>
    obtain ⟨msb, b1⟩ := v
    dsimp only
    cases readU k b1 with
    | error e => rfl
    | ok w =>
      obtain ⟨lsb, b2⟩ := w
      dsimp only
      split <;> rfl

theorem local_readRiceOne (k : Nat) : Local (readRiceOne k) := by
  rw [readRiceOne_eq]
  refine local_bind local_readUnary1 (fun msb => local_bind (local_readU k) (fun lsb => ?_))
  exact local_ite (local_fail _) (local_pure _)


theorem readPartition_eq (pbits n : Nat) : readPartition pbits n =
    (readU pbits >>= fun k =>
      if k == 2 ^ pbits - 1 then
        readU 5 >>= fun w => if w == 0 then pure (Partition.zero n) else readN (readS w) n >>= fun rs => pure (Partition.escaped w rs)
      else readN (readRiceOne k) n >>= fun rs => pure (Partition.rice k rs)) := by
  funext b
  simp only [readPartition, bind, P.bind]
  cases readU pbits b with
  | error e => rfl
  | ok v =>
    obtain ⟨k, b1⟩ := v
    punf
    split
    · punf
      cases readU 5 b1 with
      | error e => rfl
      | ok w =>
        obtain ⟨w, b2⟩ := w
        punf
        split
        · rfl
        · punf
          cases readN (readS w) n b2 with
          | error e => rfl
          | ok u => rfl
    · punf
      cases readN (readRiceOne k) n b1 with
      | error e => rfl
      | ok u => rfl

theorem local_readPartition (pbits n : Nat) : Local (readPartition pbits n) := by
  rw [readPartition_eq]
  refine local_bind (local_readU _) (fun k => local_ite ?_ ?_)
  · refine local_bind (local_readU 5) (fun w => local_ite (local_pure _) ?_)
    exact local_bind (local_readN (local_readS w) n) (fun rs => local_pure _)
  · exact local_bind (local_readN (local_readRiceOne k) n) (fun rs => local_pure _)

theorem readPartitions_cons (pbits n : Nat) (ns : List Nat) : readPartitions pbits (n :: ns) =
    (readPartition pbits n >>= fun p => readPartitions pbits ns >>= fun ps => pure (p :: ps)) := by
  funext b
  simp only [readPartitions, bind, P.bind]
  cases readPartition pbits n b with
  | error e => rfl
  | ok v =>
    obtain ⟨p, b1⟩ := v
    punf
    cases readPartitions pbits ns b1 with
    | error e => rfl
    | ok w => rfl

theorem local_readPartitions (pbits : Nat) (ns : List Nat) : Local (readPartitions pbits ns) := by
  induction ns with
  | nil =>
    constructor
    · intro b a r x h; simp only [readPartitions] at h ⊢; cases h; rfl
    · intro b x a r h; simp only [readPartitions] at h ⊢; cases h; exact Or.inl ⟨b, rfl, rfl⟩
    · intro b a r h; simp only [readPartitions] at h; cases h; exact ⟨[], rfl⟩
  | cons n ns ih =>
    rw [readPartitions_cons]
    exact local_bind (local_readPartition pbits n) (fun p => local_bind ih (fun ps => local_pure _))

theorem readResidual_eq (layout : Layout) (bs order : Nat) : readResidual layout bs order =
    (readU 2 >>= fun method =>
      if method ≥ 2 then P.fail (.err "InvalidCodingMethod") else
      readU 4 >>= fun po => liftRes (layout bs order po) >>= fun sizes =>
        readPartitions (4 + method) sizes >>= fun ps => pure { method, order := po, parts := ps }) := by
  funext b
  simp only [readResidual, bind, P.bind]
  cases readU 2 b with
  | error e => rfl
  | ok v =>
    obtain ⟨method, b1⟩ := v
    punf
    split
    · rfl
    · punf
      cases readU 4 b1 with
      | error e => rfl
      | ok w =>
        obtain ⟨po, b2⟩ := w
        punf
        cases layout bs order po with
        | error e => rfl
        | ok sizes =>
          punf
          cases readPartitions (4 + method) sizes b2 with
          | error e => rfl
          | ok u => rfl

theorem local_readResidual (layout : Layout) (bs order : Nat) : Local (readResidual layout bs order) := by
  rw [readResidual_eq]
  refine local_bind (local_readU 2) (fun method => local_ite (local_fail _) ?_)
  refine local_bind (local_readU 4) (fun po => local_bind (local_liftRes _) (fun sizes => ?_))
  exact local_bind (local_readPartitions _ sizes) (fun ps => local_pure _)

theorem readSubHeader_eq : readSubHeader =
    (readBit >>= fun pad =>
      if pad then P.fail (.err "InvalidSubframeHeader") else
      readU 6 >>= fun ty =>
        if !(ty == subTypeConstant || ty == subTypeVerbatim
             || (subTypeFixedLo ≤ ty && ty ≤ subTypeFixedHi) || (subTypeLpcLo ≤ ty && ty ≤ subTypeLpcHi))
        then P.fail (.err "InvalidSubframeHeaderType") else
        readBit >>= fun hasW =>
          if !hasW then pure (ty, 0) else readUnary1 >>= fun u => pure (ty, u + 1)) := by
  funext b
  simp only [readSubHeader, bind, P.bind]
  cases readBit b with
  | error e => rfl
  | ok v =>
    obtain ⟨pad, b1⟩ := v
    punf
    split
    · rfl
    · punf
      cases readU 6 b1 with
      | error e => rfl
      | ok w =>
        obtain ⟨ty, b2⟩ := w
        punf
        split
        · rfl
        · punf
          cases readBit b2 with
          | error e => rfl
          | ok u =>
            obtain ⟨hasW, b3⟩ := u
            punf
            split
            · rfl
            · punf
              cases readUnary1 b3 with
              | error e => rfl
              | ok t => rfl

theorem local_readSubHeader : Local readSubHeader := by
  rw [readSubHeader_eq]
  refine local_bind local_readBit (fun pad => local_ite (local_fail _) ?_)
  refine local_bind (local_readU 6) (fun ty => local_ite (local_fail _) ?_)
  refine local_bind local_readBit (fun hasW => local_ite (local_pure _) ?_)
  exact local_bind local_readUnary1 (fun u => local_pure _)


theorem readSubframe_eq (layout : Layout) (cw : Bool) (bs bps : Nat) : readSubframe layout cw bs bps =
    (readSubHeader >>= fun tw =>
      if bps ≤ tw.2 then P.fail (.err "ExcessiveWastedBits") else
      if tw.1 == subTypeConstant then
        readS (bps - tw.2) >>= fun v => pure { wasted := tw.2, body := .constant v }
      else if tw.1 == subTypeVerbatim then
        readN (readS (bps - tw.2)) bs >>= fun xs => pure { wasted := tw.2, body := .verbatim xs }
      else if subTypeFixedLo ≤ tw.1 && tw.1 ≤ subTypeFixedHi then
        if cw && tw.1 - subTypeFixedBase > bs then P.fail (.err "InvalidFixedOrder") else
        readN (readS (bps - tw.2)) (tw.1 - subTypeFixedBase) >>= fun warm =>
          readResidual layout bs (tw.1 - subTypeFixedBase) >>= fun res =>
            pure { wasted := tw.2, body := .fixed (tw.1 - subTypeFixedBase) warm res }
      else
        if cw && tw.1 - subTypeLpcBase > bs then P.fail (.err "InvalidLpcOrder") else
        readN (readS (bps - tw.2)) (tw.1 - subTypeLpcBase) >>= fun warm =>
          readU 4 >>= fun pm1 =>
            if pm1 == 15 then P.fail (.err "InvalidQlpPrecision") else
            readS 5 >>= fun shift =>
              if shift < 0 then P.fail (.err "NegativeLpcShift") else
              readN (readS (pm1 + 1)) (tw.1 - subTypeLpcBase) >>= fun coefs =>
                readResidual layout bs (tw.1 - subTypeLpcBase) >>= fun res =>
                  pure { wasted := tw.2, body := .lpc (tw.1 - subTypeLpcBase) warm (pm1 + 1) shift.toNat coefs res }) := by
  funext b
  simp only [readSubframe, bind, P.bind]
  cases readSubHeader b with
  | error e => rfl
  | ok v =>
    obtain ⟨⟨ty, wasted⟩, b1⟩ := v
    punf
    split
    · rfl
    split
    · punf
      cases readS (bps - wasted) b1 with
      | error e => rfl
      | ok w => rfl
    split
    · punf
      cases readN (readS (bps - wasted)) bs b1 with
      | error e => rfl
      | ok w => rfl
    split
    · split
      · rfl
      · punf
        cases readN (readS (bps - wasted)) (ty - subTypeFixedBase) b1 with
        | error e => rfl
        | ok w =>
          obtain ⟨warm, b2⟩ := w
          punf
          cases readResidual layout bs (ty - subTypeFixedBase) b2 with
          | error e => rfl
          | ok u => rfl
    · split
      · rfl
      · punf
        cases readN (readS (bps - wasted)) (ty - subTypeLpcBase) b1 with
        | error e => rfl
        | ok w =>
          obtain ⟨warm, b2⟩ := w
          punf
          cases readU 4 b2 with
          | error e => rfl
          | ok u =>
            obtain ⟨pm1, b3⟩ := u
            punf
            split
            · rfl
            · punf
              cases readS 5 b3 with
              | error e => rfl
              | ok t =>
                obtain ⟨shift, b4⟩ := t
                punf
                split
                · rfl
                · punf
                  cases readN (readS (pm1 + 1)) (ty - subTypeLpcBase) b4 with
                  | error e => rfl
                  | ok q =>
                    obtain ⟨coefs, b5⟩ := q
                    punf
                    cases readResidual layout bs (ty - subTypeLpcBase) b5 with
                    | error e => rfl
                    | ok z => rfl

theorem local_readSubframe (layout : Layout) (cw : Bool) (bs bps : Nat) : Local (readSubframe layout cw bs bps) := by
  rw [readSubframe_eq]
  refine local_bind local_readSubHeader (fun tw => local_ite (local_fail _) (local_ite ?_ (local_ite ?_ (local_ite ?_ ?_))))
  · exact local_bind (local_readS _) (fun v => local_pure _)
  · exact local_bind (local_readN (local_readS _) _) (fun xs => local_pure _)
  · refine local_ite (local_fail _) ?_
    exact local_bind (local_readN (local_readS _) _) (fun warm => local_bind (local_readResidual _ _ _) (fun res => local_pure _))
  · refine local_ite (local_fail _) ?_
    refine local_bind (local_readN (local_readS _) _) (fun warm => local_bind (local_readU 4) (fun pm1 => local_ite (local_fail _) ?_))
    refine local_bind (local_readS 5) (fun shift => local_ite (local_fail _) ?_)
    exact local_bind (local_readN (local_readS _) _) (fun coefs => local_bind (local_readResidual _ _ _) (fun res => local_pure _))

theorem decSubframes_succ (p : Profile) (a : Assign) (bs bps n i : Nat) : decSubframes p a bs bps (n + 1) i =
    (readSubframe decLayout true bs (subBps a bps i) >>= fun s => liftRes (decodeSub p (subWidth a bps i) bs s) >>= fun xs =>
      decSubframes p a bs bps n (i + 1) >>= fun xss => pure (xs :: xss)) := by
  funext b
  simp only [decSubframes, bind, P.bind]
  cases readSubframe decLayout true bs (subBps a bps i) b with
  | error e => rfl
  | ok v =>
    obtain ⟨s, b1⟩ := v
    punf
    cases decodeSub p (subWidth a bps i) bs s with
    | error e => rfl
    | ok xs =>
      punf
      cases decSubframes p a bs bps n (i + 1) b1 with
      | error e => rfl
      | ok w => rfl

theorem local_decSubframes (p : Profile) (a : Assign) (bs bps n i : Nat) : Local (decSubframes p a bs bps n i) := by
  induction n generalizing i with
  | zero =>
    constructor
    · intro b x r y h; simp only [decSubframes] at h ⊢; cases h; rfl
    · intro b y x r h; simp only [decSubframes] at h ⊢; cases h; exact Or.inl ⟨b, rfl, rfl⟩
    · intro b x r h; simp only [decSubframes] at h; cases h; exact ⟨[], rfl⟩
  | succ n ih =>
    rw [decSubframes_succ]
    exact local_bind (local_readSubframe _ _ _ _) (fun s => local_bind (local_liftRes _) (fun xs => local_bind (ih (i + 1)) (fun xss => local_pure _)))

theorem readNumberTail_succ (n acc : Nat) : readNumberTail (n + 1) acc =
    (readU 2 >>= fun t => if t != 2 then P.fail (.err "InvalidFrameNumber") else readU 6 >>= fun v => readNumberTail n (acc * 64 + v)) := by
  funext b
  simp only [readNumberTail, bind, P.bind]
  cases readU 2 b with
  | error e => rfl
  | ok v =>
    obtain ⟨t, b1⟩ := v
    punf
    split
    · rfl
    · punf
      cases readU 6 b1 with
      | error e => rfl
      | ok w => rfl

theorem local_readNumberTail (n acc : Nat) : Local (readNumberTail n acc) := by
  induction n generalizing acc with
  | zero =>
    constructor
    · intro b x r y h; simp only [readNumberTail] at h ⊢; cases h; rfl
    · intro b y x r h; simp only [readNumberTail] at h ⊢; cases h; exact Or.inl ⟨b, rfl, rfl⟩
    · intro b x r h; simp only [readNumberTail] at h; cases h; exact ⟨[], rfl⟩
  | succ n ih =>
    rw [readNumberTail_succ]
    exact local_bind (local_readU 2) (fun t => local_ite (local_fail _) (local_bind (local_readU 6) (fun v => ih _)))

theorem readNumber_eq : readNumber =
    (readUnary0 >>= fun n =>
      if n == 0 then readU 7 >>= fun v => pure (v, 1)
      else if n == 1 || n > 7 then P.fail (.err "InvalidFrameNumber")
      else readU (7 - n) >>= fun v => readNumberTail (n - 1) v >>= fun x => pure (x, n)) := by
  funext b
  simp only [readNumber, bind, P.bind]
  cases readUnary0 b with
  | error e => rfl
  | ok v =>
    obtain ⟨n, b1⟩ := v
    punf
    split
    · punf
      cases readU 7 b1 with
      | error e => rfl
      | ok w => rfl
    · split
      · rfl
      · punf
        cases readU (7 - n) b1 with
        | error e => rfl
        | ok w =>
          obtain ⟨v, b2⟩ := w
          punf
          cases readNumberTail (n - 1) v b2 with
          | error e => rfl
          | ok u => rfl

theorem local_readNumber : Local readNumber := by
  rw [readNumber_eq]
  refine local_bind local_readUnary0 (fun n => local_ite ?_ (local_ite (local_fail _) ?_))
  · exact local_bind (local_readU 7) (fun v => local_pure _)
  · exact local_bind (local_readU _) (fun v => local_bind (local_readNumberTail _ _) (fun x => local_pure _))

theorem local_readHeaderFields (si : Option SInfo) : Local (readHeaderFields si) := by
  unfold readHeaderFields
  repeat' (first
    | exact local_readU _
    | exact local_readBit
    | exact local_readNumber
    | exact local_pure _
    | exact local_fail _
    | apply local_bind
    | apply local_ite
    | intro _)


/-! ### whole frames over bytes -/

theorem bytesToBits_append (a b : List Nat) : bytesToBits (a ++ b) = bytesToBits a ++ bytesToBits b := by
  simp [bytesToBits, List.flatMap_append]

theorem bytesToBits_length (a : List Nat) : (bytesToBits a).length = 8 * a.length := by
  induction a with
  | nil => rfl
  | cons x r ih =>
    simp only [bytesToBits, List.flatMap_cons, List.length_append, byteToBits, natToBits_length, List.length_cons] at ih ⊢
    omega


theorem suf_len {α} {p : P α} (hp : Local p) {b : Bits} {a : α} {r : Bits} (h : p b = .ok (a, r)) : r.length ≤ b.length := by
  obtain ⟨t, e⟩ := hp.suf b a r h
  rw [e]; simp

/-- byte arithmetic shared by the two frame-level theorems: appending whole bytes to the input
    leaves "bytes consumed so far" and the consumed prefix unchanged -/
theorem consumed_append (bytes rest : List Nat) (r : Bits) (hr : r.length ≤ 8 * bytes.length) :
    (bytes ++ rest).length - (r ++ bytesToBits rest).length / 8 = bytes.length - r.length / 8
      ∧ (bytes ++ rest).take (bytes.length - r.length / 8) = bytes.take (bytes.length - r.length / 8) := by
  constructor
  · simp only [List.length_append, bytesToBits_length]; omega
  · exact List.take_append_of_le_length (by omega)

/-- **Frame locality (extension).**  A frame that decodes keeps decoding to the same result, with
    the same number of bytes consumed, whatever bytes follow it. -/
theorem decodeFrame_ext (p : Profile) (si : Option SInfo) (bytes : List Nat) (d : Decoded)
    (h : decodeFrame p si bytes = .ok d) (rest : List Nat) : decodeFrame p si (bytes ++ rest) = .ok d := by
  unfold decodeFrame at h ⊢
  rw [bytesToBits_append]
  cases h1 : readHeaderFields si (bytesToBits bytes) with
  | error e => rw [h1] at h; cases h
  | ok v1 =>
    obtain ⟨hd, r1⟩ := v1
    rw [h1] at h; dsimp only at h
    rw [(local_readHeaderFields si).ext _ hd r1 _ h1]; dsimp only
    have l1 : r1.length ≤ 8 * bytes.length := by
      have := suf_len (local_readHeaderFields si) h1; rwa [bytesToBits_length] at this
    obtain ⟨c1, c2⟩ := consumed_append bytes rest r1 l1
    cases h2 : checkStreaminfo si hd with
    | error e => rw [h2] at h; cases h
    | ok u =>
      rw [h2] at h; dsimp only at h ⊢
      rw [c1, c2]
      split at h
      · cases h
      rename_i hc8
      rw [if_neg hc8]
      split at h
      · cases h
      rename_i hb
      rw [if_neg hb]
      cases h3 : decSubframes p hd.assign hd.blockSize hd.bps hd.assign.count 0 r1 with
      | error e => rw [h3] at h; cases h
      | ok v3 =>
        obtain ⟨chs, r2⟩ := v3
        rw [h3] at h; dsimp only at h
        rw [(local_decSubframes p _ _ _ _ _).ext _ chs r2 _ h3]; dsimp only
        have l2 : r2.length ≤ r1.length := suf_len (local_decSubframes p _ _ _ _ _) h3
        cases h4 : recorrelate p hd.assign hd.bps chs with
        | error e => rw [h4] at h; cases h
        | ok out =>
          rw [h4] at h; dsimp only at h ⊢
          have hmod : (r2 ++ bytesToBits rest).length % 8 = r2.length % 8 := by
            simp only [List.length_append, bytesToBits_length]; omega
          have hdrop : (r2 ++ bytesToBits rest).drop (r2.length % 8) = r2.drop (r2.length % 8) ++ bytesToBits rest :=
            List.drop_append_of_le_length (Nat.mod_le _ _)
          rw [hmod, hdrop]
          cases h5 : readU 16 (r2.drop (r2.length % 8)) with
          | error e => rw [h5] at h; cases h
          | ok v5 =>
            obtain ⟨c16, r3⟩ := v5
            rw [h5] at h; dsimp only at h
            rw [(local_readU 16).ext _ c16 r3 _ h5]; dsimp only
            have l3 : r3.length ≤ 8 * bytes.length := by
              have := suf_len (local_readU 16) h5
              simp only [List.length_drop] at this
              omega
            obtain ⟨e1, e2⟩ := consumed_append bytes rest r3 l3
            rw [e1, e2]
            exact h


theorem parseHeaderBytes_ext (si : Option SInfo) (bytes : List Nat) (v : Header × Nat × Bool)
    (h : parseHeaderBytes si bytes = .ok v) (rest : List Nat) : parseHeaderBytes si (bytes ++ rest) = .ok v := by
  unfold parseHeaderBytes at h ⊢
  rw [bytesToBits_append]
  cases h1 : readHeaderFields si (bytesToBits bytes) with
  | error e => rw [h1] at h; cases h
  | ok v1 =>
    obtain ⟨hd, r1⟩ := v1
    rw [h1] at h; dsimp only at h
    rw [(local_readHeaderFields si).ext _ hd r1 _ h1]; dsimp only
    have l1 : r1.length ≤ 8 * bytes.length := by
      have := suf_len (local_readHeaderFields si) h1; rwa [bytesToBits_length] at this
    obtain ⟨c1, c2⟩ := consumed_append bytes rest r1 l1
    rw [c1, c2]
    exact h

/-- **Frame locality (truncation).**  If `part ++ x` is a frame that decodes using all of its bytes
    and `x` is not empty, then `part` alone is reported as cut short: either already its header runs
    out of data, or the header is read and the frame body does — never another error, never a value. -/
theorem decodeFrame_cut (p : Profile) (si : Option SInfo) (part x : List Nat) (d : Decoded)
    (h : decodeFrame p si (part ++ x) = .ok d) (hused : d.used = (part ++ x).length) (hx : x ≠ []) :
    parseHeaderBytes si part = .error .eof ∨
      ((∃ hv, parseHeaderBytes si part = .ok hv) ∧ decodeFrame p si part = .error .eof) := by
  unfold decodeFrame at h
  rw [bytesToBits_append] at h
  cases h1 : readHeaderFields si (bytesToBits part ++ bytesToBits x) with
  | error e => rw [h1] at h; cases h
  | ok v1 =>
    obtain ⟨hd, r1⟩ := v1
    rw [h1] at h; dsimp only at h
    rcases (local_readHeaderFields si).pre _ _ hd r1 h1 with ⟨r1', g1, rfl⟩ | g1
    · -- the header fits in `part`
      right
      have l1 : r1'.length ≤ 8 * part.length := by
        have := suf_len (local_readHeaderFields si) g1; rwa [bytesToBits_length] at this
      obtain ⟨c1, c2⟩ := consumed_append part x r1' l1
      refine ⟨⟨(hd, part.length - r1'.length / 8, crc8Valid (crc8 (part.take (part.length - r1'.length / 8)))), by simp only [parseHeaderBytes, g1]⟩, ?_⟩
      unfold decodeFrame
      rw [g1]; dsimp only
      cases h2 : checkStreaminfo si hd with
      | error e => rw [h2] at h; cases h
      | ok u =>
        rw [h2] at h; dsimp only at h ⊢
        rw [c1, c2] at h
        split at h
        · cases h
        rename_i hc8
        rw [if_neg hc8]
        split at h
        · cases h
        rename_i hb
        rw [if_neg hb]
        cases h3 : decSubframes p hd.assign hd.blockSize hd.bps hd.assign.count 0 (r1' ++ bytesToBits x) with
        | error e => rw [h3] at h; cases h
        | ok v3 =>
          obtain ⟨chs, r2⟩ := v3
          rw [h3] at h; dsimp only at h
          rcases (local_decSubframes p _ _ _ _ _).pre _ _ chs r2 h3 with ⟨r2', g3, rfl⟩ | g3
          · rw [g3]; dsimp only
            cases h4 : recorrelate p hd.assign hd.bps chs with
            | error e => rw [h4] at h; cases h
            | ok out =>
              rw [h4] at h; dsimp only at h ⊢
              have hmod : (r2' ++ bytesToBits x).length % 8 = r2'.length % 8 := by
                simp only [List.length_append, bytesToBits_length]; omega
              have hdrop : (r2' ++ bytesToBits x).drop (r2'.length % 8) = r2'.drop (r2'.length % 8) ++ bytesToBits x :=
                List.drop_append_of_le_length (Nat.mod_le _ _)
              rw [hmod, hdrop] at h
              cases h5 : readU 16 (r2'.drop (r2'.length % 8) ++ bytesToBits x) with
              | error e => rw [h5] at h; cases h
              | ok v5 =>
                obtain ⟨c16, r3⟩ := v5
                rw [h5] at h; dsimp only at h
                rcases (local_readU 16).pre _ _ c16 r3 h5 with ⟨r3', g5, rfl⟩ | g5
                · -- the whole frame would fit in `part`: impossible, all of `part ++ x` was used
                  exfalso
                  split at h
                  · cases h
                  · cases h
                    simp only [List.length_append, bytesToBits_length] at hused
                    have : 0 < x.length := List.length_pos_iff.mpr hx
                    have l3 : r3'.length ≤ 8 * part.length := by
                      have := suf_len (local_readU 16) g5
                      have l2 : r2'.length ≤ r1'.length := suf_len (local_decSubframes p _ _ _ _ _) g3
                      simp only [List.length_drop] at this
                      omega
                    omega
                · rw [g5]
          · rw [g3]
    · -- the header itself is cut
      left
      simp only [parseHeaderBytes, g1]

end Flac
