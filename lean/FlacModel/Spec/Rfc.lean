/-
  Spec/Rfc.lean — L0: RFC 9639 frame semantics, written from the RFC and sharing nothing with the
  crate except the syntax tree and the primitive bit readers.  Arithmetic is exact (`Int`).
  Section numbers refer to RFC 9639.

  `specDecode` is the *independent strict decoder* used as oracle by C02/C03/C05:
  parse with the RFC partition layout, check every MUST (`frameWf`), both checksums with bit-serial
  CRCs (no tables), reconstruct samples with exact integer arithmetic and check that they fit.
-/
import FlacModel.Model.Frame

namespace Flac.Spec
open Flac

/-! ### CRCs as bit-serial LFSRs (§9.1.8: x⁸+x²+x+1; §9.3: x¹⁶+x¹⁵+x²+1), MSB first, zero init -/

def crcStep (width poly : Nat) (c : Nat) (bit : Bool) : Nat :=
  if (c / 2 ^ (width - 1) % 2 == 1) != bit then (Nat.xor ((c * 2) % 2 ^ width) poly) else (c * 2) % 2 ^ width

def crcBits (width poly : Nat) (bits : Bits) : Nat := bits.foldl (crcStep width poly) 0

def crc8 (bytes : List Nat) : Nat := crcBits 8 0x07 (bytesToBits bytes)
def crc16 (bytes : List Nat) : Nat := crcBits 16 0x8005 (bytesToBits bytes)

/-! ### partition layout (§9.2.7.1/2) -/

/-- the block size must be divisible by the partition count and the first partition must hold at
    least one residual: `(bs >> po) > order` -/
def rfcLayout : Layout := fun bs order po =>
  if bs % 2 ^ po ≠ 0 then .error (.err "InvalidPartitionOrder")
  else if bs / 2 ^ po ≤ order then .error (.err "InvalidPartitionOrder")
  else .ok ((bs / 2 ^ po - order) :: List.replicate (2 ^ po - 1) (bs / 2 ^ po))

/-! ### well-formedness beyond what the grammar enforces -/

/-- residuals are 32-bit signed excluding the most negative value (§9.2.7.3) -/
def residualOk (r : Int) : Bool := decide (-(2147483648 : Int) < r) && decide (r < 2147483648)

def partitionOk (pbits : Nat) : Partition → Bool
  | .rice k rs => decide (k < 2 ^ pbits - 1) && rs.all residualOk
  | .escaped w rs => decide (1 ≤ w) && decide (w ≤ 31) && rs.all (fun r => residualOk r && fitsS w r)
  | .zero _ => true

def residualWf (r : Residual) : Bool :=
  decide (r.method ≤ 1) && decide (r.parts.length = 2 ^ r.order) && r.parts.all (partitionOk (4 + r.method))

def subframeWf (bs bps : Nat) (s : Subframe) : Bool :=
  decide (s.wasted < bps) &&
  (match s.body with
   | .constant v => fitsS (bps - s.wasted) v
   | .verbatim xs => decide (xs.length = bs) && xs.all (fitsS (bps - s.wasted))
   | .fixed o warm res =>
       decide (o ≤ 4) && decide (o ≤ bs) && decide (warm.length = o) && warm.all (fitsS (bps - s.wasted))
         && residualWf res && decide (res.residuals.length + o = bs)
   | .lpc o warm prec shift coefs res =>
       decide (1 ≤ o) && decide (o ≤ 32) && decide (o ≤ bs) && decide (warm.length = o) && warm.all (fitsS (bps - s.wasted))
         && decide (1 ≤ prec) && decide (prec ≤ 15) && decide (shift ≤ 15) && decide (coefs.length = o) && coefs.all (fitsS prec)
         && residualWf res && decide (res.residuals.length + o = bs))

def subframesWf (a : Assign) (bs bps : Nat) : List Subframe → Nat → Bool
  | [], _ => true
  | s :: ss, i => subframeWf bs (subBps a bps i) s && subframesWf a bs bps ss (i + 1)

def headerWf (h : Header) : Bool :=
  !h.reserved2 && decide (1 ≤ h.blockSize) && decide (h.blockSize ≤ 65535)
    && decide (4 ≤ h.bps) && decide (h.bps ≤ 32)
    && decide (1 ≤ h.assign.count) && decide (h.assign.count ≤ 8)
    && decide (h.number < 2 ^ 36)

def frameWf (f : Frame) : Bool :=
  headerWf f.hdr && decide (f.subs.length = f.hdr.assign.count)
    && subframesWf f.hdr.assign f.hdr.blockSize f.hdr.bps f.subs 0
    && f.padding.all (fun b => !b)

/-! ### sample reconstruction, exact (§9.2.5, §9.2.6, §9.2.2 wasted bits, §9.1.3 stereo) -/

def dot : List Int → List Int → Int
  | x :: xs, c :: cs => x * c + dot xs cs
  | _, _ => 0

/-- `hist` most recent first; prediction = ⌊Σ cᵢ·x₍ₙ₋₁₋ᵢ₎ / 2^shift⌋ -/
def restore (coefs : List Int) (shift : Nat) : List Int → List Int → List Int
  | hist, [] => hist.reverse
  | hist, r :: rs => restore coefs shift ((r + dot hist coefs / 2 ^ shift) :: hist) rs

def fixedCoefs : Nat → List Int
  | 0 => []
  | 1 => [1]
  | 2 => [2, -1]
  | 3 => [3, -3, 1]
  | _ => [4, -6, 4, -1]

def subframeSamples (bs : Nat) (s : Subframe) : List Int :=
  (match s.body with
   | .constant v => List.replicate bs v
   | .verbatim xs => xs
   | .fixed o warm res => restore (fixedCoefs o) 0 warm.reverse res.residuals
   | .lpc _ warm _ shift coefs res => restore coefs shift warm.reverse res.residuals).map (· * 2 ^ s.wasted)

/-- undo stereo decorrelation (§9.1.3); `Int` `/` and `%` are floor division / non-negative
    remainder, i.e. arithmetic shift and the low bit of the two's-complement side sample -/
def undoStereo (a : Assign) (chs : List (List Int)) : List (List Int) :=
  match a, chs with
  | .leftSide, [left, side] => [left, List.zipWith (fun l s => l - s) left side]
  | .sideRight, [side, right] => [List.zipWith (fun s r => s + r) side right, right]
  | .midSide, [mid, side] =>
      [List.zipWith (fun m s => (2 * m + s % 2 + s) / 2) mid side,
       List.zipWith (fun m s => (2 * m + s % 2 - s) / 2) mid side]
  | _, _ => chs

def frameSubSamples (f : Frame) : List (List Int) := f.subs.map (subframeSamples f.hdr.blockSize)

def frameSamples (f : Frame) : List (List Int) := undoStereo f.hdr.assign (frameSubSamples f)

/-- every decoded subframe fits its own depth and every output sample fits the frame's depth -/
def frameSamplesFit (f : Frame) : Bool :=
  (List.zip (frameSubSamples f) (List.range f.subs.length)).all (fun (xs, i) => xs.all (fitsS (subBps f.hdr.assign f.hdr.bps i)))
    && (frameSamples f).all (fun xs => xs.all (fitsS f.hdr.bps))

structure Decoded where
  frame : Frame
  channels : List (List Int)
  used : Nat
deriving Repr

/-- the independent strict decoder -/
def specDecode (si : Option SInfo) (bytes : List Nat) : Res Decoded :=
  match parseFrame rfcLayout false si bytes false with
  | .error e => .error e
  | .ok p =>
    if crc8 (bytes.take p.hdrUsed) != 0 then .error (.err "Crc8Mismatch")
    else if !frameWf p.frame then .error (.err "SpecNotWellFormed")
    else if crc16 (bytes.take p.used) != 0 then .error (.err "Crc16Mismatch")
    else if !frameSamplesFit p.frame then .error (.err "SpecSamplesDoNotFit")
    else .ok { frame := p.frame, channels := frameSamples p.frame, used := p.used }

/-- serialize with the specification's own CRCs -/
def serialize (f : Frame) : List Nat := f.serializeWith crc8 crc16

end Flac.Spec
