/-
  Model/Cuesheet.lean — CUESHEET blocks (metadata/mod.rs:2789-3738, metadata/cuesheet.rs):
  values and their type invariants, the binary reader and writer, the text importer
  (`Cuesheet::parse`), the text export (`Cuesheet::display`) and the range accessors.
  Limits and fix-shaped facts come from `Gen/Meta.lean`.
-/
import FlacModel.Model.Metadata
import FlacModel.Model.Machine
import FlacModel.Gen.Meta

namespace Flac
open Flac.Gen

structure CIndex where
  offset : Nat              -- relative to the track's offset
  number : Nat
deriving Repr, DecidableEq, Inhabited

structure CTrack where
  offset : Nat
  number : Nat
  isrc : List Nat           -- [] = none, else the stored (dash-free) text
  nonAudio : Bool
  preEmph : Bool
  points : List CIndex
deriving Repr, DecidableEq, Inhabited

structure CLead where
  offset : Nat
  isrc : List Nat
  nonAudio : Bool
  preEmph : Bool
deriving Repr, DecidableEq, Inhabited

structure Cue where
  cdda : Bool
  catalog : List Nat        -- ASCII digits
  leadIn : Nat              -- CD-DA only (0 otherwise)
  tracks : List CTrack
  lead : CLead
deriving Repr, DecidableEq, Inhabited

def u64Max : Nat := 2 ^ 64 - 1

/-! ### type invariants (what the public constructors admit) -/

def isDigit (b : Nat) : Bool := 48 ≤ b && b ≤ 57
def isAlpha (b : Nat) : Bool := (65 ≤ b && b ≤ 90) || (97 ≤ b && b ≤ 122)
def isAlnum (b : Nat) : Bool := isDigit b || isAlpha b

/-- `ISRCString::from_str` on a dash-free text -/
def isrcPattern (s : List Nat) : Bool :=
  s.length ≥ 7 && (s.take 2).all isAlpha && ((s.drop 2).take 3).all isAlnum && ((s.drop 5).take 2).all isDigit
    && (s.drop 7).all isDigit && (!cueIsrcExact || s.length == 12)

/-- `ISRC::from_str`: strip dashes, then match; the stored text is the stripped one -/
def isrcFromStr (s : List Nat) : Option (List Nat) :=
  if isrcPattern (s.filter (· != 45)) then some (s.filter (· != 45)) else none

def isrcOk (s : List Nat) : Bool := s.isEmpty || isrcPattern s

/-- `Adjacent for Index<O>` over a whole list (`Contiguous`) -/
def indexChain : Option CIndex → List CIndex → Bool
  | _, [] => true
  | none, i :: r => i.offset == 0 && (i.number == 0 || i.number == 1) && indexChain (some i) r
  | some p, i :: r => decide (i.offset > p.offset) && i.number == p.number + 1 && indexChain (some i) r

/-- `IndexVec::try_from(Contiguous)` succeeds -/
def indexVecOk (max : Nat) (pts : List CIndex) : Bool :=
  pts.length ≤ max && indexChain none pts &&
  (match pts with
   | [] => false
   | i :: r => if i.number == 0 then (match r with | j :: _ => j.number == 1 | [] => false) else i.number == 1)

/-- `IndexVec::last`: the offset of the final index point -/
def lastIndexOffset (t : CTrack) : Nat :=
  match t.points.getLast? with
  | some i => i.offset
  | none => 0

/-- offset of `INDEX 01` (`IndexVec::start`) -/
def startOffset (t : CTrack) : Nat :=
  match t.points with
  | i :: r => if i.number == 0 then (match r with | j :: _ => j.offset | [] => 0) else i.offset
  | [] => 0

/-- `Adjacent for Track` over a whole list -/
def trackChain : Option CTrack → List CTrack → Bool
  | _, [] => true
  | none, t :: r => t.offset == 0 && t.number == 1 && trackChain (some t) r
  | some p, t :: r => t.number == p.number + 1 && decide (t.offset > lastIndexOffset p) && trackChain (some t) r

def trackOk (cdda : Bool) (t : CTrack) : Bool :=
  1 ≤ t.number && t.number ≤ 255 && t.offset ≤ u64Max && isrcOk t.isrc
    && indexVecOk (if cdda then cueCddaIndexMax else cueNonCddaIndexMax) t.points
    && t.points.all (fun i => i.offset ≤ u64Max && i.number ≤ 255 && (!cdda || i.offset % cueSector == 0))
    && (!cdda || t.offset % cueSector == 0)

/-- the values constructible through the public API -/
def Cue.wf (c : Cue) : Bool :=
  c.catalog.all isDigit
    && (if c.cdda then (c.catalog.isEmpty || c.catalog.length == 13) && c.leadIn ≤ u64Max else c.leadIn == 0)
    && c.tracks.length ≤ (if c.cdda then cueCddaTrackMax else cueNonCddaTrackMax)
    && trackChain none c.tracks && c.tracks.all (trackOk c.cdda)
    && c.lead.offset ≤ u64Max && isrcOk c.lead.isrc && (!c.cdda || c.lead.offset % cueSector == 0)

/-! ### writer -/

def beBytes : Nat → Nat → List Nat
  | 0, _ => []
  | n+1, v => beBytes n (v / 256) ++ [v % 256]

def padTo (n : Nat) (bs : List Nat) : List Nat := bs.take n ++ List.replicate (n - bs.length) 0

def flagsByte (na pe : Bool) : Nat := (if na then 128 else 0) + (if pe then 64 else 0)

def indexBytes (i : CIndex) : List Nat := beBytes 8 i.offset ++ [i.number, 0, 0, 0]

def trackBytes (t : CTrack) : List Nat :=
  beBytes 8 t.offset ++ [t.number] ++ padTo 12 t.isrc ++ [flagsByte t.nonAudio t.preEmph] ++ List.replicate 13 0
    ++ [t.points.length] ++ t.points.flatMap indexBytes

def leadBytes (cdda : Bool) (l : CLead) : List Nat :=
  beBytes 8 l.offset ++ [if cdda then cueLeadOutCdda else cueLeadOutNonCdda] ++ padTo 12 l.isrc
    ++ [flagsByte l.nonAudio l.preEmph] ++ List.replicate 13 0 ++ [0]

/-- `ToBitStream for Cuesheet`.  `.err` = the writer refuses (`InvalidCatalogNumber`);
    `.panic` = one of its `u8::try_from(..).unwrap()` count conversions fails. -/
def cueBytes (c : Cue) : Res (List Nat) :=
  if !c.cdda && cueCatalogChecked && c.catalog.length > cueCatalogLen then .error (.err "InvalidCatalogNumber")
  else if c.tracks.length + 1 > 255 then .error (.panic "Cuesheet::to_writer: u8::try_from(tracks.len() + 1).unwrap()")
  else if c.tracks.any (fun t => t.points.length > 255) then .error (.panic "Track::to_writer: index_points.len().try_into().unwrap()")
  else .ok (padTo cueCatalogLen c.catalog ++ beBytes 8 (if c.cdda then c.leadIn else 0) ++ [if c.cdda then 128 else 0]
    ++ List.replicate 258 0 ++ [c.tracks.length + 1] ++ c.tracks.flatMap trackBytes ++ leadBytes c.cdda c.lead)

/-! ### reader -/

def takeBytes (n : Nat) (b : List Nat) : Res (List Nat × List Nat) :=
  if b.length < n then .error .eof else .ok (b.take n, b.drop n)

def trimNulls (b : List Nat) : List Nat := (b.reverse.dropWhile (· == 0)).reverse

/-- 12 ISRC bytes: all zero = none; else must be UTF-8 text accepted by `ISRC::from_str`.
    (12 bytes matching the pattern are ASCII, so UTF-8 validity is implied by the pattern for
    the accepted inputs; a rejected input is rejected either way.) -/
def readIsrc (b : List Nat) : Res (List Nat) :=
  if b.all (· == 0) then .ok []
  else match isrcFromStr b with
    | some s => .ok s
    | none => .error (.err "InvalidISRC")

def readIndexes (cdda : Bool) : Nat → List Nat → Res (List CIndex × List Nat)
  | 0, b => .ok ([], b)
  | n+1, b =>
    match takeBytes 8 b with
    | .error e => .error e
    | .ok (off, r0) =>
      if cdda && beNat off % cueSector != 0 then .error (.err "InvalidCDDAOffset") else
      match takeBytes 1 r0 with
      | .error e => .error e
      | .ok (num, r1) =>
        match takeBytes 3 r1 with
        | .error e => .error e
        | .ok (_, r) =>
          match readIndexes cdda n r with
          | .error e => .error e
          | .ok (is, r2) => .ok ({ offset := beNat off, number := num.headD 0 } :: is, r2)

def readTrack (cdda : Bool) (b : List Nat) : Res (CTrack × List Nat) :=
  match takeBytes 8 b with
  | .error e => .error e
  | .ok (off, r0) =>
    if cdda && beNat off % cueSector != 0 then .error (.err "InvalidCDDAOffset") else
    match takeBytes 1 r0 with
    | .error e => .error e
    | .ok (num, r1) =>
      if num.headD 0 == 0 then .error (.err "InvalidIndexPoint") else
      match takeBytes 12 r1 with
      | .error e => .error e
      | .ok (ib, r2) =>
        match readIsrc ib with
        | .error e => .error e
        | .ok isrc =>
          match takeBytes 1 r2 with
          | .error e => .error e
          | .ok (fl, r3) =>
            match takeBytes 13 r3 with
            | .error e => .error e
            | .ok (_, r4) =>
              match takeBytes 1 r4 with
              | .error e => .error e
              | .ok (cnt, r5) =>
                match readIndexes cdda (cnt.headD 0) r5 with
                | .error e => .error e
                | .ok (pts, r6) =>
                  if !indexVecOk (if cdda then cueCddaIndexMax else cueNonCddaIndexMax) pts then .error (.err "IndexPointsOutOfSequence") else
                  .ok ({ offset := beNat off, number := num.headD 0, isrc, nonAudio := fl.headD 0 / 128 == 1,
                         preEmph := fl.headD 0 / 64 % 2 == 1, points := pts }, r6)

def readTracks (cdda : Bool) : Nat → List Nat → Res (List CTrack × List Nat)
  | 0, b => .ok ([], b)
  | n+1, b =>
    match readTrack cdda b with
    | .error e => .error e
    | .ok (t, r) =>
      match readTracks cdda n r with
      | .error e => .error e
      | .ok (ts, r2) => .ok (t :: ts, r2)

def readLead (cdda : Bool) (b : List Nat) : Res (CLead × List Nat) :=
  match takeBytes 8 b with
  | .error e => .error e
  | .ok (off, r0) =>
    if cdda && beNat off % cueSector != 0 then .error (.err "InvalidCDDAOffset") else
    match takeBytes 1 r0 with
    | .error e => .error e
    | .ok (num, r1) =>
      if num.headD 0 != (if cdda then cueLeadOutCdda else cueLeadOutNonCdda) then .error (.err "TracksOutOfSequence") else
      match takeBytes 12 r1 with
      | .error e => .error e
      | .ok (ib, r2) =>
        match readIsrc ib with
        | .error e => .error e
        | .ok isrc =>
          match takeBytes 1 r2 with
          | .error e => .error e
          | .ok (fl, r3) =>
            match takeBytes 13 r3 with
            | .error e => .error e
            | .ok (_, r4) =>
              match takeBytes 1 r4 with
              | .error e => .error e
              | .ok (cnt, r5) =>
                if cnt.headD 0 != 0 then .error (.err "IndexPointsInLeadout") else
                .ok ({ offset := beNat off, isrc, nonAudio := fl.headD 0 / 128 == 1, preEmph := fl.headD 0 / 64 % 2 == 1 }, r5)

/-- catalog number field: trailing NULs trimmed, digits only, CD-DA: empty or exactly 13 -/
def readCatalog (cdda : Bool) (field : List Nat) : Res (List Nat) :=
  if !(trimNulls field).all isDigit then .error (.err "InvalidCatalogNumber")
  else if cdda && !((trimNulls field).isEmpty || (trimNulls field).length == 13) then .error (.err "InvalidCatalogNumber")
  else .ok (trimNulls field)

/-- `FromBitStream for Cuesheet`: the value and the unread rest -/
def parseCue (b : List Nat) : Res (Cue × List Nat) :=
  match takeBytes cueCatalogLen b with
  | .error e => .error e
  | .ok (catf, r0) =>
    match takeBytes 8 r0 with
    | .error e => .error e
    | .ok (li, r1) =>
      match takeBytes 1 r1 with
      | .error e => .error e
      | .ok (fl, r2) =>
        match takeBytes 258 r2 with
        | .error e => .error e
        | .ok (_, r3) =>
          match takeBytes 1 r3 with
          | .error e => .error e
          | .ok (cnt, r) =>
            match readCatalog (fl.headD 0 / 128 == 1) catf with
            | .error e => .error e
            | .ok cat =>
              if cnt.headD 0 == 0 || ((fl.headD 0 / 128 == 1) && cnt.headD 0 - 1 > cueCddaReadTrackLimit) then .error (.err "NoTracks") else
              match readTracks (fl.headD 0 / 128 == 1) (cnt.headD 0 - 1) r with
              | .error e => .error e
              | .ok (ts, r2) =>
                if !(ts.length ≤ (if fl.headD 0 / 128 == 1 then cueCddaTrackMax else cueNonCddaTrackMax) && trackChain none ts) then .error (.err "TracksOutOfSequence") else
                match readLead (fl.headD 0 / 128 == 1) r2 with
                | .error e => .error e
                | .ok (l, r3) =>
                  .ok ({ cdda := fl.headD 0 / 128 == 1, catalog := cat, leadIn := if fl.headD 0 / 128 == 1 then beNat li else 0, tracks := ts, lead := l }, r3)

/-! ### accessors -/

def satAdd (a b : Nat) : Nat := min (a + b) u64Max
def satMul (a b : Nat) : Nat := min (a * b) u64Max

/-- a u64 operation at a site that saturates (fixed code) or traps/wraps (original code) -/
def accAdd (p : Profile) (a b : Nat) : Res Nat :=
  if cueAccessorsSaturate then .ok (satAdd a b)
  else match addU p 64 "cuesheet accessor: +" a b with | .ok v => .ok v.toNat | .error e => .error e

def accMul (p : Profile) (a b : Nat) : Res Nat :=
  if cueAccessorsSaturate then .ok (satMul a b)
  else match mulU p 64 "cuesheet accessor: *" a b with | .ok v => .ok v.toNat | .error e => .error e

def mapRes (f : α → Res β) : List α → Res (List β)
  | [] => .ok []
  | a :: r => match f a with
    | .error e => .error e
    | .ok b => match mapRes f r with
      | .error e => .error e
      | .ok bs => .ok (b :: bs)

/-- `track_offsets` -/
def trackOffsets (p : Profile) (c : Cue) : Res (List Nat) :=
  match mapRes (fun t => accAdd p t.offset (startOffset t)) c.tracks with
  | .error e => .error e
  | .ok os => .ok (os ++ [c.lead.offset])

def pairUp : List Nat → List (Nat × Nat)
  | a :: b :: r => (a, b) :: pairUp (b :: r)
  | _ => []

/-- `track_sample_ranges` -/
def trackRanges (p : Profile) (c : Cue) : Res (List (Nat × Nat)) :=
  match trackOffsets p c with
  | .error e => .error e
  | .ok os => .ok (pairUp os)

/-- `track_byte_ranges(channels, bps)` -/
def trackByteRanges (p : Profile) (c : Cue) (channels bps : Nat) : Res (List (Nat × Nat)) :=
  match trackRanges p c with
  | .error e => .error e
  | .ok rs => mapRes (fun (r : Nat × Nat) =>
      match accMul p r.1 (channels * ((bps + 7) / 8)) with
      | .error e => .error e
      | .ok a => match accMul p r.2 (channels * ((bps + 7) / 8)) with
        | .error e => .error e
        | .ok b => .ok (a, b)) rs

/-! ### text export -/

def natDigits : Nat → Nat → List Nat
  | 0, _ => []
  | fuel+1, n => if n < 10 then [48 + n] else natDigits fuel (n / 10) ++ [48 + n % 10]

def decimal (n : Nat) : List Nat := natDigits (n + 1) n
def decimal2 (n : Nat) : List Nat := if n < 10 then 48 :: decimal n else decimal n

def str (s : String) : List Nat := s.toUTF8.toList.map (·.toNat)

/-- `Timestamp::from(offset)` rendered `{:02}:{:02}:{:02}` -/
def timestamp (offset : Nat) : List Nat :=
  let frames := offset / cueSector
  decimal2 (frames / cueFramesPerSecond / cueSecondsPerMinute) ++ [58] ++ decimal2 (frames / cueFramesPerSecond % cueSecondsPerMinute)
    ++ [58] ++ decimal2 (frames % cueFramesPerSecond)

/-- `Cuesheet::display(filename)` -/
def cueDisplay (p : Profile) (c : Cue) (filename : List Nat) : Res (List Nat) :=
  match mapRes (fun (t : CTrack) =>
      match mapRes (fun (i : CIndex) =>
          match accAdd p i.offset t.offset with
          | .error e => .error e
          | .ok o => .ok (str "    INDEX " ++ decimal2 i.number ++ [32] ++ timestamp o ++ [10])) t.points with
      | .error e => .error e
      | .ok ls => .ok (str "  TRACK " ++ decimal t.number ++ [32] ++ (if t.nonAudio then str "NON_AUDIO" else str "AUDIO") ++ [10] ++ ls.flatten)) c.tracks with
  | .error e => .error e
  | .ok ts => .ok (str "FILE \"" ++ filename ++ str "\" FLAC" ++ [10] ++ ts.flatten)

/-! ### text import (`Cuesheet::parse`) -/

/-- `char::is_whitespace` -/
def isWs (c : Char) : Bool :=
  let v := c.val.toNat
  (9 ≤ v && v ≤ 13) || v == 32 || v == 0x85 || v == 0xA0 || v == 0x1680 || (0x2000 ≤ v && v ≤ 0x200A)
    || v == 0x2028 || v == 0x2029 || v == 0x202F || v == 0x205F || v == 0x3000

def trimChars (l : List Char) : List Char := ((l.dropWhile isWs).reverse.dropWhile isWs).reverse

def splitOnChar (c : Char) : List Char → List (List Char)
  | [] => [[]]
  | x :: r => if x == c then [] :: splitOnChar c r
              else match splitOnChar c r with
                | h :: t => (x :: h) :: t
                | [] => [[x]]

/-- `str::split_once(c)` -/
def splitOnce (c : Char) (l : List Char) : Option (List Char × List Char) :=
  if l.contains c then some (l.takeWhile (· != c), (l.dropWhile (· != c)).drop 1) else none

def digitsVal : List Char → Option Nat
  | [] => none
  | l => if l.all (fun c => c.isDigit) then some (l.foldl (fun a c => a * 10 + (c.toNat - 48)) 0) else none

/-- `uN::from_str`: optional `+`, at least one ASCII digit, value below `2^bits` -/
def parseUnsigned (bits : Nat) (l : List Char) : Option Nat :=
  match digitsVal (match l with | '+' :: r => r | _ => l) with
  | some v => if v < 2 ^ bits then some v else none
  | none => none

/-- `unquote` -/
def unquote (l : List Char) : List Char :=
  if l.length > 1 && l.head? == some '"' && l.getLast? == some '"' then (l.drop 1).dropLast else l

/-- `CDDAOffset::from_str` -/
def parseMsf (p : Profile) (l : List Char) : Res (Option Nat) :=
  match splitOnce ':' l with
  | none => .ok none
  | some (mm, rest) =>
    match splitOnce ':' rest with
    | none => .ok none
    | some (ss, ff) =>
      match parseUnsigned 64 ff with
      | none => .ok none
      | some f => if f ≥ cueFramesPerSecond then .ok none else
        match parseUnsigned 64 ss with
        | none => .ok none
        | some sec => if sec ≥ cueSecondsPerMinute then .ok none else
          match parseUnsigned 64 mm with
          | none => .ok none
          | some m =>
            if cueOffsetChecked then
              (if (f + sec * cueFramesPerSecond + m * (cueFramesPerSecond * cueSecondsPerMinute)) * cueSector ≤ u64Max
               then .ok (some ((f + sec * cueFramesPerSecond + m * (cueFramesPerSecond * cueSecondsPerMinute)) * cueSector)) else .ok none)
            else
              match mulU p 64 "CDDAOffset::from_str: mm * 75" m cueFramesPerSecond with
              | .error e => .error e
              | .ok a => match mulU p 64 "CDDAOffset::from_str: * 60" a cueSecondsPerMinute with
                | .error e => .error e
                | .ok b => match addU p 64 "CDDAOffset::from_str: +" (f + sec * cueFramesPerSecond) b with
                  | .error e => .error e
                  | .ok c => match mulU p 64 "CDDAOffset::from_str: * 588" c cueSector with
                    | .error e => .error e
                    | .ok d => .ok (some d.toNat)

/-- one classified line -/
inductive Tok
  | catalogMissing
  | catalog (digits : Option (List Nat))       -- none = not a valid catalog number for this mode
  | track (number : Option Nat)
  | index (number offset : Option Nat)         -- none = did not parse
  | isrc (code : Option (List Nat))
  | flagsPre
  | other
  | trap (f : Fail)                            -- arithmetic trap while converting (original code only)
deriving Repr, Inhabited

def utf8Of (l : List Char) : List Nat := (String.ofList l).toUTF8.toList.map (·.toNat)

/-- the arguments of an `INDEX` line -/
def classifyIndex (p : Profile) (cdda : Bool) (rest : List Char) : Tok :=
  match splitOnce ' ' rest with
  | none => .index none none
  | some (n, o) =>
    match parseUnsigned 8 n with
    | none => .index none none
    | some nv =>
      if cdda then
        match parseMsf p o with
        | .error e => .trap e
        | .ok ov => .index (some nv) ov
      else .index (some nv) (parseUnsigned 64 o)

def classify (p : Profile) (cdda : Bool) (line : List Char) : Tok :=
  let line := trimChars line
  let (cmd, rest) := (splitOnce ' ' line).getD (line, [])
  if cmd == "CATALOG".toList then
    if rest.isEmpty then .catalogMissing else
    let d := unquote rest
    if d.all (fun c => c.isDigit) && (if cdda then d.length == 13 else d.length ≤ cueCatalogLen) then .catalog (some (d.map (·.toNat))) else .catalog none
  else if cmd == "TRACK".toList then
    match splitOnce ' ' rest with
    | none => .track none
    | some (n, _) => match parseUnsigned 8 n with
      | some v => if v == 0 then .track none else .track (some v)
      | none => .track none
  else if cmd == "INDEX".toList then classifyIndex p cdda rest
  else if cmd == "ISRC".toList then .isrc (isrcFromStr (utf8Of (unquote rest)))
  else if cmd == "FLAGS".toList && rest == "PRE".toList then .flagsPre
  else .other

structure Wip where
  number : Nat
  offset : Option Nat := none
  isrc : List Nat := []
  preEmph : Bool := false
  points : List CIndex := []
deriving Repr, Inhabited

structure PState where
  catalog : Option (List Nat) := none
  tracks : List CTrack := []
  wip : Option Wip := none
deriving Repr, Inhabited

/-- `WipTrack -> ParsedCuesheetTrack` -/
def finishWip (w : Wip) : Res CTrack :=
  match w.offset with
  | none => .error (.err "InvalidTrack")
  | some o =>
    match w.points with
    | [] => .error (.err "NoIndexPoints")
    | i :: r =>
      if (if i.number == 0 then (match r with | j :: _ => j.number == 1 | [] => false) else i.number == 1)
      then .ok { offset := o, number := w.number, isrc := w.isrc, nonAudio := false, preEmph := w.preEmph, points := w.points }
      else .error (.err "IndexPointsOutOfSequence")

/-- `Contiguous::try_push` for tracks -/
def pushTrack (max : Nat) (ts : List CTrack) (t : CTrack) : Res (List CTrack) :=
  if ts.length < max && (match ts.getLast? with
      | none => t.offset == 0 && t.number == 1
      | some p => (p.number + 1 ≤ 255 && t.number == p.number + 1) && decide (t.offset > lastIndexOffset p))
  then .ok (ts ++ [t]) else .error (.err "TracksOutOfSequence")

/-- `Contiguous::try_push` for index points (`previous.number + 1` is 8-bit arithmetic) -/
def pushIndex (p : Profile) (max : Nat) (pts : List CIndex) (i : CIndex) : Res (List CIndex) :=
  if pts.length < max then
    match pts.getLast? with
    | none => if i.offset == 0 && (i.number == 0 || i.number == 1) then .ok (pts ++ [i]) else .error (.err "IndexPointsOutOfSequence")
    | some q =>
      if i.offset > q.offset then
        match addU p 8 "Index::is_next: previous.number + 1" q.number 1 with
        | .error e => .error e
        | .ok n => if (i.number : Int) == n then .ok (pts ++ [i]) else .error (.err "IndexPointsOutOfSequence")
      else .error (.err "IndexPointsOutOfSequence")
  else .error (.err "IndexPointsOutOfSequence")

def stepTok (p : Profile) (cdda : Bool) (s : PState) (t : Tok) : Res PState :=
  let tmax := if cdda then cueCddaTrackMax else cueNonCddaTrackMax
  let imax := if cdda then cueCddaIndexMax else cueNonCddaIndexMax
  match t with
  | .trap f => .error f
  | .other => .ok s
  | .catalogMissing => .error (.err "CatalogMissingNumber")
  | .catalog d =>
    match s.catalog with
    | some _ => .error (.err "MultipleCatalogNumber")
    | none => match d with
      | none => .error (.err "InvalidCatalogNumber")
      | some ds => .ok { s with catalog := some ds }
  | .track none => .error (.err "InvalidTrack")
  | .track (some n) =>
    match s.wip with
    | none => .ok { s with wip := some { number := n } }
    | some w =>
      match finishWip w with
      | .error e => .error e
      | .ok tr =>
        match pushTrack tmax s.tracks tr with
        | .error e => .error e
        | .ok ts => .ok { s with tracks := ts, wip := some { number := n } }
  | .index none _ => .error (.err "InvalidIndexPoint")
  | .index (some _) none => .error (.err "InvalidIndexPoint")
  | .index (some n) (some o) =>
    match s.wip with
    | none => .error (.err "PrematureIndex")
    | some w =>
      match w.offset with
      | none =>
        if s.tracks.isEmpty && o != 0 then .error (.err "NonZeroFirstIndex") else
        match pushIndex p imax w.points { offset := 0, number := n } with
        | .error e => .error e
        | .ok pts => .ok { s with wip := some { w with offset := some o, points := pts } }
      | some to =>
        if cueIndexBeforeTrackIsError && o < to then .error (.err "IndexPointsOutOfSequence") else
        match subU p 64 "ParsedCuesheet::parse: offset - track_offset" o to with
        | .error e => .error e
        | .ok rel =>
          match pushIndex p imax w.points { offset := rel.toNat, number := n } with
          | .error e => .error e
          | .ok pts => .ok { s with wip := some { w with points := pts } }
  | .isrc c =>
    match s.wip with
    | none => .error (.err "PrematureISRC")
    | some w =>
      if !w.points.isEmpty then .error (.err "LateISRC")
      else if !w.isrc.isEmpty then .error (.err "MultipleISRC")
      else match c with
        | none => .error (.err "InvalidISRC")
        | some code => .ok { s with wip := some { w with isrc := code } }
  | .flagsPre =>
    match s.wip with
    | none => .error (.err "PrematureFlags")
    | some w => if !w.points.isEmpty then .error (.err "LateFlags") else .ok { s with wip := some { w with preEmph := true } }

def runToks (p : Profile) (cdda : Bool) : PState → List Tok → Res PState
  | s, [] => .ok s
  | s, t :: r => match stepTok p cdda s t with
    | .error e => .error e
    | .ok s' => runToks p cdda s' r

/-- the tail of `ParsedCuesheet::parse` and of `Cuesheet::parse` -/
def finishParse (cdda : Bool) (total : Nat) (s : PState) : Res Cue :=
  match s.wip with
  | none => .error (.err "NoTracks")
  | some w =>
    match finishWip w with
    | .error e => .error e
    | .ok tr =>
      match pushTrack (if cdda then cueCddaTrackMax else cueNonCddaTrackMax) s.tracks tr with
      | .error e => .error e
      | .ok ts =>
        if lastIndexOffset tr ≥ total then .error (.err "ShortLeadOut") else
        .ok { cdda, catalog := s.catalog.getD [], leadIn := if cdda then cueLeadIn else 0, tracks := ts,
              lead := { offset := total, isrc := [], nonAudio := false, preEmph := false } }

def interp (p : Profile) (cdda : Bool) (total : Nat) (toks : List Tok) : Res Cue :=
  match runToks p cdda {} toks with
  | .error e => .error e
  | .ok s => finishParse cdda total s

/-- `Cuesheet::parse(total_samples, text)` -/
def cueParse (p : Profile) (total : Nat) (text : List Char) : Res Cue :=
  let cdda := total % cueSector == 0
  interp p cdda total ((splitOnChar '\n' text).map (classify p cdda))

end Flac
