/-
  Model/Io.lean — a failing byte sink, `write_all`, and `std::io::BufWriter` around it (C13).
  The sink's behaviour is an arbitrary schedule: the n-th call may fail, be interrupted, or accept
  only part of what it is given.  Loops carry fuel; running out of fuel models a call that never
  returns (an endless run of `Interrupted`), which is not a success.
-/
import FlacModel.Gen.Meta

namespace Flac.Io
open Flac.Gen

/-- what the n-th call on the underlying stream does -/
inductive Ev
  | fail                -- returns an error
  | intr                -- returns ErrorKind::Interrupted
  | take (k : Nat)      -- accepts at most k+1 bytes (a flush call: succeeds)
deriving Repr, DecidableEq

structure Sink where
  data : List Nat := []
  calls : Nat := 0
deriving Repr, DecidableEq

inductive WR
  | ok (n : Nat)
  | intr
  | failed
deriving Repr, DecidableEq

/-- one `write` call on the sink -/
def sinkWrite (ev : Nat → Ev) (s : Sink) (bs : List Nat) : Sink × WR :=
  match ev s.calls with
  | .fail => ({ s with calls := s.calls + 1 }, .failed)
  | .intr => ({ s with calls := s.calls + 1 }, .intr)
  | .take k => ({ data := s.data ++ bs.take (k + 1), calls := s.calls + 1 }, .ok (min (k + 1) bs.length))

/-- one `flush` call on the sink -/
def sinkFlush (ev : Nat → Ev) (s : Sink) : Sink × Bool :=
  match ev s.calls with
  | .fail => ({ s with calls := s.calls + 1 }, false)
  | .intr => ({ s with calls := s.calls + 1 }, false)
  | .take _ => ({ s with calls := s.calls + 1 }, true)

/-- `Write::write_all` on the sink: retries `Interrupted`, continues after short writes, stops at the
    first error.  Returns the sink, what is left unwritten, and whether it succeeded. -/
def sinkWriteAll (ev : Nat → Ev) : Nat → Sink → List Nat → Sink × List Nat × Bool
  | 0, s, bs => (s, bs, bs.isEmpty)
  | fuel+1, s, bs =>
    if bs.isEmpty then (s, [], true) else
    match sinkWrite ev s bs with
    | (s', .ok n) => if n == 0 then (s', bs, false) else sinkWriteAll ev fuel s' (bs.drop n)
    | (s', .intr) => sinkWriteAll ev fuel s' bs
    | (s', .failed) => (s', bs, false)

structure BW where
  inner : Sink
  buf : List Nat := []
  cap : Nat
deriving Repr

/-- `BufWriter::flush_buf`: push the buffer to the sink; whatever was written leaves the buffer even
    when the call fails part-way -/
def flushBuf (ev : Nat → Ev) (fuel : Nat) (w : BW) : BW × Bool :=
  match sinkWriteAll ev fuel w.inner w.buf with
  | (s', rest, ok) => ({ w with inner := s', buf := rest }, ok)

/-- `BufWriter::write_all(bs)`: buffer when it fits, otherwise flush and (for large writes) pass through -/
def bwWriteAll (ev : Nat → Ev) (fuel : Nat) (w : BW) (bs : List Nat) : BW × Bool :=
  if w.buf.length + bs.length ≤ w.cap then ({ w with buf := w.buf ++ bs }, true)
  else
    match flushBuf ev fuel w with
    | (w', false) => (w', false)
    | (w', true) =>
      if bs.length < w'.cap then ({ w' with buf := w'.buf ++ bs }, true)
      else
        match sinkWriteAll ev fuel w'.inner bs with
        | (s', _, ok) => ({ w' with inner := s' }, ok)

/-- `BufWriter::flush` -/
def bwFlush (ev : Nat → Ev) (fuel : Nat) (w : BW) : BW × Bool :=
  match flushBuf ev fuel w with
  | (w', false) => (w', false)
  | (w', true) => match sinkFlush ev w'.inner with
    | (s', ok) => ({ w' with inner := s' }, ok)

/-- `Drop for BufWriter`: flush the buffer, discard the result -/
def bwDrop (ev : Nat → Ev) (fuel : Nat) (w : BW) : Sink := (flushBuf ev fuel w).1.inner

def bwWriteChunks (ev : Nat → Ev) (fuel : Nat) : BW → List (List Nat) → BW × Bool
  | w, [] => (w, true)
  | w, c :: r =>
    match bwWriteAll ev fuel w c with
    | (w', false) => (w', false)
    | (w', true) => bwWriteChunks ev fuel w' r

/-- the in-place write of `update_file`: the serialised blocks go through a `BufWriter` in whatever
    pieces the bit writer produces; `flush` = the result of an explicit `flush()` is returned
    (otherwise the writer is just dropped).  Returns the stream afterwards and the reported result. -/
def writeInPlace (flush : Bool) (ev : Nat → Ev) (fuel : Nat) (sink : Sink) (cap : Nat) (chunks : List (List Nat)) : Sink × Bool :=
  match bwWriteChunks ev fuel { inner := sink, cap := cap } chunks with
  | (w, false) => (bwDrop ev fuel w, false)
  | (w, true) =>
    if flush then
      (match bwFlush ev fuel w with
       | (w', ok) => (w'.inner, ok))
    else (bwDrop ev fuel w, true)

/-- as the current source does it -/
def writeInPlaceImpl := writeInPlace metaUpdateFlushes

/-- `write_blocks` / the encoder: pieces written straight to the stream with `?` -/
def writeDirect (ev : Nat → Ev) (fuel : Nat) : Sink → List (List Nat) → Sink × Bool
  | s, [] => (s, true)
  | s, c :: r =>
    match sinkWriteAll ev fuel s c with
    | (s', _, false) => (s', false)
    | (s', _, true) => writeDirect ev fuel s' r

end Flac.Io
