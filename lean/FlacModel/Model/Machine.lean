/-
  Model/Machine.lean — Rust machine-integer operations with the semantics of both build profiles
  (DESIGN §2.2).  Values are `Int`; `w` is the bit width; signed ops check the signed range,
  unsigned ops the unsigned range.  `release` wraps where `debug` (overflow-checks) panics.
  Casts (`as`) and shifts by an in-range amount never trap.
-/
import FlacModel.Model.Basic

namespace Flac

def fitsU (bits : Nat) (x : Int) : Bool := decide (0 ≤ x) && decide (x < (2 : Int) ^ bits)

/-- wrap into the unsigned `bits`-bit range -/
def wrapU (bits : Nat) (x : Int) : Int := x % (2 : Int) ^ bits

/-- signed result of an arithmetic op: exact if it fits, else trap/wrap by profile -/
def resS (p : Profile) (w : Nat) (site : String) (v : Int) : Res Int :=
  if fitsS w v then .ok v
  else match p with
    | .debug => .error (.panic site)
    | .release => .ok (wrapS w v)

def resU (p : Profile) (w : Nat) (site : String) (v : Int) : Res Int :=
  if fitsU w v then .ok v
  else match p with
    | .debug => .error (.panic site)
    | .release => .ok (wrapU w v)

def addS (p : Profile) (w : Nat) (site : String) (a b : Int) : Res Int := resS p w site (a + b)
def subS (p : Profile) (w : Nat) (site : String) (a b : Int) : Res Int := resS p w site (a - b)
def mulS (p : Profile) (w : Nat) (site : String) (a b : Int) : Res Int := resS p w site (a * b)
def negS (p : Profile) (w : Nat) (site : String) (a : Int) : Res Int := resS p w site (-a)
def absS (p : Profile) (w : Nat) (site : String) (a : Int) : Res Int := resS p w site (if a < 0 then -a else a)
def addU (p : Profile) (w : Nat) (site : String) (a b : Int) : Res Int := resU p w site (a + b)
def subU (p : Profile) (w : Nat) (site : String) (a b : Int) : Res Int := resU p w site (a - b)
def mulU (p : Profile) (w : Nat) (site : String) (a b : Int) : Res Int := resU p w site (a * b)

/-- `a << k`: bits shifted out are lost silently; traps only when `k ≥ w` -/
def shlS (p : Profile) (w : Nat) (site : String) (a k : Int) : Res Int :=
  if decide (0 ≤ k) && decide (k < w) then .ok (wrapS w (a * 2 ^ k.toNat))
  else match p with
    | .debug => .error (.panic site)
    | .release => .ok (wrapS w (a * 2 ^ (k % w).toNat))

def shlU (p : Profile) (w : Nat) (site : String) (a k : Int) : Res Int :=
  if decide (0 ≤ k) && decide (k < w) then .ok (wrapU w (a * 2 ^ k.toNat))
  else match p with
    | .debug => .error (.panic site)
    | .release => .ok (wrapU w (a * 2 ^ (k % w).toNat))

/-- `a >> k` (arithmetic for signed, logical for unsigned — both are floor division on `Int`
    given the operand is in range) -/
def shrX (p : Profile) (w : Nat) (site : String) (a k : Int) : Res Int :=
  if decide (0 ≤ k) && decide (k < w) then .ok (a / 2 ^ k.toNat)
  else match p with
    | .debug => .error (.panic site)
    | .release => .ok (a / 2 ^ (k % w).toNat)

/-- Rust `%` on signed integers: truncated remainder (never traps for a non-zero literal divisor
    other than -1) -/
def remS (a b : Int) : Int := Int.tmod a b

def castS (w : Nat) (a : Int) : Int := wrapS w a
def castU (w : Nat) (a : Int) : Int := wrapU w a

/-- `checked_sub` on a signed `w`-bit integer -/
def checkedSubS (w : Nat) (a b : Int) : Option Int := if fitsS w (a - b) then some (a - b) else none

end Flac
