/-
  Model/Blocks.lean — metadata blocks (metadata/mod.rs): values, body serialisation
  (`ToBitStream` impls), body parsing (`FromBitStream*` impls), the block header, and the block
  list reader/writer with their single-instance / ordering rules (`BlockIterator::next`,
  `write_blocks`).  CUESHEET bodies are modelled in `Model/Cuesheet.lean`.
-/
import FlacModel.Model.Cuesheet

namespace Flac
open Flac.Gen

structure PictureVal where
  ptype : Nat
  mime : List Nat            -- UTF-8 bytes
  desc : List Nat
  width : Nat
  height : Nat
  depth : Nat
  colors : Nat
  data : List Nat
deriving Repr, DecidableEq, Inhabited

inductive Block
  | streaminfo (si : Streaminfo)
  | padding (size : Nat)
  | application (id : Nat) (data : List Nat)
  | seektable (pts : List SeekPt)
  | vorbis (vendor : List Nat) (fields : List (List Nat))
  | cuesheet (c : Cue)
  | picture (p : PictureVal)
deriving Repr, DecidableEq, Inhabited

def Block.type : Block → Nat
  | .streaminfo _ => 0 | .padding _ => 1 | .application .. => 2 | .seektable _ => 3
  | .vorbis .. => 4 | .cuesheet _ => 5 | .picture _ => 6

def maxBlockSize : Nat := blockSizeMax

def leBytes : Nat → Nat → List Nat
  | 0, _ => []
  | n+1, v => v % 256 :: leBytes n (v / 256)
def leNat : List Nat → Nat
  | [] => 0
  | b :: r => b + 256 * leNat r

def seekPtBytes : SeekPt → List Nat
  | .defined s b l => beBytes 8 s ++ beBytes 8 b ++ beBytes 2 l
  | .placeholder => beBytes 8 (2 ^ 64 - 1) ++ beBytes 8 0 ++ beBytes 2 0

/-- the packed 144-bit header of STREAMINFO -/
def streaminfoPack (si : Streaminfo) : Nat :=
  ((((((si.minBlock * 2 ^ 16 + si.maxBlock) * 2 ^ 24 + si.minFrame) * 2 ^ 24 + si.maxFrame) * 2 ^ 20 + si.rate) * 2 ^ 3
    + (si.channels - 1)) * 2 ^ 5 + (si.bps - 1)) * 2 ^ 36 + si.total

def streaminfoBytes (si : Streaminfo) : List Nat :=
  beBytes 18 (streaminfoPack si) ++ (if si.md5Some then si.md5 else List.replicate 16 0)

/-- defined points must be strictly ascending (`ToBitStream for SeekTable`) -/
def seekAscending : Option Nat → List SeekPt → Bool
  | _, [] => true
  | last, .placeholder :: ps => seekAscending last ps
  | none, .defined s _ _ :: ps => seekAscending (some s) ps
  | some l, .defined s _ _ :: ps => decide (s > l) && seekAscending (some s) ps

/-- a defined point at offset u64::MAX (the placeholder's encoding) -/
def seekIsMax : SeekPt → Bool
  | .defined s _ _ => s == 2 ^ 64 - 1
  | .placeholder => false

def seekHasMax (pts : List SeekPt) : Bool := pts.any seekIsMax

/-- the first point is written unconditionally; later defined points must ascend -/
def seekWritable (pts : List SeekPt) : Bool :=
  match pts with
  | [] => true
  | p :: ps => seekAscending (match p with | .defined s _ _ => some s | .placeholder => none) ps

/-- the code `PictureType::to_writer` emits for the variant the reader maps code `t` to (table regenerated from the source) -/
def pictureWriteCode (t : Nat) : Nat := ((pictureTypeWrite.find? (fun q => q.1 == t)).map (·.2)).getD t

/-- body bytes as the writer produces them.  `.err` = the writer returns an error; `.panic` = one
    of its unwraps fails. -/
def Block.body : Block → Res (List Nat)
  | .streaminfo si =>
      if !metaDepthOneWritable && si.bps == 1 then .error (.panic "Streaminfo::to_writer: checked_sub(1).unwrap()")
      -- `write::<N, _>(v)` refuses a value that does not fit N bits
      else if si.minFrame ≥ 2 ^ 24 || si.maxFrame ≥ 2 ^ 24 || si.rate ≥ 2 ^ 20 || si.channels > 8 || si.total ≥ 2 ^ 36 then .error (.err "Io(excessive value)")
      else .ok (streaminfoBytes si)
  | .padding n => .ok (List.replicate n 0)
  | .application id d => .ok (beBytes 4 id ++ d)
  | .seektable pts =>
      -- the first point is written unconditionally; later defined points must ascend
      if seekMaxOffsetRefused && seekHasMax pts then .error (.err "InvalidSeekTablePoint")
      else if seekWritable pts
      then .ok (pts.flatMap seekPtBytes) else .error (.err "InvalidSeekTablePoint")
  | .vorbis v fs =>
      if v.length ≥ 2 ^ 32 || fs.any (fun f => f.length ≥ 2 ^ 32) then .error (.err "ExcessiveStringLength")
      else if fs.length ≥ 2 ^ 32 then .error (.err "ExcessiveVorbisEntries")
      else .ok (leBytes 4 v.length ++ v ++ leBytes 4 fs.length ++ fs.flatMap fun f => leBytes 4 f.length ++ f)
  | .cuesheet c => cueBytes c
  | .picture p =>
      if p.mime.length ≥ 2 ^ 32 || p.desc.length ≥ 2 ^ 32 then .error (.err "ExcessiveStringLength")
      else if p.data.length ≥ 2 ^ 32 then .error (.err "ExcessivePictureSize")
      else .ok (beBytes 4 (pictureWriteCode p.ptype) ++ beBytes 4 p.mime.length ++ p.mime ++ beBytes 4 p.desc.length ++ p.desc
        ++ beBytes 4 p.width ++ beBytes 4 p.height ++ beBytes 4 p.depth ++ beBytes 4 p.colors ++ beBytes 4 p.data.length ++ p.data)

/-- `MetadataBlock::bytes()`: `none` when the dry run fails or exceeds the 24-bit size -/
def Block.bytes (b : Block) : Res (Option Nat) :=
  match b.body with
  | .ok bs => .ok (if bs.length ≤ maxBlockSize then some bs.length else none)
  | .error (.panic s) => .error (.panic s)
  | .error _ => .ok none

/-- one block with its header (`ToBitStreamUsing for BlockRef`) -/
def writeBlock (last : Bool) (b : Block) : Res (List Nat) :=
  match b.body with
  | .error e => .error e
  | .ok bs =>
    if bs.length > maxBlockSize then .error (.err "ExcessiveBlockSize")
    else .ok ([(if last then 128 else 0) + b.type] ++ beBytes 3 bs.length ++ bs)

structure Seen where
  seektable : Bool := false
  vorbis : Bool := false
  png : Bool := false
  icon : Bool := false

/-- the single-instance rules shared by reader and writer -/
def checkUnique (s : Seen) (b : Block) : Res Seen :=
  match b with
  | .streaminfo _ => .error (.err "MultipleStreaminfo")
  | .seektable _ => if s.seektable then .error (.err "MultipleSeekTable") else .ok { s with seektable := true }
  | .vorbis .. => if s.vorbis then .error (.err "MultipleVorbisComment") else .ok { s with vorbis := true }
  | .picture p =>
      if p.ptype == 1 then (if s.png then .error (.err "MultiplePngIcon") else .ok { s with png := true })
      else if p.ptype == 2 then (if s.icon then .error (.err "MultipleGeneralIcon") else .ok { s with icon := true })
      else .ok s
  | _ => .ok s

def writeRest : Seen → List Block → Res (List Nat)
  | _, [] => .ok []
  | s, b :: bs =>
    match checkUnique s b with
    | .error e => .error e
    | .ok s' =>
      match writeBlock bs.isEmpty b with
      | .error e => .error e
      | .ok x =>
        match writeRest s' bs with
        | .error e => .error e
        | .ok y => .ok (x ++ y)

/-- `write_blocks` -/
def writeBlocks (bl : List Block) : Res (List Nat) :=
  match bl with
  | .streaminfo si :: rest =>
    match writeBlock rest.isEmpty (.streaminfo si) with
    | .error e => .error e
    | .ok x =>
      match writeRest {} rest with
      | .error e => .error e
      | .ok y => .ok ([0x66, 0x4C, 0x61, 0x43] ++ x ++ y)
  | _ => .error (.err "MissingStreaminfo")

/-! ### parsing -/

/-- `Contiguous<MAX_POINTS, SeekPoint>`: defined points strictly ascending, none after a placeholder -/
def seekContig : Option SeekPt → List SeekPt → Bool
  | _, [] => true
  | none, p :: ps => seekContig (some p) ps
  | some (.defined s _ _), (.defined s2 b2 l2) :: ps => decide (s2 > s) && seekContig (some (.defined s2 b2 l2)) ps
  | some .placeholder, (.defined ..) :: _ => false
  | some _, .placeholder :: ps => seekContig (some .placeholder) ps


def utf8ValidAux : Nat → List Nat → Bool
  | 0, _ => true
  | _+1, [] => true
  | fuel+1, b :: r =>
    if b < 0x80 then utf8ValidAux fuel r
    else if b < 0xC2 then false
    else if b < 0xE0 then (match r with | c :: r' => 0x80 ≤ c && c < 0xC0 && utf8ValidAux fuel r' | _ => false)
    else if b < 0xF0 then
      (match r with
       | c :: d :: r' =>
         (if b == 0xE0 then 0xA0 ≤ c && c < 0xC0 else if b == 0xED then 0x80 ≤ c && c < 0xA0 else 0x80 ≤ c && c < 0xC0)
           && 0x80 ≤ d && d < 0xC0 && utf8ValidAux fuel r'
       | _ => false)
    else if b < 0xF5 then
      (match r with
       | c :: d :: e :: r' =>
         (if b == 0xF0 then 0x90 ≤ c && c < 0xC0 else if b == 0xF4 then 0x80 ≤ c && c < 0x90 else 0x80 ≤ c && c < 0xC0)
           && 0x80 ≤ d && d < 0xC0 && 0x80 ≤ e && e < 0xC0 && utf8ValidAux fuel r'
       | _ => false)
    else false

/-- `String::from_utf8` accepts exactly well-formed UTF-8 -/
def utf8Valid (bs : List Nat) : Bool := utf8ValidAux (bs.length + 1) bs

def readVorbisFields : Nat → Nat → List Nat → Res (List (List Nat) × List Nat)
  | 0, _, b => .ok ([], b)
  | _, 0, b => .ok ([], b)
  | fuel+1, n+1, b =>
    match takeBytes 4 b with
    | .error e => .error e
    | .ok (l, b1) =>
      match takeBytes (leNat l) b1 with
      | .error e => .error e
      | .ok (s, b2) =>
        if !utf8Valid s then .error (.err "Utf8") else
        match readVorbisFields fuel n b2 with
        | .error e => .error e
        | .ok (fs, b3) => .ok (s :: fs, b3)

/-- body of a block of the given type and declared size; returns the block and the unread rest of
    the body (which must be empty: `InvalidMetadataBlockSize`).  -/
def parseBody (type size : Nat) (body : List Nat) : Res (Block × List Nat) :=
  match type with
  | 0 =>
    match takeBytes 34 body with
    | .error e => .error e
    | .ok (b, r) => match parseStreaminfo b with | some si => .ok (.streaminfo si, r) | none => .error .eof
  | 1 => match takeBytes size body with | .error e => .error e | .ok (_, r) => .ok (.padding size, r)
  | 2 =>
    match takeBytes 4 body with
    | .error e => .error e
    | .ok (id, r) =>
      if size < 4 then .error (.err "InsufficientApplicationBlock") else
      match takeBytes (size - 4) r with
      | .error e => .error e
      | .ok (d, r2) => .ok (.application (beNat id) d, r2)
  | 3 =>
    if size % 18 != 0 then .error (.err "InvalidSeekTableSize") else
    match takeBytes size body with
    | .error e => .error e
    | .ok (b, r) =>
      if (parseSeekPoints (size / 18) b).length > seekTableMaxPoints || !seekContig none (parseSeekPoints (size / 18) b)
      then .error (.err "InvalidSeekTablePoint") else .ok (.seektable (parseSeekPoints (size / 18) b), r)
  | 4 =>
    match takeBytes 4 body with
    | .error e => .error e
    | .ok (l, b1) =>
      match takeBytes (leNat l) b1 with
      | .error e => .error e
      | .ok (v, b2) =>
        if !utf8Valid v then .error (.err "Utf8") else
        match takeBytes 4 b2 with
        | .error e => .error e
        | .ok (n, b3) =>
          match readVorbisFields (b3.length + 1) (leNat n) b3 with
          | .error e => .error e
          | .ok (fs, b4) => if fs.length != leNat n then .error .eof else .ok (.vorbis v fs, b4)
  | 5 =>
    match parseCue body with
    | .error e => .error e
    | .ok (c, r) => .ok (.cuesheet c, r)
  | 6 =>
    match takeBytes 4 body with
    | .error e => .error e
    | .ok (t, b1) =>
      if beNat t > pictureTypeMax then .error (.err "InvalidPictureType") else
      match takeBytes 4 b1 with
      | .error e => .error e
      | .ok (ml, b2) =>
        match takeBytes (beNat ml) b2 with
        | .error e => .error e
        | .ok (mime, b3) =>
          if !utf8Valid mime then .error (.err "Utf8") else
          match takeBytes 4 b3 with
          | .error e => .error e
          | .ok (dl, b4) =>
            match takeBytes (beNat dl) b4 with
            | .error e => .error e
            | .ok (desc, b5) =>
              if !utf8Valid desc then .error (.err "Utf8") else
              match takeBytes 20 b5 with
              | .error e => .error e
              | .ok (nums, b6) =>
                match takeBytes (beNat (nums.drop 16)) b6 with
                | .error e => .error e
                | .ok (data, b7) =>
                  .ok (.picture { ptype := beNat t, mime, desc, width := beNat (nums.take 4), height := beNat ((nums.drop 4).take 4),
                                  depth := beNat ((nums.drop 8).take 4), colors := beNat ((nums.drop 12).take 4), data }, b7)
  | t => if t ≤ blockTypeReservedHi then .error (.err "ReservedMetadataBlock") else .error (.err "InvalidMetadataBlock")

/-- one block: header, size-limited body, leftover check; returns (last, block, rest) -/
def readBlock (bytes : List Nat) : Res (Bool × Block × List Nat) :=
  match bytes with
  | h :: a :: b :: c :: rest =>
    if h % 128 > 6 then (if h % 128 ≤ blockTypeReservedHi then .error (.err "ReservedMetadataBlock") else .error (.err "InvalidMetadataBlock")) else
    -- the body reader never sees more than `size` bytes (and no more than the file holds)
    match parseBody (h % 128) (beNat [a, b, c]) (rest.take (beNat [a, b, c])) with
    | .error e => .error e
    | .ok (blk, left) =>
      -- `LimitedReader.size` must be 0 after the parse: the body parser consumed the declared size exactly, i.e. it
      -- left nothing of the body unread and the body was not cut short by the end of the file
      if !left.isEmpty || (rest.take (beNat [a, b, c])).length != beNat [a, b, c] then .error (.err "InvalidMetadataBlockSize")
      else .ok (h / 128 == 1, blk, rest.drop (beNat [a, b, c]))
  | _ => .error .eof

def readRest : Nat → Seen → List Nat → Nat → Res (List Block × Nat)
  | 0, _, _, _ => .error (.err "model-fuel")
  | fuel+1, s, bytes, used =>
    match readBlock bytes with
    | .error e => .error e
    | .ok (last, b, rest) =>
      match checkUnique s b with
      | .error e => .error e
      | .ok s' =>
        if last then .ok ([b], used + (bytes.length - rest.length))
        else
          match readRest fuel s' rest (used + (bytes.length - rest.length)) with
          | .error e => .error e
          | .ok (bs, u) => .ok (b :: bs, u)

/-- `read_blocks(..).collect()` / `BlockList::read`: blocks and bytes consumed -/
def readBlocks (bytes : List Nat) : Res (List Block × Nat) :=
  if bytes.length < 4 then .error .eof
  else if bytes.take 4 != [0x66, 0x4C, 0x61, 0x43] then .error (.err "MissingFlacTag") else
  match readBlock (bytes.drop 4) with
  | .ok (last, .streaminfo si, rest) =>
    if last then .ok ([.streaminfo si], bytes.length - rest.length)
    else
      match readRest (bytes.length + 1) {} rest (bytes.length - rest.length) with
      | .error e => .error e
      | .ok (bs, u) => .ok (.streaminfo si :: bs, u)
  | _ => .error (.err "MissingStreaminfo")

end Flac
