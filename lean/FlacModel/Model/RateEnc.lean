/-
  Model/RateEnc.lean — how the writers put a sample rate into a frame header (`SampleRate::try_from`, regenerated into
  `Gen/RateEnc.lean`) and the header code / extra field that go with each class of variant (codes and field widths from the
  regenerated tables of `Gen/Tables.lean`).
-/
import FlacModel.Model.FrameWf
import FlacModel.Gen.RateEnc

namespace Flac
open Gen

/-- the 4-bit sample-rate code written for a rate (`none`: the conversion fails): the variant class from `try_from`, the code of the
    variant from `SampleRate::to_writer` (the regenerated write tables) -/
def encRateCode (rate : Nat) : Option Nat :=
  match encRateClass rate with
  | some 0 => lookup sampleRateWriteFixed rate
  | some 1 => some sampleRateWriteKHz
  | some 2 => some sampleRateWriteDHz
  | some 3 => some sampleRateWriteHz
  | some 4 => some sampleRateWriteStreaminfo
  | _ => none

/-- `FlacStreamWriter::write`'s decision on the sample rate: the header code, or a refusal -/
def streamWriterRate (rate : Nat) : Option Nat :=
  match encRateClass rate with
  | some 4 => if streamWriterRefusesStreaminfoRate then none else encRateCode rate
  | _ => encRateCode rate

/-- `FlacStreamWriter::write`'s decision on the bit depth: the 3-bit header code, or a refusal -/
def streamWriterBps (bps : Nat) : Option Nat :=
  if encBpsLiterals.contains bps then lookup bpsWriteFixed bps
  else if streamWriterRefusesStreaminfoBps then none else some bpsWriteStreaminfo

/-- the 4-bit block-size code for a frame of `n` samples per channel: `u16::try_from(n)` then `BlockSize::try_from` (0 and sizes beyond
    16 bits are refused), the code from `BlockSize::to_writer` (regenerated write tables) -/
def encBlockSizeCode (n : Nat) : Option Nat :=
  if n = 0 ∨ n > 65535 then none
  else match lookup blockSizeWriteFixed n with
    | some c => some c
    | none => if n ≤ blockSizeU8Bound then some blockSizeWriteU8 else some blockSizeWriteU16

/-- how many bytes the coded frame number takes when written minimally (`FrameNumber::to_writer`: the UTF-8-like scheme, 7 payload bits
    in one byte, then 5 + 6(k−1) bits in k bytes) -/
def encNumberBytes (v : Nat) : Nat :=
  if v < 2 ^ 7 then 1 else if v < 2 ^ 11 then 2 else if v < 2 ^ 16 then 3 else if v < 2 ^ 21 then 4
  else if v < 2 ^ 26 then 5 else if v < 2 ^ 31 then 6 else 7

/-- the header `FlacStreamWriter::write` builds for frame number `number` when it accepts the parameters (`none`: it refuses);
    `a` = the channel assignment its decorrelation step settled on (independent channels, or one of the three stereo pairings) -/
def streamWriterHeader (rate bps : Nat) (a : Assign) (n number hcrc : Nat) : Option Header :=
  match streamWriterRate rate, streamWriterBps bps, encBlockSizeCode n with
  | some rc, some bc, some sc =>
    if assignOkB a then
      some { blocking := false, bsCode := sc, blockSize := n, rateCode := rc, rate := rate, assign := a, bpsCode := bc, bps := bps,
             reserved2 := false, number := number, numberBytes := encNumberBytes number, hcrc := hcrc }
    else none
  | _, _, _ => none

end Flac
