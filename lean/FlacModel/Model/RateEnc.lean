/-
  Model/RateEnc.lean — how the writers put a sample rate into a frame header (`SampleRate::try_from`, regenerated into
  `Gen/RateEnc.lean`) and the header code / extra field that go with each class of variant (codes and field widths from the
  regenerated tables of `Gen/Tables.lean`).
-/
import FlacModel.Model.FrameWf
import FlacModel.Gen.RateEnc

namespace Flac
open Gen

/-- the 4-bit sample-rate code written for a rate (`none`: the conversion fails): the variant class from `try_from`, the code of the
    variant from `SampleRate::to_writer` (the regenerated write tables) -/
def encRateCode (rate : Nat) : Option Nat :=
  match encRateClass rate with
  | some 0 => lookup sampleRateWriteFixed rate
  | some 1 => some sampleRateWriteKHz
  | some 2 => some sampleRateWriteDHz
  | some 3 => some sampleRateWriteHz
  | some 4 => some sampleRateWriteStreaminfo
  | _ => none

/-- `FlacStreamWriter::write`'s decision on the sample rate: the header code, or a refusal -/
def streamWriterRate (rate : Nat) : Option Nat :=
  match encRateClass rate with
  | some 4 => if streamWriterRefusesStreaminfoRate then none else encRateCode rate
  | _ => encRateCode rate

/-- `FlacStreamWriter::write`'s decision on the bit depth: the 3-bit header code, or a refusal -/
def streamWriterBps (bps : Nat) : Option Nat :=
  if encBpsLiterals.contains bps then lookup bpsWriteFixed bps
  else if streamWriterRefusesStreaminfoBps then none else some bpsWriteStreaminfo

/-- the 4-bit block-size code for a frame of `n` samples per channel: `u16::try_from(n)` then `BlockSize::try_from` (0 and sizes beyond
    16 bits are refused), the code from `BlockSize::to_writer` (regenerated write tables) -/
def encBlockSizeCode (n : Nat) : Option Nat :=
  if n = 0 ∨ n > 65535 then none
  else match lookup blockSizeWriteFixed n with
    | some c => some c
    | none => if n ≤ blockSizeU8Bound then some blockSizeWriteU8 else some blockSizeWriteU16

end Flac
