/-
  Model/Basic.lean — conventions shared by every layer of the model (DESIGN §2.2).

  * bits are `List Bool`, MSB first; bytes are `Nat` < 256 in lists (`List Nat`), converted
    at the boundary, so that proofs never have to reason about `UInt8`;
  * machine integers are `Int` plus explicit wrap functions;
  * every operation of the Rust code that can trap is an `Except Fail _` value where
    `Fail` distinguishes a *returned error*, *end of input* and a *panic at a named site*.
-/
namespace Flac

abbrev Bits := List Bool

/-- build profile of the Rust crate: `release` wraps, `debug` traps (overflow-checks on). -/
inductive Profile | release | debug
deriving DecidableEq, Repr

/-- how a modelled call ends when it does not return a value -/
inductive Fail
  | err (cls : String)      -- `Err(Error::<cls>)`; `Io(kind)` for I/O errors other than EOF
  | eof                     -- `Err(Error::Io(UnexpectedEof))`
  | panic (site : String)   -- the Rust code would panic at this site
deriving DecidableEq, Repr

def Fail.toString : Fail → String
  | .err c => "err " ++ c
  | .eof => "err Io(UnexpectedEof)"
  | .panic s => "panic " ++ s

instance : ToString Fail := ⟨Fail.toString⟩

abbrev Res (α : Type) := Except Fail α

/-- a parser over bits -/
abbrev P (α : Type) := Bits → Res (α × Bits)

@[inline] def P.pure (a : α) : P α := fun b => .ok (a, b)
@[inline] def P.bind (p : P α) (f : α → P β) : P β := fun b =>
  match p b with
  | .ok (a, b') => f a b'
  | .error e => .error e
@[inline] def P.fail (e : Fail) : P α := fun _ => .error e

instance : Monad P where
  pure := P.pure
  bind := P.bind

/-! ### integers -/

def pow2 (n : Nat) : Nat := 2 ^ n

/-- two's complement wrap of an integer into `bits` bits (signed) -/
def wrapS (bits : Nat) (x : Int) : Int :=
  if x % (2 : Int) ^ bits < (2 : Int) ^ bits / 2 then x % (2 : Int) ^ bits else x % (2 : Int) ^ bits - (2 : Int) ^ bits

def wrap32 (x : Int) : Int := wrapS 32 x
def wrap64 (x : Int) : Int := wrapS 64 x

def fitsS (bits : Nat) (x : Int) : Bool :=
  decide (-((2 : Int) ^ (bits - 1)) ≤ x) && decide (x < (2 : Int) ^ (bits - 1))

def fits32 (x : Int) : Bool := decide (-(2147483648 : Int) ≤ x) && decide (x < 2147483648)

/-- arithmetic shift right on `Int` (Euclidean division by a positive power of two) -/
def asr (x : Int) (k : Nat) : Int := x / ((2 : Int) ^ k)

/-! ### bit/byte conversion -/

def natToBitsAux : Nat → Nat → Bits → Bits
  | 0, _, acc => acc
  | n+1, v, acc => natToBitsAux n (v / 2) ((v % 2 == 1) :: acc)

/-- `n` low bits of `v`, MSB first -/
def natToBits (n v : Nat) : Bits := natToBitsAux n v []

def bitsToNat (b : Bits) : Nat := b.foldl (fun a x => 2 * a + (if x then 1 else 0)) 0

def byteToBits (v : Nat) : Bits := natToBits 8 v

def bytesToBits (bs : List Nat) : Bits := bs.flatMap byteToBits

def bitsToBytes : Bits → List Nat
  | b0 :: b1 :: b2 :: b3 :: b4 :: b5 :: b6 :: b7 :: rest =>
      bitsToNat [b0,b1,b2,b3,b4,b5,b6,b7] :: bitsToBytes rest
  | [] => []
  | rest => [bitsToNat (rest ++ List.replicate (8 - rest.length) false)]

/-- signed value in `n` bits (two's complement), MSB first; `n ≥ 1` -/
def intToBits (n : Nat) (v : Int) : Bits :=
  natToBits n (v % ((2 : Int) ^ n)).toNat

def bitsToInt (b : Bits) : Int :=
  match b with
  | [] => 0
  | s :: rest => if s then (bitsToNat rest : Int) - (2 : Int) ^ rest.length else bitsToNat rest

/-! ### primitive readers (model of the `bitstream-io` big-endian `BitRead` calls used by the crate) -/

def readBit : P Bool
  | [] => .error .eof
  | b :: r => .ok (b, r)

/-- the first `n` bits and the rest, in one pass; `none` when fewer than `n` bits are left -/
def splitExact : Nat → Bits → Option (Bits × Bits)
  | 0, b => some ([], b)
  | _+1, [] => none
  | n+1, x :: b =>
    match splitExact n b with
    | none => none
    | some (t, r) => some (x :: t, r)

def takeBits (n : Nat) : P Bits := fun b =>
  match splitExact n b with
  | none => .error .eof
  | some (t, r) => .ok (t, r)

/-- `read::<n, unsigned>()` / `read_var(n)` -/
def readU (n : Nat) : P Nat := fun b =>
  match takeBits n b with
  | .ok (x, r) => .ok (bitsToNat x, r)
  | .error e => .error e

/-- `read_signed_counted(n)` for `n ≥ 1`; two's complement, sign bit first -/
def readS (n : Nat) : P Int := fun b =>
  match takeBits n b with
  | .ok (x, r) => .ok (bitsToInt x, r)
  | .error e => .error e

def skipBits (n : Nat) : P Unit := fun b =>
  match takeBits n b with
  | .ok (_, r) => .ok ((), r)
  | .error e => .error e

/-- `read_unary::<1>()`: number of `false` bits before the first `true` (consumed) -/
def readUnary1 : P Nat
  | [] => .error .eof
  | true :: r => .ok (0, r)
  | false :: r =>
    match readUnary1 r with
    | .ok (n, r') => .ok (n + 1, r')
    | .error e => .error e

/-- `read_unary::<0>()`: number of `true` bits before the first `false` (consumed) -/
def readUnary0 : P Nat
  | [] => .error .eof
  | false :: r => .ok (0, r)
  | true :: r =>
    match readUnary0 r with
    | .ok (n, r') => .ok (n + 1, r')
    | .error e => .error e

/-- read `n` items with parser `p` -/
def readN (p : P α) : Nat → P (List α)
  | 0 => fun b => .ok ([], b)
  | n+1 => fun b =>
    match p b with
    | .error e => .error e
    | .ok (x, b') =>
      match readN p n b' with
      | .error e => .error e
      | .ok (xs, b'') => .ok (x :: xs, b'')

/-! ### hex helpers for the driver -/

def hexDigit (n : Nat) : Char :=
  if n < 10 then Char.ofNat (48 + n) else Char.ofNat (87 + n)

def bytesToHex (bs : List Nat) : String :=
  String.ofList (bs.flatMap fun b => [hexDigit (b / 16), hexDigit (b % 16)])

def hexVal (c : Char) : Option Nat :=
  if '0' ≤ c ∧ c ≤ '9' then some (c.toNat - 48)
  else if 'a' ≤ c ∧ c ≤ 'f' then some (c.toNat - 87)
  else if 'A' ≤ c ∧ c ≤ 'F' then some (c.toNat - 55)
  else none

def hexToBytesAux : List Char → List Nat → Option (List Nat)
  | [], acc => some acc.reverse
  | [_], _ => none
  | a :: b :: r, acc =>
    match hexVal a, hexVal b with
    | some x, some y => hexToBytesAux r ((16 * x + y) :: acc)
    | _, _ => none

def hexToBytes (s : String) : Option (List Nat) := hexToBytesAux s.toList []

end Flac
