/-
  Model/MetaOps.lean — accessors of the `Metadata` trait (metadata/mod.rs:48-110, 4671-4699) and
  `update_file` (metadata/mod.rs:1171-1296).
-/
import FlacModel.Model.Blocks
import FlacModel.Model.Picture

namespace Flac
open Flac.Gen

/-! ### accessors -/

/-- `Metadata::duration`: (seconds, nanoseconds) -/
def duration (si : Streaminfo) : Res (Option (Nat × Nat)) :=
  if si.total == 0 then .ok none
  else if si.rate == 0 then (if metaDurationGuardsZero then .ok none else .error (.panic "attempt to divide by zero"))
  else .ok (some (si.total / si.rate, (si.total % si.rate) * 1000000000 / si.rate))

/-- `Metadata::decoded_len` -/
def decodedLen (si : Streaminfo) : Option Nat :=
  if si.total == 0 then none else some (si.total * si.channels * ((si.bps + 7) / 8))

/-- `ChannelMask::from_channels` (1..8 channels; STREAMINFO cannot hold another count) -/
def defaultMask (channels : Nat) : Nat :=
  match channels with
  | 1 => 0x4 | 2 => 0x3 | 3 => 0x7 | 4 => 0x33 | 5 => 0x607 | 6 => 0x60F | 7 => 0x70F | 8 => 0x63F | _ => 0

def lowerAscii (b : Nat) : Nat := if 65 ≤ b && b ≤ 90 then b + 32 else b

def hexDigitVal (b : Nat) : Option Nat :=
  if 48 ≤ b && b ≤ 57 then some (b - 48) else if 97 ≤ b && b ≤ 102 then some (b - 87)
  else if 65 ≤ b && b ≤ 70 then some (b - 55) else none

/-- `u32::from_str_radix(s, 16)` -/
def parseHexU32 (s : List Nat) : Option Nat :=
  let d := match s with | 43 :: r => r | _ => s
  if d.isEmpty then none else
  match d.foldl (fun (a : Option Nat) b => match a, hexDigitVal b with | some v, some h => some (v * 16 + h) | _, _ => none) (some 0) with
  | some v => if v < 2 ^ 32 then some v else none
  | none => none

/-- `VorbisComment::get(field)`: first `key=value` whose key matches ASCII-case-insensitively -/
def vorbisGet (fields : List (List Nat)) (name : List Nat) : Option (List Nat) :=
  (fields.filterMap fun f =>
    if f.contains 61 then
      (if (f.takeWhile (· != 61)).map lowerAscii == name.map lowerAscii then some ((f.dropWhile (· != 61)).drop 1) else none)
    else none).head?

def channelMaskField : List Nat := str "WAVEFORMATEXTENSIBLE_CHANNEL_MASK"

/-- `ChannelMask::from_str` -/
def parseMask (v : List Nat) : Option Nat :=
  if v.contains 120 then
    (if v.takeWhile (· != 120) == [48] then parseHexU32 ((v.dropWhile (· != 120)).drop 1) else none)
  else none

/-- `BlockList::channel_mask` -/
def channelMask (bl : List Block) : Nat :=
  let dflt := match bl with | .streaminfo si :: _ => defaultMask si.channels | _ => 0
  match bl.findSome? (fun b => match b with | .vorbis _ fs => some fs | _ => none) with
  | some fs => (match vorbisGet fs channelMaskField with
      | some v => (parseMask v).getD dflt
      | none => dflt)
  | none => dflt

def popCount18 (m : Nat) : Nat := ((List.range 18).filter fun i => m / 2 ^ i % 2 == 1).length

/-! ### `update_file` -/

/-- apply `f` to the size of the first PADDING block (`blocks.get_mut::<Padding>()`) -/
def adjustFirstPadding (f : Nat → Option Nat) : List Block → Option (List Block)
  | [] => none
  | .padding n :: r => match f n with | some n' => some (.padding n' :: r) | none => none
  | b :: r => match adjustFirstPadding f r with | some r' => some (b :: r') | none => none

inductive UpdateOutcome
  | inPlace | rebuilt
deriving Repr, DecidableEq

/-- the block list written in place, if the size difference can be absorbed by the first PADDING
    block (`grow_padding` / `shrink_padding`; both go through `TryFrom<u64> for BlockSize` and `BlockSize::checked_add`/`checked_sub`, whose bounds are generated from the source) -/
def adjustFor (oldSize newSize : Nat) (bl : List Block) : Option (List Block) :=
  if newSize < oldSize then
    (if oldSize - newSize ≤ blockSizeFromU64Bound
     then adjustFirstPadding (fun n => if n + (oldSize - newSize) ≤ blockSizeAddBound then some (n + (oldSize - newSize)) else none) bl else none)
  else if newSize == oldSize then some bl
  else (if newSize - oldSize ≤ blockSizeFromU64Bound
        then adjustFirstPadding (fun n => if newSize - oldSize ≤ n then some (n - (newSize - oldSize)) else none) bl else none)

/-- `update_file(original, rebuilt, f)` on a file given as bytes: the file afterwards and the
    result.  `edit` is the callback (`none` = it returns an error). -/
def updateFile (file : List Nat) (edit : List Block → Option (List Block)) : List Nat × Res UpdateOutcome :=
  match readBlocks file with
  | .error e => (file, .error e)
  | .ok (bl, oldSize) =>
    match edit bl with
    | none => (file, .error (.err "Callback"))
    | some bl' =>
      match writeBlocks bl' with
      | .error e => (file, .error e)
      | .ok dry =>
        match adjustFor oldSize dry.length bl' with
        | some bl'' =>
          (match writeBlocks bl'' with
           | .error e => (file, .error e)      -- cannot happen (the dry run succeeded); kept total
           | .ok out => (out ++ file.drop out.length, .ok .inPlace))
        | none => (dry ++ file.drop oldSize, .ok .rebuilt)

end Flac
