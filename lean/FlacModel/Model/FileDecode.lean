/-
  Model/FileDecode.lean — a whole file through `Decoder::read_frame` (decode.rs:1382-1428) as the
  reader front-ends drive it: frames are delivered one by one until end of stream or the first
  error; total-sample accounting, the short-block rule and the "EOF in the header = end of stream
  when the total is unknown" rule are as in the source.
-/
import FlacModel.Model.Decode
import FlacModel.Model.Metadata
import FlacModel.Model.Md5
import FlacModel.Gen.ShapesRd

namespace Flac

structure FileRun where
  head : FileHead
  frames : List (List (List Int))        -- channels of every frame delivered
  stop : Option Fail                     -- `none` = clean end of stream
deriving Repr

def sinfoOfHead (h : FileHead) : SInfo :=
  { rate := h.si.rate, channels := h.si.channels, bps := h.si.bps, maxBlock := h.si.maxBlock }

/-- the frame loop; `cur` = `current_sample` -/
def decodeLoop (p : Profile) (si : SInfo) (total : Nat) : Nat → List Nat → Nat → List (List (List Int)) → List (List (List Int)) × Option Fail
  | 0, _, _, acc => (acc.reverse, none)
  | fuel+1, bytes, cur, acc =>
    if total != 0 then
      -- `total.get() - self.current_sample`
      if total < cur && p == .debug then (acc.reverse, some (.panic "read_frame: total - current_sample"))
      else if total == cur then (acc.reverse, none)
      else
        match parseHeaderBytes (some si) bytes with
        | .error e => (acc.reverse, some e)
        | .ok (h, _, c8) =>
          match checkStreaminfo (some si) h with
          | .error e => (acc.reverse, some e)
          | .ok () =>
            if !c8 then (acc.reverse, some (.err "Crc8Mismatch"))
            else if Gen.decOvershootIsError && total ≥ cur && h.blockSize > total - cur then (acc.reverse, some (.err "TooManySamples"))
            else if !(h.blockSize == (if total ≥ cur then total - cur else 18446744073709551616 - (cur - total)) || h.blockSize > 14)
            then (acc.reverse, some (.err "ShortBlock"))
            else
              match decodeFrame p (some si) bytes with
              | .error e => (acc.reverse, some e)
              | .ok d => decodeLoop p si total fuel (bytes.drop d.used) (cur + h.blockSize) (d.channels :: acc)
    else
      match parseHeaderBytes (some si) bytes with
      | .error .eof => if bytes.isEmpty || !Gen.decHeaderEofStrict then (acc.reverse, none) else (acc.reverse, some .eof)
      | .error e => (acc.reverse, some e)
      | .ok _ =>
        match decodeFrame p (some si) bytes with
        | .error e => (acc.reverse, some e)
        | .ok d => decodeLoop p si total fuel (bytes.drop d.used) (cur + d.hdr.blockSize) (d.channels :: acc)

def fileDecode (p : Profile) (bytes : List Nat) : Res FileRun :=
  match parseFileHead bytes with
  | .error e => .error e
  | .ok h =>
    match decodeLoop p (sinfoOfHead h) h.si.total (bytes.length + 2) (bytes.drop h.framesStart) 0 [] with
    | (frames, stop) => .ok { head := h, frames, stop }

end Flac
