/-
  Model/Metadata.lean — the part of the metadata section the decoders need: "fLaC" tag, block
  headers, STREAMINFO and SEEKTABLE (metadata/mod.rs:513-552, 1716-1760, 1995-2139).  Every other
  block is kept as raw bytes.  (Block-list validation is modelled in Model/Blocks.lean.)
-/
import FlacModel.Model.Basic

namespace Flac

structure Streaminfo where
  minBlock : Nat
  maxBlock : Nat
  minFrame : Nat
  maxFrame : Nat
  rate : Nat
  channels : Nat          -- 1..8 (stored minus one)
  bps : Nat               -- 1..32 (stored minus one)
  total : Nat             -- 0 = unknown
  md5 : List Nat          -- 16 bytes
  md5Some : Bool := !(md5.all (· == 0))   -- `Option<[u8; 16]>` is `Some` (the reader yields `None` exactly for 16 zero bytes)
deriving Repr, DecidableEq, Inhabited

inductive SeekPt
  | defined (sample byte frameSamples : Nat)
  | placeholder
deriving Repr, DecidableEq, Inhabited

structure RawBlock where
  last : Bool
  type : Nat
  body : List Nat
deriving Repr, DecidableEq, Inhabited

def beNat (bs : List Nat) : Nat := bs.foldl (fun a b => a * 256 + b) 0

/-- split the metadata section into raw blocks; returns the blocks and the number of bytes used -/
def readRawBlocks : Nat → List Nat → Nat → Res (List RawBlock × Nat)
  | 0, _, _ => .error (.err "model-fuel")
  | fuel+1, bytes, used =>
    match bytes with
    | h :: a :: b :: c :: rest =>
      if rest.length < beNat [a, b, c] then .error .eof else
      if h / 128 == 1 then .ok ([{ last := true, type := h % 128, body := rest.take (beNat [a, b, c]) }], used + 4 + beNat [a, b, c])
      else
        match readRawBlocks fuel (rest.drop (beNat [a, b, c])) (used + 4 + beNat [a, b, c]) with
        | .error e => .error e
        | .ok (bl, u) => .ok ({ last := false, type := h % 128, body := rest.take (beNat [a, b, c]) } :: bl, u)
    | _ => .error .eof

/-- the 18 leading bytes of STREAMINFO as one big-endian number:
    16+16+24+24+20+3+5+36 = 144 bits -/
def parseStreaminfo (b : List Nat) : Option Streaminfo :=
  if b.length != 34 then none else
  let v := beNat (b.take 18)
  some { minBlock := v / 2 ^ 128, maxBlock := v / 2 ^ 112 % 2 ^ 16,
         minFrame := v / 2 ^ 88 % 2 ^ 24, maxFrame := v / 2 ^ 64 % 2 ^ 24,
         rate := v / 2 ^ 44 % 2 ^ 20,
         channels := v / 2 ^ 41 % 2 ^ 3 + 1,
         bps := v / 2 ^ 36 % 2 ^ 5 + 1,
         total := v % 2 ^ 36,
         md5 := b.drop 18 }

def parseSeekPoints : Nat → List Nat → List SeekPt
  | 0, _ => []
  | n+1, b =>
    (if beNat (b.take 8) == 18446744073709551615 then SeekPt.placeholder
     else SeekPt.defined (beNat (b.take 8)) (beNat ((b.drop 8).take 8)) (beNat ((b.drop 16).take 2)))
      :: parseSeekPoints n (b.drop 18)

structure FileHead where
  si : Streaminfo
  seektable : Option (List SeekPt)
  blocks : List RawBlock
  framesStart : Nat
deriving Repr

/-- the metadata section of a file as the readers see it (well-formed files only; the strict
    validation of `BlockList::read` is not repeated here) -/
def parseFileHead (bytes : List Nat) : Res FileHead :=
  if bytes.take 4 != [0x66, 0x4C, 0x61, 0x43] then .error (.err "MissingFlacTag") else
  match readRawBlocks (bytes.length + 1) (bytes.drop 4) 4 with
  | .error e => .error e
  | .ok (blocks, used) =>
    match blocks with
    | [] => .error (.err "MissingStreaminfo")
    | b0 :: _ =>
      if b0.type != 0 then .error (.err "MissingStreaminfo") else
      match parseStreaminfo b0.body with
      | none => .error (.err "InvalidMetadataBlockSize")
      | some si =>
        .ok { si, blocks, framesStart := used,
              seektable := (blocks.find? (·.type == 3)).map fun b => parseSeekPoints (b.body.length / 18) b.body }

end Flac
