/-
  Model/Encode.lean — the non-oracular, correctness-relevant steps of the encoder (`encode.rs`),
  assembled from the kernels regenerated from the source (`Gen/Kernels`):
  residual computation for LPC and FIXED predictors, wasted-bit removal, stereo decorrelation,
  partition slicing and the candidate acceptance test of `best_partitions`.
  (Which predictor / partition order / Rice parameter wins is heuristic, floating point, and
  irrelevant to every property: the theorems quantify over all choices.)
-/
import FlacModel.Model.Decode
import FlacModel.Gen.ShapesEnc
import FlacModel.Gen.KernelsEnc

namespace Flac
open Gen

/-- `LpcSubframeParameters::encode_residuals` (encode.rs:3176): `hist` most recent first -/
def encResidualsGo (coefs : List Int) (shift : Nat) : List Int → List Int → Option (List Int)
  | _, [] => some []
  | hist, x :: xs =>
    match encResidualStep x (dot hist coefs) shift with
    | none => none
    | some r =>
      match encResidualsGo coefs shift (x :: hist) xs with
      | none => none
      | some rs => some (r :: rs)

/-- residuals of `channel` for an LPC predictor of order `|coefs|` (warm-up = first `order` samples) -/
def encLpcResiduals (coefs : List Int) (shift : Nat) (channel : List Int) : Option (List Int) :=
  encResidualsGo coefs shift (channel.take coefs.length).reverse (channel.drop coefs.length)

/-- one round of the FIXED difference loop (encode.rs:3040): `n.checked_sub(*p)` over adjacent pairs -/
def encDiff : List Int → Option (List Int)
  | a :: b :: rest =>
    match encFixedDiff b a with
    | none => none
    | some d =>
      match encDiff (b :: rest) with
      | none => none
      | some ds => some (d :: ds)
  | _ => some []

/-- the sizes `best_partitions` slices the residuals into for candidate order `po`, when accepted -/
def encLayout (bs order po : Nat) : Option (List Nat) :=
  if encPartitionAccept (rchunkSizes (bs - order) (bs / 2 ^ po)).length (2 ^ po)
  then some (rchunkSizes (bs - order) (bs / 2 ^ po)) else none

/-- stereo decorrelation of one sample pair (encode.rs:2465): (mid, side) -/
def encMidSide (p : Profile) (l r : Int) : Res (Int × Int) :=
  match encMid p l r with
  | .error e => .error e
  | .ok m =>
    match encSide p l r with
    | .error e => .error e
    | .ok s => .ok (m, s)

end Flac
