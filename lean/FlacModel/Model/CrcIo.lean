/-
  Model/CrcIo.lean — `CrcWriter` (crc.rs) around a sink that may fail, be interrupted or accept only part
  of what it is offered, and the way the encoder emits one frame through it (C13):

      let mut w: CrcWriter<_, Crc16> = CrcWriter::new(&mut self.writer);
      … every piece of the frame goes through `write_all` on `w` …
      let crc16: u16 = w.into_checksum().into();  writer.write_all(&crc16.to_be_bytes())

  The checksum type is a parameter (`upd`, `fin`); which part of an offered buffer `CrcWriter::write` folds
  into the checksum is regenerated from the source (`Gen/CrcIo.lean`).
-/
import FlacModel.Model.Io
import FlacModel.Gen.CrcIo

namespace Flac.Io
open Flac.Gen

structure CW (α : Type) where
  inner : Sink
  sum : α

/-- `CrcWriter::write` -/
def cwWrite {α : Type} (upd : α → Nat → α) (ev : Nat → Ev) (w : CW α) (bs : List Nat) : CW α × WR :=
  match sinkWrite ev w.inner bs with
  | (s', .ok n) => ({ inner := s', sum := (bs.take (crcWriterFolded bs.length n)).foldl upd w.sum }, .ok n)
  | (s', .intr) => ({ w with inner := s' }, .intr)
  | (s', .failed) => ({ w with inner := s' }, .failed)

/-- `Write::write_all` on the `CrcWriter` (the provided method: it only ever calls `write`) -/
def cwWriteAll {α : Type} (upd : α → Nat → α) (ev : Nat → Ev) : Nat → CW α → List Nat → CW α × List Nat × Bool
  | 0, w, bs => (w, bs, bs.isEmpty)
  | fuel+1, w, bs =>
    if bs.isEmpty then (w, [], true) else
    match cwWrite upd ev w bs with
    | (w', .ok n) => if n == 0 then (w', bs, false) else cwWriteAll upd ev fuel w' (bs.drop n)
    | (w', .intr) => cwWriteAll upd ev fuel w' bs
    | (w', .failed) => (w', bs, false)

/-- the pieces the bit writer hands over, each with `write_all` and `?` -/
def cwWriteChunks {α : Type} (upd : α → Nat → α) (ev : Nat → Ev) (fuel : Nat) : CW α → List (List Nat) → CW α × Bool
  | w, [] => (w, true)
  | w, c :: r =>
    match cwWriteAll upd ev fuel w c with
    | (w', _, false) => (w', false)
    | (w', _, true) => cwWriteChunks upd ev fuel w' r

/-- one frame: the pieces through a fresh `CrcWriter`, then the checksum's bytes straight to the stream -/
def cwFrame {α : Type} (upd : α → Nat → α) (init : α) (fin : α → List Nat) (ev : Nat → Ev) (fuel : Nat) (s : Sink) (chunks : List (List Nat)) : Sink × Bool :=
  match cwWriteChunks upd ev fuel { inner := s, sum := init } chunks with
  | (w, false) => (w.inner, false)
  | (w, true) =>
    match sinkWriteAll ev fuel w.inner (fin w.sum) with
    | (s', _, ok) => (s', ok)

/-- a run of frames, each with `?` -/
def cwFrames {α : Type} (upd : α → Nat → α) (init : α) (fin : α → List Nat) (ev : Nat → Ev) (fuel : Nat) : Sink → List (List (List Nat)) → Sink × Bool
  | s, [] => (s, true)
  | s, f :: r =>
    match cwFrame upd init fin ev fuel s f with
    | (s', false) => (s', false)
    | (s', true) => cwFrames upd init fin ev fuel s' r

/-! ### `CrcReader` around a source that delivers what it likes -/

/-- `CrcReader::read` when the wrapped reader delivered `got` (≤ the buffer length `want`) -/
def crRead {α : Type} (upd : α → Nat → α) (sum : α) (want : Nat) (got : List Nat) : α :=
  ((got ++ List.replicate (want - got.length) 0).take (crcReaderFolded want got.length)).foldl upd sum

/-- a whole history of reads: `(buffer length, bytes delivered)` per call -/
def crReads {α : Type} (upd : α → Nat → α) : α → List (Nat × List Nat) → α
  | sum, [] => sum
  | sum, (want, got) :: r => crReads upd (crRead upd sum want got) r

end Flac.Io
