/-
  Model/Readers.lean — state machines of the reader front-ends (decode.rs):
  `Decoder::read_frame` end-of-stream accounting (1382-1428), `Decoder::seek` (1446-1489),
  `FlacByteReader` read/fill_buf/consume/seek (287-330, 712-810), `FlacSampleReader`
  read/fill_buf/consume/seek and its iterator (417-489, 694, 817-854), `FlacChannelReader`
  fill_buf/consume/seek (952-981, 1023-1058).

  The stream is abstract: the list of frames with their byte offsets and first sample numbers
  (obtained from a file by `Model/Decode` in the driver), STREAMINFO's total and the seek table.
-/
import FlacModel.Model.Metadata
import FlacModel.Model.StreamReader
import FlacModel.Gen.ShapesRd

namespace Flac

structure FrameInfo where
  off : Nat                      -- byte offset from the first frame
  chans : List (List Int)
deriving Repr, DecidableEq, Inhabited

def FrameInfo.len (f : FrameInfo) : Nat := (f.chans.headD []).length

structure Stream where
  ch : Nat
  bps : Nat
  total : Option Nat             -- STREAMINFO total samples (`none` = unknown)
  frames : List FrameInfo
  table : Option (List SeekPt)
deriving Repr

/-- decoder state: `rest` = frames from the underlying reader's position on; `cur` = current_sample -/
structure Dec where
  rest : List FrameInfo
  cur : Nat
deriving Repr, DecidableEq

/-- `Decoder::read_frame` on a stream whose bytes after the last frame are a clean end of file -/
def Dec.readFrame (s : Stream) (d : Dec) : Res (Option FrameInfo × Dec) :=
  match s.total with
  | some t =>
    if t ≤ d.cur then .ok (none, d) else
    match d.rest with
    | [] => .error .eof
    | f :: fs =>
      if Gen.decOvershootIsError && f.len > t - d.cur then .error (.err "TooManySamples")
      else if f.len == t - d.cur || f.len > 14 then .ok (some f, { rest := fs, cur := d.cur + f.len })
      else .error (.err "ShortBlock")
  | none =>
    match d.rest with
    | [] => .ok (none, d)
    | f :: fs => .ok (some f, { rest := fs, cur := d.cur + f.len })

/-- the last defined seek point whose sample offset is ≤ `sample` -/
def lastPointLe (pts : List SeekPt) (sample : Nat) : Option (Nat × Nat) :=
  pts.foldl (fun acc p => match p with
    | .defined so bo _ => if so ≤ sample then some (so, bo) else acc
    | .placeholder => acc) none

/-- `Decoder::seek`: reposition at a seek point (or rewind) and return the sample landed on.
    A byte offset that is not the start of a frame (an untruthful table) leaves `rest` empty. -/
def Dec.seek (s : Stream) (sample : Nat) : Dec × Nat :=
  match s.table.bind (fun pts => lastPointLe pts sample) with
  | some (so, bo) => ({ rest := s.frames.dropWhile (fun f => f.off != bo), cur := so }, so)
  | none => ({ rest := s.frames, cur := 0 }, 0)

/-! ### buffered readers over units `α` (bytes for the byte reader, samples for the sample reader) -/

structure Rd (α : Type) where
  dec : Dec
  buf : List α

/-- refill the buffer from the next frame when it is empty; `none` = end of stream -/
def Rd.refill (s : Stream) (enc : FrameInfo → List α) (r : Rd α) : Res (Rd α) :=
  if r.buf.isEmpty then
    match r.dec.readFrame s with
    | .error e => .error e
    | .ok (none, d) => .ok { dec := d, buf := [] }
    | .ok (some f, d) => .ok { dec := d, buf := enc f }
  else .ok r

/-- `read(buf[..n])`: returns the data handed out and the new state -/
def Rd.read (s : Stream) (enc : FrameInfo → List α) (r : Rd α) (n : Nat) : Res (List α × Rd α) :=
  match r.refill s enc with
  | .error e => .error e
  | .ok r' => .ok (r'.buf.take n, { r' with buf := r'.buf.drop n })

def Rd.fill (s : Stream) (enc : FrameInfo → List α) (r : Rd α) : Res (List α × Rd α) :=
  match r.refill s enc with
  | .error e => .error e
  | .ok r' => .ok (r'.buf, r')

def Rd.consume (r : Rd α) (k : Nat) : Rd α := { r with buf := r.buf.drop k }

/-- the skip-forward loop shared by the seeks; the state reached is returned also on failure
    (the real reader keeps whatever it consumed before the error) -/
def Rd.skipTo (s : Stream) (enc : FrameInfo → List α) (want : Nat) : Nat → Rd α → Nat → Option Fail × Rd α
  | 0, r, _ => (none, r)
  | fuel+1, r, pos =>
    if pos ≥ want then (none, r) else
    match r.fill s enc with
    | .error e => (some e, r)
    | .ok (b, r') =>
      if b.isEmpty then (some (.err "exhausted"), r')
      else Rd.skipTo s enc want fuel (r'.consume (min b.length (want - pos))) (pos + min b.length (want - pos))

/-! ### unit encodings -/

def bytesPerSample (bps : Nat) : Nat := (bps + 7) / 8

/-- `to_buf`: a sample as `ceil(bps/8)` bytes (two's complement truncation), little or big endian -/
def sampleBytes (n : Nat) (be : Bool) (x : Int) : List Nat :=
  -- `i24_to_bytes` (byteorder.rs) is not a plain truncation for out-of-range negative values:
  -- `0x800000 | ((sample - (-1 << 23)) as u32)`, then the low three bytes
  let u : Int := if n == 3 && x < 0 then Int.ofNat (Nat.lor 8388608 ((x + 8388608) % 4294967296).toNat) else x
  let le := (List.range n).map fun i => ((u / (256 : Int) ^ i) % 256).toNat
  if be then le.reverse else le

def frameSamples (f : FrameInfo) : List Int := interleave f.chans
def frameBytes (bps : Nat) (be : Bool) (f : FrameInfo) : List Nat :=
  (frameSamples f).flatMap (sampleBytes (bytesPerSample bps) be)

/-! ### the byte reader's `Seek` (decode.rs:712) -/

inductive Whence | start | current | fromEnd
deriving Repr, DecidableEq

/-- the absolute byte position a seek request asks for (or the error the code returns) -/
def byteSeekTarget (s : Stream) (r : Rd Nat) (w : Whence) (off : Int) : Res Nat :=
  match w with
  | .start => if off < 0 then .error (.err "harness") else .ok off.toNat
  | .current =>
    if off < 0 then
      (if ((r.dec.cur * (bytesPerSample s.bps * s.ch) : Nat) : Int) - (r.buf.length : Nat) + off < 0 then .error (.err "Io(InvalidInput)")
       else .ok (((r.dec.cur * (bytesPerSample s.bps * s.ch) : Nat) : Int) - (r.buf.length : Nat) + off).toNat)
    else if off == 0 then .ok (((r.dec.cur * (bytesPerSample s.bps * s.ch) : Nat) : Int) - (r.buf.length : Nat)).toNat
    else (if ((r.dec.cur * (bytesPerSample s.bps * s.ch) : Nat) : Int) - (r.buf.length : Nat) + off ≥ 18446744073709551616 then .error (.err "Io(InvalidInput)")
          else .ok (((r.dec.cur * (bytesPerSample s.bps * s.ch) : Nat) : Int) - (r.buf.length : Nat) + off).toNat)
  | .fromEnd =>
    match s.total with
    | none => .error (.err "Io(NotSeekable)")
    | some t =>
      if off < 0 then (if ((t * (bytesPerSample s.bps * s.ch) : Nat) : Int) + off < 0 then .error (.err "Io(InvalidInput)")
                       else .ok (((t * (bytesPerSample s.bps * s.ch) : Nat) : Int) + off).toNat)
      else if off == 0 then .ok (t * (bytesPerSample s.bps * s.ch))
      else .error (.err "Io(InvalidInput)")

/-- returns the new position or an error class, and the state afterwards -/
def byteSeek (s : Stream) (be : Bool) (r : Rd Nat) (w : Whence) (off : Int) : Res Nat × Rd Nat :=
  let bpf := bytesPerSample s.bps * s.ch
  let desired : Res Nat := byteSeekTarget s r w off
  match desired with
  | .error e => (.error e, r)
  | .ok d =>
    if w == .current && off == 0 then (.ok d, r) else
    match Dec.seek s (d / bpf) with
    | (dec, landed) =>
      match Rd.skipTo s (frameBytes s.bps be) d (d + 2) { dec := dec, buf := [] } (landed * bpf) with
      | (some .eof, r') => (.error (.err "Io(UnexpectedEof)"), r')
      | (some (.err "exhausted"), r') => (.error (.err "Io(UnexpectedEof)"), r')
      | (some e, r') => (.error e, r')
      | (none, r') => (.ok d, r')

/-- `FlacSampleReader::seek` (positions in PCM frames; the buffer holds interleaved samples) -/
def sampleSeek (s : Stream) (sample : Nat) : Res Unit × Rd Int :=
  match Dec.seek s sample with
  | (dec, landed) =>
    match Rd.skipTo s frameSamples (sample * s.ch) (sample * s.ch + 2) { dec := dec, buf := [] } (landed * s.ch) with
    | (some (.err "exhausted"), r') => (.error (.err "InvalidSeek"), r')
    | (some .eof, r') => (.error (.err "Io(UnexpectedEof)"), r')
    | (some e, r') => (.error e, r')
    | (none, r') => (.ok (), r')

/-! ### the channel reader (decode.rs:952-981, 1023-1058) -/

structure ChanRd where
  dec : Dec
  frame : List (List Int)        -- `decoder.buf`
  consumed : Nat
deriving Repr

def ChanRd.pcmFrames (r : ChanRd) : Nat := (r.frame.headD []).length

def ChanRd.fill (s : Stream) (r : ChanRd) : Res (List (List Int) × ChanRd) :=
  if r.consumed < r.pcmFrames then .ok (r.frame.map (·.drop r.consumed), r)
  else
    match r.dec.readFrame s with
    | .error e => .error e
    | .ok (none, d) => .ok (List.replicate s.ch [], { dec := d, frame := [], consumed := 0 })
    | .ok (some f, d) => .ok (f.chans, { dec := d, frame := f.chans, consumed := 0 })

def ChanRd.consume (r : ChanRd) (k : Nat) : ChanRd := { r with consumed := r.consumed + k }

def ChanRd.skipTo (s : Stream) (want : Nat) : Nat → ChanRd → Nat → Option Fail × ChanRd
  | 0, r, _ => (none, r)
  | fuel+1, r, pos =>
    if pos ≥ want then (none, r) else
    match r.fill s with
    | .error e => (some e, r)
    | .ok (b, r') =>
      if (b.headD []).isEmpty then (some (.err "InvalidSeek"), r')
      else ChanRd.skipTo s want fuel (r'.consume (min (b.headD []).length (want - pos))) (pos + min (b.headD []).length (want - pos))

def ChanRd.seek (s : Stream) (sample : Nat) : Option Fail × ChanRd :=
  match Dec.seek s sample with
  | (dec, landed) => ChanRd.skipTo s sample (sample + 2) { dec := dec, frame := [], consumed := 0 } landed

end Flac
