/-
  Model/Writers.lean — buffering state machines of the three writer front-ends (encode.rs):
  `FlacByteWriter::write`/`finalize_inner` (355-385, 239-266), `FlacSampleWriter` (554-611),
  `FlacChannelWriter` (830-928).  Generic over the unit `α`:
    byte writer    : α = byte,        F = bytes_per_sample·channels·block_size, q = bytes_per_sample·channels
    sample writer  : α = sample,      F = channels·block_size,                  q = channels
    channel writer : α = PCM frame,   F = block_size,                           q = 1
  `blocks` are the sample blocks handed to `Encoder::encode`, in order.
-/
import FlacModel.Model.Basic
import FlacModel.Gen.ShapesEnc

namespace Flac

/-- `chunks_exact(F)`: the full chunks and the remainder (`fuel ≥ l.length` suffices) -/
def splitFull (F : Nat) : Nat → List α → List (List α) × List α
  | 0, l => ([], l)
  | n+1, l =>
    if F ≤ l.length then ((l.take F) :: (splitFull F n (l.drop F)).1, (splitFull F n (l.drop F)).2)
    else ([], l)

structure Wr (α : Type) where
  buf : List α
  blocks : List (List α)

def Wr.init : Wr α := { buf := [], blocks := [] }

/-- `write`: append, encode every full block, keep the remainder -/
def Wr.write (F : Nat) (w : Wr α) (xs : List α) : Wr α :=
  { buf := (splitFull F (w.buf ++ xs).length (w.buf ++ xs)).2,
    blocks := w.blocks ++ (splitFull F (w.buf ++ xs).length (w.buf ++ xs)).1 }

/-- `finalize_inner`: truncate the carry-over to whole PCM frames (`q` units each) and encode it as
    the final block unless nothing is left -/
def Wr.finalize (q : Nat) (w : Wr α) : List (List α) :=
  if (w.buf.take (w.buf.length - w.buf.length % q)).isEmpty then w.blocks
  else w.blocks ++ [w.buf.take (w.buf.length - w.buf.length % q)]

end Flac
