/-
  Model/ByteFront.lean — the byte front-end of the encoder (`FlacByteWriter`, encode.rs) and `byteorder.rs`:
  a block of raw bytes in the caller's byte order is converted in place to little-endian (`E::bytes_to_le`),
  those bytes feed the MD5, and `Frame::fill_from_buf::<LittleEndian>` turns each `bytes_per_sample` chunk
  into a sample.  The sample front-ends feed the MD5 with `LittleEndian::iN_to_bytes` of each sample
  (`update_md5`), which is `sampleBytes n false` of `Model/Readers.lean`.
  The 24-bit conversions and the direction of `bytes_to_le` are regenerated from the source (`Gen/ByteOrder.lean`).
-/
import FlacModel.Model.Readers
import FlacModel.Gen.ByteOrder

namespace Flac
open Gen

/-- the unsigned value of little-endian bytes -/
def leValue : List Nat → Nat
  | [] => 0
  | b :: r => b + 256 * leValue r

/-- `E::bytes_to_le` on one sample's bytes (`be` = the caller's byte order is big-endian) -/
def toLE (be : Bool) (c : List Nat) : List Nat :=
  if be then (if bytesToLeReversesBE then c.reverse else c) else (if bytesToLeKeepsLE then c else c.reverse)

/-- `LittleEndian::bytes_to_iN`: `from_le_bytes` (two's complement) for 1, 2, 4 bytes, the crate's own rule for 3 -/
def sampleOfLE (c : List Nat) : Int :=
  if c.length == 3 then i24OfUnsigned (leValue c)
  else if 2 * leValue c ≥ 256 ^ c.length then (leValue c : Int) - (256 ^ c.length : Nat) else (leValue c : Int)

/-- one sample of the byte front-end -/
def byteSample (be : Bool) (c : List Nat) : Int := sampleOfLE (toLE be c)

/-- `chunks_exact(n)` (the fuel is any bound on the length) -/
def chunkN (n : Nat) : Nat → List α → List (List α)
  | 0, _ => []
  | fuel+1, l => if l.isEmpty || n == 0 then [] else l.take n :: chunkN n fuel (l.drop n)

/-- the samples `fill_from_buf` makes of one block of raw bytes -/
def byteFrontSamples (n : Nat) (be : Bool) (raw : List Nat) : List Int := (chunkN n raw.length raw).map (byteSample be)

/-- what the byte front-end hands to the MD5 for one block -/
def byteFrontMd5Input (n : Nat) (be : Bool) (raw : List Nat) : List Nat := (chunkN n raw.length raw).flatMap (toLE be)

end Flac
