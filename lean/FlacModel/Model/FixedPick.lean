/-
  Model/FixedPick.lean — how `encode_fixed_subframe` (encode.rs) chooses among the FIXED orders 0 … 4:
  it accumulates the successive difference signals (stopping at an overflowing subtraction or an empty signal),
  and keeps the FIRST one whose absolute sum over the last `min_fixed` residuals is smallest (`Iterator::min_by_key`).
  The difference step is the regenerated kernel `encFixedDiff`.
-/
import FlacModel.Model.Encode
import FlacModel.Gen.Resid

namespace Flac
open Gen

/-- the `'outer` loop over the four difference buffers: `prev` is the last signal pushed -/
def fixedOrders : Nat → List Int → List (List Int)
  | 0, _ => []
  | k+1, prev =>
    match prev with
    | [] => []                                   -- `split_at_checked(1)` is `None`
    | _ :: _ =>
      match encDiff prev with
      | none => []                               -- an overflowing subtraction ends the accumulation
      | some d => if d.isEmpty then [] else d :: fixedOrders k d

/-- `fixed_orders`: the channel itself (order 0) and up to four difference signals -/
def fixedCandidates (channel : List Int) : List (List Int) := channel :: fixedOrders 4 channel

/-- the key of `min_by_key`: the absolute sum of the last `minFixed` residuals -/
def absSumTail (minFixed : Nat) (r : List Int) : Nat := ((r.drop (r.length - minFixed)).map Int.natAbs).sum

/-- index of the first minimum (`min_by_key` returns the first of several equal minima) -/
def argminFirst : List Nat → Nat
  | [] => 0
  | [_] => 0
  | k :: rest => if rest.all (k ≤ ·) then 0 else argminFirst rest + 1

/-- the order `encode_fixed_subframe` writes and its residuals -/
def fixedPick (channel : List Int) : Nat × List Int :=
  let cands := fixedCandidates channel
  let minFixed := (cands.getLast?.getD []).length
  let o := argminFirst (cands.map (absSumTail minFixed))
  (o, cands.getD o [])

end Flac

namespace Flac
open Gen

/-- `Partition::new` as far as the constant-block clause needs it: a partition whose residuals are all zero gets the zero-width
    escape (flag regenerated from the source); otherwise whatever Rice / escape coding the heuristic parameter search settles on
    (`coded`, a parameter of the model) -/
def encPartition (coded : List Int → Partition) (rs : List Int) : Partition :=
  if encZeroPartitionIsConstant && rs.all (· == 0) then .zero rs.length else coded rs

/-- consecutive slices of the given sizes -/
def sliceBy : List Nat → List Int → List (List Int)
  | [], _ => []
  | n :: ns, l => l.take n :: sliceBy ns (l.drop n)

/-- the residual block `write_residuals` emits when its search settles on coding method `method` and partition order `po`
    (both heuristic: the theorems quantify over them) for a block of `bs` samples and predictor order `order` -/
def encResidual (coded : List Int → Partition) (method po bs order : Nat) (rs : List Int) : Option Residual :=
  match encLayout bs order po with
  | none => none
  | some sizes => some { method := method, order := po, parts := (sliceBy sizes rs).map (encPartition coded) }

end Flac
