/-
  Model/FrameWf.lean — executable well-formedness test of a parsed frame (`frameWfB`): the domain of the
  round-trip theorem `C01.frame_roundtrip`.  The driver evaluates it on every frame the real encoder
  emits; `Proofs/CodecB.lean` proves that `true` implies the propositional `FrameWf`.
-/
import FlacModel.Model.Decode

namespace Flac
open Gen

def resOkB (r : Int) : Bool := decide (-2147483648 ≤ r) && decide (r < 2147483648)

def partWfB (pbits n : Nat) : Partition → Bool
  | .rice k rs => decide (k < 2 ^ pbits - 1) && (rs.length == n) && rs.all resOkB
  | .escaped w rs => decide (0 < w) && decide (w < 32) && (rs.length == n) && rs.all (fitsS w)
  | .zero m => m == n

def partsWfB (pbits : Nat) : List Nat → List Partition → Bool
  | [], [] => true
  | n :: ns, pt :: pts => partWfB pbits n pt && partsWfB pbits ns pts
  | _, _ => false

def layoutPartsB (pbits : Nat) (parts : List Partition) : Res (List Nat) → Bool
  | .ok sizes => partsWfB pbits sizes parts
  | .error _ => false

def resWfB (layout : Layout) (bs order : Nat) (r : Residual) : Bool :=
  decide (r.method < 2) && decide (r.order < 16) && layoutPartsB (4 + r.method) r.parts (layout bs order r.order)

def bodyWfB (layout : Layout) (bs d : Nat) : SubBody → Bool
  | .constant v => fitsS d v
  | .verbatim xs => (xs.length == bs) && xs.all (fitsS d)
  | .fixed o warm res => decide (o ≤ 4) && decide (o ≤ bs) && (warm.length == o) && warm.all (fitsS d) && resWfB layout bs o res
  | .lpc o warm prec shift coefs res =>
      decide (1 ≤ o) && decide (o ≤ 32) && decide (o ≤ bs) && (warm.length == o) && warm.all (fitsS d) && decide (1 ≤ prec)
        && decide (prec ≤ 15) && decide (shift ≤ 15) && (coefs.length == o) && coefs.all (fitsS prec) && resWfB layout bs o res

def subWfB (layout : Layout) (bs bps : Nat) (s : Subframe) : Bool :=
  decide (s.wasted < bps) && bodyWfB layout bs (bps - s.wasted) s.body

def subsWfB (layout : Layout) (a : Assign) (bs bps : Nat) : List Subframe → Nat → Bool
  | [], _ => true
  | s :: ss, i => subWfB layout bs (subBps a bps i) s && subsWfB layout a bs bps ss (i + 1)

def numWfB (v n : Nat) : Bool :=
  ((n == 1) && decide (v < 128)) || (decide (2 ≤ n) && decide (n ≤ 7) && decide (v / 64 ^ (n - 1) < 2 ^ (7 - n)))

def assignOkB : Assign → Bool
  | .indep n => decide (1 ≤ n) && decide (n ≤ 8)
  | _ => true

def blockSizeOkB (c bs : Nat) : Bool :=
  if blockSizeCodeU8.contains c then decide (1 ≤ bs) && decide (bs ≤ 256)
  else if blockSizeCodeU16.contains c then decide (1 ≤ bs) && decide (bs ≤ 65535)
  else bs == (lookup blockSizeCodeFixed c).getD 0

def rateOkB (si : Option SInfo) (c rate : Nat) : Bool :=
  if sampleRateCodeStreaminfo.contains c then rate == (si.map (·.rate)).getD 0
  else if sampleRateCodeKHz.contains c then (rate % sampleRateKHzMul == 0) && decide (rate / sampleRateKHzMul < 2 ^ sampleRateKHzBits)
  else if sampleRateCodeHz.contains c then (rate % sampleRateHzMul == 0) && decide (rate / sampleRateHzMul < 2 ^ sampleRateHzBits)
  else if sampleRateCodeDHz.contains c then (rate % sampleRateDHzMul == 0) && decide (rate / sampleRateDHzMul < 2 ^ sampleRateDHzBits)
  else rate == (lookup sampleRateCodeFixed c).getD 0

def headerWfB (si : Option SInfo) (h : Header) : Bool :=
  decide (h.bsCode < 2 ^ 4) && !blockSizeCodeInvalid.contains h.bsCode
    && decide (h.rateCode < 2 ^ 4) && !sampleRateCodeInvalid.contains h.rateCode
    && !(sampleRateCodeStreaminfo.contains h.rateCode && si.isNone)
    && assignOkB h.assign
    && decide (h.bpsCode < 2 ^ 3) && !bpsCodeInvalid.contains h.bpsCode
    && !(bpsCodeStreaminfo.contains h.bpsCode && si.isNone)
    && (h.bps == if bpsCodeStreaminfo.contains h.bpsCode then (si.map (·.bps)).getD 0 else (lookup bpsCodeFixed h.bpsCode).getD 0)
    && numWfB h.number h.numberBytes
    && blockSizeOkB h.bsCode h.blockSize
    && rateOkB si h.rateCode h.rate
    && decide (h.hcrc < 2 ^ 8)

def checkOkB : Res Unit → Bool
  | .ok _ => true
  | .error _ => false

def frameWfB (si : Option SInfo) (f : Frame) : Bool :=
  headerWfB si f.hdr
    && (f.hdr.hcrc == crc8 (bitsToBytes (writeHeaderFields f.hdr)))
    && checkOkB (checkStreaminfo si f.hdr)
    && decide (f.hdr.bps ≤ 32)
    && (f.subs.length == f.hdr.assign.count)
    && subsWfB decLayout f.hdr.assign f.hdr.blockSize f.hdr.bps f.subs 0
    && decide (f.padding.length < 8)
    && (((writeSubframes f.hdr.assign f.hdr.bps f.subs 0).length + f.padding.length) % 8 == 0)

end Flac
