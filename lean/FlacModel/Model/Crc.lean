/-
  Model/Crc.lean — the two frame checksums, table driven as the crate does it (`crc.rs`).  The tables and
  the update steps are regenerated from the source (`Gen/Crc.lean`).
-/
import FlacModel.Gen.Crc

namespace Flac
open Gen

def crc8 (bs : List Nat) : Nat := bs.foldl crc8Update 0
def crc16 (bs : List Nat) : Nat := bs.foldl crc16Update 0

end Flac
