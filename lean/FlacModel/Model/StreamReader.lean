/-
  Model/StreamReader.lean — model of `FlacStreamReader::read` (decode.rs:1169-1234):
  sync scan, subset header with CRC-8 gate, subframes, CRC-16 gate.  The model works on the whole
  remaining byte list; how the real `BufRead` slices its data is deliberately *not* an input, so any
  dependence of the implementation on segmentation shows up as a disagreement.
-/
import FlacModel.Model.Decode
import FlacModel.Gen.ShapesRd

namespace Flac

/-- drop through the first `0xFF` (`skip_until(0xFF)` consumes the delimiter) -/
def skipUntilFF : List Nat → List Nat
  | [] => []
  | b :: r => if b == 255 then r else skipUntilFF r

/-- number of bytes a failing, prefix-monotone parse has pulled from its source: the least `k`
    such that the parse of the first `k` bytes does not end in `eof`; binary search between `lo`
    (parse of `lo` bytes still ends in `eof`, or `lo` is the floor) and `hi` (does not) -/
def consumedOnFail (parse : List Nat → Bool) (bytes : List Nat) : Nat → Nat → Nat → Nat
  | 0, _, hi => hi
  | fuel+1, lo, hi =>
    if lo + 1 ≥ hi then (if parse (bytes.take lo) then lo else hi)
    else if parse (bytes.take ((lo + hi) / 2)) then consumedOnFail parse bytes fuel lo ((lo + hi) / 2)
    else consumedOnFail parse bytes fuel ((lo + hi) / 2) hi

def isEof : Res α → Bool
  | .error .eof => true
  | _ => false

/-- subset header at the front of `bytes` (which starts with the 0xFF sync byte), CRC-8 enforced -/
def subsetHeader (bytes : List Nat) : Res (Header × Nat) :=
  match parseHeaderBytes none bytes with
  | .error e => .error e
  | .ok (h, used, ok) => if ok then .ok (h, used) else .error (.err "Crc8Mismatch")

inductive ReadResult
  | frame (d : Decoded)
  | fail (e : Fail)
deriving Repr

/-- bytes pulled from `cand` by a failing subset-header parse -/
def hdrConsumed (cand : List Nat) : Nat :=
  consumedOnFail (fun pre => !isEof (subsetHeader pre)) cand 64 (min 2 cand.length) (min 20 cand.length)

/-- bytes pulled from `cand` by a failing frame decode -/
def bodyConsumed (p : Profile) (cand : List Nat) : Nat :=
  consumedOnFail (fun pre => !isEof (decodeFrame p none pre)) cand 64 (min 2 cand.length) cand.length

/-- one call of `read()`: the result and the unconsumed rest of the input -/
def streamReadOne (p : Profile) : Nat → List Nat → ReadResult × List Nat
  | 0, bytes => (.fail .eof, bytes)
  | fuel+1, bytes =>
    match skipUntilFF bytes with                    -- positioned just after a 0xFF, or empty
    | [] => (.fail .eof, [])
    | b :: r =>
      if b / 2 != 124 then streamReadOne p fuel (b :: r)       -- not a sync: nothing consumed
      else
        match subsetHeader (255 :: b :: r) with
        | .error _ =>
          -- the failed header parse consumed some bytes; keep scanning after them
          streamReadOne p fuel ((b :: r).drop (hdrConsumed (255 :: b :: r) - 1))
        | .ok _ =>
          match decodeFrame p none (255 :: b :: r) with
          | .ok d => (.frame d, (b :: r).drop (d.used - 1))
          | .error (.panic s) => (.fail (.panic s), b :: r)
          | .error e => (.fail e, (b :: r).drop (bodyConsumed p (255 :: b :: r) - 1))

/-- repeated `read()` until end of input (an `eof` failure), a panic, or `limit` results -/
def streamReadAll (p : Profile) : Nat → List Nat → List ReadResult
  | 0, _ => []
  | limit+1, bytes =>
    match streamReadOne p (bytes.length + 1) bytes with
    | (.fail .eof, _) => [.fail .eof]
    | (.fail (.panic s), _) => [.fail (.panic s)]
    | (r, rest) => r :: streamReadAll p limit rest

def interleave : List (List Int) → List Int
  | [] => []
  | c0 :: cs => (List.range c0.length).flatMap fun i => (c0 :: cs).map fun c => c.getD i 0

end Flac
