/-
  Model/Decode.lean — model of the crate's streaming decoder (`decode.rs` 1382–1854):
  `read_frame`, `read_subframes`, `read_subframe`, `read_fixed_subframe`, `read_lpc_subframe`,
  `predict`, `read_residuals` — with the machine arithmetic of both build profiles.
-/
import FlacModel.Model.Frame
import FlacModel.Gen.KernelsDec

namespace Flac
open Gen

/-! ### partition layouts -/

/-- `residuals.rchunks_mut(block_size / partition_count).rev()` + the `len() != partition_count`
    test of `read_block` (decode.rs).  `bs ≥ order` is guaranteed by `split_at_mut_checked`. -/
def rchunkSizes (n c : Nat) : List Nat :=
  (if n % c = 0 then [] else [n % c]) ++ List.replicate (n / c) c

def decLayout : Layout := fun bs order po =>
  if decLayoutRfc && !(bs % 2 ^ po == 0 && bs / 2 ^ po > order) then .error (.err "InvalidPartitionOrder")
  else if bs / 2 ^ po = 0 then .error decZeroPartitionLen
  else if (rchunkSizes (bs - order) (bs / 2 ^ po)).length ≠ 2 ^ po then .error (.err "InvalidPartitionOrder")
  else .ok (rchunkSizes (bs - order) (bs / 2 ^ po))

/-- `read_partitions` of the structural parser (stream.rs): partition `p` holds
    `block_size / count − (if p == 0 { order } else { 0 })` residuals -/
def structLayout : Layout := fun bs order po =>
  if structLayoutRfc && !(bs % 2 ^ po == 0 && bs / 2 ^ po > order) then .error (.err "InvalidPartitionOrder")
  else if bs / 2 ^ po < order then .error (.err "InvalidPartitionOrder")
  else .ok ((bs / 2 ^ po - order) :: List.replicate (2 ^ po - 1) (bs / 2 ^ po))

/-! ### sample arithmetic — assembled from the kernels regenerated from decode.rs (`Gen/Kernels`) -/

def dot : List Int → List Int → Int
  | x :: xs, c :: cs => x * c + dot xs cs
  | _, _ => 0

/-- one step of `predict`: `w` = 32 for `i32` channels, 64 for the `i64` side path -/
def predictStep (p : Profile) (w : Nat) (residual sum : Int) (shift : Nat) : Res Int :=
  match decDot p sum with
  | .error e => .error e
  | .ok acc => if w = 32 then decPredictStep32 p residual acc shift else decPredictStep64 p residual acc shift

/-- `predict` (decode.rs:1736): `hist` is the already reconstructed prefix, most recent first. -/
def predictGo (p : Profile) (w : Nat) (coefs : List Int) (shift : Nat) : List Int → List Int → Res (List Int)
  | hist, [] => .ok hist.reverse
  | hist, r :: rs =>
    match predictStep p w r (dot hist coefs) shift with
    | .error e => .error e
    | .ok v => predictGo p w coefs shift (v :: hist) rs

def predict (p : Profile) (w : Nat) (coefs : List Int) (shift : Nat) (warm res : List Int) : Res (List Int) :=
  predictGo p w coefs shift warm.reverse res

def mapM' (f : Int → Res Int) : List Int → Res (List Int)
  | [] => .ok []
  | a :: as =>
    match f a with
    | .error e => .error e
    | .ok c =>
      match mapM' f as with
      | .error e => .error e
      | .ok cs => .ok (c :: cs)

/-- `*i <<= wasted` -/
def wastedShl (p : Profile) (w wasted : Nat) (x : Int) : Res Int :=
  if w = 32 then decWastedShl32 p x wasted else decWastedShl64 p x wasted

/-- samples of one subframe as the crate computes them -/
def decodeSub (p : Profile) (w bs : Nat) (s : Subframe) : Res (List Int) :=
  match (match s.body with
    | .constant v => (.ok (List.replicate bs v) : Res (List Int))
    | .verbatim xs => .ok xs
    | .fixed o warm res => predict p w (fixedCoeffs.getD o []) 0 warm res.residuals
    | .lpc _ warm _ shift coefs res => predict p w coefs shift warm res.residuals) with
  | .error e => .error e
  | .ok xs => if s.wasted > 0 then mapM' (wastedShl p w s.wasted) xs else .ok xs

def zipWithM (f : Int → Int → Res α) : List Int → List Int → Res (List α)
  | a :: as, b :: bs =>
    match f a b with
    | .error e => .error e
    | .ok c =>
      match zipWithM f as bs with
      | .error e => .error e
      | .ok cs => .ok (c :: cs)
  | _, _ => .ok []

/-- mid/side reconstruction of one sample pair in `i32` (decode.rs:1596-1600) -/
def midSide32 (p : Profile) (mid side : Int) : Res (Int × Int) :=
  match decMidSum p mid side with
  | .error e => .error e
  | .ok sum =>
    match decMidLeft p sum side with
    | .error e => .error e
    | .ok a =>
      match decMidRight p sum side with
      | .error e => .error e
      | .ok b => .ok (a, b)

/-- the 33-bit variant (`i64` arithmetic, results narrowed with `as i32`) -/
def midSide64 (p : Profile) (mid side : Int) : Res (Int × Int) :=
  match decMidSumWide p mid side with
  | .error e => .error e
  | .ok sum =>
    match decMidLeftWide p sum side with
    | .error e => .error e
    | .ok a =>
      match decMidRightWide p sum side with
      | .error e => .error e
      | .ok b => .ok (a, b)

/-- undo channel decorrelation on decoded subframe sample vectors (decode.rs:1492) -/
def recorrelate (p : Profile) (a : Assign) (bps : Nat) (chs : List (List Int)) : Res (List (List Int)) :=
  match a, chs with
  | .indep _, _ => .ok chs
  | .leftSide, [left, side] =>
    match zipWithM (if bps < 32 then decLeftSide p else decLeftSideWide p) left side with
    | .error e => .error e
    | .ok r => .ok [left, r]
  | .sideRight, [side, right] =>
    match zipWithM (if bps < 32 then decSideRight p else decSideRightWide p) side right with
    | .error e => .error e
    | .ok l => .ok [l, right]
  | .midSide, [mid, side] =>
    match zipWithM (if bps < 32 then midSide32 p else midSide64 p) mid side with
    | .error e => .error e
    | .ok ps => .ok [ps.map (·.1), ps.map (·.2)]
  | _, _ => .ok chs

/-- arithmetic width the crate uses for subframe `i` -/
def subWidth (a : Assign) (bps i : Nat) : Nat := if subBps a bps i > 32 then 64 else 32

/-- `read_subframes`: parse and decode subframe by subframe (so that a trap in an earlier
    subframe precedes a parse error in a later one, as in the code) -/
def decSubframes (p : Profile) (a : Assign) (bs bps : Nat) : Nat → Nat → P (List (List Int))
  | 0, _ => fun b => .ok ([], b)
  | n+1, i => fun b =>
    match readSubframe decLayout true bs (subBps a bps i) b with
    | .error e => .error e
    | .ok (s, b1) =>
      match decodeSub p (subWidth a bps i) bs s with
      | .error e => .error e
      | .ok xs =>
        match decSubframes p a bs bps n (i + 1) b1 with
        | .error e => .error e
        | .ok (xss, b2) => .ok (xs :: xss, b2)

structure Decoded where
  hdr : Header
  channels : List (List Int)
  used : Nat
deriving Repr

/-- one frame through `FrameHeader::read{,_subset}` + `read_subframes` + the CRC-16 test.
    (`remaining`-based logic of `read_frame` is in `Model/Readers.lean`.) -/
def decodeFrame (p : Profile) (si : Option SInfo) (bytes : List Nat) : Res Decoded :=
  match readHeaderFields si (bytesToBits bytes) with
  | .error e => .error e
  | .ok (h, rest) =>
    match checkStreaminfo si h with
    | .error e => .error e
    | .ok () =>
      if !crc8Valid (crc8 (bytes.take (bytes.length - rest.length / 8))) then .error (.err "Crc8Mismatch") else
      -- `SignedBitCount<32>` cannot hold a depth above 32 (type invariant of the crate)
      if h.bps > 32 then .error (.err "ExcessiveBps") else
      match decSubframes p h.assign h.blockSize h.bps h.assign.count 0 rest with
      | .error e => .error e
      | .ok (chs, rest2) =>
        match recorrelate p h.assign h.bps chs with
        | .error e => .error e
        | .ok out =>
          match readU 16 (rest2.drop (rest2.length % 8)) with
          | .error e => .error e
          | .ok (_, rest3) =>
            if !crc16Valid (crc16 (bytes.take (bytes.length - rest3.length / 8))) then .error (.err "Crc16Mismatch")
            else .ok { hdr := h, channels := out, used := bytes.length - rest3.length / 8 }

end Flac
