/-
  Model/Picture.lean — image header sniffers behind `Picture::new` (metadata/mod.rs:4203-4343).
-/
import FlacModel.Model.Cuesheet

namespace Flac
open Flac.Gen

structure Metrics where
  mime : String
  width : Nat
  height : Nat
  depth : Nat
  colors : Nat          -- 0 = none
deriving Repr, DecidableEq, Inhabited

def ioEof : Fail := .err "Io"

def rd (n : Nat) (b : List Nat) : Res (List Nat × List Nat) :=
  if b.length < n then .error ioEof else .ok (b.take n, b.drop n)

def startsWith (b pre : List Nat) : Bool := b.take pre.length == pre

def pngSig : List Nat := [0x89, 0x50, 0x4E, 0x47, 0x0D, 0x0A, 0x1A, 0x0A]

/-- `plte_colors`: scan chunks for PLTE (fuel: every round consumes at least 12 bytes) -/
def plteColors : Nat → List Nat → Res Nat
  | 0, _ => .error ioEof
  | fuel+1, b =>
    match rd 8 b with
    | .error e => .error e
    | .ok (h, r) =>
      if h.drop 4 == [0x50, 0x4C, 0x54, 0x45] then
        (if beNat (h.take 4) % 3 == 0 then .ok (beNat (h.take 4) / 3) else .error (.err "Png"))
      else
        match rd (beNat (h.take 4) + 4) r with
        | .error e => .error e
        | .ok (_, r2) => plteColors fuel r2

/-- the 8-bit product of the original code, or the 32-bit one -/
def depthMul (wide : Bool) (p : Profile) (site : String) (a b : Nat) : Res Nat :=
  if wide then .ok (a * b)
  else match mulU p 8 site a b with | .ok v => .ok v.toNat | .error e => .error e

def tryPng (p : Profile) (b : List Nat) : Res Metrics :=
  match rd 8 b with
  | .error e => .error e
  | .ok (sig, r0) =>
    if sig != pngSig then .error (.err "Png") else
    match rd 4 r0 with
    | .error e => .error e
    | .ok (len, r1) =>
      if beNat len != 0x0d then .error (.err "Png") else
      match rd 4 r1 with
      | .error e => .error e
      | .ok (ty, r2) =>
        if ty != [0x49, 0x48, 0x44, 0x52] then .error (.err "Png") else
        match rd 17 r2 with
        | .error e => .error e
        | .ok (h, r3) =>
          let width := beNat (h.take 4)
          let height := beNat ((h.drop 4).take 4)
          let depth := h.getD 8 0
          let ctype := h.getD 9 0
          if ctype == 0 then .ok { mime := "image/png", width, height, depth, colors := 0 }
          else if ctype == 2 then
            match depthMul picPngDepthWide p "try_png: bit_depth * 3" depth 3 with
            | .error e => .error e
            | .ok d => .ok { mime := "image/png", width, height, depth := d, colors := 0 }
          else if ctype == 3 then
            match plteColors (r3.length + 1) r3 with
            | .error e => .error e
            | .ok c => .ok { mime := "image/png", width, height, depth := 0, colors := c }
          else if ctype == 4 then
            match depthMul picPngDepthWide p "try_png: bit_depth * 2" depth 2 with
            | .error e => .error e
            | .ok d => .ok { mime := "image/png", width, height, depth := d, colors := 0 }
          else if ctype == 6 then
            match depthMul picPngDepthWide p "try_png: bit_depth * 4" depth 4 with
            | .error e => .error e
            | .ok d => .ok { mime := "image/png", width, height, depth := d, colors := 0 }
          else .error (.err "Png")

/-- the segment loop of `try_jpeg` (fuel: every round consumes at least 4 bytes) -/
def jpegLoop (p : Profile) : Nat → List Nat → Res Metrics
  | 0, _ => .error ioEof
  | fuel+1, b =>
    match rd 1 b with
    | .error e => .error e
    | .ok (ff, r0) =>
      if ff != [0xFF] then .error (.err "Jpeg") else
      match rd 1 r0 with
      | .error e => .error e
      | .ok (m, r1) =>
        if picJpegSof.contains (m.getD 0 0) then
          match rd 8 r1 with
          | .error e => .error e
          | .ok (h, _) =>
            match depthMul picJpegDepthWide p "try_jpeg: data_precision * components" (h.getD 2 0) (h.getD 7 0) with
            | .error e => .error e
            | .ok d => .ok { mime := "image/jpeg", width := beNat ((h.drop 5).take 2), height := beNat ((h.drop 3).take 2), depth := d, colors := 0 }
        else
          match rd 2 r1 with
          | .error e => .error e
          | .ok (l, r2) =>
            if beNat l < 2 then .error (.err "Jpeg") else
            match rd (beNat l - 2) r2 with
            | .error e => .error e
            | .ok (_, r3) => jpegLoop p fuel r3

def tryJpeg (p : Profile) (b : List Nat) : Res Metrics :=
  match rd 2 b with
  | .error e => .error e
  | .ok (h, r) => if h != [0xFF, 0xD8] then .error (.err "Jpeg") else jpegLoop p (r.length + 1) r

def tryGif (b : List Nat) : Res Metrics :=
  match rd 3 b with
  | .error e => .error e
  | .ok (sig, r0) =>
    if sig != [0x47, 0x49, 0x46] then .error (.err "Gif") else
    match rd 3 r0 with
    | .error e => .error e
    | .ok (_, r1) =>
      match rd 5 r1 with
      | .error e => .error e
      | .ok (h, _) =>
        .ok { mime := "image/gif", width := h.getD 0 0 + 256 * h.getD 1 0, height := h.getD 2 0 + 256 * h.getD 3 0,
              depth := 0, colors := 2 ^ (h.getD 4 0 % 8 + 1) }

/-- `PictureMetrics::try_new` -/
def sniff (p : Profile) (b : List Nat) : Res Metrics :=
  if startsWith b pngSig then tryPng p b
  else if startsWith b [0xFF, 0xD8, 0xFF] then tryJpeg p b
  else if startsWith b [0x47, 0x49, 0x46] then tryGif b
  else .error (.err "Unsupported")

end Flac
