/-
  Model/Par.lean — fork-join execution of tasks that own disjoint state (C18).
  `rayon::join` / `into_par_iter().map()` run closures that each borrow their own cache mutably (the
  borrow checker rules out overlap; `encNoSharedMutableState` records that encode.rs has no interior
  shared mutability).  A task is a sequence of atomic steps on its own state; a schedule is any
  sequence of task picks.
-/
namespace Flac.Par

variable {ι : Type} [DecidableEq ι] {σ : Type}

/-- all tasks in flight: their private states and their remaining steps -/
structure Pool (ι σ : Type) where
  state : ι → σ
  prog : ι → List (σ → σ)

def upd {α : Type} (f : ι → α) (i : ι) (v : α) : ι → α := fun j => if j = i then v else f j

/-- the scheduler lets task `i` take one step (a no-op if it has finished) -/
def Pool.step (p : Pool ι σ) (i : ι) : Pool ι σ :=
  match p.prog i with
  | [] => p
  | f :: r => { state := upd p.state i (f (p.state i)), prog := upd p.prog i r }

def Pool.run (p : Pool ι σ) (sched : List ι) : Pool ι σ := sched.foldl Pool.step p

/-- what task `i` will have computed once it has run to completion -/
def Pool.final (p : Pool ι σ) (i : ι) : σ := (p.prog i).foldl (fun s f => f s) (p.state i)

def Pool.done (p : Pool ι σ) : Prop := ∀ i, p.prog i = []

/-- serial execution: each task run to completion on its own -/
def Pool.serial (p : Pool ι σ) : ι → σ := p.final

end Flac.Par
