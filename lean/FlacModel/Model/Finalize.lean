/-
  Model/Finalize.lean — bookkeeping of `Encoder` (encode.rs 1882-2112, 1338-1358, 2131-2162,
  2225-2259, 2413-2438): seek points recorded per frame, the interval filter, placeholder tables,
  the three layout cases of `finalize_inner`, frame-size extrema.
-/
import FlacModel.Model.Metadata
import FlacModel.Gen.ShapesEnc
import FlacModel.Gen.Finalize

namespace Flac
open Gen

structure EncPoint where
  sample : Nat
  byte : Nat
  len : Nat
deriving Repr, DecidableEq, Inhabited

/-- the part of `Encoder` state that `encode` updates around `encode_frame` -/
structure Recorder where
  samplesWritten : Nat
  count : Nat                    -- `writer.count`: bytes since the first frame
  points : List EncPoint         -- `seekpoints`, oldest first
  minFrame : Nat                 -- 0 = `None`
  maxFrame : Nat
deriving Repr, DecidableEq

def Recorder.init : Recorder := { samplesWritten := 0, count := 0, points := [], minFrame := 0, maxFrame := 0 }

def maxFrameSize : Nat := 2 ^ 24 - 1

/-- `encode` of one frame of `len` samples that occupied `bytes` bytes -/
def Recorder.encode (r : Recorder) (len bytes : Nat) : Recorder :=
  { samplesWritten := r.samplesWritten + len,
    count := r.count + bytes,
    points := r.points ++ [{ sample := r.samplesWritten, byte := r.count, len := len }],
    minFrame := if 0 < bytes ∧ bytes < maxFrameSize then (if r.minFrame = 0 then bytes else min bytes r.minFrame) else r.minFrame,
    maxFrame := if 0 < bytes ∧ bytes < maxFrameSize then (if r.maxFrame = 0 then bytes else max bytes r.maxFrame) else r.maxFrame }

inductive Interval | seconds (s : Nat) | frames (n : Nat)
deriving Repr, DecidableEq

/-- `SeekTableInterval::Seconds` filter: keep the points whose sample range contains the running
    multiple of `seconds·rate` -/
def secondsFilter (nth : Nat) : Nat → List EncPoint → List EncPoint
  | _, [] => []
  | off, p :: ps =>
    if p.sample ≤ off ∧ off < p.sample + p.len then p :: secondsFilter nth (off + nth) ps
    else secondsFilter nth off ps

/-- `step_by(n)` -/
def stepBy (n : Nat) : Nat → List α → List α
  | _, [] => []
  | 0, x :: xs => x :: stepBy n (n - 1) xs
  | k+1, _ :: xs => stepBy n k xs

def Interval.filter (iv : Interval) (rate : Nat) (pts : List EncPoint) : List EncPoint :=
  match iv with
  | .seconds s => secondsFilter (s * rate) 0 pts
  | .frames n => stepBy n 0 pts

/-- `EncoderSeekPoint::placeholders(total, block_size)` as (sample, len) pairs (byte = 0); the frame length rule is regenerated from the source -/
def placeholders (total bs : Nat) : Nat → Nat → List EncPoint
  | 0, _ => []
  | fuel+1, off => if off < total then { sample := off, byte := 0, len := encPlaceholderLen bs (total - off) } :: placeholders total bs fuel (off + bs) else []

def maxPoints : Nat := 2 ^ 24 / 18

def toSeekPt (p : EncPoint) : SeekPt := .defined p.sample p.byte p.len

/-- the SEEKTABLE and first-PADDING size after `finalize_inner`, given what was there before:
    `tablePoints` = number of points of the placeholder table (if one was written up front),
    `padding` = size of the first PADDING block (if any) -/
def finalizeLayout (iv : Option Interval) (rate : Nat) (pts : List EncPoint)
    (tablePoints : Option Nat) (padding : Option Nat) : Option (List SeekPt) × Option Nat :=
  match iv with
  | none => (tablePoints.map (fun n => List.replicate n SeekPt.placeholder), padding)
  | some iv =>
    match tablePoints, padding with
    | some n, pad => (some ((((iv.filter rate pts).map toSeekPt) ++ List.replicate n SeekPt.placeholder).take n), pad)
    | none, some pad =>
      if 4 + 18 * ((iv.filter rate pts).take maxPoints).length ≤ pad ∧ 18 * ((iv.filter rate pts).take maxPoints).length ≤ maxFrameSize
      then (some (((iv.filter rate pts).take maxPoints).map toSeekPt), some (pad - (4 + 18 * ((iv.filter rate pts).take maxPoints).length)))
      else (none, some pad)
    | none, none => (none, none)

/-- bytes occupied by an optional SEEKTABLE and an optional first PADDING block (headers included) -/
def layoutBytes (table : Option (List SeekPt)) (padding : Option Nat) : Nat :=
  (match table with | some t => 4 + 18 * t.length | none => 0) + (match padding with | some p => 4 + p | none => 0)

end Flac
