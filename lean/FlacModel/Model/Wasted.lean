/-
  Model/Wasted.lean — how `encode_subframe` (encode.rs) determines the wasted bits of a channel: a fold of the samples' trailing-zero
  counts (`i32::trailing_zeros`; 32 for the sample 0) that stops as soon as one sample has none.  The fold step and its start value
  are regenerated from the source (`Gen/Wasted.lean`).
-/
import FlacModel.Model.Basic
import FlacModel.Gen.Wasted

namespace Flac
open Gen

/-- trailing zero bits of a positive number (fuel = bit width) -/
def tzAux : Nat → Nat → Nat
  | 0, _ => 0
  | f+1, n => if n % 2 = 0 then tzAux f (n / 2) + 1 else 0

/-- `i32::trailing_zeros`: of the two's complement pattern, i.e. of the magnitude; 32 for 0 -/
def tz32 (x : Int) : Nat := if x = 0 then 32 else tzAux 32 x.natAbs

/-- the `try_fold`: `none` = it stopped (some sample is odd) -/
def encWastedFold : Option Nat → List Int → Option Nat
  | acc, [] => acc
  | none, _ => none
  | some a, x :: xs => encWastedFold (encWastedStep a (tz32 x)) xs

/-- what `encode_subframe` does with the channel: no wasted bits, a CONSTANT subframe (every sample is 0), or `w` wasted bits -/
inductive WastedOutcome
  | none
  | allZero
  | shift (w : Nat)
deriving Repr, DecidableEq

def encWasted (channel : List Int) : WastedOutcome :=
  match encWastedFold (some encWastedMax) channel with
  | Option.none => .none
  | some w => if w = encWastedMax then .allZero else .shift w

end Flac
