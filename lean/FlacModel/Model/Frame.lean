/-
  Model/Frame.lean — the frame grammar (RFC 9639 §9) as a syntax tree, a parser and a serializer.

  The parser is the *structural* skeleton shared by
    * the model of the crate's streaming decoder (`Model/Decode.lean`, partition layout `decLayout`),
    * the model of the crate's structural parser  (`stream.rs`, layout `structLayout`),
    * the L0 specification decoder (`Spec/Rfc.lean`, layout `rfcLayout` + `Frame.WF`).
  All header code tables come from `Gen/Tables.lean`, i.e. from the current Rust source.
-/
import FlacModel.Model.Basic
import FlacModel.Gen.Tables
import FlacModel.Model.Crc
import FlacModel.Gen.KernelsDec
import FlacModel.Gen.ShapesHdr

namespace Flac
open Gen

/-! ### syntax tree -/

inductive Partition
  | rice (k : Nat) (rs : List Int)
  | escaped (width : Nat) (rs : List Int)      -- width ≥ 1
  | zero (n : Nat)                             -- escape with width 0: n zero residuals
deriving Repr, DecidableEq, Inhabited

def Partition.residuals : Partition → List Int
  | .rice _ rs => rs
  | .escaped _ rs => rs
  | .zero n => List.replicate n 0

structure Residual where
  method : Nat                 -- 0 = RICE (4-bit parameters), 1 = RICE2 (5-bit)
  order : Nat                  -- partition order as written (4 bits)
  parts : List Partition
deriving Repr, DecidableEq, Inhabited

def Residual.residuals (r : Residual) : List Int := r.parts.flatMap Partition.residuals

inductive SubBody
  | constant (v : Int)
  | verbatim (xs : List Int)
  | fixed (order : Nat) (warm : List Int) (res : Residual)
  | lpc (order : Nat) (warm : List Int) (prec : Nat) (shift : Nat) (coefs : List Int) (res : Residual)
deriving Repr, DecidableEq, Inhabited

structure Subframe where
  wasted : Nat
  body : SubBody
deriving Repr, DecidableEq, Inhabited

inductive Assign | indep (n : Nat) | leftSide | sideRight | midSide
deriving Repr, DecidableEq, Inhabited

def Assign.count : Assign → Nat
  | .indep n => n
  | _ => 2

structure Header where
  blocking : Bool              -- false = fixed block size (coded number = frame number)
  bsCode : Nat
  blockSize : Nat
  rateCode : Nat
  rate : Nat
  assign : Assign
  bpsCode : Nat
  bps : Nat
  reserved2 : Bool             -- the reserved bit after the sample size (crate skips it)
  number : Nat                 -- coded number
  numberBytes : Nat            -- how many bytes the coded number occupied (1–7)
  hcrc : Nat
deriving Repr, DecidableEq, Inhabited

structure Frame where
  hdr : Header
  subs : List Subframe
  padding : Bits               -- the bits between the last subframe and the byte boundary
  footer : Nat
deriving Repr, DecidableEq, Inhabited

/-- what the parser knows from STREAMINFO (`none` = "subset" parsing: codes that refer to it fail) -/
structure SInfo where
  rate : Nat
  channels : Nat
  bps : Nat
  maxBlock : Nat
deriving Repr, DecidableEq, Inhabited

/-! ### header -/

def lookup (t : List (Nat × Nat)) (k : Nat) : Option Nat := (t.find? (fun p => p.1 == k)).map (·.2)

/-- coded number (`FrameNumber::from_reader`) -/
def readNumberTail : Nat → Nat → P Nat
  | 0, acc => fun b => .ok (acc, b)
  | n+1, acc => fun b =>
    match readU 2 b with
    | .error e => .error e
    | .ok (t, b1) =>
      if t != 2 then .error (.err "InvalidFrameNumber") else
      match readU 6 b1 with
      | .error e => .error e
      | .ok (v, b2) => readNumberTail n (acc * 64 + v) b2

def readNumber : P (Nat × Nat) := fun b =>
  match readUnary0 b with
  | .error e => .error e
  | .ok (n, b1) =>
    if n == 0 then
      match readU 7 b1 with
      | .error e => .error e
      | .ok (v, b2) => .ok ((v, 1), b2)
    else if n == 1 || n > 7 then .error (.err "InvalidFrameNumber")
    else
      match readU (7 - n) b1 with
      | .error e => .error e
      | .ok (v, b2) =>
        match readNumberTail (n - 1) v b2 with
        | .error e => .error e
        | .ok (x, b3) => .ok ((x, n), b3)

/-- `FrameHeader::parse` (stream.rs) — field order and error order as in the source -/
def readHeaderFields (si : Option SInfo) : P Header := do
  let sync ← readU 15
  if sync != syncCode15 then P.fail (.err "InvalidSyncCode") else
  let blocking ← readBit
  let bsCode ← readU 4
  if blockSizeCodeInvalid.contains bsCode then P.fail (.err "InvalidBlockSize") else
  let rateCode ← readU 4
  if sampleRateCodeInvalid.contains rateCode then P.fail (.err "InvalidSampleRate") else
  if sampleRateCodeStreaminfo.contains rateCode && si.isNone then P.fail (.err "NonSubsetSampleRate") else
  let chanCode ← readU 4
  if chanCodeInvalid.contains chanCode then P.fail (.err "InvalidChannels") else
  let assign : Assign :=
    if chanCodeLeftSide.contains chanCode then .leftSide
    else if chanCodeSideRight.contains chanCode then .sideRight
    else if chanCodeMidSide.contains chanCode then .midSide
    else .indep ((lookup chanCodeIndependent chanCode).getD 0)
  let bpsCode ← readU 3
  if bpsCodeInvalid.contains bpsCode then P.fail (.err "InvalidBitsPerSample") else
  if bpsCodeStreaminfo.contains bpsCode && si.isNone then P.fail (.err "NonSubsetBitsPerSample") else
  let bps : Nat :=
    if bpsCodeStreaminfo.contains bpsCode then (si.map (·.bps)).getD 0
    else (lookup bpsCodeFixed bpsCode).getD 0
  let reserved2 ← readBit
  let (number, numberBytes) ← readNumber
  let blockSize ←
    (if blockSizeCodeU8.contains bsCode then do
        let v ← readU 8
        pure (v + 1)
     else if blockSizeCodeU16.contains bsCode then do
        let v ← readU 16
        if v + 1 > 65535 then P.fail (.err "InvalidBlockSize") else pure (v + 1)
     else pure ((lookup blockSizeCodeFixed bsCode).getD 0) : P Nat)
  let rate ←
    (if sampleRateCodeStreaminfo.contains rateCode then pure ((si.map (·.rate)).getD 0)
     else if sampleRateCodeKHz.contains rateCode then do
        let v ← readU sampleRateKHzBits
        pure (v * sampleRateKHzMul)
     else if sampleRateCodeHz.contains rateCode then do
        let v ← readU sampleRateHzBits
        pure (v * sampleRateHzMul)
     else if sampleRateCodeDHz.contains rateCode then do
        let v ← readU sampleRateDHzBits
        pure (v * sampleRateDHzMul)
     else pure ((lookup sampleRateCodeFixed rateCode).getD 0) : P Nat)
  let c8 ← readU 8
  pure { blocking, bsCode, blockSize, rateCode, rate, assign, bpsCode, bps, reserved2,
         number, numberBytes, hcrc := c8 }

/-- the STREAMINFO consistency checks of `FromBitStreamWith for FrameHeader`, in source order -/
def checkStreaminfo (si : Option SInfo) (h : Header) : Res Unit :=
  match si with
  | none => .ok ()
  | some s =>
    if h.blockSize > s.maxBlock then .error (.err "BlockSizeMismatch")
    else if h.rate != s.rate then .error (.err "SampleRateMismatch")
    else if h.assign.count != s.channels then .error (.err "ChannelsMismatch")
    else if h.bps != s.bps then .error (.err "BitsPerSampleMismatch")
    else .ok ()

/-! ### residuals -/

/-- Rice un-folding as the crate computes it: `(msb << k) | lsb` in `u32`, then zig-zag.
    `msb` is also truncated to 32 bits first (it is a `u32` counter). -/
def unfoldRice (k msb lsb : Nat) : Int :=
  if (((msb % 4294967296) * 2 ^ k) % 4294967296 + lsb) % 2 == 1
  then -((((((msb % 4294967296) * 2 ^ k) % 4294967296 + lsb) / 2 : Nat) : Int)) - 1
  else (((((msb % 4294967296) * 2 ^ k) % 4294967296 + lsb) / 2 : Nat) : Int)

def readRiceOne (k : Nat) : P Int := fun b =>
  match readUnary1 b with
  | .error e => .error e
  | .ok (msb, b1) =>
    match readU k b1 with
    | .error e => .error e
    | .ok (lsb, b2) =>
      if decRiceOverflow msb k then .error (.err "ResidualOverflow") else .ok (unfoldRice k msb lsb, b2)

/-- one partition of `n` residuals; `pbits` = 4 (RICE) or 5 (RICE2) -/
def readPartition (pbits n : Nat) : P Partition := fun b =>
  match readU pbits b with
  | .error e => .error e
  | .ok (k, b1) =>
    if k == 2 ^ pbits - 1 then
      match readU 5 b1 with
      | .error e => .error e
      | .ok (w, b2) =>
        if w == 0 then .ok (.zero n, b2) else
        match readN (readS w) n b2 with
        | .error e => .error e
        | .ok (rs, b3) => .ok (.escaped w rs, b3)
    else
      match readN (readRiceOne k) n b1 with
      | .error e => .error e
      | .ok (rs, b2) => .ok (.rice k rs, b2)

def readPartitions (pbits : Nat) : List Nat → P (List Partition)
  | [] => fun b => .ok ([], b)
  | n :: ns => fun b =>
    match readPartition pbits n b with
    | .error e => .error e
    | .ok (p, b1) =>
      match readPartitions pbits ns b1 with
      | .error e => .error e
      | .ok (ps, b2) => .ok (p :: ps, b2)

/-- a *layout rule*: (block size, predictor order, partition order) ↦ partition lengths,
    or a failure (error class / panic site) -/
abbrev Layout := Nat → Nat → Nat → Res (List Nat)

def readResidual (layout : Layout) (bs order : Nat) : P Residual := fun b =>
  match readU 2 b with
  | .error e => .error e
  | .ok (method, b1) =>
    if method ≥ 2 then .error (.err "InvalidCodingMethod") else
    match readU 4 b1 with
    | .error e => .error e
    | .ok (po, b2) =>
      match layout bs order po with
      | .error e => .error e
      | .ok sizes =>
        match readPartitions (4 + method) sizes b2 with
        | .error e => .error e
        | .ok (ps, b3) => .ok ({ method, order := po, parts := ps }, b3)

/-! ### subframes -/

/-- `SubframeHeader::from_reader` + the effective bit depth; returns (type code, wasted) -/
def readSubHeader : P (Nat × Nat) := fun b =>
  match readBit b with
  | .error e => .error e
  | .ok (pad, b1) =>
    if pad then .error (.err "InvalidSubframeHeader") else
    match readU 6 b1 with
    | .error e => .error e
    | .ok (ty, b2) =>
      if !(ty == subTypeConstant || ty == subTypeVerbatim
           || (subTypeFixedLo ≤ ty && ty ≤ subTypeFixedHi) || (subTypeLpcLo ≤ ty && ty ≤ subTypeLpcHi))
      then .error (.err "InvalidSubframeHeaderType") else
      match readBit b2 with
      | .error e => .error e
      | .ok (hasW, b3) =>
        if !hasW then .ok ((ty, 0), b3) else
        match readUnary1 b3 with
        | .error e => .error e
        | .ok (u, b4) => .ok ((ty, u + 1), b4)

/-- `checkWarm`: the streaming decoder tests `order ≤ block size` *before* reading warm-up samples
    (`split_at_mut_checked`); the structural parser does not. -/
def readSubframe (layout : Layout) (checkWarm : Bool) (bs bps : Nat) : P Subframe := fun b =>
  match readSubHeader b with
  | .error e => .error e
  | .ok ((ty, wasted), b1) =>
    if bps ≤ wasted then .error (.err "ExcessiveWastedBits") else
    if ty == subTypeConstant then
      match readS (bps - wasted) b1 with
      | .error e => .error e
      | .ok (v, b2) => .ok ({ wasted, body := .constant v }, b2)
    else if ty == subTypeVerbatim then
      match readN (readS (bps - wasted)) bs b1 with
      | .error e => .error e
      | .ok (xs, b2) => .ok ({ wasted, body := .verbatim xs }, b2)
    else if subTypeFixedLo ≤ ty && ty ≤ subTypeFixedHi then
      if checkWarm && ty - subTypeFixedBase > bs then .error (.err "InvalidFixedOrder") else
      match readN (readS (bps - wasted)) (ty - subTypeFixedBase) b1 with
      | .error e => .error e
      | .ok (warm, b2) =>
        match readResidual layout bs (ty - subTypeFixedBase) b2 with
        | .error e => .error e
        | .ok (res, b3) => .ok ({ wasted, body := .fixed (ty - subTypeFixedBase) warm res }, b3)
    else
      if checkWarm && ty - subTypeLpcBase > bs then .error (.err "InvalidLpcOrder") else
      match readN (readS (bps - wasted)) (ty - subTypeLpcBase) b1 with
      | .error e => .error e
      | .ok (warm, b2) =>
        match readU 4 b2 with
        | .error e => .error e
        | .ok (pm1, b3) =>
          if pm1 == 15 then .error (.err "InvalidQlpPrecision") else
          match readS 5 b3 with
          | .error e => .error e
          | .ok (shift, b4) =>
            if shift < 0 then .error (.err "NegativeLpcShift") else
            match readN (readS (pm1 + 1)) (ty - subTypeLpcBase) b4 with
            | .error e => .error e
            | .ok (coefs, b5) =>
              match readResidual layout bs (ty - subTypeLpcBase) b5 with
              | .error e => .error e
              | .ok (res, b6) =>
                .ok ({ wasted, body := .lpc (ty - subTypeLpcBase) warm (pm1 + 1) shift.toNat coefs res }, b6)

/-- bit depth of subframe `i` under a channel assignment (side channels get one extra bit) -/
def subBps (a : Assign) (bps i : Nat) : Nat :=
  match a, i with
  | .leftSide, 1 => bps + 1
  | .sideRight, 0 => bps + 1
  | .midSide, 1 => bps + 1
  | _, _ => bps

def readSubframes (layout : Layout) (checkWarm : Bool) (a : Assign) (bs bps : Nat) : Nat → Nat → P (List Subframe)
  | 0, _ => fun b => .ok ([], b)
  | n+1, i => fun b =>
    match readSubframe layout checkWarm bs (subBps a bps i) b with
    | .error e => .error e
    | .ok (s, b1) =>
      match readSubframes layout checkWarm a bs bps n (i + 1) b1 with
      | .error e => .error e
      | .ok (ss, b2) => .ok (s :: ss, b2)

/-! ### whole frame over bytes -/

structure Parsed where
  frame : Frame
  used : Nat                    -- bytes consumed
  hdrUsed : Nat                 -- bytes of the header (incl. CRC-8)
  crc8ok : Bool
  crc16ok : Bool
deriving Repr

/-- header over bytes: returns the header, bytes used, and whether CRC-8 over those bytes is 0 -/
def parseHeaderBytes (si : Option SInfo) (bytes : List Nat) : Res (Header × Nat × Bool) :=
  match readHeaderFields si (bytesToBits bytes) with
  | .error e => .error e
  | .ok (h, rest) =>
    let used := bytes.length - rest.length / 8
    .ok (h, used, crc8Valid (crc8 (bytes.take used)))

/-- parse one frame from the front of `bytes`; checksum verdicts are returned, not enforced,
    so that each client can apply them in its own order -/
def parseFrame (layout : Layout) (checkWarm : Bool) (si : Option SInfo) (bytes : List Nat) (enforceCrc8 : Bool := true) : Res Parsed :=
  match readHeaderFields si (bytesToBits bytes) with
  | .error e => .error e
  | .ok (h, rest) =>
    match checkStreaminfo si h with
    | .error e => .error e
    | .ok () =>
      let hdrBytes := bytes.length - rest.length / 8
      let c8 := crc8Valid (crc8 (bytes.take hdrBytes))
      if enforceCrc8 && !c8 then .error (.err "Crc8Mismatch") else
      match readSubframes layout checkWarm h.assign h.blockSize h.bps h.assign.count 0 rest with
      | .error e => .error e
      | .ok (subs, rest2) =>
        let padN := rest2.length % 8
        let padding := rest2.take padN
        match readU 16 (rest2.drop padN) with
        | .error e => .error e
        | .ok (c16, rest3) =>
          let used := bytes.length - rest3.length / 8
          .ok { frame := { hdr := h, subs, padding, footer := c16 }, used, hdrUsed := hdrBytes,
                crc8ok := c8, crc16ok := crc16Valid (crc16 (bytes.take used)) }

/-! ### serializer (RFC layout; inverse of the parser on well-formed frames) -/

def writeUnary1 (n : Nat) : Bits := List.replicate n false ++ [true]
def writeUnary0 (n : Nat) : Bits := List.replicate n true ++ [false]

/-- zig-zag folding of a residual -/
def foldRice (r : Int) : Nat := if r < 0 then ((-r - 1) * 2 + 1).toNat else (r * 2).toNat

def writeRiceOne (k : Nat) (r : Int) : Bits :=
  writeUnary1 (foldRice r / 2 ^ k) ++ natToBits k (foldRice r % 2 ^ k)

def writePartition (pbits : Nat) : Partition → Bits
  | .rice k rs => natToBits pbits k ++ rs.flatMap (writeRiceOne k)
  | .escaped w rs => natToBits pbits (2 ^ pbits - 1) ++ natToBits 5 w ++ rs.flatMap (intToBits w)
  | .zero _ => natToBits pbits (2 ^ pbits - 1) ++ natToBits 5 0

def writeResidual (r : Residual) : Bits :=
  natToBits 2 r.method ++ natToBits 4 r.order ++ r.parts.flatMap (writePartition (4 + r.method))

def writeSubHeader (ty wasted : Nat) : Bits :=
  [false] ++ natToBits 6 ty ++ (if wasted == 0 then [false] else [true] ++ writeUnary1 (wasted - 1))

def writeSubframe (bps : Nat) (s : Subframe) : Bits :=
  match s.body with
  | .constant v => writeSubHeader subTypeConstant s.wasted ++ intToBits (bps - s.wasted) v
  | .verbatim xs => writeSubHeader subTypeVerbatim s.wasted ++ xs.flatMap (intToBits (bps - s.wasted))
  | .fixed o warm res =>
      writeSubHeader (subTypeFixedBase + o) s.wasted ++ warm.flatMap (intToBits (bps - s.wasted)) ++ writeResidual res
  | .lpc o warm prec shift coefs res =>
      writeSubHeader (subTypeLpcBase + o) s.wasted ++ warm.flatMap (intToBits (bps - s.wasted))
        ++ natToBits 4 (prec - 1) ++ intToBits 5 shift ++ coefs.flatMap (intToBits prec) ++ writeResidual res

def writeSubframes (a : Assign) (bps : Nat) : List Subframe → Nat → Bits
  | [], _ => []
  | s :: ss, i => writeSubframe (subBps a bps i) s ++ writeSubframes a bps ss (i + 1)

/-- continuation bytes of the coded number, most significant first -/
def numberTail : Nat → Nat → Bits
  | 0, _ => []
  | n+1, v => [true, false] ++ natToBits 6 (v / 64 ^ n % 64) ++ numberTail n v

/-- coded number in `n` bytes (1 ≤ n ≤ 7) -/
def writeNumber (v n : Nat) : Bits :=
  if n ≤ 1 then [false] ++ natToBits 7 v
  else writeUnary0 n ++ natToBits (7 - n) (v / 64 ^ (n - 1)) ++ numberTail (n - 1) v

def chanCode (a : Assign) : Nat :=
  match a with
  | .indep n => (lookup chanWriteIndependent n).getD 0
  | .leftSide => chanWriteLeftSide
  | .sideRight => chanWriteSideRight
  | .midSide => chanWriteMidSide

def writeHeaderFields (h : Header) : Bits :=
  natToBits 15 syncCode15 ++ [h.blocking] ++ natToBits 4 h.bsCode ++ natToBits 4 h.rateCode
    ++ natToBits 4 (chanCode h.assign) ++ natToBits 3 h.bpsCode ++ [h.reserved2]
    ++ writeNumber h.number h.numberBytes
    ++ (if blockSizeCodeU8.contains h.bsCode then natToBits 8 (h.blockSize - 1)
        else if blockSizeCodeU16.contains h.bsCode then natToBits 16 (h.blockSize - 1) else [])
    ++ (if sampleRateCodeKHz.contains h.rateCode then natToBits sampleRateKHzBits (h.rate / sampleRateKHzMul)
        else if sampleRateCodeHz.contains h.rateCode then natToBits sampleRateHzBits (h.rate / sampleRateHzMul)
        else if sampleRateCodeDHz.contains h.rateCode then natToBits sampleRateDHzBits (h.rate / sampleRateDHzMul)
        else [])

/-- serialize with the checksums *recomputed* (the stored `hcrc`/`footer` fields are ignored) -/
def Frame.serializeWith (c8 c16 : List Nat → Nat) (f : Frame) : List Nat :=
  let hb := bitsToBytes (writeHeaderFields f.hdr)
  let hdr := hb ++ [c8 hb]
  let body := bitsToBytes (writeSubframes f.hdr.assign f.hdr.bps f.subs 0 ++ f.padding)
  let all := hdr ++ body
  all ++ [c16 all / 256, c16 all % 256]

def Frame.serialize (f : Frame) : List Nat := f.serializeWith crc8 crc16

end Flac
