/-
  Model/Ctor.lean — decision logic of the writer constructors and options (encode.rs 137-177,
  483-521, 767-796, 1418-1455, 1882-1917) and the declared-length contract (2005-2011, 2080-2099).
  Ranges and limits come from `Gen/EncConst.lean`, i.e. from the current source.
-/
import FlacModel.Model.Basic
import FlacModel.Gen.EncConst
import FlacModel.Gen.Meta

namespace Flac
open Gen

inductive FrontEnd | byte | sample | chan
deriving Repr, DecidableEq

structure CtorArgs where
  fe : FrontEnd
  rate : Nat
  bps : Nat
  channels : Nat
  total : Option Nat            -- bytes (byte writer) or samples (sample writer) or PCM frames (channel writer)
  blockSize : Nat
  maxLpc : Option Nat
  maxPo : Nat
deriving Repr

/-- option setters (`Options::block_size`, `max_lpc_order`, `max_partition_order`) -/
def optionsOk (a : CtorArgs) : Res Unit :=
  if a.blockSize < optMinBlockSize then .error (.err "OptionsError(InvalidBlockSize)")
  else if (match a.maxLpc with | some o => o == 0 || o > optMaxLpcOrder | none => false) then .error (.err "OptionsError(InvalidLpcOrder)")
  else if a.maxPo > optMaxPartitionOrder then .error (.err "OptionsError(InvalidMaxPartitions)")
  else .ok ()

/-- the declared total converted to PCM frames (`exact_div` chains of the constructors) -/
def declaredFrames (a : CtorArgs) : Res (Option Nat) :=
  match a.total with
  | none => .ok none
  | some t =>
    match a.fe with
    | .chan => .ok (if t == 0 then none else some t)
    | .sample =>
      if a.channels == 0 then (if encExactDivGuardsZero then .error (.err "SamplesNotDivisibleByChannels") else .error (.panic "exact_div: remainder with a divisor of zero"))
      else if t % a.channels != 0 then .error (.err "SamplesNotDivisibleByChannels")
      else if t / a.channels == 0 then .error (.err "InvalidTotalSamples") else .ok (some (t / a.channels))
    | .byte =>
      if a.channels == 0 then (if encExactDivGuardsZero then .error (.err "SamplesNotDivisibleByChannels") else .error (.panic "exact_div: remainder with a divisor of zero"))
      else if t % a.channels != 0 then .error (.err "SamplesNotDivisibleByChannels")
      else if (t / a.channels) % ((a.bps + 7) / 8) != 0 then .error (.err "SamplesNotDivisibleByChannels")
      else if t / a.channels / ((a.bps + 7) / 8) == 0 then .error (.err "InvalidTotalBytes")
      else .ok (some (t / a.channels / ((a.bps + 7) / 8)))

/-- `Flac*Writer::new` followed by `Encoder::new`: the declared length in PCM frames, or an error -/
def ctor (a : CtorArgs) : Res (Option Nat) :=
  if a.bps == 0 || a.bps > 32 then .error (.err "InvalidBitsPerSample") else
  match declaredFrames a with
  | .error e => .error e
  | .ok tot =>
    if a.rate ≥ encRateLimit then .error (.err "InvalidSampleRate")
    else if a.channels < encMinChannels || a.channels > encMaxChannels then .error (.err "ExcessiveChannels")
    else if (match tot with | some t => decide (t ≥ encMaxSamples) | none => false) then .error (.err "ExcessiveTotalSamples")
    else if a.bps == 1 && !metaDepthOneWritable then .error (.panic "ToBitStream for Streaminfo: checked_sub(1).unwrap()")
    else .ok tot

/-- the encoder's length accounting: blocks of `lens` samples are encoded in order, then finalize -/
def lengthRun (declared : Option Nat) : Nat → List Nat → Res Nat
  | written, [] =>
    match declared with
    | some t => if t != written then .error (.err "SampleCountMismatch") else .ok written
    | none => if written == 0 then .error (.err "NoSamples") else if written < encMaxSamples then .ok written else .error (.err "ExcessiveTotalSamples")
  | written, l :: ls =>
    match declared with
    | some t => if written + l > t then .error (.err "ExcessiveTotalSamples") else lengthRun declared (written + l) ls
    | none => lengthRun declared (written + l) ls

end Flac
