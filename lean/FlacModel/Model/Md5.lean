/-
  Model/Md5.lean — MD5 (RFC 1321) over byte lists, for the STREAMINFO signature.
  The crate uses the `md5` crate; this model is compared with it on every generated file.
-/
namespace Flac.Md5

def sTab : Array Nat := #[7, 12, 17, 22, 7, 12, 17, 22, 7, 12, 17, 22, 7, 12, 17, 22,
  5, 9, 14, 20, 5, 9, 14, 20, 5, 9, 14, 20, 5, 9, 14, 20,
  4, 11, 16, 23, 4, 11, 16, 23, 4, 11, 16, 23, 4, 11, 16, 23,
  6, 10, 15, 21, 6, 10, 15, 21, 6, 10, 15, 21, 6, 10, 15, 21]

def kTab : Array UInt32 := #[
  0xd76aa478, 0xe8c7b756, 0x242070db, 0xc1bdceee, 0xf57c0faf, 0x4787c62a, 0xa8304613, 0xfd469501,
  0x698098d8, 0x8b44f7af, 0xffff5bb1, 0x895cd7be, 0x6b901122, 0xfd987193, 0xa679438e, 0x49b40821,
  0xf61e2562, 0xc040b340, 0x265e5a51, 0xe9b6c7aa, 0xd62f105d, 0x02441453, 0xd8a1e681, 0xe7d3fbc8,
  0x21e1cde6, 0xc33707d6, 0xf4d50d87, 0x455a14ed, 0xa9e3e905, 0xfcefa3f8, 0x676f02d9, 0x8d2a4c8a,
  0xfffa3942, 0x8771f681, 0x6d9d6122, 0xfde5380c, 0xa4beea44, 0x4bdecfa9, 0xf6bb4b60, 0xbebfbc70,
  0x289b7ec6, 0xeaa127fa, 0xd4ef3085, 0x04881d05, 0xd9d4d039, 0xe6db99e5, 0x1fa27cf8, 0xc4ac5665,
  0xf4292244, 0x432aff97, 0xab9423a7, 0xfc93a039, 0x655b59c3, 0x8f0ccc92, 0xffeff47d, 0x85845dd1,
  0x6fa87e4f, 0xfe2ce6e0, 0xa3014314, 0x4e0811a1, 0xf7537e82, 0xbd3af235, 0x2ad7d2bb, 0xeb86d391]

def rotl (x : UInt32) (c : Nat) : UInt32 := (x <<< (UInt32.ofNat c)) ||| (x >>> (UInt32.ofNat (32 - c)))

def wordAt (block : Array UInt8) (i : Nat) : UInt32 :=
  (block.getD (4*i) 0).toUInt32 ||| ((block.getD (4*i+1) 0).toUInt32 <<< 8)
    ||| ((block.getD (4*i+2) 0).toUInt32 <<< 16) ||| ((block.getD (4*i+3) 0).toUInt32 <<< 24)

def processBlock (st : UInt32 × UInt32 × UInt32 × UInt32) (block : Array UInt8) : UInt32 × UInt32 × UInt32 × UInt32 :=
  let (a0, b0, c0, d0) := st
  let m : Array UInt32 := (Array.range 16).map (wordAt block)
  let (a, b, c, d) := (List.range 64).foldl (fun (acc : UInt32 × UInt32 × UInt32 × UInt32) i =>
    let (a, b, c, d) := acc
    let (f, g) :=
      if i < 16 then ((b &&& c) ||| ((~~~ b) &&& d), i)
      else if i < 32 then ((d &&& b) ||| ((~~~ d) &&& c), (5*i + 1) % 16)
      else if i < 48 then (b ^^^ c ^^^ d, (3*i + 5) % 16)
      else (c ^^^ (b ||| (~~~ d)), (7*i) % 16)
    let f2 := f + a + kTab.getD i 0 + m.getD g 0
    (d, b + rotl f2 (sTab.getD i 0), b, c)) (a0, b0, c0, d0)
  (a0 + a, b0 + b, c0 + c, d0 + d)

def le32 (x : UInt32) : List Nat :=
  [x.toNat % 256, x.toNat / 256 % 256, x.toNat / 65536 % 256, x.toNat / 16777216 % 256]

/-- MD5 digest (16 bytes) of a byte list -/
def md5 (msg : List Nat) : List Nat :=
  let len := msg.length
  let padLen := (55 + 64 - len % 64) % 64
  let bitLen := len * 8
  let tail := [0x80] ++ List.replicate padLen 0 ++ (List.range 8).map (fun i => bitLen / 256 ^ i % 256)
  let all : Array UInt8 := ((msg ++ tail).map (fun b => UInt8.ofNat b)).toArray
  let nblocks := all.size / 64
  let (a, b, c, d) := (List.range nblocks).foldl (fun st i => processBlock st (all.extract (64*i) (64*i + 64)))
    ((0x67452301 : UInt32), (0xefcdab89 : UInt32), (0x98badcfe : UInt32), (0x10325476 : UInt32))
  le32 a ++ le32 b ++ le32 c ++ le32 d

end Flac.Md5
