#!/bin/sh
# run every claimed check (quick tier) on the current tree and validate the evidence files
cd "$(dirname "$0")/.."
python3 tools/mkmanifest.py > /dev/null   # MANIFEST follows tools/props.py
rc=0
for p in $(python3 -c "import json;print(' '.join(c['property_id'] for c in json.load(open('MANIFEST.json'))['checks']))"); do
  s=$(date +%s)
  out=$(./check $p --tier ${1:-quick} 2>&1); r=$?
  e=$(date +%s)
  echo "$p rc=$r $((e-s))s $(echo "$out" | grep -E 'VIOLATION|KNOWN-FINDING' | head -3)"
  [ $r -ne 0 ] && rc=1
done
python3-vt - <<'PY'
import json, jsonschema, glob
sch = json.load(open('/root/.vp/EVIDENCE.schema.json'))
for p in sorted(glob.glob('evidence/*.json')):
    ev = json.load(open(p))
    jsonschema.validate(ev, sch)
    c = ev['coverage']
    assert c['obligations'] == c['discharged'], (p, c['obligations'], c['discharged'])
jsonschema.validate(json.load(open('MANIFEST.json')), json.load(open('/root/.vp/MANIFEST.schema.json')))
print('evidence + manifest valid')
PY
exit $rc
