#!/bin/sh
# save_mut.sh <id> <name> <description> [checks...] — store the mutation of /tmp/mut_<id> under seeded/<id>/<name>/
id=$1; name=$2; desc=$3; shift 3
d=/verif/seeded/$id/$name; mkdir -p $d/demo
W=${MUTROOT:-/tmp/mut}_$id
git -C $W diff -- src > $d/patch.diff
cp -r $W/demo/. $d/demo/ 2>/dev/null
for f in $(git -C $W status --porcelain | grep '^??' | awk '{print $2}' | grep -v '^target\|^demo'); do mkdir -p $d/demo/$(dirname $f); cp -r $W/$f $d/demo/$f; done
python3 - "$id" "$name" "$desc" "$@" <<'PY'
import json,sys
id,name,desc=sys.argv[1:4]; checks=sys.argv[4:] or [id]
json.dump({'property':id,'name':name,'description':desc,'checks':checks,'source':'fresh sub-agent given only the property text and a scratch worktree; change and demo confirmed by re-running them'},open(f'/verif/seeded/{id}/{name}/meta.json','w'),indent=1)
PY
wc -l $d/patch.diff
