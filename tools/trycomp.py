"""development helper: run one component's quick cases through harness + driver; print disagreements and oracle failures"""
import sys, random, collections
sys.path.insert(0, '/verif/tools')
import vlib, props
name = sys.argv[1]; tier = sys.argv[2] if len(sys.argv) > 2 else 'quick'; seed = int(sys.argv[3]) if len(sys.argv) > 3 else 1
args = [a for a in sys.argv[4:]]
comp = getattr(props, name)(*args)
rng = random.Random(seed)
cases = comp.cases(rng, tier, 1)
print(len(cases), 'cases')
for pr in comp.profiles:
    impl, herr = vlib.run_harness(pr, cases)
    if herr: print('HARNESS DIED', herr, cases[herr['n_out']][:300] if herr['n_out'] < len(cases) else ''); impl += ['harness-died'] * (len(cases) - len(impl))
    model = None
    if comp.model:
        model, derr = vlib.run_driver([c + f' profile={"debug" if pr == "checked" else "release"}' for c in cases], impl)
        if derr: print('DRIVER', derr); model = None
    nd = 0; nf = 0; dist = collections.Counter(); sigs = collections.Counter()
    for i, (c, io) in enumerate(zip(cases, impl)):
        for k in comp.classify(c, io): dist[k] += 1
        if model:
            mo = model[i].split(' @@ ')[0]
            d = vlib.compare(io, mo, ignore=comp.ignore)
            if d:
                nd += 1
                if nd <= 4: print('DISAGREE', pr, d[:300], '\n   case:', c[:300], '\n   impl:', io[:300], '\n   model:', mo[:300])
        fl = comp.oracle(c, io, pr)
        if fl:
            nf += 1; sigs[fl[0]] += 1
            if sigs[fl[0]] <= 1: print('FAIL', pr, fl, '\n   case:', c[:400], '\n   impl:', io[:300])
    print(pr, 'disagreements', nd, 'failures', nf, dict(sigs)); print('  dist', dict(dist))
