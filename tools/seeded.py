#!/usr/bin/env python3
"""
seeded.py — run checks against a stored seeded mutation.
  tools/seeded.py run seeded/C11/<name> [C11 C12 ...]     apply patch.diff to /repo, run the quick checks, revert
Results are written to <dir>/result.json; evidence/replays of these runs go to a scratch directory.
"""
import sys, os, subprocess, json, tempfile, shutil, time
VERIF = os.path.dirname(os.path.dirname(os.path.abspath(__file__)))

def sh(cmd, **kw):
    return subprocess.run(cmd, shell=isinstance(cmd, str), capture_output=True, text=True, **kw)

def main():
    d = os.path.abspath(sys.argv[2])
    meta = json.load(open(os.path.join(d, 'meta.json')))
    checks = sys.argv[3:] or meta.get('checks') or [meta['property']]
    st = sh('git -C /repo status --porcelain').stdout.strip()
    if st:
        print('refusing: /repo is not clean:\n' + st); return 2
    r = sh(['git', '-C', '/repo', 'apply', os.path.join(d, 'patch.diff')])
    if r.returncode != 0:
        print('patch does not apply:', r.stderr); return 2
    scratch = tempfile.mkdtemp(prefix='verif_seeded_')
    res = {}
    try:
        for c in checks:
            t0 = time.time()
            p = sh([os.path.join(VERIF, 'check'), c, '--tier', 'quick'], env=dict(os.environ, VERIF_SCRATCH=scratch), cwd=VERIF)
            lines = [l for l in (p.stdout + p.stderr).split('\n') if l.startswith(('VIOLATION', 'KNOWN-FINDING'))]
            why = ''
            for l in lines:
                if l.startswith('VIOLATION') and 'replay=' in l:
                    rp = l.split('replay=')[1].split()[0]
                    try:
                        b = json.load(open(rp if os.path.isabs(rp) else os.path.join(VERIF, rp)))
                        why = (b.get('why') or b.get('detail') or json.dumps(b.get('broken', ''))[:300])
                        if b.get('case'): why += ' | case: ' + b['case'][:200]
                    except Exception as e:
                        why = f'(replay unreadable: {e})'
            res[c] = {'rc': p.returncode, 'lines': lines[:3], 'why': str(why)[:600], 'seconds': round(time.time() - t0, 1)}
            print(c, 'rc=%d' % p.returncode, (lines[0] if lines else ''), '\n    ', str(why)[:300])
    finally:
        sh('git -C /repo checkout -- . && git -C /repo clean -fdq')
        shutil.rmtree(scratch, ignore_errors=True)
    json.dump({'checks': res, 'caught': any(v['rc'] != 0 for v in res.values())}, open(os.path.join(d, 'result.json'), 'w'), indent=1)
    # the harness binaries were rebuilt against the mutated tree: rebuild them on the clean tree
    if not os.environ.get('SEEDED_NO_SETUP'):
        sh([os.path.join(VERIF, 'setup.sh')], cwd=VERIF)
    return 0

if __name__ == '__main__':
    sys.exit(main())
