#!/usr/bin/env python3
"""regenerate MANIFEST.json from tools/props.py (claimed checks) + properties.jsonl (the rest)"""
import json, os, sys
sys.path.insert(0, os.path.dirname(os.path.abspath(__file__)))
import props
V = os.path.dirname(os.path.dirname(os.path.abspath(__file__)))
ids = [json.loads(l)['id'] for l in open(os.path.join(V, 'properties.jsonl'))]
checks = []
for pid in ids:
    if pid not in props.PROPS:
        continue
    P = props.PROPS[pid]
    checks.append({
        'property_id': pid,
        'quick_cmd': f'./check {pid} --tier quick',
        'thorough_cmd': f'./check {pid} --tier thorough',
        'evidence_file': f'evidence/{pid}.json',
        'replay_cmd_template': f'./check {pid} --replay {{path}}',
        'engine': 'lean-proof+correspondence',
        'level_claimed': {'category': 'proof', 'text': P['claim'], 'design_ref': f'DESIGN.md §6 {pid}'},
        'level_note': P['note'],
        'technique': 'Lean 4 theorem + source-regenerated definitions + differential correspondence',
    })
m = {
    'version': 1,
    'setup_cmd': './setup.sh',
    'hooks': {
        'guard': 'flac_codec_verif',
        'enable': 'none needed: every check drives the crate through its public API; the cfg name is reserved and unused',
        'baseline_off_cmd': 'cd /repo && cargo test --workspace --no-fail-fast --offline',
        'source_commits': [],
        'add_only': True,
    },
    'engines': [{
        'name': 'lean-proof+correspondence', 'path': '/verif/check',
        'serves_properties': [c['property_id'] for c in checks],
        'kind_free_text': 'Lean 4 theorems over an executable model (lean/FlacModel); tables, constants and arithmetic kernels regenerated from the Rust source by tools/translate.py on every run; differential correspondence harness (harness/) that runs model and real crate on the same generated cases',
    }],
    'checks': checks,
    'not_applicable': [{'property_id': pid, 'reason': props.NOT_YET.get(pid, 'check not built yet at this commit (technique applies; see DESIGN.md §6); no claim is made until its theorems and correspondence exist')}
                       for pid in ids if pid not in props.PROPS],
    'notes': 'One entry point ./check <id>; known_findings.json lists recorded and fixed defects; DESIGN.md describes model, trusted base and per-property theorems.',
}
json.dump(m, open(os.path.join(V, 'MANIFEST.json'), 'w'), indent=1)
print('claimed', [c['property_id'] for c in checks])
